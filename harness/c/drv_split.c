/* drv_split.c — handlers for the header-only macro families of
 * varintSplit.h and varintSplitFull16.h (each macro wrapped in a function). */
#define _GNU_SOURCE
#include "core.h"
#include "varint.h"
#include "varintExternal.h"
#include "varintSplit.h"
#include "varintSplitFull16.h"
#include <stdlib.h>
#include <string.h>
#include <sys/mman.h>
#include <unistd.h>

/* ---- the macros, instantiated with the types the library itself uses ---- */
static uint8_t m_split_length(uint64_t v) { uint8_t len = 0; varintSplitLength_(len, v); return len; }
static uint8_t m_split_length_var(uint64_t v) { uint8_t len = 0; varintSplitLengthVAR_(len, v); return len; }
static uint8_t m_split_put(uint8_t *dst, uint64_t v) { uint8_t len = 0; varintSplitPut_(dst, len, v); return len; }
static varintWidth m_split_getlen_quick(const uint8_t *p) { return (varintWidth)varintSplitGetLenQuick_(p); }
static varintWidth m_split_getlen(const uint8_t *p) { varintWidth w = 99; varintSplitGetLen_(p, w); return w; }
static varintWidth m_split_get(const uint8_t *p, uint64_t *out) {
    varintWidth w = 99; uint64_t v = 0;
    varintSplitGet_(p, w, v);
    *out = v;
    return w;
}
static uint8_t m_split_rev_put_reversed(uint8_t *dst, uint64_t v) { uint8_t len = 0; varintSplitReversedPutReversed_(dst, len, v); return len; }
static uint8_t m_split_rev_put_forward(uint8_t *dst, uint64_t v) { uint8_t len = 0; varintSplitReversedPutForward_(dst, len, v); return len; }
static varintWidth m_split_rev_get(const uint8_t *p, uint64_t *out) {
    varintWidth w = 99; uint64_t v = 0;
    varintSplitReversedGet_(p, w, v);
    *out = v;
    return w;
}

static uint8_t m_split16_length(uint64_t v) { uint8_t len = 0; varintSplitFull16Length_(len, v); return len; }
static uint8_t m_split16_length_var(uint64_t v) { uint8_t len = 0; varintSplitFull16LengthVAR_(len, v); return len; }
static uint8_t m_split16_put(uint8_t *dst, uint64_t v) { uint8_t len = 0; varintSplitFull16Put_(dst, len, v); return len; }
static varintWidth m_split16_getlen_quick(const uint8_t *p) { return (varintWidth)varintSplitFull16GetLenQuick_(p); }
static varintWidth m_split16_getlen(const uint8_t *p) { varintWidth w = 99; varintSplitFull16GetLen_(p, w); return w; }
static varintWidth m_split16_get(const uint8_t *p, uint64_t *out) {
    varintWidth w = 99; uint64_t v = 0;
    varintSplitFull16Get_(p, w, v);
    *out = v;
    return w;
}

/* ---- helpers ---- */
static const char *frame_after(const gbuf *g, size_t used) {
    for (size_t i = used; i < g->size; i++) {
        if (g->p[i] != gbuf_canary((size_t)(g->p - g->base) + i)) return "dirty";
    }
    return "ok";
}
static const char *frame_before(const gbuf *g, size_t upto) {
    for (size_t i = 0; i < upto && i < g->size; i++) {
        if (g->p[i] != gbuf_canary((size_t)(g->p - g->base) + i)) return "dirty";
    }
    return "ok";
}

/* input whose FIRST byte is flush against an inaccessible page (for the
 * reversed reader, which walks towards lower addresses) */
typedef struct { uint8_t *map; size_t maplen; uint8_t *p; } bpage;
static bpage bpage_new(const uint8_t *src, size_t len) {
    bpage g;
    size_t ps = (size_t)sysconf(_SC_PAGESIZE);
    size_t pages = (len + ps - 1) / ps + 1;
    g.maplen = (pages + 1) * ps;
    g.map = mmap(NULL, g.maplen, PROT_READ | PROT_WRITE, MAP_PRIVATE | MAP_ANONYMOUS, -1, 0);
    if (g.map == MAP_FAILED) { fprintf(stderr, "driver: mmap\n"); exit(2); }
    if (mprotect(g.map, ps, PROT_NONE)) { fprintf(stderr, "driver: mprotect\n"); exit(2); }
    g.p = g.map + ps;
    if (len) memcpy(g.p, src, len);
    return g;
}
static void bpage_free(bpage *g) { munmap(g->map, g->maplen); g->map = NULL; }

/* The external get/put reached through the macros is undefined for widths
 * outside 1..8 (assert(NULL) + __builtin_unreachable); such a type byte is
 * reported, the macro is not expanded on it. */
static int split_type_ub(uint8_t b0) {
    if ((b0 & 0xc0) != 0x80) return 0;
    unsigned w = b0 & 0x3f;
    return w < 1 || w > 8;
}
static int split16_type_ub(uint8_t b0) {
    if ((b0 & 0xc0) != 0xc0) return 0;
    unsigned w = b0 & 0x0f;
    return w < 1 || w > 8;
}

static size_t clamp(size_t w, size_t cap) { return w <= cap ? w : cap; }

/* decode `n` bytes at p (exact-size, guard page behind) with the forward macros */
static void emit_get(int fam, const uint8_t *src, size_t n) {
    gpage in = gpage_new(src, n);
    uint8_t b0 = n ? in.p[0] : 0;
    if (fam == 0) {
        out_u64("getlen", m_split_getlen(in.p));
        out_u64("getlenq", m_split_getlen_quick(in.p));
        if (split_type_ub(b0)) {
            out_str("get", "ub");
        } else {
            uint64_t v = 0;
            varintWidth w = m_split_get(in.p, &v);
            out_u64("getw", w); out_u64("getv", v);
        }
    } else {
        out_u64("getlen", m_split16_getlen(in.p));
        out_u64("getlenq", m_split16_getlen_quick(in.p));
        if (split16_type_ub(b0)) {
            out_str("get", "ub");
        } else {
            uint64_t v = 0;
            varintWidth w = m_split16_get(in.p, &v);
            out_u64("getw", w); out_u64("getv", v);
        }
    }
    gpage_free(&in);
}

/* split_rt x align / split16_rt x align : the destination is EXACTLY as
 * large as the Length_ macro predicts */
static void rt(const vcase *c, int fam) {
    uint64_t x = arg_u64(c, 0);
    unsigned align = (unsigned)arg_u64(c, 1);
    uint8_t len = fam == 0 ? m_split_length(x) : m_split16_length(x);
    out_u64("len", len);
    size_t sz = len ? len : 1;
    gbuf g = gbuf_new(sz, align);
    uint8_t w = fam == 0 ? m_split_put(g.p, x) : m_split16_put(g.p, x);
    out_u64("w", w);
    out_hex("put", g.p, clamp(w, sz));
    out_str("frame", frame_after(&g, w));
    out_str("guard", gbuf_guard(&g));
    emit_get(fam, g.p, clamp(w, sz));
    gbuf_free(&g);
}
static void h_split_rt(const vcase *c) { rt(c, 0); }
static void h_split16_rt(const vcase *c) { rt(c, 1); }

/* split_rev x : reversed container.  PutReversed gets dst = last byte of an
 * exactly-sized region (guards on both sides), PutForward dst = first byte. */
static void h_split_rev(const vcase *c) {
    uint64_t x = arg_u64(c, 0);
    uint8_t len = m_split_length(x);
    out_u64("len", len);
    size_t sz = len ? len : 1;
    /* reversed */
    gbuf g = gbuf_new(sz, (unsigned)(x & 7));
    uint8_t *dst = g.p + sz - 1;
    uint8_t w = m_split_rev_put_reversed(dst, x);
    out_u64("w", w);
    size_t used = clamp(w, sz);
    out_hex("put", dst - (used - 1), used);
    out_u64("pos", used - 1);
    out_str("frame", frame_before(&g, sz - used));
    out_str("guard", gbuf_guard(&g));
    {
        bpage in = bpage_new(dst - (used - 1), used);
        const uint8_t *t = in.p + used - 1;
        if (split_type_ub(*t)) {
            out_str("rget", "ub");
        } else {
            uint64_t v = 0;
            varintWidth gw = m_split_rev_get(t, &v);
            out_u64("rgetw", gw); out_u64("rgetv", v);
        }
        bpage_free(&in);
    }
    /* forward */
    gbuf f = gbuf_new(sz, (unsigned)((x >> 3) & 7));
    uint8_t fw = m_split_rev_put_forward(f.p, x);
    out_u64("fw", fw);
    size_t fused = clamp(fw, sz);
    out_hex("fput", f.p, fused);
    out_str("fframe", frame_after(&f, fw));
    out_str("fguard", gbuf_guard(&f));
    {
        bpage in = bpage_new(f.p, fused);
        const uint8_t *t = in.p + fused - 1;
        if (split_type_ub(*t)) {
            out_str("fget", "ub");
        } else {
            uint64_t v = 0;
            varintWidth gw = m_split_rev_get(t, &v);
            out_u64("fgetw", gw); out_u64("fgetv", v);
        }
        bpage_free(&in);
    }
    gbuf_free(&f);
    gbuf_free(&g);
}

/* split_get hex / split16_get hex : arbitrary (possibly malformed) stream,
 * handed over in an exact-size guard-paged buffer */
static void h_split_get(const vcase *c) {
    size_t n; uint8_t *b = arg_hex(c, 0, &n);
    emit_get(0, b, n);
    free(b);
}
static void h_split16_get(const vcase *c) {
    size_t n; uint8_t *b = arg_hex(c, 0, &n);
    emit_get(1, b, n);
    free(b);
}

/* split_rget hex : reversed reader on an arbitrary stream whose LAST byte is
 * the type byte; the first byte is flush against an inaccessible page */
static void h_split_rget(const vcase *c) {
    size_t n; uint8_t *b = arg_hex(c, 0, &n);
    bpage in = bpage_new(b, n);
    const uint8_t *t = in.p + (n ? n - 1 : 0);
    if (split_type_ub(*t)) {
        out_str("rget", "ub");
    } else {
        uint64_t v = 0;
        varintWidth gw = m_split_rev_get(t, &v);
        out_u64("rgetw", gw); out_u64("rgetv", v);
    }
    bpage_free(&in);
    free(b);
}

/* split_len2 family a b : predicted lengths of two values (monotonicity) */
static void h_split_len2(const vcase *c) {
    int fam = !strcmp(c->argv[0], "split16");
    uint64_t a = arg_u64(c, 1), b = arg_u64(c, 2);
    out_u64("la", fam ? m_split16_length(a) : m_split_length(a));
    out_u64("lb", fam ? m_split16_length(b) : m_split_length(b));
}

/* split_lenvar family v : the LengthVAR_ macros on their own */
static void h_split_lenvar(const vcase *c) {
    int fam = !strcmp(c->argv[0], "split16");
    uint64_t v = arg_u64(c, 1);
    out_u64("lv", fam ? m_split16_length_var(v) : m_split_length_var(v));
}

/* ---- per-level maxima measured on the code itself ---- */
typedef struct { unsigned key; unsigned len; int second; uint64_t max; } lvl;
static unsigned level_key(int fam, uint64_t x, unsigned *len, int *second) {
    uint8_t buf[32];
    memset(buf, 0, sizeof buf);
    uint8_t w = fam ? m_split16_put(buf, x) : m_split_put(buf, x);
    *len = w;
    unsigned varp = fam ? 0xc0 : 0x80;
    *second = (buf[0] & 0xc0) == varp;
    return *second ? buf[0] : (unsigned)(buf[0] & 0xc0);
}
static int levels(int fam, lvl *out, int cap) {
    int n = 0;
    uint64_t lo = 0;
    for (;;) {
        unsigned len; int second;
        unsigned key = level_key(fam, lo, &len, &second);
        /* largest x >= lo with the same key (keys grow with x) */
        uint64_t a = lo, b = UINT64_MAX;
        while (a < b) {
            uint64_t mid = a + (b - a) / 2 + 1;
            unsigned l2; int s2;
            if (level_key(fam, mid, &l2, &s2) == key) a = mid; else b = mid - 1;
        }
        if (n < cap) { out[n].key = key; out[n].len = len; out[n].second = second; out[n].max = a; n++; }
        if (a == UINT64_MAX || n >= cap) break;
        lo = a + 1;
    }
    return n;
}

/* split_max family k sel expect_max expect_type tag
 *   sel = all | first | second ; the expect_* and tag arguments are only read
 *   by the oracle.  Prints the largest value whose encoding has k bytes (in a
 *   level of the selected kind) and the type byte of that level, or X. */
static void h_split_max(const vcase *c) {
    int fam = !strcmp(c->argv[0], "split16");
    unsigned k = (unsigned)arg_u64(c, 1);
    const char *sel = c->argv[2];
    lvl t[32];
    int n = levels(fam, t, 32);
    int found = 0; uint64_t best = 0; unsigned key = 0;
    for (int i = 0; i < n; i++) {
        if (t[i].len != k) continue;
        if (!strcmp(sel, "first") && t[i].second) continue;
        if (!strcmp(sel, "second") && !t[i].second) continue;
        if (!found || t[i].max >= best) { best = t[i].max; key = t[i].key; }
        found = 1;
    }
    if (found) { out_u64("max", best); out_u64("type", key); }
    else { out_str("max", "X"); out_str("type", "X"); }
    out_u64("levels", (uint64_t)n);
}

static const vreg tab[] = {
    {"split_rt", h_split_rt},       {"split16_rt", h_split16_rt},
    {"split_rev", h_split_rev},     {"split_get", h_split_get},
    {"split16_get", h_split16_get}, {"split_rget", h_split_rget},
    {"split_len2", h_split_len2},   {"split_lenvar", h_split_lenvar},
    {"split_max", h_split_max},
};
VREGISTER(tab)
