/* opt_srcleaf_elias.c — OPTIONAL unit (dropped by the build if it stops compiling or linking):
 * a second, private compilation of src/varintElias.c with every public symbol renamed, used
 * ONLY to reach the file's `static` leaf functions that drv_srcleaf.c runs against their
 * regenerated Gallina renderings (gen/c2coq_leaf.py).  The list of renamed symbols is the
 * output of `nm --defined-only -g` on the library object. */
#define varintBitReaderHasMore srcleaf_priv_elias_varintBitReaderHasMore
#define varintBitReaderInit srcleaf_priv_elias_varintBitReaderInit
#define varintBitReaderRead srcleaf_priv_elias_varintBitReaderRead
#define varintBitWriterBytes srcleaf_priv_elias_varintBitWriterBytes
#define varintBitWriterInit srcleaf_priv_elias_varintBitWriterInit
#define varintBitWriterWrite srcleaf_priv_elias_varintBitWriterWrite
#define varintEliasDeltaBits srcleaf_priv_elias_varintEliasDeltaBits
#define varintEliasDeltaDecode srcleaf_priv_elias_varintEliasDeltaDecode
#define varintEliasDeltaDecodeArray srcleaf_priv_elias_varintEliasDeltaDecodeArray
#define varintEliasDeltaEncode srcleaf_priv_elias_varintEliasDeltaEncode
#define varintEliasDeltaEncodeArray srcleaf_priv_elias_varintEliasDeltaEncodeArray
#define varintEliasDeltaIsBeneficial srcleaf_priv_elias_varintEliasDeltaIsBeneficial
#define varintEliasGammaBits srcleaf_priv_elias_varintEliasGammaBits
#define varintEliasGammaDecode srcleaf_priv_elias_varintEliasGammaDecode
#define varintEliasGammaDecodeArray srcleaf_priv_elias_varintEliasGammaDecodeArray
#define varintEliasGammaEncode srcleaf_priv_elias_varintEliasGammaEncode
#define varintEliasGammaEncodeArray srcleaf_priv_elias_varintEliasGammaEncodeArray
#define varintEliasGammaIsBeneficial srcleaf_priv_elias_varintEliasGammaIsBeneficial
#include "varintElias.c"

uint64_t srcleaf_priv_floorLog2(uint64_t v) { return (uint64_t)floorLog2(v); }
