/* drv_srchdr.c — C side of the src_hdr_* handlers: the header accessors of the array
 * codecs (varintFORGetMinValue / GetCount / GetOffsetWidth / ReadMetadata,
 * varintBP128GetCount) on a given buffer.  The same calls are evaluated by the model
 * driver on the Gallina functions that gen/c2coq.py regenerates from the current
 * src/varintFOR.c and src/varintBP128.c (gen/c2coq_hdr.py, harness/ml/drv_srchdr.ml); a
 * difference is a bug of the translator (or of CSem.v).  The buffer ends flush against an
 * inaccessible page: a read past the bytes given is a fault, reported as such by the core. */
#include "core.h"
#include "varint.h"
#include "varintFOR.h"
#include "varintBP128.h"
#include <stdlib.h>
#include <string.h>

static gpage page_arg(const vcase *c, int i) {
    size_t len;
    uint8_t *b = arg_hex(c, i, &len);
    gpage in = gpage_new(b, len);
    free(b);
    return in;
}

/* src_hdr_for hex: every accessor, then every field of the struct ReadMetadata fills
 * (prefilled with a pattern, so a field it leaves alone shows) */
static void h_for(const vcase *c) {
    gpage in = page_arg(c, 0);
    out_u64("min", varintFORGetMinValue(in.p));
    out_u64("count", varintFORGetCount(in.p));
    out_u64("width", varintFORGetOffsetWidth(in.p));
    varintFORMeta m;
    memset(&m, 0x5A, sizeof m);
    varintFORReadMetadata(in.p, &m);
    char b[200];
    snprintf(b, sizeof b, "%llu,%llu,%llu,%llu,%llu,%llu", (unsigned long long)m.minValue,
             (unsigned long long)m.maxValue, (unsigned long long)m.range, (unsigned long long)m.count,
             (unsigned long long)m.encodedSize, (unsigned long long)m.offsetWidth);
    out_str("meta", b);
    gpage_free(&in);
}

/* src_hdr_bp128 hex */
static void h_bp128(const vcase *c) {
    gpage in = page_arg(c, 0);
    out_u64("count", varintBP128GetCount(in.p, in.len));
    gpage_free(&in);
}

static const vreg tab[] = {
    {"src_hdr_for", h_for}, {"src_hdr_bp128", h_bp128},
};
VREGISTER(tab)
