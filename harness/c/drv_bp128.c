/* drv_bp128.c — handlers for varintBP128.{c,h}
 *
 * Every encoder writes into a canary-framed buffer of EXACTLY
 * varintBP128MaxBytes(count) bytes; every decoder reads from a copy of exactly
 * the bytes the encoder reported, flush against an inaccessible page, and
 * writes into a canary-framed array of exactly `cap` elements. */
#include "core.h"
#include "varintBP128.h"
#include <stdlib.h>
#include <string.h>

#define HEXMAX 1536 /* longer byte strings are printed as length + FNV-1a hash */

static const char *frame_after(const gbuf *g, size_t used) {
    for (size_t i = used; i < g->size; i++) {
        if (g->p[i] != gbuf_canary((size_t)(g->p - g->base) + i)) return "dirty";
    }
    return "ok";
}

static void out_bytes(const char *k, const uint8_t *p, size_t n) {
    if (n <= HEXMAX) { out_hex(k, p, n); return; }
    uint64_t h = 0xcbf29ce484222325ULL;
    for (size_t i = 0; i < n; i++) { h ^= p[i]; h *= 0x100000001b3ULL; }
    char b[64];
    snprintf(b, sizeof b, "h%zu:%016llx", n, (unsigned long long)h);
    out_str(k, b);
}

static void out_meta(const varintBP128Meta *m) {
    out_u64("mcount", m->count);
    out_u64("mblocks", m->blockCount);
    out_u64("mbytes", m->encodedBytes);
    out_u64("mlast", m->lastBlockSize);
    out_u64("mwidth", m->maxBitWidth);
}

/* compact comparison of a decoded prefix with the input: "ok" or the list */
static void out_cmp32(const char *k, const uint32_t *got, size_t n, const uint32_t *want, size_t nwant) {
    if (n <= nwant && memcmp(got, want, n * 4) == 0) out_str(k, "ok");
    else out_list32(k, got, n);
}
static void out_cmp64(const char *k, const uint64_t *got, size_t n, const uint64_t *want, size_t nwant) {
    if (n <= nwant && memcmp(got, want, n * 8) == 0) out_str(k, "ok");
    else out_list(k, got, n);
}

static uint32_t *to32(const uint64_t *v, size_t n) {
    uint32_t *r = malloc((n ? n : 1) * sizeof(uint32_t));
    for (size_t i = 0; i < n; i++) r[i] = (uint32_t)v[i];
    return r;
}

typedef size_t (*enc32_fn)(uint8_t *, const uint32_t *, size_t, varintBP128Meta *);
typedef size_t (*dec32_fn)(const uint8_t *, uint32_t *, size_t);
typedef size_t (*enc64_fn)(uint8_t *, const uint64_t *, size_t, varintBP128Meta *);
typedef size_t (*dec64_fn)(const uint8_t *, uint64_t *, size_t);

/* encode into exactly MaxBytes(count); returns gbuf, prints n bound enc frame guard meta */
static gbuf do_enc32(enc32_fn enc, const uint32_t *v, size_t count, size_t *n, int with_meta) {
    size_t bound = varintBP128MaxBytes(count);
    gbuf g = gbuf_new(bound, 0);
    varintBP128Meta m;
    memset(&m, 0xEE, sizeof m);
    *n = enc(g.p, v, count, with_meta ? &m : NULL);
    out_u64("n", *n);
    out_u64("bound", bound);
    out_bytes("enc", g.p, *n <= bound ? *n : bound);
    out_str("frame", *n <= bound ? frame_after(&g, *n) : "dirty");
    out_str("guard", gbuf_guard(&g));
    if (with_meta) out_meta(&m);
    return g;
}
static gbuf do_enc64(enc64_fn enc, const uint64_t *v, size_t count, size_t *n, int with_meta) {
    size_t bound = varintBP128MaxBytes(count);
    gbuf g = gbuf_new(bound, 0);
    varintBP128Meta m;
    memset(&m, 0xEE, sizeof m);
    *n = enc(g.p, v, count, with_meta ? &m : NULL);
    out_u64("n", *n);
    out_u64("bound", bound);
    out_bytes("enc", g.p, *n <= bound ? *n : bound);
    out_str("frame", *n <= bound ? frame_after(&g, *n) : "dirty");
    out_str("guard", gbuf_guard(&g));
    if (with_meta) out_meta(&m);
    return g;
}

/* decode `src` (n bytes, exact, guard page behind) with capacity cap into exactly cap elements */
static void do_dec32(dec32_fn dec, const uint8_t *src, size_t n, size_t cap, const uint32_t *want, size_t nwant) {
    gpage in = gpage_new(src, n);
    gbuf o = gbuf_new(cap * 4, 0);
    size_t dn = dec(in.p, (uint32_t *)o.p, cap);
    out_u64("dn", dn);
    out_cmp32("dec", (uint32_t *)o.p, dn <= cap ? dn : cap, want, nwant);
    out_str("oframe", dn <= cap ? frame_after(&o, dn * 4) : "dirty");
    out_str("oguard", gbuf_guard(&o));
    gbuf_free(&o);
    gpage_free(&in);
}
static void do_dec64(dec64_fn dec, const uint8_t *src, size_t n, size_t cap, const uint64_t *want, size_t nwant) {
    gpage in = gpage_new(src, n);
    gbuf o = gbuf_new(cap * 8, 0);
    size_t dn = dec(in.p, (uint64_t *)o.p, cap);
    out_u64("dn", dn);
    out_cmp64("dec", (uint64_t *)o.p, dn <= cap ? dn : cap, want, nwant);
    out_str("oframe", dn <= cap ? frame_after(&o, dn * 8) : "dirty");
    out_str("oguard", gbuf_guard(&o));
    gbuf_free(&o);
    gpage_free(&in);
}

/* bp32 L / bpd32 L : encode (meta), decode with the original count */
static void rt32(const vcase *c, enc32_fn enc, dec32_fn dec) {
    size_t count, n;
    uint64_t *v64 = arg_list(c, 0, &count);
    uint32_t *v = to32(v64, count);
    gbuf g = do_enc32(enc, v, count, &n, 1);
    out_u64("sorted", varintBP128IsSorted32(v, count));
    out_u64("benef", varintBP128IsBeneficial32(v, count));
    if (count > 0 && n <= g.size) do_dec32(dec, g.p, n, count, v, count);
    gbuf_free(&g);
    free(v); free(v64);
}
static void h_bp32(const vcase *c) { rt32(c, varintBP128Encode32, varintBP128Decode32); }
static void h_bpd32(const vcase *c) { rt32(c, varintBP128DeltaEncode32, varintBP128DeltaDecode32); }

static void rt64(const vcase *c, enc64_fn enc, dec64_fn dec) {
    size_t count, n;
    uint64_t *v = arg_list(c, 0, &count);
    gbuf g = do_enc64(enc, v, count, &n, 1);
    out_u64("sorted", varintBP128IsSorted64(v, count));
    out_u64("benef", varintBP128IsBeneficial64(v, count));
    if (count > 0 && n <= g.size) {
        gpage in = gpage_new(g.p, n);
        out_u64("getcount", varintBP128GetCount(in.p, n));
        gpage_free(&in);
        do_dec64(dec, g.p, n, count, v, count);
    }
    gbuf_free(&g);
    free(v);
}
static void h_bp64(const vcase *c) { rt64(c, varintBP128Encode64, varintBP128Decode64); }
static void h_bpd64(const vcase *c) { rt64(c, varintBP128DeltaEncode64, varintBP128DeltaDecode64); }

/* bp32_cap L [cap] ... : encode (meta == NULL); with cap: decode with capacity cap */
static void cap32(const vcase *c, enc32_fn enc, dec32_fn dec) {
    size_t count, n;
    uint64_t *v64 = arg_list(c, 0, &count);
    uint32_t *v = to32(v64, count);
    gbuf g = do_enc32(enc, v, count, &n, 0);
    if (c->argc >= 2 && count > 0 && n <= g.size) do_dec32(dec, g.p, n, (size_t)arg_u64(c, 1), v, count);
    gbuf_free(&g);
    free(v); free(v64);
}
static void h_bp32_cap(const vcase *c) { cap32(c, varintBP128Encode32, varintBP128Decode32); }
static void h_bpd32_cap(const vcase *c) { cap32(c, varintBP128DeltaEncode32, varintBP128DeltaDecode32); }
static void cap64(const vcase *c, enc64_fn enc, dec64_fn dec) {
    size_t count, n;
    uint64_t *v = arg_list(c, 0, &count);
    gbuf g = do_enc64(enc, v, count, &n, 0);
    if (c->argc >= 2 && count > 0 && n <= g.size) do_dec64(dec, g.p, n, (size_t)arg_u64(c, 1), v, count);
    gbuf_free(&g);
    free(v);
}
static void h_bp64_cap(const vcase *c) { cap64(c, varintBP128Encode64, varintBP128Decode64); }
static void h_bpd64_cap(const vcase *c) { cap64(c, varintBP128DeltaEncode64, varintBP128DeltaDecode64); }

/* bp_blk32 L(128 values) : block encoder / decoder */
static void h_bp_blk32(const vcase *c) {
    size_t count;
    uint64_t *v64 = arg_list(c, 0, &count);
    if (count != 128) { out_str("skip", "need128"); free(v64); return; }
    uint32_t *v = to32(v64, count);
    gbuf g = gbuf_new(VARINT_BP128_MAX_BLOCK_BYTES, 0);
    size_t n = varintBP128EncodeBlock32(g.p, v);
    out_u64("n", n);
    out_u64("width", varintBP128MaxBitWidth32(v, 128));
    out_bytes("enc", g.p, n <= g.size ? n : g.size);
    out_str("frame", n <= g.size ? frame_after(&g, n) : "dirty");
    out_str("guard", gbuf_guard(&g));
    if (n <= g.size) {
        gpage in = gpage_new(g.p, n);
        gbuf o = gbuf_new(128 * 4, 0);
        size_t used = varintBP128DecodeBlock32(in.p, (uint32_t *)o.p);
        out_u64("used", used);
        out_cmp32("dec", (uint32_t *)o.p, 128, v, 128);
        out_str("oguard", gbuf_guard(&o));
        gbuf_free(&o);
        gpage_free(&in);
    }
    gbuf_free(&g);
    free(v); free(v64);
}

/* bp_dblk32 prev L(128 values) */
static void h_bp_dblk32(const vcase *c) {
    size_t count;
    uint32_t prev = (uint32_t)arg_u64(c, 0);
    uint64_t *v64 = arg_list(c, 1, &count);
    if (count != 128) { out_str("skip", "need128"); free(v64); return; }
    uint32_t *v = to32(v64, count);
    gbuf g = gbuf_new(VARINT_BP128_MAX_BLOCK_BYTES, 0);
    size_t n = varintBP128DeltaEncodeBlock32(g.p, v, prev);
    out_u64("n", n);
    out_bytes("enc", g.p, n <= g.size ? n : g.size);
    out_str("frame", n <= g.size ? frame_after(&g, n) : "dirty");
    out_str("guard", gbuf_guard(&g));
    if (n <= g.size) {
        gpage in = gpage_new(g.p, n);
        gbuf o = gbuf_new(128 * 4, 0);
        size_t used = varintBP128DeltaDecodeBlock32(in.p, (uint32_t *)o.p, prev);
        out_u64("used", used);
        out_cmp32("dec", (uint32_t *)o.p, 128, v, 128);
        out_str("oguard", gbuf_guard(&o));
        gbuf_free(&o);
        gpage_free(&in);
    }
    gbuf_free(&g);
    free(v); free(v64);
}

/* bp_raw32 hex cap ... : decoders on an arbitrary (generator-built, padded) stream */
static void raw32(const vcase *c, dec32_fn dec) {
    size_t len;
    uint8_t *b = arg_hex(c, 0, &len);
    size_t cap = (size_t)arg_u64(c, 1);
    gpage in = gpage_new(b, len);
    gbuf o = gbuf_new(cap * 4, 0);
    size_t dn = dec(in.p, (uint32_t *)o.p, cap);
    out_u64("dn", dn);
    out_list32("dec", (uint32_t *)o.p, dn <= cap ? dn : cap);
    out_str("oframe", dn <= cap ? frame_after(&o, dn * 4) : "dirty");
    out_str("oguard", gbuf_guard(&o));
    gbuf_free(&o);
    gpage_free(&in);
    free(b);
}
static void h_bp_raw32(const vcase *c) { raw32(c, varintBP128Decode32); }
static void h_bp_rawd32(const vcase *c) { raw32(c, varintBP128DeltaDecode32); }
static void raw64(const vcase *c, dec64_fn dec) {
    size_t len;
    uint8_t *b = arg_hex(c, 0, &len);
    size_t cap = (size_t)arg_u64(c, 1);
    gpage in = gpage_new(b, len);
    gbuf o = gbuf_new(cap * 8, 0);
    size_t dn = dec(in.p, (uint64_t *)o.p, cap);
    out_u64("dn", dn);
    out_list("dec", (uint64_t *)o.p, dn <= cap ? dn : cap);
    out_str("oframe", dn <= cap ? frame_after(&o, dn * 8) : "dirty");
    out_str("oguard", gbuf_guard(&o));
    gbuf_free(&o);
    gpage_free(&in);
    free(b);
}
static void h_bp_raw64(const vcase *c) { raw64(c, varintBP128Decode64); }
static void h_bp_rawd64(const vcase *c) { raw64(c, varintBP128DeltaDecode64); }

/* bp_maxbytes count */
static void h_bp_maxbytes(const vcase *c) {
    out_u64("bound", varintBP128MaxBytes((size_t)arg_u64(c, 0)));
}

/* bp_bits v */
static void h_bp_bits(const vcase *c) {
    uint64_t v = arg_u64(c, 0);
    out_u64("b64", varintBP128BitsNeeded64(v));
    if (v <= UINT32_MAX) out_u64("b32", varintBP128BitsNeeded32((uint32_t)v));
}

static const vreg tab[] = {
    {"bp32", h_bp32},           {"bpd32", h_bpd32},         {"bp64", h_bp64},
    {"bpd64", h_bpd64},         {"bp32_cap", h_bp32_cap},   {"bpd32_cap", h_bpd32_cap},
    {"bp64_cap", h_bp64_cap},   {"bpd64_cap", h_bpd64_cap}, {"bp_blk32", h_bp_blk32},
    {"bp_dblk32", h_bp_dblk32}, {"bp_raw32", h_bp_raw32},   {"bp_rawd32", h_bp_rawd32},
    {"bp_raw64", h_bp_raw64},   {"bp_rawd64", h_bp_rawd64}, {"bp_maxbytes", h_bp_maxbytes},
    {"bp_bits", h_bp_bits},
};
VREGISTER(tab)
