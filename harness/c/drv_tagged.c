/* drv_tagged.c — handlers for varintTagged.{c,h} */
#include "core.h"
#include "varintTagged.h"
#include <stdlib.h>
#include <string.h>

/* defined in varintTagged.c, the header declares other names */
varintWidth varintTaggedPutVarint32(uint8_t *p, uint32_t v);
varintWidth varintTaggedGetVarint32(const uint8_t *z, uint32_t *pResult);

static const char *frame_after(const gbuf *g, size_t used) {
    for (size_t i = used; i < g->size; i++) {
        if (g->p[i] != gbuf_canary((size_t)(g->p - g->base) + i)) return "dirty";
    }
    return "ok";
}

/* tagged_rt x align */
static void h_tagged_rt(const vcase *c) {
    uint64_t x = arg_u64(c, 0);
    unsigned align = (unsigned)arg_u64(c, 1);
    gbuf g = gbuf_new(16, align);
    varintWidth w = varintTaggedPut64(g.p, x);
    out_u64("w", w);
    out_hex("put", g.p, w <= 16 ? w : 16);
    out_str("frame", frame_after(&g, w));
    out_str("guard", gbuf_guard(&g));
    gpage in = gpage_new(g.p, w <= 16 ? w : 16);
    uint64_t v = 0;
    varintWidth gw = varintTaggedGet(in.p, 9, &v);
    out_u64("getw", gw); out_u64("getv", v);
    v = 0; gw = varintTaggedGet64(in.p, &v);
    out_u64("get64w", gw); out_u64("get64v", v);
    out_u64("getrv", varintTaggedGet64ReturnValue(in.p));
    out_u64("getq", varintTaggedGet64Quick_(in.p));
    out_u64("len", varintTaggedLen(x));
    out_u64("lenq", varintTaggedLenQuick(x));
    out_u64("getlen", varintTaggedGetLen(in.p));
    out_u64("getlenq", (uint64_t)varintTaggedGetLenQuick_(in.p));
    if (x <= UINT32_MAX) {
        gbuf g2 = gbuf_new(16, align);
        varintWidth w2 = varintTaggedPutVarint32(g2.p, (uint32_t)x);
        out_u64("w32", w2);
        out_hex("put32", g2.p, w2 <= 16 ? w2 : 16);
        out_str("frame32", frame_after(&g2, w2));
        uint32_t v32 = 0;
        varintWidth g32 = varintTaggedGetVarint32(in.p, &v32);
        out_u64("get32w", g32); out_u64("get32v", v32);
        gbuf_free(&g2);
    }
    gpage_free(&in);
    gbuf_free(&g);
}

/* tagged_fixed x width align */
static void h_tagged_fixed(const vcase *c) {
    uint64_t x = arg_u64(c, 0);
    varintWidth width = (varintWidth)arg_u64(c, 1);
    unsigned align = (unsigned)arg_u64(c, 2);
    gbuf g = gbuf_new(16, align);
    varintWidth w = varintTaggedPut64FixedWidth(g.p, x, width);
    out_u64("w", w);
    out_hex("put", g.p, w <= 16 ? w : 16);
    out_str("frame", frame_after(&g, w));
    out_str("guard", gbuf_guard(&g));
    gbuf q = gbuf_new(16, align);
    varintTaggedPut64FixedWidthQuick_(q.p, x, width);
    out_hex("putq", q.p, (width >= 1 && width <= 9) ? width : 0);
    out_str("frameq", frame_after(&q, (width >= 1 && width <= 9) ? width : 0));
    out_str("guardq", gbuf_guard(&q));
    if (w >= 1 && w <= 9) {
        gpage in = gpage_new(g.p, w);
        uint64_t v = 0;
        varintWidth gw = varintTaggedGet(in.p, (int32_t)w, &v);
        out_u64("getw", gw); out_u64("getv", v);
        gpage_free(&in);
    }
    gbuf_free(&q);
    gbuf_free(&g);
}

/* tagged_getn hex n : bounded reader on an exact-size guard-paged input */
static void h_tagged_getn(const vcase *c) {
    size_t len;
    uint8_t *b = arg_hex(c, 0, &len);
    int32_t n = (int32_t)arg_i64(c, 1);
    /* the buffer handed over is exactly min(len, max(n,0)) bytes long */
    size_t give = n < 0 ? 0 : ((size_t)n < len ? (size_t)n : len);
    gpage in = gpage_new(b, give);
    uint64_t v = 0xDEADBEEFCAFEF00DULL;
    varintWidth w = varintTaggedGet(in.p, (int32_t)give < n ? (int32_t)give : n, &v);
    out_u64("w", w);
    if (w) out_u64("v", v); else out_str("v", v == 0xDEADBEEFCAFEF00DULL ? "untouched" : "touched");
    gpage_free(&in);
    free(b);
}

static int sgn(int x) { return x < 0 ? -1 : x > 0 ? 1 : 0; }

/* tagged_cmp a b */
static void h_tagged_cmp(const vcase *c) {
    uint64_t a = arg_u64(c, 0), b = arg_u64(c, 1);
    uint8_t ba[16], bb[16];
    memset(ba, 0, sizeof ba); memset(bb, 0, sizeof bb);
    varintWidth wa = varintTaggedPut64(ba, a);
    varintWidth wb = varintTaggedPut64(bb, b);
    size_t m = wa < wb ? wa : wb;
    int r = memcmp(ba, bb, m);
    if (r == 0) r = (wa > wb) - (wa < wb);
    out_i64("cmp", sgn(r));
    out_hex("ea", ba, wa); out_hex("eb", bb, wb);
}

/* tagged_tuple_cmp La Lb */
static void h_tagged_tuple_cmp(const vcase *c) {
    size_t na, nb;
    uint64_t *a = arg_list(c, 0, &na), *b = arg_list(c, 1, &nb);
    uint8_t *ka = calloc(na * 9 + 1, 1), *kb = calloc(nb * 9 + 1, 1);
    size_t la = 0, lb = 0;
    for (size_t i = 0; i < na; i++) la += varintTaggedPut64(ka + la, a[i]);
    for (size_t i = 0; i < nb; i++) lb += varintTaggedPut64(kb + lb, b[i]);
    size_t m = la < lb ? la : lb;
    int r = memcmp(ka, kb, m);
    if (r == 0) r = (la > lb) - (la < lb);
    out_i64("cmp", sgn(r));
    out_hex("ka", ka, la); out_hex("kb", kb, lb);
    /* the same key assembled in the opposite field order (offsets from
     * varintTaggedLen), and a field rewritten in place: the bytes of a key
     * must not depend on the order in which its fields are written */
    {
        uint8_t *rev = calloc(na * 9 + 16, 1);
        size_t *off = malloc((na + 1) * sizeof(size_t));
        off[0] = 0;
        for (size_t i = 0; i < na; i++) off[i + 1] = off[i] + varintTaggedLen(a[i]);
        for (size_t i = na; i-- > 0;) varintTaggedPut64(rev + off[i], a[i]);
        int same = off[na] == la && memcmp(rev, ka, la) == 0;
        if (same && na > 1) { /* rewrite field 0 in place (same value) */
            varintTaggedPut64(rev, a[0]);
            same = memcmp(rev, ka, la) == 0;
        }
        out_str("rev", same ? "same" : "diff");
        free(rev); free(off);
    }
    free(a); free(b); free(ka); free(kb);
}

/* tagged_add hex add force : slot holds a tagged varint (hex, exactly its
 * bytes followed by canary) */
static void h_tagged_add(const vcase *c) {
    size_t len;
    uint8_t *b = arg_hex(c, 0, &len);
    int64_t add = arg_i64(c, 1);
    int force = (int)arg_u64(c, 2);
    gbuf g = gbuf_new(16, 0);
    gbuf_prefill(&g, b, len);
    varintWidth cur = varintTaggedGetLen(g.p);
    varintWidth w = force ? varintTaggedAddGrow(g.p, add) : varintTaggedAddNoGrow(g.p, add);
    out_u64("w", w);
    size_t show = (w > cur ? w : cur);
    if (!force || w == 0) show = cur;
    out_hex("buf", g.p, show);
    out_str("frame", frame_after(&g, show));
    out_str("guard", gbuf_guard(&g));
    gbuf_free(&g);
    free(b);
}

/* tagged_keys a a0 b : the key for value a as produced by EVERY writer of the
 * tagged family — Put64, PutVarint32 (a < 2^32), Put64FixedWidth and the
 * Quick macro at the natural width, and the in-place add helper starting from
 * the stored value a0 (both below 2^63) — each compared with memcmp against
 * the plain Put64 key of b.  Keys of one value must be the same bytes whoever
 * wrote them, or composite keys written by different code paths mis-sort. */
static int key_cmp(const uint8_t *ka, size_t la, const uint8_t *kb, size_t lb) {
    size_t m = la < lb ? la : lb;
    int r = memcmp(ka, kb, m);
    if (r == 0) r = (la > lb) - (la < lb);
    return sgn(r);
}
static void h_tagged_keys(const vcase *c) {
    uint64_t a = arg_u64(c, 0), a0 = arg_u64(c, 1), b = arg_u64(c, 2);
    uint8_t kb[16], k[16];
    memset(kb, 0, sizeof kb);
    varintWidth wb = varintTaggedPut64(kb, b);
    memset(k, 0, sizeof k);
    varintWidth w = varintTaggedPut64(k, a);
    out_hex("k64", k, w); out_i64("c64", key_cmp(k, w, kb, wb));
    if (a <= UINT32_MAX) {
        memset(k, 0, sizeof k);
        w = varintTaggedPutVarint32(k, (uint32_t)a);
        out_hex("k32", k, w <= 16 ? w : 16); out_i64("c32", key_cmp(k, w, kb, wb));
    }
    memset(k, 0, sizeof k);
    w = varintTaggedPut64FixedWidth(k, a, varintTaggedLen(a));
    out_hex("kfix", k, w <= 16 ? w : 16); out_i64("cfix", key_cmp(k, w, kb, wb));
    memset(k, 0, sizeof k);
    {
        varintWidth nat = varintTaggedLen(a);
        varintTaggedPut64FixedWidthQuick_(k, a, nat);
        out_hex("kq", k, nat); out_i64("cq", key_cmp(k, nat, kb, wb));
    }
    if (a < (1ULL << 63) && a0 < (1ULL << 63)) {
        memset(k, 0, sizeof k);
        varintTaggedPut64(k, a0);
        w = varintTaggedAddGrow(k, (int64_t)a - (int64_t)a0);
        out_u64("wadd", w);
        varintWidth l = varintTaggedGetLen(k);
        out_hex("kadd", k, l); out_i64("cadd", key_cmp(k, l, kb, wb));
    }
}

static const vreg tab[] = {
    {"tagged_rt", h_tagged_rt},       {"tagged_fixed", h_tagged_fixed},
    {"tagged_getn", h_tagged_getn},   {"tagged_cmp", h_tagged_cmp},
    {"tagged_tuple_cmp", h_tagged_tuple_cmp}, {"tagged_add", h_tagged_add},
    {"tagged_keys", h_tagged_keys},
};
VREGISTER(tab)
