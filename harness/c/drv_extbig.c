/* drv_extbig.c — the __uint128_t entry points of varintExternal.c:
 * varintExternalPutFixedWidthBig / varintBigExternalGet, widths 1..16. */
#include "core.h"
#include "varintExternal.h"
#include <string.h>

/* extbig hi lo w align : write the 128-bit value hi*2^64+lo into exactly w
 * bytes (destination ends at an inaccessible page), read it back from an
 * input of exactly w bytes */
static void h_extbig(const vcase *c) {
    __uint128_t v = ((__uint128_t)arg_u64(c, 0) << 64) | (__uint128_t)arg_u64(c, 1);
    varintWidth w = (varintWidth)arg_u64(c, 2);
    unsigned align = (unsigned)arg_u64(c, 3);
    if (w < 1 || w > 16) { out_str("put", "none"); return; }
    gbuf g = gbuf_new(w, align);
    varintExternalPutFixedWidthBig(g.p, v, w);
    out_hex("put", g.p, w);
    out_str("guard", gbuf_guard(&g));
    gpage in = gpage_new(g.p, w);
    __uint128_t r = varintBigExternalGet(in.p, w);
    out_u64("ghi", (uint64_t)(r >> 64));
    out_u64("glo", (uint64_t)r);
    if (w <= 8) {
        /* the 64-bit entry points on the same bytes */
        out_u64("g64", varintExternalGet(in.p, w));
        gbuf g2 = gbuf_new(w, align);
        varintExternalPutFixedWidth(g2.p, (uint64_t)v, w);
        out_hex("put64", g2.p, w);
        gbuf_free(&g2);
    }
    gpage_free(&in);
    gbuf_free(&g);
}

/* extbig_get hex w : the reader on arbitrary stored bytes (exactly w readable) */
static void h_extbig_get(const vcase *c) {
    size_t len;
    uint8_t *b = arg_hex(c, 0, &len);
    varintWidth w = (varintWidth)arg_u64(c, 1);
    if (w < 1 || w > 16 || len < w) { out_str("get", "none"); free(b); return; }
    gpage in = gpage_new(b, w);
    __uint128_t r = varintBigExternalGet(in.p, w);
    out_u64("ghi", (uint64_t)(r >> 64));
    out_u64("glo", (uint64_t)r);
    gpage_free(&in);
    free(b);
}

static const vreg tab[] = {
    {"extbig", h_extbig}, {"extbig_get", h_extbig_get},
};
VREGISTER(tab)
