/* drv_bitdim_priv.c — a second, private compilation of
 * /repo/src/varintDimension.c with every public symbol renamed, used ONLY for
 * the two things the library object cannot give the driver:
 *   - varintDimensionPairDecode, which is `static inline` in the .c file;
 *   - the half-float accessors, which the pinned build does not compile
 *     (they need __F16C__; the CMake flags do not enable it).  Here the
 *     functions of this translation unit are compiled for target "f16c".
 * Everything else the driver calls comes from the library object. */
#if defined(__x86_64__) || defined(__i386__)
#if defined(__clang__)
#pragma clang attribute push(__attribute__((target("f16c"))), apply_to = function)
#ifndef __F16C__
#define __F16C__ 1
#endif
#else
#pragma GCC push_options
#pragma GCC target("f16c")
#endif
#endif
#define varintDimensionPack bitdim_priv_varintDimensionPack
#define varintDimensionUnpack bitdim_priv_varintDimensionUnpack
#define varintDimensionPairEncode bitdim_priv_varintDimensionPairEncode
#define varintDimensionPairDimension bitdim_priv_varintDimensionPairDimension
#define varintDimensionPairEntryGetUnsigned bitdim_priv_varintDimensionPairEntryGetUnsigned
#define varintDimensionPairEntrySetUnsigned bitdim_priv_varintDimensionPairEntrySetUnsigned
#define varintDimensionPairEntrySetFloat bitdim_priv_varintDimensionPairEntrySetFloat
#define varintDimensionPairEntryGetFloat bitdim_priv_varintDimensionPairEntryGetFloat
#define varintDimensionPairEntrySetDouble bitdim_priv_varintDimensionPairEntrySetDouble
#define varintDimensionPairEntryGetDouble bitdim_priv_varintDimensionPairEntryGetDouble
#define varintDimensionPairEntrySetFloatHalf bitdim_priv_varintDimensionPairEntrySetFloatHalf
#define varintDimensionPairEntryGetFloatHalf bitdim_priv_varintDimensionPairEntryGetFloatHalf
#define varintDimensionPairEntryGetBit bitdim_priv_varintDimensionPairEntryGetBit
#define varintDimensionPairEntrySetBit bitdim_priv_varintDimensionPairEntrySetBit
#define varintDimensionPairEntryToggleBit bitdim_priv_varintDimensionPairEntryToggleBit
#define varintDimensionTest bitdim_priv_varintDimensionTest
#define PACK_STATIC 1
#include "varintDimension.c"

void bitdim_priv_decode(const void *p, size_t *x, size_t *y, unsigned dim) {
    varintDimensionPairDecode(p, x, y, (varintDimensionPair)dim);
}
#ifdef __F16C__
int bitdim_priv_have_half(void) { return 1; }
void bitdim_priv_set_half(void *d, size_t r, size_t c, float v, unsigned dim) {
    varintDimensionPairEntrySetFloatHalf(d, r, c, v, (varintDimensionPair)dim);
}
float bitdim_priv_get_half(const void *d, size_t r, size_t c, unsigned dim) {
    return varintDimensionPairEntryGetFloatHalf(d, r, c, (varintDimensionPair)dim);
}
#else
int bitdim_priv_have_half(void) { return 0; }
void bitdim_priv_set_half(void *d, size_t r, size_t c, float v, unsigned dim) { (void)d; (void)r; (void)c; (void)v; (void)dim; }
float bitdim_priv_get_half(const void *d, size_t r, size_t c, unsigned dim) { (void)d; (void)r; (void)c; (void)dim; return 0; }
#endif
#if defined(__x86_64__) || defined(__i386__)
#if defined(__clang__)
#pragma clang attribute pop
#else
#pragma GCC pop_options
#endif
#endif
