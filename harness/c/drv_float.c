/* drv_float.c — handlers for varintFloat.{c,h}.  Doubles travel as decimal
 * uint64 bit patterns, never as text. */
#include "core.h"
#include "varintFloat.h"
#include <stdlib.h>
#include <string.h>

static const char *frame_after(const gbuf *g, size_t used) {
    for (size_t i = used; i < g->size; i++) {
        if (g->p[i] != gbuf_canary((size_t)(g->p - g->base) + i)) return "dirty";
    }
    return "ok";
}

static double *doubles_of(const uint64_t *bits, size_t n) {
    double *v = malloc((n ? n : 1) * sizeof(double));
    memcpy(v, bits, n * sizeof(double));
    return v;
}

/* decode `len` bytes (flush against an inaccessible page) into exactly
 * count doubles inside canaries */
static void decode_and_print(const uint8_t *enc, size_t len, size_t count) {
    gpage in = gpage_new(enc, len);
    gbuf o = gbuf_new(count * sizeof(double), 0);
    size_t dlen = varintFloatDecode(in.p, count, (double *)o.p);
    out_u64("dlen", dlen);
    out_list("dec", (const uint64_t *)o.p, count);
    out_str("oguard", gbuf_guard(&o));
    gbuf_free(&o);
    gpage_free(&in);
}

static void encoded_and_print(gbuf *g, size_t max, size_t len) {
    out_u64("max", max);
    out_u64("len", len);
    size_t show = len <= max ? len : max;
    out_hex("enc", g->p, show);
    out_str("frame", frame_after(g, show));
    out_str("guard", gbuf_guard(g));
}

/* float_rt prec mode Lbits : encode into exactly MaxEncodedSize bytes, decode */
static void h_float_rt(const vcase *c) {
    varintFloatPrecision prec = (varintFloatPrecision)arg_u64(c, 0);
    varintFloatEncodingMode mode = (varintFloatEncodingMode)arg_u64(c, 1);
    size_t n;
    uint64_t *bits = arg_list(c, 2, &n);
    double *vals = doubles_of(bits, n);
    size_t max = varintFloatMaxEncodedSize(n, prec);
    gbuf g = gbuf_new(max, 0);
    size_t len = varintFloatEncode(g.p, vals, n, prec, mode);
    encoded_and_print(&g, max, len);
    decode_and_print(g.p, len <= max ? len : max, n);
    gbuf_free(&g);
    free(vals);
    free(bits);
}

/* float_auto errbits mode Lbits : buffer sized for the largest (FULL) mode */
static void h_float_auto(const vcase *c) {
    uint64_t eb = arg_u64(c, 0);
    double err;
    memcpy(&err, &eb, sizeof err);
    varintFloatEncodingMode mode = (varintFloatEncodingMode)arg_u64(c, 1);
    size_t n;
    uint64_t *bits = arg_list(c, 2, &n);
    double *vals = doubles_of(bits, n);
    size_t max = varintFloatMaxEncodedSize(n, VARINT_FLOAT_PRECISION_FULL);
    gbuf g = gbuf_new(max, 0);
    varintFloatPrecision sel = (varintFloatPrecision)99;
    size_t len = varintFloatEncodeAuto(g.p, vals, n, err, mode, &sel);
    out_u64("prec", (uint64_t)sel);
    out_u64("pmax", varintFloatMaxEncodedSize(n, sel));
    encoded_and_print(&g, max, len);
    decode_and_print(g.p, len <= max ? len : max, n);
    /* NULL selected_precision is allowed */
    gbuf g2 = gbuf_new(max, 0);
    size_t len2 = varintFloatEncodeAuto(g2.p, vals, n, err, mode, NULL);
    out_str("again", (len2 == len && memcmp(g.p, g2.p, len <= max ? len : max) == 0) ? "same" : "differs");
    gbuf_free(&g2);
    gbuf_free(&g);
    free(vals);
    free(bits);
}

/* float_dec count xHEX : decode an arbitrary stream of exactly that many bytes */
static void h_float_dec(const vcase *c) {
    size_t count = (size_t)arg_u64(c, 0);
    size_t len;
    uint8_t *b = arg_hex(c, 1, &len);
    decode_and_print(b, len, count);
    free(b);
}

/* float_parts bits : decompose, classification, compose of the parts */
static void h_float_parts(const vcase *c) {
    uint64_t b = arg_u64(c, 0);
    double d;
    memcpy(&d, &b, sizeof d);
    uint64_t sign = 0, mant = 0;
    int16_t e = 0;
    bool normal = varintFloatDecompose(d, &sign, &e, &mant);
    out_u64("normal", normal);
    out_u64("sign", sign);
    out_i64("exp", e);
    out_u64("mant", mant);
    out_u64("isspecial", varintFloatIsSpecial(d));
    double r = varintFloatCompose(sign, e, mant);
    uint64_t rb;
    memcpy(&rb, &r, sizeof rb);
    out_u64("comp", rb);
}

/* float_compose sign exp mant */
static void h_float_compose(const vcase *c) {
    uint64_t sign = arg_u64(c, 0);
    int16_t e = (int16_t)arg_i64(c, 1);
    uint64_t mant = arg_u64(c, 2);
    double r = varintFloatCompose(sign, e, mant);
    uint64_t rb;
    memcpy(&rb, &r, sizeof rb);
    out_u64("comp", rb);
}

/* float_size count prec */
static void h_float_size(const vcase *c) {
    size_t count = (size_t)arg_u64(c, 0);
    varintFloatPrecision prec = (varintFloatPrecision)arg_u64(c, 1);
    out_u64("max", varintFloatMaxEncodedSize(count, prec));
    out_u64("mbits", varintFloatPrecisionMantissaBits(prec));
    out_u64("ebits", varintFloatPrecisionExponentBits(prec));
    double r = varintFloatPrecisionMaxRelativeError(prec);
    uint64_t rb;
    memcpy(&rb, &r, sizeof rb);
    out_u64("relerr", rb);
}

static const vreg tab[] = {
    {"float_rt", h_float_rt},       {"float_auto", h_float_auto},
    {"float_dec", h_float_dec},     {"float_parts", h_float_parts},
    {"float_compose", h_float_compose}, {"float_size", h_float_size},
};
VREGISTER(tab)
