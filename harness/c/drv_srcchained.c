/* drv_srcchained.c — C side of the src_chained_* handlers.  The same calls are
 * evaluated by the model driver on the Gallina functions that gen/c2coq.py
 * regenerates from the current src/varintChained.c (harness/ml/drv_srcchained.ml);
 * a difference is a bug of the translator (or of CSem.v).  Destinations are
 * exact-size and printed whole; sources end flush against an inaccessible page. */
#include "core.h"
#include "varint.h"
#include "varintChained.h"
#include <stdlib.h>
#include <string.h>

static gbuf buf_arg(const vcase *c, int i) {
    size_t len;
    uint8_t *b = arg_hex(c, i, &len);
    gbuf g = gbuf_new(len, 0);
    gbuf_prefill(&g, b, len);
    free(b);
    return g;
}

static gpage page_arg(const vcase *c, int i) {
    size_t len;
    uint8_t *b = arg_hex(c, i, &len);
    gpage in = gpage_new(b, len);
    free(b);
    return in;
}

static void put_like(gbuf *g, uint64_t w) {
    out_u64("ret", w);
    if (strcmp(gbuf_guard(g), "ok") != 0) out_str("buf", gbuf_guard(g));
    else out_hex("buf", g->p, g->size);
}

static void h_len(const vcase *c) { out_u64("ret", varintChainedVarintLen(arg_u64(c, 0))); }

static void h_put(const vcase *c) {
    gbuf g = buf_arg(c, 1);
    varintWidth w = varintChainedPutVarint(g.p, arg_u64(c, 0));
    put_like(&g, w);
    gbuf_free(&g);
}

static void h_put32(const vcase *c) {
    gbuf g = buf_arg(c, 1);
    uint32_t v = (uint32_t)arg_u64(c, 0);
    uint8_t w = varintChained_putVarint32(g.p, v);
    put_like(&g, w);
    gbuf_free(&g);
}

static void h_get(const vcase *c) {
    gpage in = page_arg(c, 0);
    uint64_t v = arg_u64(c, 1);
    varintWidth w = varintChainedGetVarint(in.p, &v);
    out_u64("ret", w);
    out_u64("v", v);
    gpage_free(&in);
}

static void h_get32fn(const vcase *c) {
    gpage in = page_arg(c, 0);
    uint32_t v = (uint32_t)arg_u64(c, 1);
    varintWidth w = varintChainedGetVarint32(in.p, &v);
    out_u64("ret", w);
    out_u64("v", v);
    gpage_free(&in);
}

static void h_get32(const vcase *c) {
    gpage in = page_arg(c, 0);
    uint32_t v = (uint32_t)arg_u64(c, 1);
    uint8_t w = varintChained_getVarint32(in.p, v);
    out_u64("ret", w);
    out_u64("v", v);
    gpage_free(&in);
}

static const vreg tab[] = {
    {"src_chained_len", h_len}, {"src_chained_put", h_put},         {"src_chained_put32", h_put32},
    {"src_chained_get", h_get}, {"src_chained_get32fn", h_get32fn}, {"src_chained_get32", h_get32},
};
VREGISTER(tab)
