/* opt_srcleaf_bitmap.c — OPTIONAL unit (dropped by the build if it stops compiling or linking):
 * a second, private compilation of src/varintBitmap.c with every public symbol renamed, used
 * ONLY to reach the file's `static` leaf functions that drv_srcleaf.c runs against their
 * regenerated Gallina renderings (gen/c2coq_leaf.py).  The list of renamed symbols is the
 * output of `nm --defined-only -g` on the library object. */
#define varintBitmapAdd srcleaf_priv_bitmap_varintBitmapAdd
#define varintBitmapAddMany srcleaf_priv_bitmap_varintBitmapAddMany
#define varintBitmapAddRange srcleaf_priv_bitmap_varintBitmapAddRange
#define varintBitmapAnd srcleaf_priv_bitmap_varintBitmapAnd
#define varintBitmapAndNot srcleaf_priv_bitmap_varintBitmapAndNot
#define varintBitmapCardinality srcleaf_priv_bitmap_varintBitmapCardinality
#define varintBitmapClear srcleaf_priv_bitmap_varintBitmapClear
#define varintBitmapClone srcleaf_priv_bitmap_varintBitmapClone
#define varintBitmapContains srcleaf_priv_bitmap_varintBitmapContains
#define varintBitmapCreate srcleaf_priv_bitmap_varintBitmapCreate
#define varintBitmapCreateIterator srcleaf_priv_bitmap_varintBitmapCreateIterator
#define varintBitmapDecode srcleaf_priv_bitmap_varintBitmapDecode
#define varintBitmapEncode srcleaf_priv_bitmap_varintBitmapEncode
#define varintBitmapFree srcleaf_priv_bitmap_varintBitmapFree
#define varintBitmapGetStats srcleaf_priv_bitmap_varintBitmapGetStats
#define varintBitmapIsEmpty srcleaf_priv_bitmap_varintBitmapIsEmpty
#define varintBitmapIteratorNext srcleaf_priv_bitmap_varintBitmapIteratorNext
#define varintBitmapOptimize srcleaf_priv_bitmap_varintBitmapOptimize
#define varintBitmapOr srcleaf_priv_bitmap_varintBitmapOr
#define varintBitmapRemove srcleaf_priv_bitmap_varintBitmapRemove
#define varintBitmapRemoveRange srcleaf_priv_bitmap_varintBitmapRemoveRange
#define varintBitmapSizeBytes srcleaf_priv_bitmap_varintBitmapSizeBytes
#define varintBitmapToArray srcleaf_priv_bitmap_varintBitmapToArray
#define varintBitmapXor srcleaf_priv_bitmap_varintBitmapXor
#include "varintBitmap.c"

int srcleaf_priv_bm_set(uint8_t *bits, uint16_t v) { return bitmapSet_(bits, v) ? 1 : 0; }
int srcleaf_priv_bm_clear(uint8_t *bits, uint16_t v) { return bitmapClear_(bits, v) ? 1 : 0; }
int srcleaf_priv_bm_contains(const uint8_t *bits, uint16_t v) { return bitmapContains_(bits, v) ? 1 : 0; }
