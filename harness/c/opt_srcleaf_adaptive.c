/* opt_srcleaf_adaptive.c — OPTIONAL unit (dropped by the build if it stops compiling or linking):
 * a second, private compilation of src/varintAdaptive.c with every public symbol renamed, used
 * ONLY to reach the file's `static` leaf functions that drv_srcleaf.c runs against their
 * regenerated Gallina renderings (gen/c2coq_leaf.py).  The list of renamed symbols is the
 * output of `nm --defined-only -g` on the library object. */
#define varintAdaptiveAnalyze srcleaf_priv_adaptive_varintAdaptiveAnalyze
#define varintAdaptiveAvgDelta srcleaf_priv_adaptive_varintAdaptiveAvgDelta
#define varintAdaptiveCheckSorted srcleaf_priv_adaptive_varintAdaptiveCheckSorted
#define varintAdaptiveCountUnique srcleaf_priv_adaptive_varintAdaptiveCountUnique
#define varintAdaptiveDecode srcleaf_priv_adaptive_varintAdaptiveDecode
#define varintAdaptiveEncode srcleaf_priv_adaptive_varintAdaptiveEncode
#define varintAdaptiveEncodeWith srcleaf_priv_adaptive_varintAdaptiveEncodeWith
#define varintAdaptiveEncodingName srcleaf_priv_adaptive_varintAdaptiveEncodingName
#define varintAdaptiveReadMeta srcleaf_priv_adaptive_varintAdaptiveReadMeta
#define varintAdaptiveSelectEncoding srcleaf_priv_adaptive_varintAdaptiveSelectEncoding
#include "varintAdaptive.c"

int srcleaf_priv_mulovf(size_t a, size_t b, size_t *r) { return size_mul_overflow(a, b, r) ? 1 : 0; }
