/* drv_conc.c — handlers for C17 whose INPUTS ARE SHARED between threads:
 * the value arrays, encoded buffers, dictionaries and bitmaps a case needs
 * are built once (by whichever thread gets there first, under a lock) and
 * every thread then calls the library on the very same read-only objects,
 * writing only to private outputs.  The shared inputs of arrays/buffers live
 * in read-only mapped pages, so a library write to an input faults.
 * These handlers have no model counterpart: the C17 runner compares each
 * thread's line with the sequential line and runs them under TSan. */
#define _GNU_SOURCE
#include "core.h"
#include "varintAdaptive.h"
#include "varintBP128.h"
#include "varintBitmap.h"
#include "varintDelta.h"
#include "varintDict.h"
#include "varintElias.h"
#include "varintFOR.h"
#include "varintFloat.h"
#include "varintGroup.h"
#include "varintPFOR.h"
#include "varintRLE.h"
#include "varintTagged.h"
#include <pthread.h>
#include <stdlib.h>
#include <string.h>
#include <sys/mman.h>
#include <unistd.h>

typedef struct shared_ent {
    char *key;
    void *obj;
    size_t n;
    struct shared_ent *next;
} shared_ent;
static shared_ent *g_shared;
static pthread_mutex_t g_shared_mu = PTHREAD_MUTEX_INITIALIZER;

/* read-only copy of n bytes */
static void *ro_copy(const void *src, size_t n) {
    size_t ps = (size_t)sysconf(_SC_PAGESIZE);
    size_t len = ((n ? n : 1) + ps - 1) / ps * ps;
    void *m = mmap(NULL, len, PROT_READ | PROT_WRITE, MAP_PRIVATE | MAP_ANONYMOUS, -1, 0);
    if (m == MAP_FAILED) return NULL;
    if (n) memcpy(m, src, n);
    mprotect(m, len, PROT_READ);
    return m;
}

typedef void *(*maker)(const vcase *c, size_t *n);
static void *shared_get(const vcase *c, const char *tag, maker mk, size_t *n) {
    char key[256];
    size_t off = (size_t)snprintf(key, sizeof key, "%s|%s", tag, c->api);
    for (int i = 0; i < c->argc && off < sizeof key - 1; i++)
        off += (size_t)snprintf(key + off, sizeof key - off, " %.60s", c->argv[i]);
    /* long args are distinguished by a hash of the whole text */
    uint64_t h = 1469598103934665603ULL;
    for (int i = 0; i < c->argc; i++)
        for (const char *p = c->argv[i]; *p; p++) h = (h ^ (uint8_t)*p) * 1099511628211ULL;
    snprintf(key + (off < sizeof key - 20 ? off : sizeof key - 20), 20, "#%016llx", (unsigned long long)h);
    pthread_mutex_lock(&g_shared_mu);
    for (shared_ent *e = g_shared; e; e = e->next) {
        if (!strcmp(e->key, key)) {
            void *o = e->obj;
            if (n) *n = e->n;
            pthread_mutex_unlock(&g_shared_mu);
            return o;
        }
    }
    shared_ent *e = malloc(sizeof *e);
    e->key = strdup(key);
    e->obj = mk(c, &e->n);
    e->next = g_shared;
    g_shared = e;
    if (n) *n = e->n;
    void *o = e->obj;
    pthread_mutex_unlock(&g_shared_mu);
    return o;
}

static void *mk_values0(const vcase *c, size_t *n) {
    uint64_t *v = arg_list(c, 0, n);
    void *r = ro_copy(v, *n * sizeof(uint64_t));
    free(v);
    return r;
}
static void *mk_values1(const vcase *c, size_t *n) {
    uint64_t *v = arg_list(c, 1, n);
    void *r = ro_copy(v, *n * sizeof(uint64_t));
    free(v);
    return r;
}
static void *mk_dict0(const vcase *c, size_t *n) {
    uint64_t *v = arg_list(c, 0, n);
    varintDict *d = varintDictCreate();
    if (d) varintDictBuild(d, v, *n);
    free(v);
    return d;
}
static varintBitmap *bm_from(const uint64_t *v, size_t n) {
    varintBitmap *b = varintBitmapCreate();
    for (size_t i = 0; b && i < n; i++) {
        if (v[i] >= (1ULL << 32)) { /* range: hi 16 bits = from, low 16 = to */
            varintBitmapAddRange(b, (uint16_t)(v[i] >> 16), (uint16_t)v[i]);
        } else {
            varintBitmapAdd(b, (uint16_t)v[i]);
        }
    }
    return b;
}
static void *mk_bm0(const vcase *c, size_t *n) {
    uint64_t *v = arg_list(c, 0, n);
    varintBitmap *b = bm_from(v, *n);
    free(v);
    return b;
}
static void *mk_bm1(const vcase *c, size_t *n) {
    uint64_t *v = arg_list(c, 1, n);
    varintBitmap *b = bm_from(v, *n);
    free(v);
    return b;
}

static uint64_t fnv(const void *p, size_t n) {
    uint64_t h = 1469598103934665603ULL;
    const uint8_t *b = p;
    for (size_t i = 0; i < n; i++) h = (h ^ b[i]) * 1099511628211ULL;
    return h;
}

/* conc_dict Ldictvalues Lvalues : encode Lvalues with the SHARED dictionary */
static void h_conc_dict(const vcase *c) {
    size_t nd, nv;
    const varintDict *d = shared_get(c, "dict", mk_dict0, &nd);
    const uint64_t *v = shared_get(c, "vals1", mk_values1, &nv);
    if (!d) { out_str("dict", "null"); return; }
    uint8_t *buf = malloc(nv * 16 + nd * 9 + 64);
    size_t w = varintDictEncodeWithDict(buf, d, v, nv);
    out_u64("w", w);
    out_u64("h", fnv(buf, w));
    /* lookups in an order that depends on the calling thread (rotation by a
     * thread-dependent offset), folded with a commutative sum: the printed
     * value is the same for every order iff every lookup answers as it does
     * alone */
    size_t rot = nv ? ((size_t)vdrv_tid * 7919u) % nv : 0;
    uint64_t acc = 0;
    for (size_t k = 0; k < nv; k++) {
        size_t i = (k + rot) % nv;
        acc += ((uint64_t)i + 1) * 0x9E3779B97F4A7C15ULL * ((uint64_t)(int64_t)varintDictFind(d, v[i]) + 2);
    }
    out_u64("find", acc);
    /* the rotated array encoded with the shared dictionary decodes to itself */
    if (nv) {
        uint64_t *rv = malloc(nv * sizeof(uint64_t));
        for (size_t k = 0; k < nv; k++) rv[k] = v[(k + rot) % nv];
        size_t w2 = varintDictEncodeWithDict(buf, d, rv, nv);
        uint64_t *back = malloc((nv + 1) * sizeof(uint64_t));
        size_t dn = w2 ? varintDictDecodeInto(buf, w2, back, nv) : 0;
        int ok = (w2 == w) && dn == nv && !memcmp(back, rv, nv * sizeof(uint64_t));
        /* values absent from the dictionary make the encoder refuse: then w == w2 == 0 */
        if (!w && !w2) ok = 1;
        out_u64("rot_rt", (uint64_t)ok);
        free(back);
        free(rv);
    }
    out_u64("size", varintDictEncodedSizeWithDict(d, nv));
    free(buf);
}

/* conc_enc Lvalues : every stateless array encoder on the SHARED input */
static void h_conc_enc(const vcase *c) {
    size_t n;
    const uint64_t *v = shared_get(c, "vals0", mk_values0, &n);
    size_t cap = n * 20 + 4096;
    uint8_t *buf = malloc(cap);
    uint64_t *out = malloc((n + 1) * sizeof(uint64_t));
    size_t w;
    w = varintDeltaEncodeUnsigned(buf, v, n);
    out_u64("delta", fnv(buf, w));
    if (n) {
        varintFORMeta fm;
        memset(&fm, 0, sizeof fm);
        w = varintFOREncode(buf, v, n, &fm);
        out_u64("for", fnv(buf, w));
        if (w && varintFORDecode(buf, out, n) == n) out_u64("ford", fnv(out, n * 8));
        /* the forms that analyse for themselves (meta == NULL) */
        w = varintFOREncode(buf, v, n, NULL);
        out_u64("for0", fnv(buf, w));
        w = varintFORBatchEncode(buf, v, n, NULL);
        out_u64("forb0", fnv(buf, w));
        varintPFORMeta pm;
        memset(&pm, 0, sizeof pm);
        w = varintPFOREncode(buf, v, (uint32_t)n, VARINT_PFOR_THRESHOLD_95, &pm);
        out_u64("pfor", fnv(buf, w));
    }
    w = varintRLEEncodeWithHeader(buf, v, n, NULL);
    out_u64("rle", fnv(buf, w));
    w = varintDictEncode(buf, v, n);
    out_u64("dict", fnv(buf, w));
    varintBP128Meta bm;
    memset(&bm, 0, sizeof bm);
    w = varintBP128Encode64(buf, v, n, &bm);
    out_u64("bp", fnv(buf, w));
    varintAdaptiveDataStats st;
    varintAdaptiveAnalyze(v, n, &st);
    out_u64("uniq", st.uniqueCount);
    out_u64("sel", (uint64_t)varintAdaptiveSelectEncoding(&st));
    if (n) {
        uint8_t *ab = malloc(varintAdaptiveMaxSize(n) + n * 8 + 4096);
        varintAdaptiveMeta am;
        memset(&am, 0, sizeof am);
        w = varintAdaptiveEncode(ab, v, n, &am);
        out_u64("adp", fnv(ab, w));
        free(ab);
    }
    /* a PRIVATE variant of the input that differs between threads (every value
     * shifted by a thread-dependent amount, modulo 2^64): in the lockstep phase
     * all threads are then inside the same encoder at the same moment with
     * different data, so state kept between or across calls shows as a failed
     * round trip.  The printed flags do not depend on the shift. */
    if (n) {
        uint64_t sh = (uint64_t)vdrv_tid * 0x9E3779B97F4A7C15ULL;
        uint64_t *pv = malloc(n * sizeof(uint64_t));
        for (size_t i = 0; i < n; i++) pv[i] = v[i] + sh;
        size_t bytes = n * sizeof(uint64_t);
        w = varintFOREncode(buf, pv, n, NULL);
        out_u64("p_for", w && varintFORDecode(buf, out, n) == n && !memcmp(out, pv, bytes));
        w = varintFORBatchEncode(buf, pv, n, NULL);
        out_u64("p_forb", w && varintFORDecode(buf, out, n) == n && !memcmp(out, pv, bytes));
        w = varintDeltaEncodeUnsigned(buf, pv, n);
        out_u64("p_delta", w && varintDeltaDecodeUnsigned(buf, n, out) && !memcmp(out, pv, bytes));
        w = varintRLEEncodeWithHeader(buf, pv, n, NULL);
        out_u64("p_rle", w && varintRLEDecodeWithHeader(buf, out, n) == n && !memcmp(out, pv, bytes));
        w = varintDictEncode(buf, pv, n);
        out_u64("p_dict", w && varintDictDecodeInto(buf, w, out, n) == n && !memcmp(out, pv, bytes));
        varintBP128Meta bm2;
        memset(&bm2, 0, sizeof bm2);
        w = varintBP128Encode64(buf, pv, n, &bm2);
        out_u64("p_bp", w && varintBP128Decode64(buf, out, n) == n && !memcmp(out, pv, bytes));
        varintPFORMeta pm2, pm3;
        memset(&pm2, 0, sizeof pm2);
        memset(&pm3, 0, sizeof pm3);
        w = varintPFOREncode(buf, pv, (uint32_t)n, VARINT_PFOR_THRESHOLD_95, &pm2);
        out_u64("p_pfor", w && varintPFORDecode(buf, out, &pm3) == n && !memcmp(out, pv, bytes));
        uint8_t *ab = malloc(varintAdaptiveMaxSize(n) + n * 8 + 4096);
        varintAdaptiveMeta am2, am3;
        memset(&am2, 0, sizeof am2);
        memset(&am3, 0, sizeof am3);
        w = varintAdaptiveEncode(ab, pv, n, &am2);
        out_u64("p_adp", w && varintAdaptiveDecode(ab, out, n, &am3) == n && !memcmp(out, pv, bytes));
        free(ab);
        free(pv);
    }
    free(out);
    free(buf);
}

/* conc_bm Lset1 Lset2 Lprobes : binary set algebra and queries on SHARED operands */
static void h_conc_bm(const vcase *c) {
    size_t n1, n2, np;
    const varintBitmap *a = shared_get(c, "bm0", mk_bm0, &n1);
    const varintBitmap *b = shared_get(c, "bm1", mk_bm1, &n2);
    uint64_t *pr = arg_list(c, 2, &np);
    if (!a || !b) { out_str("bm", "null"); free(pr); return; }
    uint16_t *arr = malloc(65536 * sizeof(uint16_t));
    varintBitmap *(*ops[4])(const varintBitmap *, const varintBitmap *) = {varintBitmapAnd, varintBitmapOr, varintBitmapXor, varintBitmapAndNot};
    const char *names[4] = {"and", "or", "xor", "andnot"};
    for (int k = 0; k < 4; k++) {
        varintBitmap *r = ops[k](a, b);
        if (!r) { out_str(names[k], "null"); continue; }
        uint32_t cnt = varintBitmapToArray(r, arr);
        out_u64(names[k], fnv(arr, cnt * 2u) ^ cnt);
        varintBitmapFree(r);
    }
    uint64_t acc = 0;
    for (size_t i = 0; i < np; i++) acc = acc * 3 + (varintBitmapContains(a, (uint16_t)pr[i]) ? 1 : 0) + (varintBitmapContains(b, (uint16_t)pr[i]) ? 2 : 0);
    out_u64("probe", acc);
    out_u64("card", varintBitmapCardinality(a) * 65537ull + varintBitmapCardinality(b));
    uint8_t *eb = malloc(varintBitmapSizeBytes(a) + 65536 * 2 + 64);
    size_t w = varintBitmapEncode(a, eb);
    out_u64("enc", fnv(eb, w));
    varintBitmap *cl = varintBitmapClone(a);
    if (cl) { out_u64("clone", varintBitmapCardinality(cl)); varintBitmapFree(cl); }
    free(eb);
    free(arr);
    free(pr);
}

static const vreg tab[] = {
    {"conc_dict", h_conc_dict}, {"conc_enc", h_conc_enc}, {"conc_bm", h_conc_bm},
};
VREGISTER(tab)
