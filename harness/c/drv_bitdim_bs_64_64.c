/* varintBitstream.h instantiated with VBITS uint64_t, VBITSVAL uint64_t */
#define VBITS uint64_t
#define VBITSVAL uint64_t
#define BITDIM_BS_ID 64_64
#include "bitdim_bs_inst.h"
