/* drv_srctagged.c — C side of the src_tagged_* handlers.  The same calls are
 * evaluated by the model driver on the Gallina functions that gen/c2coq.py
 * regenerates from the current src/varintTagged.c (harness/ml/drv_srctagged.ml);
 * a difference is a bug of the translator (or of CSem.v).  Destinations are
 * exact-size buffers inside a canary region whose whole content is printed;
 * sources end flush against an inaccessible page. */
#include "core.h"
#include "varintTagged.h"
#include <stdlib.h>
#include <string.h>

varintWidth varintTaggedPutVarint32(uint8_t *p, uint32_t v);
varintWidth varintTaggedGetVarint32(const uint8_t *z, uint32_t *pResult);

static void put_like(gbuf *g, varintWidth w) {
    out_u64("ret", w);
    if (strcmp(gbuf_guard(g), "ok") != 0) {
        out_str("buf", gbuf_guard(g));
    } else {
        out_hex("buf", g->p, g->size);
    }
}

static gbuf buf_arg(const vcase *c, int i) {
    size_t len;
    uint8_t *b = arg_hex(c, i, &len);
    gbuf g = gbuf_new(len, 0);
    gbuf_prefill(&g, b, len);
    free(b);
    return g;
}

static gpage page_arg(const vcase *c, int i) {
    size_t len;
    uint8_t *b = arg_hex(c, i, &len);
    gpage in = gpage_new(b, len);
    free(b);
    return in;
}

static void h_len(const vcase *c) { out_u64("ret", varintTaggedLen(arg_u64(c, 0))); }

static void h_getlen(const vcase *c) {
    gpage in = page_arg(c, 0);
    out_u64("ret", varintTaggedGetLen(in.p));
    gpage_free(&in);
}

/* src_tagged_put x hexbuf */
static void h_put(const vcase *c) {
    gbuf g = buf_arg(c, 1);
    varintWidth w = varintTaggedPut64(g.p, arg_u64(c, 0));
    put_like(&g, w);
    gbuf_free(&g);
}

static void h_put32(const vcase *c) {
    gbuf g = buf_arg(c, 1);
    varintWidth w = varintTaggedPutVarint32(g.p, (uint32_t)arg_u64(c, 0));
    put_like(&g, w);
    gbuf_free(&g);
}

/* src_tagged_fixed x width hexbuf */
static void h_fixed(const vcase *c) {
    gbuf g = buf_arg(c, 2);
    varintWidth w = varintTaggedPut64FixedWidth(g.p, arg_u64(c, 0), (varintWidth)arg_u64(c, 1));
    put_like(&g, w);
    gbuf_free(&g);
}

/* src_tagged_get hex n init */
static void h_get(const vcase *c) {
    gpage in = page_arg(c, 0);
    uint64_t v = arg_u64(c, 2);
    varintWidth w = varintTaggedGet(in.p, (int32_t)arg_i64(c, 1), &v);
    out_u64("ret", w);
    out_u64("v", v);
    gpage_free(&in);
}

static void h_get64(const vcase *c) {
    gpage in = page_arg(c, 0);
    uint64_t v = arg_u64(c, 1);
    varintWidth w = varintTaggedGet64(in.p, &v);
    out_u64("ret", w);
    out_u64("v", v);
    gpage_free(&in);
}

static void h_get32(const vcase *c) {
    gpage in = page_arg(c, 0);
    uint32_t v = (uint32_t)arg_u64(c, 1);
    varintWidth w = varintTaggedGetVarint32(in.p, &v);
    out_u64("ret", w);
    out_u64("v", v);
    gpage_free(&in);
}

static void h_getrv(const vcase *c) {
    gpage in = page_arg(c, 0);
    out_u64("ret", varintTaggedGet64ReturnValue(in.p));
    gpage_free(&in);
}

/* src_tagged_add hexbuf add force */
static void h_add(const vcase *c) {
    gbuf g = buf_arg(c, 0);
    int64_t add = arg_i64(c, 1);
    varintWidth w = arg_u64(c, 2) ? varintTaggedAddGrow(g.p, add) : varintTaggedAddNoGrow(g.p, add);
    put_like(&g, w);
    gbuf_free(&g);
}

/* the header's Quick macros */
static void h_lenq(const vcase *c) {
    uint64_t x = arg_u64(c, 0);
    out_u64("ret", (uint64_t)varintTaggedLenQuick(x));
}

static void h_getlenq(const vcase *c) {
    gpage in = page_arg(c, 0);
    out_u64("ret", (uint64_t)varintTaggedGetLenQuick_(in.p));
    gpage_free(&in);
}

static void h_getq(const vcase *c) {
    gpage in = page_arg(c, 0);
    out_u64("ret", (uint64_t)varintTaggedGet64Quick_(in.p));
    gpage_free(&in);
}

/* src_tagged_fixedq x width hexbuf */
static void h_fixedq(const vcase *c) {
    gbuf g = buf_arg(c, 2);
    uint64_t x = arg_u64(c, 0);
    varintWidth w = (varintWidth)arg_u64(c, 1);
    varintTaggedPut64FixedWidthQuick_(g.p, x, w);
    if (strcmp(gbuf_guard(&g), "ok") != 0) out_str("buf", gbuf_guard(&g));
    else out_hex("buf", g.p, g.size);
    gbuf_free(&g);
}

static const vreg tab[] = {
    {"src_tagged_len", h_len},     {"src_tagged_getlen", h_getlen}, {"src_tagged_put", h_put},
    {"src_tagged_put32", h_put32}, {"src_tagged_fixed", h_fixed},   {"src_tagged_get", h_get},
    {"src_tagged_get64", h_get64}, {"src_tagged_get32", h_get32},   {"src_tagged_getrv", h_getrv},
    {"src_tagged_add", h_add},     {"src_tagged_lenq", h_lenq},     {"src_tagged_getlenq", h_getlenq},
    {"src_tagged_getq", h_getq},   {"src_tagged_fixedq", h_fixedq},
};
VREGISTER(tab)
