/* drv_oom.c — property C18: behaviour of every allocating API when one of its
 * allocations fails (dictionary, PFOR, float, adaptive, bitmap).
 *
 * Every handler: (1) builds its inputs and any long-lived object with no
 * fault plan; (2) brackets exactly ONE library call with the fault plan of
 * the case (`@oom=k` = the k-th allocation of the call returns NULL);
 * (3) examines the outcome with no fault plan.  Printed tokens, in order:
 *   nalloc=<n>  allocations the call attempted
 *   ret=ok|fail fail = the API's failure indication (0, NULL, false, -1)
 *   rt=ok|BAD   only when ret=ok: the result is fully correct (decoded /
 *               compared with an independent reference)
 *   leak=<n>    blocks neither freed nor reachable by the caller (counted over
 *               construction + call + disposal of everything the caller owns)
 *   obj=ok|BAD  long-lived objects only: still consistent (cardinality =
 *               number of members, members between "before" and "target") and
 *               usable (the same operation repeated without faults completes)
 * Object construction/disposal is bracketed with a no-fault plan only to
 * count blocks.  No file-scope mutable state: handlers are re-entrant.
 *
 * Bitmap set scripts ("S" arguments) are lists of 64-bit op words applied to a
 * fresh bitmap:  v (< 65536) Add v;  2^32|a<<16|b AddRange(a,b);
 * 2^33|v Remove v;  2^34|a<<16|b RemoveRange(a,b);
 * step<<36|2^35|a<<16|b  Add a, a+step, a+2 step, ... (< b);
 * leading words 2^60|start<<16|len: the bitmap starts as the Decode of a RUNS
 * container with these runs (the only way to a RUNS container below 4096). */
#include "core.h"
#include "varintAdaptive.h"
#include "varintBitmap.h"
#include "varintDict.h"
#include "varintFloat.h"
#include "varintPFOR.h"
#include <stdlib.h>
#include <string.h>

typedef struct { long k, n, live; } acct;
static void acct_init(acct *a, const vcase *c) { a->k = arg_oom(c); a->n = 0; a->live = 0; }
static void quiet_begin(void) { valloc_begin(0); }
static void quiet_end(acct *a) { long l = 0; valloc_end(&l); a->live += l; }
static void call_begin(acct *a) { valloc_begin(a->k); }
static void call_end(acct *a) { long l = 0; a->n = valloc_end(&l); a->live += l; }

/* ret: 0 fail, 1 ok+correct, 2 ok+wrong */
static void report(const acct *a, int ret, int obj /* -1 none, 0 BAD, 1 ok */) {
    out_u64("nalloc", (uint64_t)a->n);
    out_str("ret", ret ? "ok" : "fail");
    if (ret) out_str("rt", ret == 1 ? "ok" : "BAD");
    out_i64("leak", a->live);
    if (obj >= 0) out_str("obj", obj ? "ok" : "BAD");
}

static int cmp_u64(const void *a, const void *b) {
    uint64_t x = *(const uint64_t *)a, y = *(const uint64_t *)b;
    return (x > y) - (x < y);
}

/* ================================================================ dictionary */

static int dict_matches(const varintDict *d, const uint64_t *vals, size_t n) {
    /* d holds exactly the sorted distinct values of vals, with the right index width */
    uint64_t *s = malloc((n ? n : 1) * sizeof *s);
    memcpy(s, vals, n * sizeof *s);
    qsort(s, n, sizeof *s, cmp_u64);
    size_t u = 0;
    for (size_t i = 0; i < n; i++) if (i == 0 || s[i] != s[i - 1]) s[u++] = s[i];
    int ok = d->size == u && d->capacity >= d->size && d->values != NULL;
    for (size_t i = 0; ok && i < u; i++) ok = d->values[i] == s[i];
    if (ok && u > 0) {
        varintWidth w;
        varintExternalUnsignedEncoding((uint64_t)(u - 1), w);
        ok = d->indexWidth == w;
    }
    for (size_t i = 0; ok && i < n; i++) {
        int32_t ix = varintDictFind(d, vals[i]);
        ok = ix >= 0 && varintDictLookup(d, (uint32_t)ix) == vals[i];
    }
    free(s);
    return ok;
}

/* oom_dict_create */
static void h_dict_create(const vcase *c) {
    acct a; acct_init(&a, c);
    call_begin(&a);
    varintDict *d = varintDictCreate();
    call_end(&a);
    int ret = 0;
    if (d) {
        static const uint64_t probe[3] = {3, 1, 3};
        ret = (d->size == 0 && d->capacity == 16 && d->values) ? 1 : 2;
        quiet_begin();
        if (ret == 1 && (varintDictBuild(d, probe, 3) != 0 || !dict_matches(d, probe, 3))) ret = 2;
        varintDictFree(d);
        quiet_end(&a);
    }
    report(&a, ret, -1);
}

/* oom_dict_build Lprev Lvals : Build(vals) on a dictionary already holding prev */
static void h_dict_build(const vcase *c) {
    acct a; acct_init(&a, c);
    size_t np, n;
    uint64_t *prev = arg_list(c, 0, &np);
    uint64_t *vals = arg_list(c, 1, &n);
    quiet_begin();
    varintDict *d = varintDictCreate();
    if (np) varintDictBuild(d, prev, np);
    quiet_end(&a);
    call_begin(&a);
    int r = varintDictBuild(d, vals, n);
    call_end(&a);
    int ret, obj;
    if (r == 0) {
        ret = dict_matches(d, vals, n) ? 1 : 2;
        obj = ret == 1;
    } else {
        ret = 0;
        /* unchanged and usable */
        obj = np ? dict_matches(d, prev, np) : (d->size == 0 && d->values != NULL);
        quiet_begin();
        obj = obj && varintDictBuild(d, vals, n) == 0 && dict_matches(d, vals, n);
        quiet_end(&a);
    }
    quiet_begin();
    varintDictFree(d);
    quiet_end(&a);
    report(&a, ret, obj);
    free(prev); free(vals);
}

static int same_u64(const uint64_t *x, const uint64_t *y, size_t n) {
    return n == 0 || memcmp(x, y, n * sizeof *x) == 0;
}

/* oom_dict_encode Lvals */
static void h_dict_encode(const vcase *c) {
    acct a; acct_init(&a, c);
    size_t n;
    uint64_t *vals = arg_list(c, 0, &n);
    size_t cap = 64 + 20 * n;
    uint8_t *buf = calloc(cap, 1);
    call_begin(&a);
    size_t w = varintDictEncode(buf, vals, n);
    call_end(&a);
    int ret = 0;
    if (w) {
        size_t cnt = 0;
        uint64_t *out = w <= cap ? varintDictDecode(buf, w, &cnt) : NULL;
        ret = (out && cnt == n && same_u64(out, vals, n)) ? 1 : 2;
        free(out);
    }
    report(&a, ret, -1);
    free(buf); free(vals);
}

/* oom_dict_size Lvals */
static void h_dict_size(const vcase *c) {
    acct a; acct_init(&a, c);
    size_t n;
    uint64_t *vals = arg_list(c, 0, &n);
    uint8_t *buf = calloc(64 + 20 * n, 1);
    size_t ref = varintDictEncode(buf, vals, n);
    call_begin(&a);
    size_t s = varintDictEncodedSize(vals, n);
    call_end(&a);
    report(&a, s == 0 ? 0 : (s == ref ? 1 : 2), -1);
    free(buf); free(vals);
}

/* oom_dict_ratio Lvals : varintDictCompressionRatio (0.0f = failure) */
static void h_dict_ratio(const vcase *c) {
    acct a; acct_init(&a, c);
    size_t n;
    uint64_t *vals = arg_list(c, 0, &n);
    float ref = varintDictCompressionRatio(vals, n);
    call_begin(&a);
    float r = varintDictCompressionRatio(vals, n);
    call_end(&a);
    report(&a, r == 0.0f ? 0 : (memcmp(&r, &ref, sizeof r) == 0 ? 1 : 2), -1);
    free(vals);
}

/* oom_dict_stats Lvals */
static void h_dict_stats(const vcase *c) {
    acct a; acct_init(&a, c);
    size_t n;
    uint64_t *vals = arg_list(c, 0, &n);
    varintDictStats ref, st;
    memset(&ref, 0, sizeof ref); memset(&st, 0, sizeof st);
    int rr = varintDictGetStats(vals, n, &ref);
    call_begin(&a);
    int r = varintDictGetStats(vals, n, &st);
    call_end(&a);
    int ret = 0;
    if (r == 0) {
        ret = (rr == 0 && st.uniqueCount == ref.uniqueCount && st.totalCount == ref.totalCount &&
               st.dictBytes == ref.dictBytes && st.indexBytes == ref.indexBytes &&
               st.totalBytes == ref.totalBytes && st.originalBytes == ref.originalBytes &&
               st.totalCount == n && st.originalBytes == n * 8 &&
               !memcmp(&st.compressionRatio, &ref.compressionRatio, sizeof(float)) &&
               !memcmp(&st.spaceReduction, &ref.spaceReduction, sizeof(float))) ? 1 : 2;
    }
    report(&a, ret, -1);
    free(vals);
}

/* oom_dict_decode Lvals : Decode of the fault-free encoding of vals */
static void h_dict_decode(const vcase *c) {
    acct a; acct_init(&a, c);
    size_t n;
    uint64_t *vals = arg_list(c, 0, &n);
    uint8_t *buf = calloc(64 + 20 * n, 1);
    size_t w = varintDictEncode(buf, vals, n);
    size_t cnt = 0;
    call_begin(&a);
    uint64_t *out = varintDictDecode(buf, w, &cnt);
    call_end(&a);
    int ret = 0;
    if (out) {
        ret = (cnt == n && same_u64(out, vals, n)) ? 1 : 2;
        quiet_begin();
        free(out);
        quiet_end(&a);
    }
    report(&a, ret, -1);
    free(buf); free(vals);
}

/* oom_dict_decode_into Lvals */
static void h_dict_decode_into(const vcase *c) {
    acct a; acct_init(&a, c);
    size_t n;
    uint64_t *vals = arg_list(c, 0, &n);
    uint8_t *buf = calloc(64 + 20 * n, 1);
    size_t w = varintDictEncode(buf, vals, n);
    uint64_t *out = calloc(n ? n : 1, sizeof *out);
    call_begin(&a);
    size_t r = varintDictDecodeInto(buf, w, out, n);
    call_end(&a);
    report(&a, r == 0 ? 0 : ((r == n && same_u64(out, vals, n)) ? 1 : 2), -1);
    free(out); free(buf); free(vals);
}

/* ====================================================================== PFOR */

/* oom_pfor_threshold Lvals threshold */
static void h_pfor_threshold(const vcase *c) {
    acct a; acct_init(&a, c);
    size_t n;
    uint64_t *vals = arg_list(c, 0, &n);
    uint32_t thr = (uint32_t)arg_u64(c, 1);
    varintPFORMeta ref, m;
    memset(&ref, 0, sizeof ref); memset(&m, 0xEE, sizeof m);
    varintWidth wr = varintPFORComputeThreshold(vals, (uint32_t)n, thr, &ref);
    call_begin(&a);
    varintWidth w = varintPFORComputeThreshold(vals, (uint32_t)n, thr, &m);
    call_end(&a);
    int ret;
    if (n > 0 && m.count == 0) {
        /* the out-of-memory indication: zeroed metadata (count 0 for a non-empty input) */
        ret = 0;
    } else {
        ret = (w == wr && m.min == ref.min && m.width == ref.width && m.count == ref.count &&
               m.exceptionCount == ref.exceptionCount && m.exceptionMarker == ref.exceptionMarker &&
               m.threshold == ref.threshold && m.thresholdValue == ref.thresholdValue) ? 1 : 2;
    }
    report(&a, ret, -1);
    free(vals);
}

/* oom_pfor_encode Lvals threshold */
static void h_pfor_encode(const vcase *c) {
    acct a; acct_init(&a, c);
    size_t n;
    uint64_t *vals = arg_list(c, 0, &n);
    uint32_t thr = (uint32_t)arg_u64(c, 1);
    size_t cap = 64 + 28 * n;
    uint8_t *buf = calloc(cap, 1);
    varintPFORMeta m;
    memset(&m, 0, sizeof m);
    call_begin(&a);
    size_t w = varintPFOREncode(buf, vals, (uint32_t)n, thr, &m);
    call_end(&a);
    int ret = 0;
    if (w) {
        uint64_t *out = calloc(n + 1, sizeof *out);
        varintPFORMeta m2;
        memset(&m2, 0, sizeof m2);
        varintPFORReadMeta(buf, &m2);
        ret = 2;
        if (w <= cap && m2.count == n) {
            memset(&m2, 0, sizeof m2);
            size_t r = varintPFORDecode(buf, out, &m2);
            if (r == n && same_u64(out, vals, n)) ret = 1;
        }
        free(out);
    }
    report(&a, ret, -1);
    free(buf); free(vals);
}

/* ===================================================================== float */

static double *doubles_of(const uint64_t *bits, size_t n) {
    double *d = malloc((n ? n : 1) * sizeof *d);
    memcpy(d, bits, n * sizeof *d);
    return d;
}

/* oom_float_encode Lbits precision mode */
static void h_float_encode(const vcase *c) {
    acct a; acct_init(&a, c);
    size_t n;
    uint64_t *bits = arg_list(c, 0, &n);
    varintFloatPrecision prec = (varintFloatPrecision)arg_u64(c, 1);
    varintFloatEncodingMode mode = (varintFloatEncodingMode)arg_u64(c, 2);
    double *vals = doubles_of(bits, n);
    size_t cap = varintFloatMaxEncodedSize(n, prec) + 64;
    uint8_t *ref = calloc(cap, 1), *buf = calloc(cap, 1);
    size_t wr = varintFloatEncode(ref, vals, n, prec, mode);
    call_begin(&a);
    size_t w = varintFloatEncode(buf, vals, n, prec, mode);
    call_end(&a);
    int ret = 0;
    if (w) {
        ret = (w == wr && memcmp(buf, ref, w) == 0) ? 1 : 2;
        if (ret == 1 && prec == VARINT_FLOAT_PRECISION_FULL) {
            double *out = calloc(n, sizeof *out);
            size_t r = varintFloatDecode(buf, n, out);
            if (r != w || memcmp(out, vals, n * sizeof *out)) ret = 2;
            free(out);
        }
    }
    report(&a, ret, -1);
    free(ref); free(buf); free(vals); free(bits);
}

/* oom_float_encode_auto Lbits errbits mode : varintFloatEncodeAuto, max_relative_error given as bit pattern */
static void h_float_encode_auto(const vcase *c) {
    acct a; acct_init(&a, c);
    size_t n;
    uint64_t *bits = arg_list(c, 0, &n);
    uint64_t eb = arg_u64(c, 1);
    double err;
    memcpy(&err, &eb, sizeof err);
    varintFloatEncodingMode mode = (varintFloatEncodingMode)arg_u64(c, 2);
    double *vals = doubles_of(bits, n);
    size_t cap = varintFloatMaxEncodedSize(n, VARINT_FLOAT_PRECISION_FULL) + 64;
    uint8_t *ref = calloc(cap, 1), *buf = calloc(cap, 1);
    varintFloatPrecision pr = VARINT_FLOAT_PRECISION_FULL, p = VARINT_FLOAT_PRECISION_FULL;
    size_t wr = varintFloatEncodeAuto(ref, vals, n, err, mode, &pr);
    call_begin(&a);
    size_t w = varintFloatEncodeAuto(buf, vals, n, err, mode, &p);
    call_end(&a);
    report(&a, w == 0 ? 0 : ((w == wr && p == pr && memcmp(buf, ref, w) == 0) ? 1 : 2), -1);
    free(ref); free(buf); free(vals); free(bits);
}

/* oom_float_decode Lbits precision mode */
static void h_float_decode(const vcase *c) {
    acct a; acct_init(&a, c);
    size_t n;
    uint64_t *bits = arg_list(c, 0, &n);
    varintFloatPrecision prec = (varintFloatPrecision)arg_u64(c, 1);
    varintFloatEncodingMode mode = (varintFloatEncodingMode)arg_u64(c, 2);
    double *vals = doubles_of(bits, n);
    size_t cap = varintFloatMaxEncodedSize(n, prec) + 64;
    uint8_t *buf = calloc(cap, 1);
    size_t w = varintFloatEncode(buf, vals, n, prec, mode);
    double *ref = calloc(n ? n : 1, sizeof *ref), *out = calloc(n ? n : 1, sizeof *out);
    size_t rr = varintFloatDecode(buf, n, ref);
    call_begin(&a);
    size_t r = varintFloatDecode(buf, n, out);
    call_end(&a);
    int ret = 0;
    if (r) {
        ret = (r == rr && r == w && memcmp(out, ref, n * sizeof *out) == 0) ? 1 : 2;
        if (ret == 1 && prec == VARINT_FLOAT_PRECISION_FULL && memcmp(out, vals, n * sizeof *out)) ret = 2;
    }
    report(&a, ret, -1);
    free(ref); free(out); free(buf); free(vals); free(bits);
}

/* ================================================================== adaptive */

/* oom_adp_unique Lvals : varintAdaptiveCountUnique.  On allocation failure the
 * function returns `count` ("conservative estimate"; the header documents the
 * result as approximate): reported as ret=fail unless that IS the exact answer */
static void h_adp_unique(const vcase *c) {
    acct a; acct_init(&a, c);
    size_t n;
    uint64_t *vals = arg_list(c, 0, &n);
    size_t ref = varintAdaptiveCountUnique(vals, n);
    call_begin(&a);
    size_t u = varintAdaptiveCountUnique(vals, n);
    call_end(&a);
    report(&a, u == ref ? 1 : (u == n ? 0 : 2), -1);
    free(vals);
}

static int stats_same_but_unique(const varintAdaptiveDataStats *x, const varintAdaptiveDataStats *y) {
    return x->count == y->count && x->minValue == y->minValue && x->maxValue == y->maxValue &&
           x->range == y->range && x->avgDelta == y->avgDelta && x->maxDelta == y->maxDelta &&
           x->outlierCount == y->outlierCount && !memcmp(&x->outlierRatio, &y->outlierRatio, sizeof(float)) &&
           x->isSorted == y->isSorted && x->isReverseSorted == y->isReverseSorted &&
           x->fitsInBitmapRange == y->fitsInBitmapRange;
}

/* oom_adp_analyze Lvals */
static void h_adp_analyze(const vcase *c) {
    acct a; acct_init(&a, c);
    size_t n;
    uint64_t *vals = arg_list(c, 0, &n);
    varintAdaptiveDataStats ref, st;
    varintAdaptiveAnalyze(vals, n, &ref);
    memset(&st, 0xEE, sizeof st);
    call_begin(&a);
    varintAdaptiveAnalyze(vals, n, &st);
    call_end(&a);
    int ret = 2;
    if (stats_same_but_unique(&st, &ref)) {
        float fb = (float)n / (float)n;
        if (st.uniqueCount == ref.uniqueCount && !memcmp(&st.uniqueRatio, &ref.uniqueRatio, sizeof(float))) ret = 1;
        else if (st.uniqueCount == n && !memcmp(&st.uniqueRatio, &fb, sizeof(float))) ret = 0;
    }
    report(&a, ret, -1);
    free(vals);
}

static int adp_roundtrip(const uint8_t *buf, const uint64_t *vals, size_t n) {
    uint64_t *out = calloc(n + 1, sizeof *out);
    size_t r = varintAdaptiveDecode(buf, out, n, NULL);
    int ok = r == n && same_u64(out, vals, n);
    free(out);
    return ok;
}

/* oom_adp_encode_with Lvals type */
static void h_adp_encode_with(const vcase *c) {
    acct a; acct_init(&a, c);
    size_t n;
    uint64_t *vals = arg_list(c, 0, &n);
    varintAdaptiveEncodingType t = (varintAdaptiveEncodingType)arg_u64(c, 1);
    size_t cap = 64 + 28 * n + 16384;
    uint8_t *buf = calloc(cap, 1);
    varintAdaptiveMeta meta;
    memset(&meta, 0, sizeof meta);
    call_begin(&a);
    size_t w = varintAdaptiveEncodeWith(buf, vals, n, t, &meta);
    call_end(&a);
    int ret = 0;
    if (w) ret = (w <= cap && buf[0] == (uint8_t)t && adp_roundtrip(buf, vals, n)) ? 1 : 2;
    report(&a, ret, -1);
    free(buf); free(vals);
}

/* the encoding selected when CountUnique falls back to `count` */
static varintAdaptiveEncodingType adp_fallback_selection(const uint64_t *vals, size_t n) {
    varintAdaptiveDataStats st;
    varintAdaptiveAnalyze(vals, n, &st);
    st.uniqueCount = n;
    st.uniqueRatio = (float)st.uniqueCount / (float)n;
    return varintAdaptiveSelectEncoding(&st);
}

/* oom_adp_probe Lvals : facts for oom_adp_encode (C side only) */
static void h_adp_probe(const vcase *c) {
    size_t n;
    uint64_t *vals = arg_list(c, 0, &n);
    varintAdaptiveDataStats st;
    varintAdaptiveAnalyze(vals, n, &st);
    out_u64("sel", (uint64_t)varintAdaptiveSelectEncoding(&st));
    out_u64("self", n ? (uint64_t)adp_fallback_selection(vals, n) : (uint64_t)VARINT_ADAPTIVE_TAGGED);
    free(vals);
}

/* oom_adp_encode Lvals sel selF : varintAdaptiveEncode; sel / selF = encoding
 * selected normally / when the analysis allocation fails (checked here) */
static void h_adp_encode(const vcase *c) {
    acct a; acct_init(&a, c);
    size_t n;
    uint64_t *vals = arg_list(c, 0, &n);
    uint64_t sel = arg_u64(c, 1), self = arg_u64(c, 2);
    varintAdaptiveDataStats st;
    varintAdaptiveAnalyze(vals, n, &st);
    int facts = (uint64_t)varintAdaptiveSelectEncoding(&st) == sel &&
                (uint64_t)(n ? adp_fallback_selection(vals, n) : VARINT_ADAPTIVE_TAGGED) == self;
    size_t cap = 64 + 28 * n + 16384;
    uint8_t *buf = calloc(cap, 1);
    varintAdaptiveMeta meta;
    memset(&meta, 0, sizeof meta);
    call_begin(&a);
    size_t w = varintAdaptiveEncode(buf, vals, n, &meta);
    call_end(&a);
    int ret = 0;
    if (w) ret = (w <= cap && (buf[0] == sel || buf[0] == self || buf[0] == VARINT_ADAPTIVE_TAGGED) &&
                  adp_roundtrip(buf, vals, n)) ? 1 : 2;
    out_str("facts", facts ? "ok" : "BAD");
    report(&a, ret, -1);
    free(buf); free(vals);
}

/* oom_adp_decode Lvals type : Decode of the fault-free EncodeWith(type) stream */
static void h_adp_decode(const vcase *c) {
    acct a; acct_init(&a, c);
    size_t n;
    uint64_t *vals = arg_list(c, 0, &n);
    varintAdaptiveEncodingType t = (varintAdaptiveEncodingType)arg_u64(c, 1);
    size_t cap = 64 + 28 * n + 16384;
    uint8_t *buf = calloc(cap, 1);
    size_t w = varintAdaptiveEncodeWith(buf, vals, n, t, NULL);
    uint64_t *out = calloc(n + 1, sizeof *out);
    varintAdaptiveMeta meta;
    memset(&meta, 0, sizeof meta);
    call_begin(&a);
    size_t r = varintAdaptiveDecode(buf, out, n, &meta);
    call_end(&a);
    (void)w;
    report(&a, r == 0 ? 0 : ((r == n && same_u64(out, vals, n)) ? 1 : 2), -1);
    free(out); free(buf); free(vals);
}

/* ==================================================================== bitmap */

#define BM_U 65536

/* the void-returning bulk mutators may (after the fix) return bool: call them
 * through _Generic so that this file builds against either signature.
 * Result: 0 false, 1 true, 2 no indication (void). */
typedef void (*anyfn)(void);
static int am_void(anyfn f, varintBitmap *vb, const uint16_t *v, uint32_t n) {
    ((void (*)(varintBitmap *, const uint16_t *, uint32_t))f)(vb, v, n);
    return 2;
}
static int am_bool(anyfn f, varintBitmap *vb, const uint16_t *v, uint32_t n) {
    return ((bool (*)(varintBitmap *, const uint16_t *, uint32_t))f)(vb, v, n) ? 1 : 0;
}
static int rg_void(anyfn f, varintBitmap *vb, uint16_t lo, uint16_t hi) {
    ((void (*)(varintBitmap *, uint16_t, uint16_t))f)(vb, lo, hi);
    return 2;
}
static int rg_bool(anyfn f, varintBitmap *vb, uint16_t lo, uint16_t hi) {
    return ((bool (*)(varintBitmap *, uint16_t, uint16_t))f)(vb, lo, hi) ? 1 : 0;
}
#define CALL_ADDMANY(vb, v, n)                                                         \
    _Generic(&varintBitmapAddMany,                                                     \
             void (*)(varintBitmap *, const uint16_t *, uint32_t): am_void,            \
             bool (*)(varintBitmap *, const uint16_t *, uint32_t): am_bool)(           \
        (anyfn)varintBitmapAddMany, vb, v, n)
#define CALL_RANGE(fn, vb, lo, hi)                                                     \
    _Generic(&fn,                                                                      \
             void (*)(varintBitmap *, uint16_t, uint16_t): rg_void,                    \
             bool (*)(varintBitmap *, uint16_t, uint16_t): rg_bool)((anyfn)fn, vb, lo, hi)

/* apply a set script to a bitmap (library calls) and to a reference membership array */
static void bm_apply(varintBitmap *vb, uint8_t *ref, const uint64_t *ops, size_t n) {
    for (size_t i = 0; i < n; i++) {
        uint64_t o = ops[i];
        uint32_t lo = (uint32_t)((o >> 16) & 0xFFFF), hi = (uint32_t)(o & 0xFFFF);
        if (o >> 35 & 1) {
            uint32_t step = (uint32_t)((o >> 36) & 0xFFFF);
            if (step == 0) step = 1;
            for (uint32_t v = lo; v < hi; v += step) { varintBitmapAdd(vb, (uint16_t)v); ref[v] = 1; }
        } else if (o >> 34 & 1) {
            CALL_RANGE(varintBitmapRemoveRange, vb, (uint16_t)lo, (uint16_t)hi);
            for (uint32_t v = lo; v < hi; v++) ref[v] = 0;
        } else if (o >> 33 & 1) {
            varintBitmapRemove(vb, (uint16_t)hi);
            ref[hi] = 0;
        } else if (o >> 32 & 1) {
            CALL_RANGE(varintBitmapAddRange, vb, (uint16_t)lo, (uint16_t)hi);
            for (uint32_t v = lo; v < hi; v++) ref[v] = 1;
        } else {
            varintBitmapAdd(vb, (uint16_t)hi);
            ref[hi] = 1;
        }
    }
}

static varintBitmap *bm_build(const vcase *c, int arg, uint8_t *ref) {
    size_t n;
    uint64_t *ops = arg_list(c, arg, &n);
    memset(ref, 0, BM_U);
    size_t nr = 0;
    while (nr < n && (ops[nr] >> 60 & 1)) nr++;
    varintBitmap *vb = NULL;
    if (nr) {
        uint8_t *buf = calloc(9 + 4 * nr, 1);
        uint32_t card = 0, nr32 = (uint32_t)nr;
        for (size_t i = 0; i < nr; i++) {
            uint16_t st = (uint16_t)(ops[i] >> 16), len = (uint16_t)ops[i];
            memcpy(buf + 9 + 4 * i, &st, 2);
            memcpy(buf + 9 + 4 * i + 2, &len, 2);
            card += len;
            for (uint32_t v = st; v < (uint32_t)st + len && v < BM_U; v++) ref[v] = 1;
        }
        buf[0] = (uint8_t)VARINT_BITMAP_RUNS;
        memcpy(buf + 1, &card, 4);
        memcpy(buf + 5, &nr32, 4);
        vb = varintBitmapDecode(buf, 9 + 4 * nr);
        free(buf);
        if (!vb) memset(ref, 0, BM_U);
    }
    if (!vb) vb = varintBitmapCreate();
    bm_apply(vb, ref, ops + nr, n - nr);
    free(ops);
    return vb;
}

/* internal consistency + membership: lo ⊆ members ⊆ hi (pass the same array
 * twice for equality) */
static int bm_between(const varintBitmap *vb, const uint8_t *lo, const uint8_t *hi) {
    uint32_t card = varintBitmapCardinality(vb);
    if (card > BM_U) return 0;
    uint16_t *out = malloc((BM_U + 8) * sizeof *out);
    uint32_t n = varintBitmapToArray(vb, out);
    int ok = n == card;
    uint8_t *mem = calloc(BM_U, 1);
    for (uint32_t i = 0; ok && i < n; i++) {
        if (i > 0 && out[i] <= out[i - 1]) ok = 0;
        mem[out[i]] = 1;
    }
    for (uint32_t v = 0; ok && v < BM_U; v++) {
        if (lo[v] && !mem[v]) ok = 0;
        if (mem[v] && !hi[v]) ok = 0;
    }
    /* Contains agrees on members, their neighbours and a stride */
    for (uint32_t i = 0; ok && i < n; i++) {
        if (!varintBitmapContains(vb, out[i])) ok = 0;
        uint32_t nb = out[i] + 1u;
        if (nb < BM_U && varintBitmapContains(vb, (uint16_t)nb) != (mem[nb] != 0)) ok = 0;
    }
    for (uint32_t v = 0; ok && v < BM_U; v += 257) {
        if (varintBitmapContains(vb, (uint16_t)v) != (mem[v] != 0)) ok = 0;
    }
    free(mem); free(out);
    return ok;
}
static int bm_equals(const varintBitmap *vb, const uint8_t *ref) { return bm_between(vb, ref, ref); }

/* a fresh object is usable: mutate it and look again */
static int bm_usable(varintBitmap *vb, uint8_t *ref) {
    static const uint16_t probe[4] = {0, 4097, 65535, 12345};
    int ok = 1;
    for (int i = 0; i < 4; i++) {
        bool was = ref[probe[i]] != 0;
        bool r = varintBitmapAdd(vb, probe[i]);
        ref[probe[i]] = 1;
        ok = ok && (r == !was);
    }
    ok = ok && bm_equals(vb, ref);
    ok = ok && varintBitmapRemove(vb, 12345);
    ref[12345] = 0;
    return ok && bm_equals(vb, ref);
}

/* oom_bm_create */
static void h_bm_create(const vcase *c) {
    acct a; acct_init(&a, c);
    call_begin(&a);
    varintBitmap *vb = varintBitmapCreate();
    call_end(&a);
    int ret = 0;
    if (vb) {
        uint8_t *ref = calloc(BM_U, 1);
        quiet_begin();
        ret = (bm_equals(vb, ref) && bm_usable(vb, ref)) ? 1 : 2;
        varintBitmapFree(vb);
        quiet_end(&a);
        free(ref);
    }
    report(&a, ret, -1);
}

/* oom_bm_clone S */
static void h_bm_clone(const vcase *c) {
    acct a; acct_init(&a, c);
    uint8_t *ref = malloc(BM_U), *ref2 = malloc(BM_U);
    quiet_begin();
    varintBitmap *vb = bm_build(c, 0, ref);
    quiet_end(&a);
    memcpy(ref2, ref, BM_U);
    call_begin(&a);
    varintBitmap *cl = varintBitmapClone(vb);
    call_end(&a);
    int ret = 0;
    quiet_begin();
    if (cl) {
        ret = (bm_equals(cl, ref) && bm_usable(cl, ref2)) ? 1 : 2;
        varintBitmapFree(cl);
    }
    int obj = bm_equals(vb, ref);
    varintBitmapFree(vb);
    quiet_end(&a);
    report(&a, ret, obj);
    free(ref); free(ref2);
}

/* oom_bm_add S v */
static void h_bm_add(const vcase *c) {
    acct a; acct_init(&a, c);
    uint8_t *before = malloc(BM_U), *target = malloc(BM_U);
    uint16_t v = (uint16_t)arg_u64(c, 1);
    quiet_begin();
    varintBitmap *vb = bm_build(c, 0, before);
    quiet_end(&a);
    memcpy(target, before, BM_U);
    target[v] = 1;
    call_begin(&a);
    bool r = varintBitmapAdd(vb, v);
    call_end(&a);
    int ret, obj;
    quiet_begin();
    if (r) {
        ret = (!before[v] && bm_equals(vb, target)) ? 1 : 2;
        obj = bm_equals(vb, target);
    } else if (before[v]) {
        /* false = already present: a correct answer, not a failure */
        ret = bm_equals(vb, before) ? 1 : 2;
        obj = bm_equals(vb, before);
    } else {
        ret = 0;
        obj = bm_equals(vb, before);
        obj = obj && varintBitmapAdd(vb, v) && bm_equals(vb, target);
    }
    varintBitmapFree(vb);
    quiet_end(&a);
    report(&a, ret, obj);
    free(before); free(target);
}

/* oom_bm_remove S v */
static void h_bm_remove(const vcase *c) {
    acct a; acct_init(&a, c);
    uint8_t *before = malloc(BM_U), *target = malloc(BM_U);
    uint16_t v = (uint16_t)arg_u64(c, 1);
    quiet_begin();
    varintBitmap *vb = bm_build(c, 0, before);
    quiet_end(&a);
    memcpy(target, before, BM_U);
    target[v] = 0;
    call_begin(&a);
    bool r = varintBitmapRemove(vb, v);
    call_end(&a);
    int ret, obj;
    quiet_begin();
    if (r) {
        ret = (before[v] && bm_equals(vb, target)) ? 1 : 2;
        obj = bm_equals(vb, target);
        /* still usable (the container may not have been converted): put v back, take it out */
        obj = obj && varintBitmapAdd(vb, v) && bm_equals(vb, before) && varintBitmapRemove(vb, v) &&
              bm_equals(vb, target);
    } else if (!before[v]) {
        ret = bm_equals(vb, before) ? 1 : 2;
        obj = bm_equals(vb, before);
    } else {
        ret = 0;
        obj = bm_equals(vb, before);
        obj = obj && varintBitmapRemove(vb, v) && bm_equals(vb, target);
    }
    varintBitmapFree(vb);
    quiet_end(&a);
    report(&a, ret, obj);
    free(before); free(target);
}

/* common tail of the bulk mutators: r = 0 false, 1 true, 2 void.
 * adding: before ⊆ members ⊆ target; removing: target ⊆ members ⊆ before */
static void bulk_verdict(acct *a, varintBitmap *vb, int r, const uint8_t *before, const uint8_t *target,
                         int adding, int *ret, int *obj) {
    int at_target = bm_equals(vb, target);
    int inside = adding ? bm_between(vb, before, target) : bm_between(vb, target, before);
    if (r == 0) {
        *ret = 0;
    } else {
        /* true, or no way to report: the caller takes the set as complete */
        *ret = at_target ? 1 : 2;
    }
    *obj = inside;
    (void)a;
}

/* oom_bm_add_many S Lvals */
static void h_bm_add_many(const vcase *c) {
    acct a; acct_init(&a, c);
    uint8_t *before = malloc(BM_U), *target = malloc(BM_U);
    size_t n;
    uint64_t *l = arg_list(c, 1, &n);
    uint16_t *vs = malloc((n ? n : 1) * sizeof *vs);
    quiet_begin();
    varintBitmap *vb = bm_build(c, 0, before);
    quiet_end(&a);
    memcpy(target, before, BM_U);
    for (size_t i = 0; i < n; i++) { vs[i] = (uint16_t)l[i]; target[vs[i]] = 1; }
    call_begin(&a);
    int r = CALL_ADDMANY(vb, vs, (uint32_t)n);
    call_end(&a);
    int ret, obj;
    quiet_begin();
    bulk_verdict(&a, vb, r, before, target, 1, &ret, &obj);
    if (obj && ret != 1) {
        /* usable: the same call without faults completes the job */
        CALL_ADDMANY(vb, vs, (uint32_t)n);
        obj = bm_equals(vb, target);
    }
    varintBitmapFree(vb);
    quiet_end(&a);
    report(&a, ret, obj);
    free(before); free(target); free(l); free(vs);
}

/* oom_bm_add_range S lo hi   /   oom_bm_remove_range S lo hi */
static void range_common(const vcase *c, int adding) {
    acct a; acct_init(&a, c);
    uint8_t *before = malloc(BM_U), *target = malloc(BM_U);
    uint32_t lo = (uint32_t)arg_u64(c, 1), hi = (uint32_t)arg_u64(c, 2);
    quiet_begin();
    varintBitmap *vb = bm_build(c, 0, before);
    quiet_end(&a);
    memcpy(target, before, BM_U);
    for (uint32_t v = lo; v < hi; v++) target[v] = adding ? 1 : 0;
    call_begin(&a);
    int r = adding ? CALL_RANGE(varintBitmapAddRange, vb, (uint16_t)lo, (uint16_t)hi)
                   : CALL_RANGE(varintBitmapRemoveRange, vb, (uint16_t)lo, (uint16_t)hi);
    call_end(&a);
    int ret, obj;
    quiet_begin();
    bulk_verdict(&a, vb, r, before, target, adding, &ret, &obj);
    if (obj && ret != 1) {
        if (adding) CALL_RANGE(varintBitmapAddRange, vb, (uint16_t)lo, (uint16_t)hi);
        else CALL_RANGE(varintBitmapRemoveRange, vb, (uint16_t)lo, (uint16_t)hi);
        obj = bm_equals(vb, target);
    }
    varintBitmapFree(vb);
    quiet_end(&a);
    report(&a, ret, obj);
    free(before); free(target);
}
static void h_bm_add_range(const vcase *c) { range_common(c, 1); }
static void h_bm_remove_range(const vcase *c) { range_common(c, 0); }

/* oom_bm_and / or / xor / andnot S1 S2 */
static void setop_common(const vcase *c, int op) {
    acct a; acct_init(&a, c);
    uint8_t *r1 = malloc(BM_U), *r2 = malloc(BM_U), *want = malloc(BM_U);
    quiet_begin();
    varintBitmap *x = bm_build(c, 0, r1);
    varintBitmap *y = bm_build(c, 1, r2);
    quiet_end(&a);
    for (uint32_t v = 0; v < BM_U; v++) {
        want[v] = op == 0 ? (r1[v] && r2[v]) : op == 1 ? (r1[v] || r2[v]) : op == 2 ? (r1[v] != r2[v]) : (r1[v] && !r2[v]);
    }
    call_begin(&a);
    varintBitmap *res = op == 0 ? varintBitmapAnd(x, y) : op == 1 ? varintBitmapOr(x, y)
                      : op == 2 ? varintBitmapXor(x, y) : varintBitmapAndNot(x, y);
    call_end(&a);
    int ret = 0;
    quiet_begin();
    if (res) {
        ret = bm_equals(res, want) ? 1 : 2;
        if (ret == 1 && !bm_usable(res, want)) ret = 2;
        varintBitmapFree(res);
    }
    int obj = bm_equals(x, r1) && bm_equals(y, r2);
    varintBitmapFree(x);
    varintBitmapFree(y);
    quiet_end(&a);
    report(&a, ret, obj);
    free(r1); free(r2); free(want);
}
static void h_bm_and(const vcase *c) { setop_common(c, 0); }
static void h_bm_or(const vcase *c) { setop_common(c, 1); }
static void h_bm_xor(const vcase *c) { setop_common(c, 2); }
static void h_bm_andnot(const vcase *c) { setop_common(c, 3); }

/* oom_bm_encode S  (no allocation expected) */
static void h_bm_encode(const vcase *c) {
    acct a; acct_init(&a, c);
    uint8_t *ref = malloc(BM_U);
    quiet_begin();
    varintBitmap *vb = bm_build(c, 0, ref);
    quiet_end(&a);
    uint8_t *buf = calloc(16 + BM_U * 2, 1);
    call_begin(&a);
    size_t w = varintBitmapEncode(vb, buf);
    call_end(&a);
    int ret = 0;
    quiet_begin();
    if (w) {
        varintBitmap *d = varintBitmapDecode(buf, w);
        ret = (d && bm_equals(d, ref)) ? 1 : 2;
        varintBitmapFree(d);
    }
    int obj = bm_equals(vb, ref);
    varintBitmapFree(vb);
    quiet_end(&a);
    report(&a, ret, obj);
    free(buf); free(ref);
}

/* oom_bm_decode S : Decode of the fault-free encoding */
static void h_bm_decode(const vcase *c) {
    acct a; acct_init(&a, c);
    uint8_t *ref = malloc(BM_U);
    varintBitmap *vb = bm_build(c, 0, ref);
    uint8_t *buf = calloc(16 + BM_U * 2, 1);
    size_t w = varintBitmapEncode(vb, buf);
    varintBitmapFree(vb);
    call_begin(&a);
    varintBitmap *d = varintBitmapDecode(buf, w);
    call_end(&a);
    int ret = 0;
    if (d) {
        quiet_begin();
        ret = (bm_equals(d, ref) && bm_usable(d, ref)) ? 1 : 2;
        varintBitmapFree(d);
        quiet_end(&a);
    }
    report(&a, ret, -1);
    free(buf); free(ref);
}

/* oom_bm_to_array S  (no allocation expected) */
static void h_bm_to_array(const vcase *c) {
    acct a; acct_init(&a, c);
    uint8_t *ref = malloc(BM_U);
    quiet_begin();
    varintBitmap *vb = bm_build(c, 0, ref);
    quiet_end(&a);
    uint16_t *out = malloc((BM_U + 8) * sizeof *out);
    call_begin(&a);
    uint32_t n = varintBitmapToArray(vb, out);
    call_end(&a);
    int ok = n == varintBitmapCardinality(vb);
    uint32_t k = 0;
    for (uint32_t v = 0; ok && v < BM_U; v++) {
        if (ref[v]) { if (k >= n || out[k] != v) ok = 0; k++; }
    }
    ok = ok && k == n;
    quiet_begin();
    int obj = bm_equals(vb, ref);
    varintBitmapFree(vb);
    quiet_end(&a);
    report(&a, ok ? 1 : 2, obj);
    free(out); free(ref);
}

static const vreg tab[] = {
    {"oom_dict_create", h_dict_create},
    {"oom_dict_build", h_dict_build},
    {"oom_dict_encode", h_dict_encode},
    {"oom_dict_size", h_dict_size},
    {"oom_dict_stats", h_dict_stats},
    {"oom_dict_ratio", h_dict_ratio},
    {"oom_dict_decode", h_dict_decode},
    {"oom_dict_decode_into", h_dict_decode_into},
    {"oom_pfor_threshold", h_pfor_threshold},
    {"oom_pfor_encode", h_pfor_encode},
    {"oom_float_encode", h_float_encode},
    {"oom_float_encode_auto", h_float_encode_auto},
    {"oom_float_decode", h_float_decode},
    {"oom_adp_unique", h_adp_unique},
    {"oom_adp_analyze", h_adp_analyze},
    {"oom_adp_encode_with", h_adp_encode_with},
    {"oom_adp_probe", h_adp_probe},
    {"oom_adp_encode", h_adp_encode},
    {"oom_adp_decode", h_adp_decode},
    {"oom_bm_create", h_bm_create},
    {"oom_bm_clone", h_bm_clone},
    {"oom_bm_add", h_bm_add},
    {"oom_bm_remove", h_bm_remove},
    {"oom_bm_add_many", h_bm_add_many},
    {"oom_bm_add_range", h_bm_add_range},
    {"oom_bm_remove_range", h_bm_remove_range},
    {"oom_bm_and", h_bm_and},
    {"oom_bm_or", h_bm_or},
    {"oom_bm_xor", h_bm_xor},
    {"oom_bm_andnot", h_bm_andnot},
    {"oom_bm_encode", h_bm_encode},
    {"oom_bm_decode", h_bm_decode},
    {"oom_bm_to_array", h_bm_to_array},
};
VREGISTER(tab)
