/* varintBitstream.h instantiated with VBITS uint32_t, VBITSVAL uint64_t */
#define VBITS uint32_t
#define VBITSVAL uint64_t
#define BITDIM_BS_ID 32_64
#include "bitdim_bs_inst.h"
