/* drv_frame.c — scalar encoders writing into a destination of EXACTLY the
 * bytes they report, flush against an inaccessible page: any store beyond
 * the reported bytes faults even when it rewrites the value already there
 * (a read-modify-write "spill" is invisible to canaries, but it is a write to
 * memory the caller did not hand over — another thread's adjacent output).
 * frame_put <family> <x> <w>   families: tagged tagged_fixed ext ext_fixed
 *                              extbe extbe_fixed chained csimple
 * <w> = the number of bytes the destination has (the length the value needs,
 * or the fixed width requested). */
#include "core.h"
#include "varintChained.h"
#include "varintChainedSimple.h"
#include "varintExternal.h"
#include "varintExternalBigEndian.h"
#include "varintTagged.h"
#include <string.h>

static void h_frame_put(const vcase *c) {
    const char *fam = c->argv[0];
    uint64_t x = arg_u64(c, 1);
    size_t w = (size_t)arg_u64(c, 2);
    uint8_t zero[16];
    memset(zero, 0xEE, sizeof zero);
    gpage out = gpage_new(zero, w);
    uint64_t r = 0;
    if (!strcmp(fam, "tagged")) r = varintTaggedPut64(out.p, x);
    else if (!strcmp(fam, "tagged_fixed")) r = varintTaggedPut64FixedWidth(out.p, x, (varintWidth)w);
    else if (!strcmp(fam, "ext")) r = varintExternalPut(out.p, x);
    else if (!strcmp(fam, "ext_fixed")) { varintExternalPutFixedWidth(out.p, x, (varintWidth)w); r = w; }
    else if (!strcmp(fam, "extbe")) r = varintExternalBigEndianPut(out.p, x);
    else if (!strcmp(fam, "extbe_fixed")) { varintExternalBigEndianPutFixedWidth(out.p, x, (varintWidth)w); r = w; }
    else if (!strcmp(fam, "chained")) r = varintChainedPutVarint(out.p, x);
    else if (!strcmp(fam, "csimple")) r = varintChainedSimpleEncode64(out.p, x);
    else { out_str("error", "family"); gpage_free(&out); return; }
    out_u64("w", r);
    out_hex("bytes", out.p, r <= w ? (size_t)r : w);
    gpage_free(&out);
}

static const vreg tab[] = {{"frame_put", h_frame_put}};
VREGISTER(tab)
