/* drv_chained.c — handlers for varintChained.{c,h} and varintChainedSimple.{c,h} */
#include "core.h"
#include "varint.h"
#include "varintChained.h"
#include "varintChainedSimple.h"
#include <stdlib.h>
#include <string.h>

static const char *ch_frame_after(const gbuf *g, size_t used) {
    for (size_t i = used; i < g->size; i++) {
        if (g->p[i] != gbuf_canary((size_t)(g->p - g->base) + i)) return "dirty";
    }
    return "ok";
}

#define CAP(w) ((size_t)((w) <= 9 ? (w) : 9))

/* chained_rt x align : put, get (on an exact-size guard-paged copy), len,
 * and the 32-bit macro reader on the same bytes (saturates above 2^32-1) */
static void h_chained_rt(const vcase *c) {
    uint64_t x = arg_u64(c, 0);
    unsigned align = (unsigned)arg_u64(c, 1);
    gbuf g = gbuf_new(9, align);
    varintWidth w = varintChainedPutVarint(g.p, x);
    out_u64("w", w);
    out_hex("put", g.p, CAP(w));
    out_str("frame", ch_frame_after(&g, CAP(w)));
    out_str("guard", gbuf_guard(&g));
    gpage in = gpage_new(g.p, CAP(w));
    uint64_t v = 0;
    varintWidth gw = varintChainedGetVarint(in.p, &v);
    out_u64("getw", gw); out_u64("getv", v);
    out_u64("len", varintChainedVarintLen(x));
    uint32_t v32 = 0;
    varintWidth w32 = varintChained_getVarint32(in.p, v32);
    out_u64("m32w", w32); out_u64("m32v", v32);
    gpage_free(&in);
    gbuf_free(&g);
}

/* chained32_rt x : the two 32-bit macros (and the function behind the get
 * macro, only where it may be called: encodings of 2 bytes and more) */
static void h_chained32_rt(const vcase *c) {
    uint32_t x = (uint32_t)arg_u64(c, 0);
    gbuf g = gbuf_new(9, 0);
    varintWidth w = varintChained_putVarint32(g.p, x);
    out_u64("w", w);
    out_hex("put", g.p, CAP(w));
    out_str("frame", ch_frame_after(&g, CAP(w)));
    out_str("guard", gbuf_guard(&g));
    gpage in = gpage_new(g.p, CAP(w));
    uint32_t v = 0;
    varintWidth gw = varintChained_getVarint32(in.p, v);
    out_u64("getw", gw); out_u64("getv", v);
    if (w >= 2) {
        uint32_t vf = 0;
        varintWidth fw = varintChainedGetVarint32(in.p, &vf);
        out_u64("fnw", fw); out_u64("fnv", vf);
    }
    out_u64("len", varintChainedVarintLen(x));
    gpage_free(&in);
    gbuf_free(&g);
}

/* csimple_rt x align */
static void h_csimple_rt(const vcase *c) {
    uint64_t x = arg_u64(c, 0);
    unsigned align = (unsigned)arg_u64(c, 1);
    gbuf g = gbuf_new(9, align);
    varintWidth w = varintChainedSimpleEncode64(g.p, x);
    out_u64("w", w);
    out_hex("put", g.p, CAP(w));
    out_str("frame", ch_frame_after(&g, CAP(w)));
    out_str("guard", gbuf_guard(&g));
    gpage in = gpage_new(g.p, CAP(w));
    uint64_t v = 0;
    varintWidth gw = varintChainedSimpleDecode64(in.p, &v);
    out_u64("getw", gw); out_u64("getv", v);
    out_u64("len", varintChainedSimpleLength(x));
    uint32_t v32 = 0;
    varintWidth w32 = varintChainedSimpleDecode32(in.p, &v32);
    out_u64("d32w", w32); out_u64("d32v", v32);
    gpage_free(&in);
    gbuf_free(&g);
}

/* csimple32_rt x */
static void h_csimple32_rt(const vcase *c) {
    uint32_t x = (uint32_t)arg_u64(c, 0);
    gbuf g = gbuf_new(9, 0);
    varintWidth w = varintChainedSimpleEncode32(g.p, x);
    out_u64("w", w);
    out_hex("put", g.p, CAP(w));
    out_str("frame", ch_frame_after(&g, CAP(w)));
    out_str("guard", gbuf_guard(&g));
    uint8_t e64[16];
    memset(e64, 0, sizeof e64);
    varintWidth w64 = varintChainedSimpleEncode64(e64, x);
    out_hex("put64", e64, CAP(w64));
    gpage in = gpage_new(g.p, CAP(w));
    uint32_t v = 0;
    varintWidth gw = varintChainedSimpleDecode32(in.p, &v);
    out_u64("getw", gw); out_u64("getv", v);
    v = 0;
    gw = varintChainedSimpleDecode32Fallback(in.p, &v);
    out_u64("fbw", gw); out_u64("fbv", v);
    out_u64("len", varintChainedSimpleLength(x));
    gpage_free(&in);
    gbuf_free(&g);
}

/* chained_dec hex / csimple_dec hex : decoder on arbitrary (possibly
 * non-minimal) self-delimiting bytes held in an exact-size guard-paged
 * buffer; then the length and encoding of the decoded value */
static void h_chained_dec(const vcase *c) {
    size_t len;
    uint8_t *b = arg_hex(c, 0, &len);
    gpage in = gpage_new(b, len);
    uint64_t v = 0;
    varintWidth w = varintChainedGetVarint(in.p, &v);
    out_u64("w", w); out_u64("v", v);
    uint32_t v32 = 0;
    varintWidth w32 = varintChained_getVarint32(in.p, v32);
    out_u64("m32w", w32); out_u64("m32v", v32);
    out_u64("len", varintChainedVarintLen(v));
    uint8_t e[16];
    memset(e, 0, sizeof e);
    varintWidth pw = varintChainedPutVarint(e, v);
    out_hex("put", e, CAP(pw));
    gpage_free(&in);
    free(b);
}

static void h_csimple_dec(const vcase *c) {
    size_t len;
    uint8_t *b = arg_hex(c, 0, &len);
    gpage in = gpage_new(b, len);
    uint64_t v = 0;
    varintWidth w = varintChainedSimpleDecode64(in.p, &v);
    out_u64("w", w); out_u64("v", v);
    uint32_t v32 = 0;
    varintWidth w32 = varintChainedSimpleDecode32(in.p, &v32);
    out_u64("d32w", w32); out_u64("d32v", v32);
    out_u64("len", varintChainedSimpleLength(v));
    uint8_t e[16];
    memset(e, 0, sizeof e);
    varintWidth pw = varintChainedSimpleEncode64(e, v);
    out_hex("put", e, CAP(pw));
    gpage_free(&in);
    free(b);
}

/* chained_mono a b / csimple_mono a b : lengths and encodings of two values */
static void h_chained_mono(const vcase *c) {
    uint64_t a = arg_u64(c, 0), b = arg_u64(c, 1);
    uint8_t ea[16], eb[16];
    memset(ea, 0, sizeof ea); memset(eb, 0, sizeof eb);
    varintWidth wa = varintChainedPutVarint(ea, a);
    varintWidth wb = varintChainedPutVarint(eb, b);
    out_u64("la", varintChainedVarintLen(a)); out_u64("lb", varintChainedVarintLen(b));
    out_hex("ea", ea, CAP(wa)); out_hex("eb", eb, CAP(wb));
}

static void h_csimple_mono(const vcase *c) {
    uint64_t a = arg_u64(c, 0), b = arg_u64(c, 1);
    uint8_t ea[16], eb[16];
    memset(ea, 0, sizeof ea); memset(eb, 0, sizeof eb);
    varintWidth wa = varintChainedSimpleEncode64(ea, a);
    varintWidth wb = varintChainedSimpleEncode64(eb, b);
    out_u64("la", varintChainedSimpleLength(a)); out_u64("lb", varintChainedSimpleLength(b));
    out_hex("ea", ea, CAP(wa)); out_hex("eb", eb, CAP(wb));
}

static const vreg tab[] = {
    {"chained_rt", h_chained_rt},     {"chained32_rt", h_chained32_rt},
    {"csimple_rt", h_csimple_rt},     {"csimple32_rt", h_csimple32_rt},
    {"chained_dec", h_chained_dec},   {"csimple_dec", h_csimple_dec},
    {"chained_mono", h_chained_mono}, {"csimple_mono", h_csimple_mono},
};
VREGISTER(tab)
