/* core.h — correspondence driver core: case parsing, canonical output,
 * guarded buffers (canary region for outputs, PROT_NONE page after inputs),
 * SIGSEGV capture. */
#pragma once
#include <stdint.h>
#include <stddef.h>
#include <stdbool.h>
#include <stdio.h>
#include <sys/cdefs.h>

#define MAXARGS 64
typedef struct {
    const char *api;
    int argc;
    char *argv[MAXARGS];
} vcase;

typedef void (*vhandler)(const vcase *c);
typedef struct { const char *name; vhandler fn; } vreg;
void vregister(const vreg *table, int n);
#define VREGISTER(tab)                                                         \
    __attribute__((constructor)) static void vreg_ctor_(void) {                \
        vregister(tab, (int)(sizeof(tab) / sizeof(tab[0])));                  \
    }

/* argument decoding */
uint64_t arg_u64(const vcase *c, int i);
int64_t arg_i64(const vcase *c, int i);
/* hex byte string "x00ff.."; returns malloc'd buffer (may be NULL when len 0) */
uint8_t *arg_hex(const vcase *c, int i, size_t *len);
/* list "L1,2,3" of u64; returns malloc'd */
uint64_t *arg_list(const vcase *c, int i, size_t *n);
int64_t *arg_ilist(const vcase *c, int i, size_t *n);

/* output (one line per case; key=value tokens) */
void out_u64(const char *k, uint64_t v);
void out_i64(const char *k, int64_t v);
void out_str(const char *k, const char *v);
void out_hex(const char *k, const uint8_t *p, size_t n);
void out_list(const char *k, const uint64_t *p, size_t n);
void out_ilist(const char *k, const int64_t *p, size_t n);
void out_list32(const char *k, const uint32_t *p, size_t n);

/* Output buffer inside a canary region.  gbuf_new(size, align) returns a
 * pointer p with p % 16 == align % 16 (roughly) and `pad` canary bytes on both sides.
 * gbuf_touched reports the extent [lo,hi) of bytes that differ from the
 * canary pattern inside the usable area and whether anything outside
 * [0,size) was modified. */
typedef struct {
    uint8_t *base;   /* allocation */
    uint8_t *p;      /* usable start */
    size_t size;     /* usable size */
    size_t pad;
    size_t maplen;   /* mapping length (internal) */
    uint8_t *end;    /* first inaccessible byte (internal) */
} gbuf;
gbuf gbuf_new(size_t size, unsigned align);
/* fill usable area with given prior content (len<=size), rest canary */
void gbuf_prefill(gbuf *g, const uint8_t *src, size_t len);
/* returns "ok", "lo" or "hi" */
const char *gbuf_guard(const gbuf *g);
void gbuf_free(gbuf *g);
uint8_t gbuf_canary(size_t i);

/* Allocation-failure injection (effective only in builds linked with the
 * malloc wrappers; otherwise no-ops).  A handler brackets the LIBRARY call:
 *   valloc_begin(fail_at);  r = libcall(...);  n = valloc_end(&live);
 * fail_at = 1-based index of the allocation that returns NULL (0 = none);
 * n = allocations attempted, live = blocks still allocated by the call. */
void valloc_begin(long fail_at);
long valloc_end(long *live);
int valloc_available(void);
/* fail_at requested by a trailing "@oom=k" argument of the case (0 if none) */
long arg_oom(const vcase *c);

/* Input buffer whose end is flush against an inaccessible page. */
typedef struct { uint8_t *map; size_t maplen; uint8_t *p; size_t len; } gpage;
gpage gpage_new(const uint8_t *src, size_t len);
void gpage_free(gpage *g);

/* --threads mode: index of the calling driver thread and the number of threads
 * (0 / 1 when sequential).  A handler may use them to vary the ORDER in which
 * it does its work, never what it prints. */
extern __thread int vdrv_tid;
extern int vdrv_nthreads;

/* the --poison byte of this run (0 = none): handlers use it to fill memory that
 * is NOT part of a call's declared arguments (padding bits after a declared bit
 * count, bytes after a declared length) so that a result computed from such
 * memory differs between the residue modes of the purity check */
unsigned vdrv_poison(void);
