/* varintBitstream.h instantiated with VBITS uint32_t, VBITSVAL uint32_t */
#define VBITS uint32_t
#define VBITSVAL uint32_t
#define BITDIM_BS_ID 32_32
#include "bitdim_bs_inst.h"
