/* drv_rledict.c — handlers for varintRLE.{c,h} and varintDict.{c,h}.
 *
 * Array arguments are "segment lists": L c1,s1,d1,c2,s2,d2,...  meaning c1
 * values s1, s1+d1, s1+2*d1, ... (mod 2^64), then c2 values from s2, ...
 * (a run is a segment with step 0), so that 65536-element cases stay short.
 *
 * Large byte strings are printed as <len>:<first 32>..<last 32>:<fnv1a64>;
 * decoded arrays are compared with the expected values inside the handler and
 * printed as ok | len<k> | bad@<i>:<got>. */
#include "core.h"
#include "varintDict.h"
#include "varintRLE.h"
#include <inttypes.h>
#include <stdlib.h>
#include <string.h>

#define MAX_ELEMS ((size_t)1 << 22)

static uint64_t *arg_segs(const vcase *c, int i, size_t *n) {
    size_t k;
    uint64_t *t = arg_list(c, i, &k);
    size_t total = 0;
    for (size_t j = 0; j + 3 <= k; j += 3) {
        total += (size_t)t[j];
    }
    if (total > MAX_ELEMS) {
        fprintf(stderr, "driver: segment list too long\n");
        exit(2);
    }
    uint64_t *v = malloc((total ? total : 1) * sizeof(uint64_t));
    size_t o = 0;
    for (size_t j = 0; j + 3 <= k; j += 3) {
        uint64_t x = t[j + 1];
        for (uint64_t q = 0; q < t[j]; q++) {
            v[o++] = x;
            x += t[j + 2];
        }
    }
    free(t);
    *n = total;
    return v;
}

static uint64_t fnv(const uint8_t *p, size_t n) {
    uint64_t h = 0xcbf29ce484222325ULL;
    for (size_t i = 0; i < n; i++) {
        h ^= p[i];
        h *= 0x100000001b3ULL;
    }
    return h;
}

static void out_blob(const char *k, const uint8_t *p, size_t n) {
    if (n <= 1024) {
        out_hex(k, p, n);
        return;
    }
    static const char *hx = "0123456789abcdef";
    char b[256];
    size_t o = 0;
    o += (size_t)snprintf(b + o, sizeof b - o, "%zu:", n);
    for (size_t i = 0; i < 32; i++) { b[o++] = hx[p[i] >> 4]; b[o++] = hx[p[i] & 15]; }
    b[o++] = '.'; b[o++] = '.';
    for (size_t i = n - 32; i < n; i++) { b[o++] = hx[p[i] >> 4]; b[o++] = hx[p[i] & 15]; }
    o += (size_t)snprintf(b + o, sizeof b - o, ":%016" PRIx64, fnv(p, n));
    b[o] = 0;
    out_str(k, b);
}

/* compare got[0..gn) with exp[0..en) */
static void out_cmp(const char *k, const uint64_t *got, size_t gn, const uint64_t *exp, size_t en) {
    char b[64];
    if (gn != en) {
        snprintf(b, sizeof b, "len%zu", gn);
        out_str(k, b);
        return;
    }
    for (size_t i = 0; i < gn; i++) {
        if (got[i] != exp[i]) {
            snprintf(b, sizeof b, "bad@%zu:%" PRIu64, i, got[i]);
            out_str(k, b);
            return;
        }
    }
    out_str(k, "ok");
}

static const char *frame_after(const gbuf *g, size_t used) {
    for (size_t i = used; i < g->size; i++) {
        if (g->p[i] != gbuf_canary((size_t)(g->p - g->base) + i)) return "dirty";
    }
    return "ok";
}

/* number of 8-byte elements of the usable area that no longer hold the canary */
static size_t touched_elems(const gbuf *g, size_t cap) {
    size_t t = 0;
    for (size_t e = 0; e < cap; e++) {
        for (size_t i = 8 * e; i < 8 * e + 8; i++) {
            if (g->p[i] != gbuf_canary((size_t)(g->p - g->base) + i)) { t++; break; }
        }
    }
    return t;
}

static void out_meta(const char *k, const varintRLEMeta *m) {
    uint64_t t[4] = {m->count, m->runCount, m->encodedSize, m->uniqueValues};
    out_list(k, t, 4);
}

static int sample_index(size_t i, size_t count) {
    if (count <= 96) return 1;
    if (count > 10000) return i < 3 || i + 3 >= count || i % (count / 6 + 1) == 0;
    if (i < 8 || i + 8 >= count) return 1;
    return i % (count / 16 + 1) == 0;
}

/* rle_enc SEGS hdr : hdr=0 varintRLEEncode, hdr=1 varintRLEEncodeWithHeader */
static void h_rle_enc(const vcase *c) {
    size_t count;
    uint64_t *v = arg_segs(c, 0, &count);
    int hdr = (int)arg_u64(c, 1);
    size_t max = varintRLEMaxSize(count);
    size_t size = varintRLESize(v, count);
    out_u64("max", max);
    out_u64("size", size);
    /* destination of exactly the advertised maximum */
    gbuf g = gbuf_new(max, 0);
    varintRLEMeta meta;
    memset(&meta, 0xEE, sizeof meta);
    size_t n = hdr ? varintRLEEncodeWithHeader(g.p, count ? v : NULL, count, &meta)
                   : varintRLEEncode(g.p, count ? v : NULL, count, &meta);
    out_u64("n", n);
    out_str("guard", gbuf_guard(&g));
    out_str("frame", n <= max ? frame_after(&g, n) : "dirty");
    out_blob("bytes", g.p, n <= max ? n : max);
    out_meta("meta", &meta);
    if (n > max) {
        /* the encoder overflowed the advertised size: nothing further is meaningful */
        out_str("overflow", "1");
        gbuf_free(&g);
        free(v);
        return;
    }
    /* destination of exactly the predicted size (exact predictor); the
     * header format has no predictor of its own: size + tagged length of count */
    size_t exact = hdr ? size + varintTaggedLen(count) : size;
    gbuf g2 = gbuf_new(exact, 1);
    size_t n2 = hdr ? varintRLEEncodeWithHeader(g2.p, count ? v : NULL, count, NULL)
                    : varintRLEEncode(g2.p, count ? v : NULL, count, NULL);
    out_u64("n2", n2);
    out_str("guard2", gbuf_guard(&g2));
    varintRLEMeta am;
    memset(&am, 0xEE, sizeof am);
    bool ben = varintRLEAnalyze(v, count, &am);
    out_meta("ameta", &am);
    out_u64("ben", ben);
    out_u64("ben2", varintRLEIsBeneficial(v, count));
    /* decode from a copy holding exactly the n bytes */
    size_t give = n <= max ? n : max;
    gpage in = gpage_new(g.p, give);
    gbuf og = gbuf_new(count * 8, 0);
    uint64_t *out = (uint64_t *)og.p;
    size_t dn = hdr ? varintRLEDecodeWithHeader(in.p, out, count) : varintRLEDecode(in.p, out, count);
    out_u64("dn", dn);
    out_cmp("rt", out, dn <= count ? dn : count, v, count);
    out_str("dguard", gbuf_guard(&og));
    if (hdr) {
        out_u64("getcount", varintRLEGetCount(in.p));
        size_t hl = varintTaggedLen(count);
        out_u64("rc", give >= hl ? varintRLEGetRunCount(in.p + hl, give - hl) : 0);
    } else {
        char b[64];
        const char *at = "ok";
        /* random access means any order: highest index first, then ascending
         * (an accessor that memoises its last position must not depend on
         * the order of lookups or on what the buffer held before) */
        for (int pass = 0; pass < 2 && at[0] == 'o'; pass++) {
            for (size_t k = 0; k < count; k++) {
                size_t i = pass == 0 ? count - 1 - k : k;
                if (!sample_index(i, count)) continue;
                uint64_t x = varintRLEGetAt(in.p, i);
                if (x != v[i]) {
                    snprintf(b, sizeof b, "bad@%zu:%" PRIu64, i, x);
                    at = b;
                    break;
                }
            }
        }
        out_str("at", at);
        out_u64("rc", varintRLEGetRunCount(in.p, give));
    }
    gbuf_free(&og);
    gpage_free(&in);
    gbuf_free(&g2);
    gbuf_free(&g);
    free(v);
}

/* rle_cap SEGS hdr cap : decode a valid encoding into exactly cap elements */
static void h_rle_cap(const vcase *c) {
    size_t count;
    uint64_t *v = arg_segs(c, 0, &count);
    int hdr = (int)arg_u64(c, 1);
    size_t cap = (size_t)arg_u64(c, 2);
    size_t max = varintRLEMaxSize(count) + 16;
    uint8_t *enc = malloc(max);
    size_t n = hdr ? varintRLEEncodeWithHeader(enc, count ? v : NULL, count, NULL)
                   : varintRLEEncode(enc, count ? v : NULL, count, NULL);
    gpage in = gpage_new(enc, n);
    gbuf og = gbuf_new(cap * 8, 0);
    uint64_t *out = (uint64_t *)og.p;
    size_t ret = hdr ? varintRLEDecodeWithHeader(in.p, out, cap) : varintRLEDecode(in.p, out, cap);
    out_u64("n", n);
    out_u64("ret", ret);
    out_str("guard", gbuf_guard(&og));
    out_u64("touched", touched_elems(&og, cap));
    size_t k = ret <= cap ? ret : cap;
    out_cmp("out", out, k, v, k <= count ? k : count);
    gbuf_free(&og);
    gpage_free(&in);
    free(enc);
    free(v);
}

/* rle_hostile HEX cap : varintRLEDecode on arbitrary run bytes whose declared run
 * lengths add up to at least cap (so the decoder stops inside the input) */
static void h_rle_hostile(const vcase *c) {
    size_t len;
    uint8_t *b = arg_hex(c, 0, &len);
    size_t cap = (size_t)arg_u64(c, 1);
    gpage in = gpage_new(b, len);
    gbuf og = gbuf_new(cap * 8, 0);
    size_t ret = varintRLEDecode(in.p, (uint64_t *)og.p, cap);
    out_u64("ret", ret);
    out_str("guard", gbuf_guard(&og));
    size_t t = touched_elems(&og, cap);
    out_u64("touched", t);
    out_list("out", (uint64_t *)og.p, t);
    gbuf_free(&og);
    gpage_free(&in);
    free(b);
}

/* rle_hostile_hdr HEX cap : varintRLEDecodeWithHeader on a stream whose count header
 * need not agree with its runs (stitched / corrupt streams); the runs present in
 * the input cover at least the header count, so the decoder stops inside the input */
static void h_rle_hostile_hdr(const vcase *c) {
    size_t len;
    uint8_t *b = arg_hex(c, 0, &len);
    size_t cap = (size_t)arg_u64(c, 1);
    gpage in = gpage_new(b, len);
    gbuf og = gbuf_new(cap * 8, 0);
    size_t ret = varintRLEDecodeWithHeader(in.p, (uint64_t *)og.p, cap);
    out_u64("ret", ret);
    out_str("guard", gbuf_guard(&og));
    size_t t = touched_elems(&og, cap);
    out_u64("touched", t);
    out_list("out", (uint64_t *)og.p, t);
    gbuf_free(&og);
    gpage_free(&in);
    free(b);
}

/* rle_rc HEX : varintRLEGetRunCount on an exact-size guard-paged input */
static void h_rle_rc(const vcase *c) {
    size_t len;
    uint8_t *b = arg_hex(c, 0, &len);
    gpage in = gpage_new(b, len);
    out_u64("rc", varintRLEGetRunCount(in.p, len));
    gpage_free(&in);
    free(b);
}

static void out_dict_info(const uint64_t *v, size_t count) {
    varintDict *d = varintDictCreate();
    if (!d) { out_str("build", "oom"); return; }
    int r = varintDictBuild(d, v, count);
    out_i64("build", r);
    if (r == 0) {
        out_u64("ds", d->size);
        out_u64("dw", d->indexWidth);
        /* probes: first/last/middle values and their neighbours */
        uint64_t probes[12];
        size_t np = 0;
        size_t idx[3] = {0, count / 2, count - 1};
        for (int j = 0; j < 3; j++) {
            probes[np++] = v[idx[j]];
            probes[np++] = v[idx[j]] + 1;
            probes[np++] = v[idx[j]] - 1;
        }
        probes[np++] = 0;
        probes[np++] = UINT64_MAX;
        int64_t res[12];
        const char *lk = "ok";
        for (size_t j = 0; j < np; j++) {
            res[j] = varintDictFind(d, probes[j]);
            if (res[j] >= 0 && varintDictLookup(d, (uint32_t)res[j]) != probes[j]) lk = "bad";
        }
        out_ilist("find", res, np);
        out_str("lookup", lk);
        out_u64("lookup_oob", varintDictLookup(d, d->size));
    }
    varintDictFree(d);
}

static void out_stats(const uint64_t *v, size_t count) {
    varintDictStats st;
    memset(&st, 0, sizeof st);
    int r = varintDictGetStats(v, count, &st);
    if (r != 0) { out_str("st", "fail"); return; }
    uint64_t t[6] = {st.uniqueCount, st.totalCount, st.dictBytes, st.indexBytes, st.totalBytes, st.originalBytes};
    out_list("st", t, 6);
}

static void decode_both(const uint8_t *enc, size_t n, const uint64_t *v, size_t count) {
    gpage in = gpage_new(enc, n);
    size_t oc = 0;
    uint64_t *dec = varintDictDecode(in.p, n, &oc);
    out_str("dec", dec ? "ok" : "null");
    if (dec) {
        out_u64("oc", oc);
        out_cmp("rt", dec, oc, v, count);
        free(dec);
    }
    gbuf og = gbuf_new(count * 8, 0);
    size_t di = varintDictDecodeInto(in.p, n, (uint64_t *)og.p, count);
    out_u64("di", di);
    out_cmp("rt2", (uint64_t *)og.p, di <= count ? di : count, v, count);
    out_str("dguard", gbuf_guard(&og));
    gbuf_free(&og);
    gpage_free(&in);
}

/* dict_enc SEGS */
static void h_dict_enc(const vcase *c) {
    size_t count;
    uint64_t *v = arg_segs(c, 0, &count);
    size_t size = varintDictEncodedSize(v, count);
    out_u64("size", size);
    gbuf g = gbuf_new(size, 0);
    size_t n = varintDictEncode(g.p, v, count);
    out_u64("n", n);
    out_str("guard", gbuf_guard(&g));
    out_str("frame", n <= size ? frame_after(&g, n) : "dirty");
    out_blob("bytes", g.p, n <= size ? n : size);
    if (n > 0 && n <= size) decode_both(g.p, n, v, count);
    if (count > 0) out_dict_info(v, count);
    out_stats(v, count);
    gbuf_free(&g);
    free(v);
}

/* dict_with SEGS_dict SEGS_values : shared dictionary */
static void h_dict_with(const vcase *c) {
    size_t dn, count;
    uint64_t *dv = arg_segs(c, 0, &dn);
    uint64_t *v = arg_segs(c, 1, &count);
    varintDict *d = varintDictCreate();
    int r = d ? varintDictBuild(d, dv, dn) : -1;
    out_i64("build", r);
    if (r == 0) {
        size_t size = varintDictEncodedSizeWithDict(d, count);
        out_u64("size", size);
        gbuf g = gbuf_new(size, 0);
        size_t n = varintDictEncodeWithDict(g.p, d, v, count);
        out_u64("n", n);
        out_str("guard", gbuf_guard(&g));
        if (n > 0 && n <= size) {
            out_blob("bytes", g.p, n);
            decode_both(g.p, n, v, count);
        }
        gbuf_free(&g);
    }
    if (d) varintDictFree(d);
    free(dv);
    free(v);
}

/* dict_cap SEGS cap : DecodeInto a valid encoding with maxValues = cap */
static void h_dict_cap(const vcase *c) {
    size_t count;
    uint64_t *v = arg_segs(c, 0, &count);
    size_t cap = (size_t)arg_u64(c, 1);
    size_t size = varintDictEncodedSize(v, count);
    uint8_t *enc = malloc(size + 16);
    size_t n = varintDictEncode(enc, v, count);
    gpage in = gpage_new(enc, n);
    gbuf og = gbuf_new(cap * 8, 0);
    size_t ret = varintDictDecodeInto(in.p, n, (uint64_t *)og.p, cap);
    out_u64("n", n);
    out_u64("ret", ret);
    out_str("guard", gbuf_guard(&og));
    out_u64("touched", touched_elems(&og, cap));
    size_t k = ret <= cap ? ret : cap;
    out_cmp("out", (uint64_t *)og.p, k, v, k <= count ? k : count);
    gbuf_free(&og);
    gpage_free(&in);
    free(enc);
    free(v);
}

/* dict_dec HEX cap : both decoders on arbitrary bytes, exact-size input */
static void h_dict_dec(const vcase *c) {
    size_t len;
    uint8_t *b = arg_hex(c, 0, &len);
    size_t cap = (size_t)arg_u64(c, 1);
    gpage in = gpage_new(b, len);
    size_t oc = 0;
    uint64_t *dec = varintDictDecode(in.p, len, &oc);
    out_str("dec", dec ? "ok" : "null");
    if (dec) {
        out_u64("oc", oc);
        out_list("out", dec, oc <= 4096 ? oc : 4096);
        free(dec);
    }
    gbuf og = gbuf_new(cap * 8, 0);
    size_t di = varintDictDecodeInto(in.p, len, (uint64_t *)og.p, cap);
    out_u64("di", di);
    out_str("guard", gbuf_guard(&og));
    size_t t = touched_elems(&og, cap);
    out_u64("touched", t);
    out_list("out2", (uint64_t *)og.p, t);
    gbuf_free(&og);
    gpage_free(&in);
    free(b);
}

static const vreg tab[] = {
    {"rle_enc", h_rle_enc},   {"rle_cap", h_rle_cap},   {"rle_rc", h_rle_rc}, {"rle_hostile", h_rle_hostile}, {"rle_hostile_hdr", h_rle_hostile_hdr},
    {"dict_enc", h_dict_enc}, {"dict_with", h_dict_with}, {"dict_cap", h_dict_cap},
    {"dict_dec", h_dict_dec},
};
VREGISTER(tab)
