/* opt_srcleaf_pfor.c — OPTIONAL unit (dropped by the build if it stops compiling or linking):
 * a second, private compilation of src/varintPFOR.c with every public symbol renamed, used
 * ONLY to reach the file's `static` leaf functions that drv_srcleaf.c runs against their
 * regenerated Gallina renderings (gen/c2coq_leaf.py).  The list of renamed symbols is the
 * output of `nm --defined-only -g` on the library object. */
#define varintPFORComputeThreshold srcleaf_priv_pfor_varintPFORComputeThreshold
#define varintPFORDecode srcleaf_priv_pfor_varintPFORDecode
#define varintPFOREncode srcleaf_priv_pfor_varintPFOREncode
#define varintPFORGetAt srcleaf_priv_pfor_varintPFORGetAt
#define varintPFORReadMeta srcleaf_priv_pfor_varintPFORReadMeta
#define varintPFORSize srcleaf_priv_pfor_varintPFORSize
#include "varintPFOR.c"

uint64_t srcleaf_priv_marker(uint32_t w) { return varintPFORCalculateMarker((varintWidth)w); }
