/* varintBitstream.h instantiated with VBITS uint16_t, VBITSVAL uint16_t */
#define VBITS uint16_t
#define VBITSVAL uint16_t
#define BITDIM_BS_ID 16_16
#include "bitdim_bs_inst.h"
