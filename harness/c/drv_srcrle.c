/* drv_srcrle.c — C side of the src_rle_* handlers.  The same calls are evaluated
 * by the model driver on the Gallina functions that gen/c2coq.py regenerates from
 * the current src/varintRLE.c (harness/ml/drv_srcrle.ml); a difference is a bug
 * of the translator (or of CSem.v).  Sources end flush against an inaccessible
 * page; decoded arrays have exactly `cap` elements between two sentinels and are
 * printed whole. */
#include "core.h"
#include "varint.h"
#include "varintRLE.h"
#include <stdlib.h>
#include <string.h>

static gpage page_arg(const vcase *c, int i) {
    size_t len;
    uint8_t *b = arg_hex(c, i, &len);
    gpage in = gpage_new(b, len);
    free(b);
    return in;
}

/* src_rle_dec hex cap hdr */
static void h_dec(const vcase *c) {
    gpage in = page_arg(c, 0);
    size_t cap = (size_t)arg_u64(c, 1);
    int hdr = (int)arg_u64(c, 2);
    uint64_t *v = malloc((cap + 2) * sizeof(uint64_t));
    for (size_t i = 0; i < cap + 2; i++) v[i] = 7777;
    v[0] = 0x5A5A5A5A5A5A5A5AULL;
    v[cap + 1] = 0xA5A5A5A5A5A5A5A5ULL;
    size_t n = hdr ? varintRLEDecodeWithHeader(in.p, v + 1, cap) : varintRLEDecode(in.p, v + 1, cap);
    out_u64("ret", n);
    if (v[0] != 0x5A5A5A5A5A5A5A5AULL || v[cap + 1] != 0xA5A5A5A5A5A5A5A5ULL) out_str("vals", "overrun");
    else out_list("vals", v + 1, cap);
    free(v);
    gpage_free(&in);
}

static void h_run(const vcase *c) {
    gpage in = page_arg(c, 0);
    size_t len = 0;
    uint64_t val = 0;
    size_t n = varintRLEDecodeRun(in.p, &len, &val);
    out_u64("ret", n);
    out_u64("len", len);
    out_u64("val", val);
    gpage_free(&in);
}

static void h_at(const vcase *c) {
    gpage in = page_arg(c, 0);
    out_u64("ret", varintRLEGetAt(in.p, (size_t)arg_u64(c, 1)));
    gpage_free(&in);
}

static void h_count(const vcase *c) {
    gpage in = page_arg(c, 0);
    out_u64("ret", varintRLEGetCount(in.p));
    gpage_free(&in);
}

static void h_rc(const vcase *c) {
    gpage in = page_arg(c, 0);
    out_u64("ret", varintRLEGetRunCount(in.p, in.len));
    gpage_free(&in);
}

static void out_meta(const varintRLEMeta *m) {
    char b[128];
    if (!m) { out_str("meta", "null"); return; }
    snprintf(b, sizeof b, "%zu,%zu,%zu,%zu", m->count, m->runCount, m->encodedSize, m->uniqueValues);
    out_str("meta", b);
}

/* src_rle_enc Lvals hdr withmeta hexbuf */
static void h_enc(const vcase *c) {
    size_t n, len;
    uint64_t *v = arg_list(c, 0, &n);
    int hdr = (int)arg_u64(c, 1), wm = (int)arg_u64(c, 2);
    uint8_t *b = arg_hex(c, 3, &len);
    gbuf g = gbuf_new(len, 0);
    gbuf_prefill(&g, b, len);
    varintRLEMeta meta;
    size_t w = hdr ? varintRLEEncodeWithHeader(g.p, v, n, wm ? &meta : NULL) : varintRLEEncode(g.p, v, n, wm ? &meta : NULL);
    out_u64("ret", w);
    if (strcmp(gbuf_guard(&g), "ok") != 0) out_str("buf", gbuf_guard(&g));
    else out_hex("buf", g.p, g.size);
    out_meta(wm ? &meta : NULL);
    gbuf_free(&g);
    free(b);
    free(v);
}

static void h_size(const vcase *c) {
    size_t n;
    uint64_t *v = arg_list(c, 0, &n);
    varintRLEMeta meta;
    out_u64("ret", varintRLESize(v, n));
    out_u64("ben", varintRLEIsBeneficial(v, n));
    out_u64("ana", varintRLEAnalyze(v, n, &meta));
    out_meta(&meta);
    free(v);
}

static const vreg tab[] = {
    {"src_rle_dec", h_dec}, {"src_rle_run", h_run}, {"src_rle_at", h_at}, {"src_rle_count", h_count}, {"src_rle_rc", h_rc},
    {"src_rle_enc", h_enc}, {"src_rle_size", h_size},
};
VREGISTER(tab)
