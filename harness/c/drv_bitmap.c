/* drv_bitmap.c — handlers for varintBitmap.{c,h}
 *
 * bm_ops <ops> [<hex>]
 *   A history over a pool of 4 bitmaps (all start as varintBitmapCreate()).
 *   <ops> = op tokens separated by ','; a token is a letter followed by
 *   '.'-separated decimal fields, the first field(s) being pool indices:
 *     a i v      Add            r i v      Remove        q i v   Contains
 *     A i lo hi  AddRange       R i lo hi  RemoveRange   z i     Clear
 *     m i v...   AddMany        k i j      pool[i] = Clone(pool[j])
 *     n i j k    pool[i] = And(pool[j], pool[k])    o = Or, x = Xor, d = AndNot
 *     s i        pool[i] = Decode(Encode(pool[i]))  p i  Optimize
 *     e i        full export through ToArray        t i  full iteration (Next)
 *     D i        pool[i] = Decode(<hex>, its length) (kept unchanged on NULL)
 *   After EVERY step one token  <step>=F:c:e:y:p:z:n:s:g:b[:extra]  is printed
 *   for the target bitmap: F flag returned (or '-'), c Cardinality, e IsEmpty,
 *   y/p/z GetStats type/containerCapacity/sizeBytes, n count returned by
 *   ToArray ('!' appended if it wrote beyond `cardinality` elements), s sum
 *   and g number of maximal consecutive groups of the exported values ('-' on
 *   7 of 8 single-element steps of sets above 1024 members), b the Contains
 *   answers for probe values derived from the op's arguments. */
#include "core.h"
#include "varintBitmap.h"
#include <malloc.h>
#include <stdlib.h>
#include <string.h>

#define POOL 4
#define XCAP (65536 + 64)
#define CANARY16 0xA5A5

/* all scratch state is per call (handlers must be re-entrant) */
typedef struct {
    uint16_t *xbuf_;           /* XCAP elements */
    char *sb_; size_t sbcap, sblen;
    long *fld_;                /* MAXF fields */
    uint16_t *before1, *before2, *many;
} bmctx;
#define xbuf (cx->xbuf_)

/* ToArray into a canary-filled scratch; *over = wrote beyond card elements */
static uint32_t export_(bmctx *cx, const varintBitmap *vb, int *over) {
    uint32_t card = varintBitmapCardinality(vb);
    for (size_t i = 0; i < XCAP; i++) xbuf[i] = CANARY16;
    uint32_t n = varintBitmapToArray(vb, xbuf);
    *over = 0;
    for (size_t i = card < XCAP ? card : XCAP; i < XCAP; i++) {
        if (xbuf[i] != CANARY16) { *over = 1; break; }
    }
    return n;
}

static void sput_(bmctx *cx, const char *s) {
    size_t n = strlen(s);
    if (cx->sblen + n + 1 > cx->sbcap) { cx->sbcap = (cx->sblen + n + 1) * 2; cx->sb_ = realloc(cx->sb_, cx->sbcap); }
    memcpy(cx->sb_ + cx->sblen, s, n + 1);
    cx->sblen += n;
}
static void sreset_(bmctx *cx) { cx->sblen = 0; if (cx->sb_) cx->sb_[0] = 0; else sput_(cx, ""); }
#define sput(s) sput_(cx, s)
#define sreset() sreset_(cx)
#define sb (cx->sb_)

/* values as maximal chunks of consecutive increments: "3-7,9,12-13" */
static void intervals(bmctx *cx, const uint16_t *v, uint32_t n) {
    char t[32];
    uint32_t i = 0;
    int first = 1;
    while (i < n) {
        uint32_t j = i;
        while (j + 1 < n && (uint32_t)v[j + 1] == (uint32_t)v[j] + 1) j++;
        if (j > i) snprintf(t, sizeof t, "%s%u-%u", first ? "" : ",", v[i], v[j]);
        else snprintf(t, sizeof t, "%s%u", first ? "" : ",", v[i]);
        sput(t);
        first = 0;
        i = j + 1;
    }
}

static uint32_t groups(const uint16_t *v, uint32_t n) {
    uint32_t g = 0;
    for (uint32_t i = 0; i < n; i++) {
        if (i == 0 || (uint32_t)v[i] != (uint32_t)v[i - 1] + 1) g++;
    }
    return g;
}

static size_t encoded_size(const varintBitmap *vb) {
    switch (vb->type) {
    case VARINT_BITMAP_ARRAY: return 5 + (size_t)vb->cardinality * 2;
    case VARINT_BITMAP_BITMAP: return 5 + 8192;
    case VARINT_BITMAP_RUNS: return 5 + 4 + (size_t)vb->container.runs.numRuns * 4;
    }
    return 5;
}

/* parse "12.7.900" into fields; returns count */
static int fields(const char *s, const char *end, long *f, int max) {
    int n = 0;
    while (s < end && n < max) {
        char *e;
        f[n++] = strtol(s, &e, 10);
        s = (e < end && *e == '.') ? e + 1 : end;
    }
    return n;
}

#define MAXF 70000
#define fld (cx->fld_)

static void h_bm_ops(const vcase *c) {
    const char *ops = c->argc > 0 ? c->argv[0] : "";
    size_t hexlen = 0;
    uint8_t *hex = NULL;
    if (c->argc > 1) hex = arg_hex(c, 1, &hexlen);
    varintBitmap *pool[POOL];
    for (int i = 0; i < POOL; i++) pool[i] = varintBitmapCreate();
    bmctx ctx, *cx = &ctx;
    memset(cx, 0, sizeof *cx);
    cx->xbuf_ = malloc(XCAP * sizeof(uint16_t));
    cx->fld_ = malloc(MAXF * sizeof(long));
    cx->before1 = malloc(XCAP * 2);
    cx->before2 = malloc(XCAP * 2);
    cx->many = malloc(MAXF * 2);
    uint16_t *before1 = cx->before1, *before2 = cx->before2, *many = cx->many;
    int step = 0;
    const char *p = ops;
    char key[32], t[96];
    while (*p) {
        const char *q = strchr(p, ',');
        const char *end = q ? q : p + strlen(p);
        char op = *p;
        int nf = fields(p + 1, end, fld, MAXF);
        int i = nf > 0 ? (int)(fld[0] & 3) : 0;
        long pv[8];
        int npv = 0;
        char flag = '-';
        sreset();
        char extra[160];
        extra[0] = 0;
        int exp_full = 0, iter_full = 0;
        switch (op) {
        case 'a': flag = varintBitmapAdd(pool[i], (uint16_t)fld[1]) ? '1' : '0'; pv[npv++] = fld[1]; break;
        case 'r': flag = varintBitmapRemove(pool[i], (uint16_t)fld[1]) ? '1' : '0'; pv[npv++] = fld[1]; break;
        case 'q': flag = varintBitmapContains(pool[i], (uint16_t)fld[1]) ? '1' : '0'; pv[npv++] = fld[1]; break;
        case 'A': varintBitmapAddRange(pool[i], (uint16_t)fld[1], (uint16_t)fld[2]); pv[npv++] = fld[1]; pv[npv++] = fld[2]; break;
        case 'R': varintBitmapRemoveRange(pool[i], (uint16_t)fld[1], (uint16_t)fld[2]); pv[npv++] = fld[1]; pv[npv++] = fld[2]; break;
        case 'z': varintBitmapClear(pool[i]); break;
        case 'p': varintBitmapOptimize(pool[i]); break;
        case 'm': {
            for (int k = 1; k < nf; k++) many[k - 1] = (uint16_t)fld[k];
            varintBitmapAddMany(pool[i], many, (uint32_t)(nf - 1));
            for (int k = 1; k < nf && k <= 3; k++) pv[npv++] = fld[k];
            break;
        }
        case 'k': {
            int j = (int)(fld[1] & 3);
            int o1;
            uint32_t n1 = export_(cx, pool[j], &o1);
            memcpy(before1, xbuf, (size_t)n1 * 2);
            uint32_t c1 = varintBitmapCardinality(pool[j]);
            varintBitmap *r = varintBitmapClone(pool[j]);
            uint32_t n1b = export_(cx, pool[j], &o1);
            int same = n1 == n1b && c1 == varintBitmapCardinality(pool[j]) && !memcmp(before1, xbuf, (size_t)n1 * 2);
            if (r) { varintBitmapFree(pool[i]); pool[i] = r; }
            snprintf(extra, sizeof extra, ":u%d", same);
            break;
        }
        case 'n': case 'o': case 'x': case 'd': {
            int j = (int)(fld[1] & 3), k = (int)(fld[2] & 3);
            int o1;
            uint32_t n1 = export_(cx, pool[j], &o1);
            memcpy(before1, xbuf, (size_t)n1 * 2);
            uint32_t n2 = export_(cx, pool[k], &o1);
            memcpy(before2, xbuf, (size_t)n2 * 2);
            uint32_t c1 = varintBitmapCardinality(pool[j]), c2 = varintBitmapCardinality(pool[k]);
            varintBitmap *r = op == 'n' ? varintBitmapAnd(pool[j], pool[k])
                            : op == 'o' ? varintBitmapOr(pool[j], pool[k])
                            : op == 'x' ? varintBitmapXor(pool[j], pool[k])
                                        : varintBitmapAndNot(pool[j], pool[k]);
            uint32_t n1b = export_(cx, pool[j], &o1);
            int same = n1 == n1b && c1 == varintBitmapCardinality(pool[j]) && !memcmp(before1, xbuf, (size_t)n1 * 2);
            uint32_t n2b = export_(cx, pool[k], &o1);
            same = same && n2 == n2b && c2 == varintBitmapCardinality(pool[k]) && !memcmp(before2, xbuf, (size_t)n2 * 2);
            if (r) { varintBitmapFree(pool[i]); pool[i] = r; }
            snprintf(extra, sizeof extra, ":u%d", same);
            break;
        }
        case 's': {
            size_t need = encoded_size(pool[i]);
            gbuf g = gbuf_new(need, 0);
            size_t w = varintBitmapEncode(pool[i], g.p);
            uint32_t h = 0;
            for (size_t k = 0; k < w && k < need; k++) h += (uint32_t)(k + 1) * g.p[k];
            const char *gd = gbuf_guard(&g);
            gpage in = gpage_new(g.p, w <= need ? w : need);
            varintBitmap *r = varintBitmapDecode(in.p, in.len);
            flag = r ? '1' : '0';
            if (r) { varintBitmapFree(pool[i]); pool[i] = r; }
            snprintf(extra, sizeof extra, ":L%zu:h%u:g%s", w, h, gd);
            gpage_free(&in);
            gbuf_free(&g);
            break;
        }
        case 'D': {
            gpage in = gpage_new(hex, hexlen);
            varintBitmap *r = varintBitmapDecode(in.p, hexlen);
            flag = r ? '1' : '0';
            int allocok = 1;
            if (r) {
                void *data = r->type == VARINT_BITMAP_ARRAY ? (void *)r->container.array.values
                           : r->type == VARINT_BITMAP_BITMAP ? (void *)r->container.bitmap.bits
                                                             : (void *)r->container.runs.runs;
                size_t got = malloc_usable_size(r) + malloc_usable_size(data);
                size_t bound = 24 + (hexlen > 8192 ? hexlen : 8192) + 64;
                allocok = got <= bound;
                varintBitmapFree(pool[i]);
                pool[i] = r;
            }
            snprintf(extra, sizeof extra, ":m%d", allocok);
            gpage_free(&in);
            break;
        }
        case 'e': exp_full = 1; break;
        case 't': iter_full = 1; break;
        default: break;
        }
        /* observations on the target */
        const varintBitmap *vb = pool[i];
        varintBitmapStats st;
        varintBitmapGetStats(vb, &st);
        /* the ToArray digest is skipped on 7 of 8 single-element steps of large sets */
        int digest = varintBitmapCardinality(vb) <= 1024 || !(op == 'a' || op == 'r' || op == 'q') || step % 8 == 0;
        int over = 0;
        uint32_t n = 0, lim = 0;
        if (digest) {
            n = export_(cx, vb, &over);
            uint64_t sum = 0;
            lim = n < XCAP ? n : XCAP;
            for (uint32_t k = 0; k < lim; k++) sum += xbuf[k];
            snprintf(t, sizeof t, "%c:%u:%d:%u:%u:%zu:%u%s:%llu:%u:", flag, varintBitmapCardinality(vb),
                     varintBitmapIsEmpty(vb) ? 1 : 0, (unsigned)st.type, st.containerCapacity, st.sizeBytes,
                     n, over ? "!" : "", (unsigned long long)sum, groups(xbuf, lim));
        } else {
            snprintf(t, sizeof t, "%c:%u:%d:%u:%u:%zu:-:-:-:", flag, varintBitmapCardinality(vb),
                     varintBitmapIsEmpty(vb) ? 1 : 0, (unsigned)st.type, st.containerCapacity, st.sizeBytes);
        }
        sput(t);
        /* probes */
        long pr[32];
        int npr = 0;
        for (int k = 0; k < npv; k++) {
            if (pv[k] - 1 >= 0) pr[npr++] = pv[k] - 1;
            pr[npr++] = pv[k];
            if (pv[k] + 1 <= 65535) pr[npr++] = pv[k] + 1;
        }
        pr[npr++] = 0; pr[npr++] = 4095; pr[npr++] = 4096; pr[npr++] = 65535;
        for (int k = 0; k < npr; k++) sput(varintBitmapContains(vb, (uint16_t)pr[k]) ? "1" : "0");
        sput(extra);
        snprintf(key, sizeof key, "%d", step);
        out_str(key, sb);
        if (exp_full) {
            sreset();
            intervals(cx, xbuf, lim);
            snprintf(key, sizeof key, "%de", step);
            out_str(key, sb);
        }
        if (iter_full) {
            uint32_t cnt = 0;
            varintBitmapIterator it = varintBitmapCreateIterator(vb);
            while (cnt < XCAP && varintBitmapIteratorNext(&it)) {
                if (!it.hasValue) break;
                xbuf[cnt++] = it.currentValue;
            }
            sreset();
            intervals(cx, xbuf, cnt);
            sput(it.hasValue ? "/h1" : "/h0");
            snprintf(key, sizeof key, "%dt", step);
            out_str(key, sb);
        }
        step++;
        p = q ? q + 1 : end;
    }
    for (int i = 0; i < POOL; i++) varintBitmapFree(pool[i]);
    free(hex);
    free(cx->xbuf_); free(cx->fld_); free(cx->before1); free(cx->before2); free(cx->many); free(cx->sb_);
}

static const vreg tab[] = {
    {"bm_ops", h_bm_ops},
};
VREGISTER(tab)
