/* drv_adaptive.c — handlers for varintAdaptive.{c,h}
 *
 *   adaptive_rt   L<values>           analyse, select, Encode into EXACTLY
 *                                     varintAdaptiveMaxSize(count) bytes, ReadMeta /
 *                                     GetEncodingType, Decode(count) from a guard-paged
 *                                     copy of exactly the returned length
 *   adaptive_rtg  kind n a b c        the same on the array v[i] = f_kind(i; a,b,c), i < n
 *                                     (long arrays without long case lines)
 *   adaptive_with e L<values>         the same through EncodeWith(e) (no analysis)
 *   adaptive_withg e kind n a b c
 *   adaptive_rt2 L<first> L<second>   Encode both with the SAME meta object (not reset in
 *   adaptive_with2 e L<first> L<second>   between); everything reported is about the second
 *   adaptive_dec_cap e cap L<values>  EncodeWith(e), then Decode with maxCount = cap
 *                                     into EXACTLY cap output elements
 *   adaptive_ratio a b                (float)a / (float)b and the three threshold tests
 *
 * No static state: every buffer is allocated per call. */
#include "core.h"
#include "varintAdaptive.h"
#include <inttypes.h>
#include <stdlib.h>
#include <string.h>

#define ADP_HEX_MAX 4096   /* longer encodings are printed as 64 bytes + hash */
#define ADP_SLACK 65536    /* our own canary zone after the advertised size */
#define ADP_FILL 0x5A

static int canary_intact(const gbuf *g, size_t from, size_t to) {
    for (size_t i = from; i < to; i++) {
        if (g->p[i] != gbuf_canary((size_t)(g->p - g->base) + i)) return 0;
    }
    return 1;
}

static void out_bytes(const char *k, const uint8_t *p, size_t n) {
    if (n <= ADP_HEX_MAX) {
        out_hex(k, p, n);
    } else {
        uint32_t h = 0;
        for (size_t i = 0; i < n; i++) h = h * 31u + p[i];
        char kk[32];
        out_hex(k, p, 64);
        snprintf(kk, sizeof kk, "%shash", k);
        out_u64(kk, h);
    }
}

static uint32_t fbits(float f) {
    uint32_t u;
    memcpy(&u, &f, 4);
    return u;
}

/* v[i] = f_kind(i; a, b, c) in uint64_t arithmetic */
static uint64_t *gen_values(uint64_t kind, size_t n, uint64_t a, uint64_t b, uint64_t c) {
    uint64_t *v = malloc((n ? n : 1) * sizeof(uint64_t));
    for (size_t i = 0; i < n; i++) {
        uint64_t x;
        switch (kind) {
        case 0: x = a + (uint64_t)i * b; break;                                   /* arithmetic */
        case 1: x = (a && i % a == 0) ? b : c + (uint64_t)i * 1000003ULL; break;   /* periodic constant */
        case 2: x = ((((uint64_t)i * 6364136223846793005ULL + 1442695040888963407ULL) >> 11) % (a ? a : 1)) + b; break;
        case 3: x = ((uint64_t)i % (a ? a : 1)) * b + c; break;                   /* sawtooth */
        case 4: x = b + (uint64_t)i - ((a && i % a == 1) ? 1 : 0); break;         /* ascending, v[k*a+1] == v[k*a] */
        default: x = 0; break;
        }
        v[i] = x;
    }
    return v;
}

static void out_for_meta(const varintFORMeta *m) {
    out_u64("fm_min", m->minValue); out_u64("fm_max", m->maxValue); out_u64("fm_range", m->range);
    out_u64("fm_count", m->count); out_u64("fm_size", m->encodedSize); out_u64("fm_width", (uint64_t)m->offsetWidth);
}
static void out_pfor_meta(const char *pfx, const varintPFORMeta *m, int tv) {
    char k[32];
    snprintf(k, sizeof k, "%smin", pfx); out_u64(k, m->min);
    snprintf(k, sizeof k, "%smarker", pfx); out_u64(k, m->exceptionMarker);
    if (tv) { snprintf(k, sizeof k, "%stv", pfx); out_u64(k, m->thresholdValue); }
    snprintf(k, sizeof k, "%swidth", pfx); out_u64(k, (uint64_t)m->width);
    snprintf(k, sizeof k, "%scount", pfx); out_u64(k, m->count);
    snprintf(k, sizeof k, "%sexc", pfx); out_u64(k, m->exceptionCount);
    snprintf(k, sizeof k, "%sthr", pfx); out_u64(k, m->threshold);
}

static void do_analysis(const uint64_t *xs, size_t n) {
    varintAdaptiveDataStats st;
    memset(&st, 0xEE, sizeof st);
    varintAdaptiveAnalyze(xs, n, &st);
    out_u64("cnt", st.count); out_u64("min", st.minValue); out_u64("max", st.maxValue);
    out_u64("range", st.range); out_u64("uniq", st.uniqueCount); out_u64("avg", st.avgDelta);
    out_u64("maxd", st.maxDelta); out_u64("outl", st.outlierCount);
    out_u64("ur", fbits(st.uniqueRatio)); out_u64("or", fbits(st.outlierRatio));
    out_u64("sorted", st.isSorted); out_u64("rsorted", st.isReverseSorted); out_u64("fits", st.fitsInBitmapRange);
    out_u64("sel", (uint64_t)varintAdaptiveSelectEncoding(&st));
    out_i64("cs", varintAdaptiveCheckSorted(xs, n));
    out_u64("cu", varintAdaptiveCountUnique(xs, n));
    out_u64("ad", varintAdaptiveAvgDelta(xs, n));
}

/* encode (force < 0: automatic), then read back and decode with maxCount = n.
 * used != NULL: the caller's meta object, already used by an earlier call and
 * not reset since */
static void do_roundtrip(const uint64_t *xs, size_t n, int64_t force, const varintAdaptiveMeta *used) {
    if (force == 1 && n == 0) { out_str("skip", "ub"); return; }
    size_t max = varintAdaptiveMaxSize(n);
    out_u64("max", max);
    gbuf g = gbuf_new(max + ADP_SLACK, 0);
    varintAdaptiveMeta m;
    memset(&m, 0xEE, sizeof m);
    if (used) m = *used;
    size_t w = force < 0 ? varintAdaptiveEncode(g.p, xs, n, &m)
                         : varintAdaptiveEncodeWith(g.p, xs, n, (varintAdaptiveEncodingType)force, &m);
    out_u64("n", w);
    /* bytes after the returned length, inside the advertised size, untouched? */
    out_str("frame", canary_intact(&g, w < max ? w : max, max) ? "ok" : "dirty");
    out_str("guard", canary_intact(&g, max, max + ADP_SLACK) ? gbuf_guard(&g) : "hi");
    if (w == 0) {
        /* failure reported: nothing to decode */
        out_u64("hdr", g.p[0]);
        gbuf_free(&g);
        return;
    }
    size_t take = w <= max + ADP_SLACK ? w : max + ADP_SLACK;
    out_u64("hdr", g.p[0]);
    out_bytes("enc", g.p, take);
    out_u64("m_type", (uint64_t)m.encodingType); out_u64("m_count", m.originalCount); out_u64("m_size", m.encodedSize);
    if (m.encodingType == VARINT_ADAPTIVE_FOR) out_for_meta(&m.encodingMeta.forMeta);
    if (m.encodingType == VARINT_ADAPTIVE_PFOR) out_pfor_meta("pm_", &m.encodingMeta.pforMeta, 1);

    gpage in = gpage_new(g.p, take);
    out_u64("get", (uint64_t)varintAdaptiveGetEncodingType(in.p));
    varintAdaptiveMeta rm;
    memset(&rm, 0xEE, sizeof rm);
    size_t rh = varintAdaptiveReadMeta(in.p, &rm);
    out_u64("rm_h", rh);
    out_u64("rm_type", (uint64_t)rm.encodingType); out_u64("rm_count", rm.originalCount); out_u64("rm_size", rm.encodedSize);

    uint64_t *out = malloc((n + 8) * sizeof(uint64_t));
    memset(out, ADP_FILL, (n + 8) * sizeof(uint64_t));
    varintAdaptiveMeta dm;
    memset(&dm, 0xEE, sizeof dm);
    size_t d = varintAdaptiveDecode(in.p, out, n, &dm);
    out_u64("dn", d);
    int og = 1;
    for (size_t i = n; i < n + 8; i++) if (out[i] != 0x5A5A5A5A5A5A5A5AULL) og = 0;
    out_str("oguard", og ? "ok" : "hi");
    size_t dd = d <= n ? d : n;
    if (dd == n && (n == 0 || memcmp(out, xs, n * sizeof(uint64_t)) == 0)) {
        out_str("rt", "ok");
    } else {
        /* first 64 decoded values and the first differing index */
        size_t k = 0;
        while (k < dd && out[k] == xs[k]) k++;
        out_str("rt", "diff");
        out_u64("at", k);
        out_list("got", out, dd < 64 ? dd : 64);
    }
    out_u64("d_type", (uint64_t)dm.encodingType); out_u64("d_count", dm.originalCount);
    free(out);
    gpage_free(&in);
    gbuf_free(&g);
}

static void h_rt(const vcase *c) {
    size_t n;
    uint64_t *xs = arg_list(c, 0, &n);
    do_analysis(xs, n);
    do_roundtrip(xs, n, -1, NULL);
    free(xs);
}
static void h_rtg(const vcase *c) {
    size_t n = (size_t)arg_u64(c, 1);
    uint64_t *xs = gen_values(arg_u64(c, 0), n, arg_u64(c, 2), arg_u64(c, 3), arg_u64(c, 4));
    do_analysis(xs, n);
    do_roundtrip(xs, n, -1, NULL);
    free(xs);
}
static void h_with(const vcase *c) {
    size_t n;
    int64_t e = (int64_t)arg_u64(c, 0);
    uint64_t *xs = arg_list(c, 1, &n);
    do_roundtrip(xs, n, e, NULL);
    free(xs);
}
static void h_withg(const vcase *c) {
    int64_t e = (int64_t)arg_u64(c, 0);
    size_t n = (size_t)arg_u64(c, 2);
    uint64_t *xs = gen_values(arg_u64(c, 1), n, arg_u64(c, 3), arg_u64(c, 4), arg_u64(c, 5));
    do_roundtrip(xs, n, e, NULL);
    free(xs);
}

static void __attribute__((noinline)) adp_scrub_stack(void) {
    volatile uint8_t big[32 * 1024];
    for (size_t i = 0; i < sizeof big; i++) big[i] = 0;
    __asm__ volatile("" ::: "memory");
}

/* adaptive_rt2 L<first> L<second> / adaptive_with2 e L<first> L<second>: ONE meta
 * object serves two successive encodes; everything printed is about the second */
static void two_calls(const vcase *c, int64_t e, int ai) {
    size_t n1, n2;
    uint64_t *x1 = arg_list(c, ai, &n1);
    uint64_t *x2 = arg_list(c, ai + 1, &n2);
    if (e == 1 && (n1 == 0 || n2 == 0)) { out_str("skip", "ub"); free(x1); free(x2); return; }
    varintAdaptiveMeta m;
    memset(&m, 0xEE, sizeof m);
    uint8_t *scratch = malloc(varintAdaptiveMaxSize(n1) + ADP_SLACK);
    /* back to back, from the same frame, nothing in between: the second call
     * finds the first call's dead stack frame exactly where its own locals
     * will live (added by main after seeded change C15-3) */
    uint8_t *s2a = malloc(varintAdaptiveMaxSize(n2) + ADP_SLACK);
    uint8_t *s2b = malloc(varintAdaptiveMaxSize(n2) + ADP_SLACK);
    size_t w1 = e < 0 ? varintAdaptiveEncode(scratch, x1, n1, &m)
                      : varintAdaptiveEncodeWith(scratch, x1, n1, (varintAdaptiveEncodingType)e, &m);
    size_t w2a = e < 0 ? varintAdaptiveEncode(s2a, x2, n2, NULL)
                       : varintAdaptiveEncodeWith(s2a, x2, n2, (varintAdaptiveEncodingType)e, NULL);
    adp_scrub_stack();
    size_t w2b = e < 0 ? varintAdaptiveEncode(s2b, x2, n2, NULL)
                       : varintAdaptiveEncodeWith(s2b, x2, n2, (varintAdaptiveEncodingType)e, NULL);
    out_str("b2b", (w2a == w2b && (w2a == 0 || memcmp(s2a, s2b, w2a) == 0)) ? "same" : "diff");
    (void)w1;
    free(s2a);
    free(s2b);
    free(scratch);
    if (e < 0) do_analysis(x2, n2);
    do_roundtrip(x2, n2, e, &m);
    free(x1);
    free(x2);
}
static void h_rt2(const vcase *c) { two_calls(c, -1, 0); }
static void h_with2(const vcase *c) { two_calls(c, (int64_t)arg_u64(c, 0), 1); }

/* adaptive_dec_cap e cap L<values> */
static void h_dec_cap(const vcase *c) {
    int64_t e = (int64_t)arg_u64(c, 0);
    size_t cap = (size_t)arg_u64(c, 1);
    size_t n;
    uint64_t *xs = arg_list(c, 2, &n);
    if (e == 1 && n == 0) { out_str("skip", "ub"); free(xs); return; }
    size_t max = varintAdaptiveMaxSize(n);
    uint8_t *enc = malloc(max + ADP_SLACK);
    size_t w = varintAdaptiveEncodeWith(enc, xs, n, (varintAdaptiveEncodingType)e, NULL);
    out_u64("n", w);
    if (w == 0 || w > max + ADP_SLACK) { free(enc); free(xs); return; }
    gpage in = gpage_new(enc, w);
    /* exactly cap output elements inside canaries, pre-filled with 0x5A */
    gbuf og = gbuf_new(cap * sizeof(uint64_t), 0);
    memset(og.p, ADP_FILL, cap * sizeof(uint64_t));
    uint64_t *out = (uint64_t *)og.p;
    varintAdaptiveMeta dm;
    memset(&dm, 0xEE, sizeof dm);
    size_t d = varintAdaptiveDecode(in.p, out, cap, &dm);
    out_u64("dn", d);
    out_str("guard", gbuf_guard(&og));
    /* number of leading output elements that were (possibly) stored to */
    size_t touched = cap;
    while (touched > 0 && out[touched - 1] == 0x5A5A5A5A5A5A5A5AULL) touched--;
    out_u64("touched", touched);
    size_t dd = d <= cap ? d : cap;
    size_t pre = dd <= n ? dd : n;
    if (dd <= n && (pre == 0 || memcmp(out, xs, pre * sizeof(uint64_t)) == 0)) out_str("prefix", "ok");
    else { out_str("prefix", "diff"); out_list("got", out, dd < 64 ? dd : 64); }
    out_u64("d_type", (uint64_t)dm.encodingType); out_u64("d_count", dm.originalCount);
    gbuf_free(&og);
    gpage_free(&in);
    free(enc);
    free(xs);
}

/* adaptive_ratio a b */
static void h_ratio(const vcase *c) {
    uint64_t a = arg_u64(c, 0), b = arg_u64(c, 1);
    if (b == 0) { out_str("skip", "div0"); return; }
    volatile float fa = (float)(size_t)a, fb = (float)(size_t)b;
    float r = fa / fb;
    out_u64("fa", fbits(fa)); out_u64("fb", fbits(fb)); out_u64("q", fbits(r));
    out_u64("lt015", r < 0.15f); out_u64("gt005", r > 0.05f); out_u64("lt005", r < 0.05f);
}

static const vreg tab[] = {
    {"adaptive_rt", h_rt},
    {"adaptive_rtg", h_rtg},
    {"adaptive_with", h_with},
    {"adaptive_withg", h_withg},
    {"adaptive_rt2", h_rt2},
    {"adaptive_with2", h_with2},
    {"adaptive_dec_cap", h_dec_cap},
    {"adaptive_ratio", h_ratio},
};
VREGISTER(tab)
