/* drv_dfg.c — handlers for varintDelta.{c,h}, varintFOR.{c,h},
 * varintGroup.{c,h}.  Encoders write into a canary buffer of exactly the
 * advertised size; decoders read from a copy of exactly the returned length
 * whose last byte is flush against an inaccessible page; outputs of decoders
 * that take a capacity go to arrays of cap + GUARD_ELEMS canary elements. */
#include "core.h"
#include "varintDelta.h"
#include "varintFOR.h"
#include "varintGroup.h"
#include <inttypes.h>
#include <stdlib.h>
#include <string.h>

#define GUARD_ELEMS 4

static const char *dfg_frame_after(const gbuf *g, size_t used) {
    for (size_t i = used; i < g->size; i++) {
        if (g->p[i] != gbuf_canary((size_t)(g->p - g->base) + i)) return "dirty";
    }
    return "ok";
}

/* encodings: full hex up to 160 bytes, else FNV-1a 64 of all bytes plus the
 * first 24 bytes */
static void out_enc(const char *k, const uint8_t *p, size_t n) {
    if (n <= 160) {
        out_hex(k, p, n);
        return;
    }
    uint64_t h = 0xcbf29ce484222325ULL;
    for (size_t i = 0; i < n; i++) {
        h ^= p[i];
        h *= 0x100000001b3ULL;
    }
    char b[40];
    snprintf(b, sizeof b, "h%016" PRIx64, h);
    out_str(k, b);
    out_hex("head", p, 24);
}

/* array of uint64_t slots inside a canary region */
typedef struct { gbuf g; uint64_t *v; size_t n; } garr;
static garr garr_new(size_t n) {
    garr a;
    a.g = gbuf_new(n * 8, 0);
    a.v = (uint64_t *)a.g.p;
    a.n = n;
    return a;
}
/* highest slot that no longer holds the canary, plus one */
static size_t garr_touched(const garr *a) {
    size_t off = (size_t)(a->g.p - a->g.base);
    for (size_t i = a->n; i-- > 0;) {
        for (size_t b = 0; b < 8; b++) {
            if (a->g.p[i * 8 + b] != gbuf_canary(off + i * 8 + b)) return i + 1;
        }
    }
    return 0;
}
static void garr_free(garr *a) { gbuf_free(&a->g); }

static void out_rt(const char *k, const uint64_t *got, size_t ngot, const uint64_t *want, size_t nwant) {
    if (ngot == nwant && (ngot == 0 || memcmp(got, want, ngot * 8) == 0)) {
        out_str(k, "ok");
    } else {
        out_list(k, got, ngot);
    }
}
static void out_irt(const char *k, const int64_t *got, size_t ngot, const int64_t *want, size_t nwant) {
    if (ngot == nwant && (ngot == 0 || memcmp(got, want, ngot * 8) == 0)) {
        out_str(k, "ok");
    } else {
        out_ilist(k, got, ngot);
    }
}
static size_t min_sz(size_t a, size_t b) { return a < b ? a : b; }

/* ------------------------------------------------------------ delta */

/* zigzag n */
static void h_zigzag(const vcase *c) {
    int64_t n = arg_i64(c, 0);
    uint64_t z = varintDeltaZigZag(n);
    out_u64("zz", z);
    out_i64("back", varintDeltaZigZagDecode(z));
}
/* unzigzag u */
static void h_unzigzag(const vcase *c) {
    uint64_t u = arg_u64(c, 0);
    int64_t d = varintDeltaZigZagDecode(u);
    out_i64("z", d);
    out_u64("again", varintDeltaZigZag(d));
}

/* delta_put d */
static void h_delta_put(const vcase *c) {
    int64_t d = arg_i64(c, 0);
    gbuf g = gbuf_new(9, 0);
    varintWidth w = varintDeltaPut(g.p, d);
    out_u64("w", w);
    out_hex("put", g.p, min_sz(w, 9));
    out_str("frame", dfg_frame_after(&g, w));
    out_str("guard", gbuf_guard(&g));
    gpage in = gpage_new(g.p, min_sz(w, 9));
    int64_t back = 0;
    varintWidth gw = varintDeltaGet(in.p, &back);
    out_u64("gw", gw);
    out_i64("get", back);
    gpage_free(&in);
    gbuf_free(&g);
}

/* delta_s L<signed values> */
static void h_delta_s(const vcase *c) {
    size_t n;
    int64_t *v = arg_ilist(c, 0, &n);
    size_t max = varintDeltaMaxEncodedSize(n);
    out_u64("max", max);
    gbuf g = gbuf_new(max, 0);
    size_t w = varintDeltaEncode(g.p, v, n);
    out_u64("n", w);
    out_enc("enc", g.p, min_sz(w, max));
    out_str("frame", dfg_frame_after(&g, w));
    out_str("guard", gbuf_guard(&g));
    gpage in = gpage_new(g.p, min_sz(w, max));
    garr o = garr_new(n + GUARD_ELEMS);
    size_t r = varintDeltaDecode(in.p, n, (int64_t *)o.v);
    out_u64("dn", r);
    out_irt("rt", (int64_t *)o.v, n, v, n);
    out_u64("wr", garr_touched(&o));
    out_str("oguard", gbuf_guard(&o.g));
    garr_free(&o);
    gpage_free(&in);
    gbuf_free(&g);
    free(v);
}

/* delta_u L<unsigned values> */
static void h_delta_u(const vcase *c) {
    size_t n;
    uint64_t *v = arg_list(c, 0, &n);
    size_t max = varintDeltaMaxEncodedSize(n);
    out_u64("max", max);
    gbuf g = gbuf_new(max, 0);
    size_t w = varintDeltaEncodeUnsigned(g.p, v, n);
    out_u64("n", w);
    out_enc("enc", g.p, min_sz(w, max));
    out_str("frame", dfg_frame_after(&g, w));
    out_str("guard", gbuf_guard(&g));
    gpage in = gpage_new(g.p, min_sz(w, max));
    garr o = garr_new(n + GUARD_ELEMS);
    size_t r = varintDeltaDecodeUnsigned(in.p, n, o.v);
    out_u64("dn", r);
    out_rt("rt", o.v, n, v, n);
    out_u64("wr", garr_touched(&o));
    out_str("oguard", gbuf_guard(&o.g));
    garr_free(&o);
    gpage_free(&in);
    gbuf_free(&g);
    free(v);
}

/* ------------------------------------------------------------ FOR */

static void out_meta(const char *k, const varintFORMeta *m) {
    uint64_t a[6] = {m->minValue, m->maxValue, m->range, m->count, m->encodedSize, m->offsetWidth};
    out_list(k, a, 6);
}

/* sample of indices for the random-access readers: all when n <= 300, else
 * 128 evenly spread including 0 and n-1 */
static size_t idx_count(size_t n) { return n <= 300 ? n : 128; }
static size_t idx_at(size_t n, size_t k) { return n <= 300 ? k : (k * (n - 1)) / 127; }

/* everything after the encoder: header accessors, the three decoders with
 * capacity = count, random access, block reader */
static void for_read_side(const uint8_t *enc, size_t len, const uint64_t *v, size_t n) {
    gpage in = gpage_new(enc, len);
    varintFORMeta rm;
    memset(&rm, 0xEE, sizeof rm);
    varintFORReadMetadata(in.p, &rm);
    out_meta("rm", &rm);
    out_u64("gc", varintFORGetCount(in.p));
    out_u64("gm", varintFORGetMinValue(in.p));
    out_u64("gw", varintFORGetOffsetWidth(in.p));

    garr o = garr_new(n + GUARD_ELEMS);
    size_t r = varintFORDecode(in.p, o.v, n);
    out_u64("dn", r);
    out_rt("rt", o.v, min_sz(r, n), v, n);
    out_u64("wr", garr_touched(&o));
    garr_free(&o);

    o = garr_new(n + GUARD_ELEMS);
    r = varintFORBatchDecode(in.p, o.v, n);
    out_u64("bn", r);
    out_rt("brt", o.v, min_sz(r, n), v, n);
    out_u64("bwr", garr_touched(&o));
    garr_free(&o);

    /* random access */
    size_t bad = 0, K = idx_count(n);
    uint64_t firstbad[2] = {0, 0};
    /* any order: descending first, then ascending */
    for (size_t kk = 0; kk < 2 * K; kk++) {
        size_t k = kk < K ? K - 1 - kk : kk - K;
        size_t i = idx_at(n, k);
        uint64_t x = varintFORGetAt(in.p, i);
        if (x != v[i] && bad++ == 0) {
            firstbad[0] = i;
            firstbad[1] = x;
        }
    }
    if (bad) out_list("at", firstbad, 2); else out_str("at", "ok");

    /* block reader */
    size_t starts[8] = {0, 0, n - 1, n / 2, n, 1, 0, n / 3};
    size_t sizes[8] = {n, 1, 1, n, 1, 16, n + 5, n / 3 + 1};
    uint64_t rets[8];
    int blkbad = -1;
    for (int k = 0; k < 8; k++) {
        size_t cap = sizes[k];
        garr b = garr_new(cap + GUARD_ELEMS);
        size_t br = varintFORDecodeBlock(in.p, b.v, starts[k], sizes[k]);
        rets[k] = br;
        size_t wr = garr_touched(&b);
        int good = br <= cap && wr <= br && starts[k] + br <= n &&
                   (br == 0 || memcmp(b.v, v + starts[k], br * 8) == 0);
        if (!good && blkbad < 0) blkbad = k;
        garr_free(&b);
    }
    out_list("bc", rets, 8);
    if (blkbad < 0) out_str("blk", "ok"); else out_u64("blk", (uint64_t)blkbad);
    gpage_free(&in);
}

/* for_enc L<values> mode
 *   0 meta NULL   1 caller meta with count 0 (re-analysed, written back)
 *   2 caller meta from varintFORAnalyze (trusted)
 *   3 batch, NULL 4 batch, caller meta from varintFORBatchAnalyze */
static void h_for_enc(const vcase *c) {
    size_t n;
    uint64_t *v = arg_list(c, 0, &n);
    int mode = (int)arg_u64(c, 1);
    if (n == 0) {
        out_str("ub", "1");
        free(v);
        return;
    }
    varintFORMeta a;
    memset(&a, 0xEE, sizeof a);
    if (mode >= 3) varintFORBatchAnalyze(v, n, &a); else varintFORAnalyze(v, n, &a);
    out_meta("an", &a);
    size_t size = varintFORSize(&a);
    out_u64("size", size);
    out_u64("cw", varintFORComputeWidth(a.range));
    gbuf g = gbuf_new(size, 0);
    varintFORMeta cm;
    memset(&cm, 0, sizeof cm);
    if (mode == 2 || mode == 4) cm = a;
    varintFORMeta *mp = (mode == 0 || mode == 3) ? NULL : &cm;
    size_t w = mode >= 3 ? varintFORBatchEncode(g.p, v, n, mp) : varintFOREncode(g.p, v, n, mp);
    out_u64("n", w);
    out_enc("enc", g.p, min_sz(w, size));
    out_str("frame", dfg_frame_after(&g, w));
    out_str("guard", gbuf_guard(&g));
    if (mp) out_meta("cm", &cm);
    for_read_side(g.p, min_sz(w, size), v, n);
    gbuf_free(&g);
    free(v);
}

/* for_encm L<values> min width : caller meta {min, count = n, width} taken
 * on trust by the encoder (outside the lossless domain unless it happens to
 * be right); buffer of exactly varintFORSize(meta) */
static void h_for_encm(const vcase *c) {
    size_t n;
    uint64_t *v = arg_list(c, 0, &n);
    uint64_t mn = arg_u64(c, 1);
    unsigned wd = (unsigned)arg_u64(c, 2);
    if (n == 0 || wd < 1 || wd > 8) {
        out_str("ub", "1");
        free(v);
        return;
    }
    varintFORMeta cm;
    memset(&cm, 0, sizeof cm);
    cm.minValue = mn;
    cm.count = n;
    cm.offsetWidth = (varintWidth)wd;
    size_t size = varintFORSize(&cm);
    out_u64("size", size);
    gbuf g = gbuf_new(size, 0);
    size_t w = varintFOREncode(g.p, v, n, &cm);
    out_u64("n", w);
    out_enc("enc", g.p, min_sz(w, size));
    out_str("frame", dfg_frame_after(&g, w));
    out_str("guard", gbuf_guard(&g));
    out_meta("cm", &cm);
    gpage in = gpage_new(g.p, min_sz(w, size));
    garr o = garr_new(n + GUARD_ELEMS);
    size_t r = varintFORDecode(in.p, o.v, n);
    out_u64("dn", r);
    out_list("dec", o.v, n <= 40 ? min_sz(r, n) : 0);
    out_u64("wr", garr_touched(&o));
    garr_free(&o);
    gpage_free(&in);
    gbuf_free(&g);
    free(v);
}

/* the three capacity-taking readers of one encoding under each capacity */
static void for_caps(const uint8_t *enc, size_t len, const uint64_t *caps, size_t ncaps,
                     const uint64_t *v, size_t n, int show) {
    gpage in = gpage_new(enc, len);
    uint64_t *ret = malloc((ncaps + 1) * 8), *wr = malloc((ncaps + 1) * 8);
    for (int which = 0; which < 3; which++) {
        int bad = -1;
        for (size_t k = 0; k < ncaps; k++) {
            size_t cap = (size_t)caps[k];
            garr o = garr_new(cap + GUARD_ELEMS);
            size_t r = which == 0   ? varintFORDecode(in.p, o.v, cap)
                       : which == 1 ? varintFORBatchDecode(in.p, o.v, cap)
                                    : varintFORDecodeBlock(in.p, o.v, 0, cap);
            ret[k] = r;
            wr[k] = garr_touched(&o);
            if (v && r > 0 && (r > n || r > cap || memcmp(o.v, v, r * 8) != 0) && bad < 0) bad = (int)k;
            if (show && r > 0 && r <= 40 && k + 1 == ncaps) out_list(which == 0 ? "dec" : which == 1 ? "bdec" : "kdec", o.v, min_sz(r, cap + GUARD_ELEMS));
            if (strcmp(gbuf_guard(&o.g), "ok") != 0) wr[k] = UINT64_MAX;
            garr_free(&o);
        }
        out_list(which == 0 ? "ret" : which == 1 ? "bret" : "kret", ret, ncaps);
        out_list(which == 0 ? "wr" : which == 1 ? "bwr" : "kwr", wr, ncaps);
        if (v) {
            if (bad < 0) out_str(which == 0 ? "out" : which == 1 ? "bout" : "kout", "ok");
            else out_u64(which == 0 ? "out" : which == 1 ? "bout" : "kout", (uint64_t)bad);
        }
    }
    free(ret);
    free(wr);
    gpage_free(&in);
}

/* for_cap L<values> L<capacities> */
static void h_for_cap(const vcase *c) {
    size_t n, nc;
    uint64_t *v = arg_list(c, 0, &n);
    uint64_t *caps = arg_list(c, 1, &nc);
    if (n == 0) {
        out_str("ub", "1");
        free(v);
        free(caps);
        return;
    }
    varintFORMeta a;
    varintFORAnalyze(v, n, &a);
    gbuf g = gbuf_new(a.encodedSize, 0);
    size_t w = varintFOREncode(g.p, v, n, NULL);
    out_u64("n", w);
    for_caps(g.p, min_sz(w, a.encodedSize), caps, nc, v, n, 0);
    gbuf_free(&g);
    free(v);
    free(caps);
}

/* for_capx x<stream> L<capacities> : hand-made / hostile stream */
static void h_for_capx(const vcase *c) {
    size_t len, nc;
    uint8_t *b = arg_hex(c, 0, &len);
    uint64_t *caps = arg_list(c, 1, &nc);
    for_caps(b, len, caps, nc, NULL, 0, 1);
    free(b);
    free(caps);
}

/* ------------------------------------------------------------ group */

/* group L<values> fieldCount */
static void h_group(const vcase *c) {
    size_t n;
    uint64_t *v = arg_list(c, 0, &n);
    unsigned fc = (unsigned)arg_u64(c, 1);
    int refused = fc == 0 || fc > VARINT_GROUP_MAX_FIELDS;
    if (fc > 255 || (!refused && fc > n)) {
        out_str("ub", "1");
        free(v);
        return;
    }
    size_t size = varintGroupSize(v, (uint8_t)fc);
    out_u64("size", size);
    out_u64("bms", varintGroupBitmapSize_((uint8_t)fc));
    gbuf g = gbuf_new(size, 0);
    size_t w = varintGroupEncode(g.p, v, (uint8_t)fc);
    out_u64("n", w);
    out_enc("enc", g.p, min_sz(w, size));
    out_str("frame", dfg_frame_after(&g, w));
    out_str("guard", gbuf_guard(&g));
    if (w > 0 && w <= size) {
        gpage in = gpage_new(g.p, w);
        out_u64("gs", varintGroupGetSize(in.p));
        out_u64("fc", varintGroupGetFieldCount(in.p));
        uint64_t fw[260];
        for (unsigned i = 0; i <= fc && i < 256; i++) fw[i] = varintGroupGetFieldWidth(in.p, (uint8_t)i);
        out_list("fw", fw, fc + 1 <= 256 ? fc + 1 : 256);
        garr o = garr_new(fc + GUARD_ELEMS);
        uint8_t dfc = 0xEE;
        size_t r = varintGroupDecode(in.p, o.v, &dfc, fc);
        out_u64("dn", r);
        out_u64("dfc", dfc);
        out_rt("rt", o.v, r ? dfc : 0, v, fc);
        out_u64("wr", garr_touched(&o));
        garr_free(&o);
        /* field access */
        uint64_t go[260];
        int bad = -1;
        for (unsigned i = 0; i <= fc && i < 256; i++) {
            uint64_t x = 0xEEEEEEEEEEEEEEEEULL;
            go[i] = varintGroupGetField(in.p, (uint8_t)i, &x);
            if (i < fc ? (go[i] == 0 || x != v[i]) : (go[i] != 0 || x != 0xEEEEEEEEEEEEEEEEULL)) {
                if (bad < 0) bad = (int)i;
            }
        }
        out_list("go", go, fc + 1 <= 256 ? fc + 1 : 256);
        if (bad < 0) out_str("gf", "ok"); else out_u64("gf", (uint64_t)bad);
        gpage_free(&in);
    }
    gbuf_free(&g);
    free(v);
}

static void group_caps(const uint8_t *enc, size_t len, const uint64_t *caps, size_t ncaps,
                       const uint64_t *v, size_t n, int show) {
    gpage in = gpage_new(enc, len);
    uint64_t *ret = malloc((ncaps + 1) * 8), *wr = malloc((ncaps + 1) * 8), *fco = malloc((ncaps + 1) * 8);
    int bad = -1;
    for (size_t k = 0; k < ncaps; k++) {
        size_t cap = (size_t)caps[k];
        garr o = garr_new(cap + GUARD_ELEMS);
        uint8_t dfc = 0xEE;
        size_t r = varintGroupDecode(in.p, o.v, &dfc, cap);
        ret[k] = r;
        fco[k] = dfc;
        wr[k] = garr_touched(&o);
        if (v && r > 0 && (dfc != n || dfc > cap || memcmp(o.v, v, (size_t)dfc * 8) != 0) && bad < 0) bad = (int)k;
        if (show && r > 0 && k + 1 == ncaps) out_list("dec", o.v, min_sz(dfc, cap + GUARD_ELEMS));
        if (strcmp(gbuf_guard(&o.g), "ok") != 0) wr[k] = UINT64_MAX;
        garr_free(&o);
    }
    out_list("ret", ret, ncaps);
    out_list("wr", wr, ncaps);
    out_list("fco", fco, ncaps);
    if (v) {
        if (bad < 0) out_str("out", "ok"); else out_u64("out", (uint64_t)bad);
    }
    free(ret);
    free(wr);
    free(fco);
    gpage_free(&in);
}

/* group_cap L<values> L<capacities> (fieldCount = number of values, 1..64) */
static void h_group_cap(const vcase *c) {
    size_t n, nc;
    uint64_t *v = arg_list(c, 0, &n);
    uint64_t *caps = arg_list(c, 1, &nc);
    if (n == 0 || n > VARINT_GROUP_MAX_FIELDS) {
        out_str("ub", "1");
        free(v);
        free(caps);
        return;
    }
    size_t size = varintGroupSize(v, (uint8_t)n);
    gbuf g = gbuf_new(size, 0);
    size_t w = varintGroupEncode(g.p, v, (uint8_t)n);
    out_u64("n", w);
    group_caps(g.p, min_sz(w, size), caps, nc, v, n, 0);
    gbuf_free(&g);
    free(v);
    free(caps);
}

/* group_capx x<stream> L<capacities> */
static void h_group_capx(const vcase *c) {
    size_t len, nc;
    uint8_t *b = arg_hex(c, 0, &len);
    uint64_t *caps = arg_list(c, 1, &nc);
    gpage in = gpage_new(b, len);
    out_u64("gs", len ? varintGroupGetSize(in.p) : 0);
    out_u64("fc", len ? varintGroupGetFieldCount(in.p) : 0);
    gpage_free(&in);
    group_caps(b, len, caps, nc, NULL, 0, 1);
    free(b);
    free(caps);
}

static const vreg dfg_tab[] = {
    {"zigzag", h_zigzag},       {"unzigzag", h_unzigzag},   {"delta_put", h_delta_put},
    {"delta_s", h_delta_s},     {"delta_u", h_delta_u},     {"for_enc", h_for_enc},
    {"for_encm", h_for_encm},   {"for_cap", h_for_cap},     {"for_capx", h_for_capx},
    {"group", h_group},         {"group_cap", h_group_cap}, {"group_capx", h_group_capx},
};
VREGISTER(dfg_tab)
