/* drv_bitdim.c — handlers for varintBitstream.h (C11) and
 * varintDimension.{c,h} (C10).
 *
 * Bitstream: the header is instantiated once per (VBITS, VBITSVAL) pair in
 * drv_bitdim_bs_<W>_<V>.c (it is `#pragma once` + static functions, so each
 * instantiation needs its own translation unit).
 * Dimension: public functions come from the library object; the static
 * varintDimensionPairDecode and the F16C-only half accessors come from
 * drv_bitdim_priv.c. */
#include "core.h"
#include "varintDimension.h"
#include "varintBitstream.h" /* default instantiation: macros for the signed helpers */
#include <stdlib.h>
#include <string.h>

/* ------------------------------------------------------------ bitstream */
#define BS_DECL(id)                                                            \
    void bitdim_bs_##id##_set(void *, size_t, size_t, uint64_t);               \
    uint64_t bitdim_bs_##id##_get(const void *, size_t, size_t);
BS_DECL(8_64) BS_DECL(16_64) BS_DECL(32_64) BS_DECL(64_64)
BS_DECL(8_8) BS_DECL(16_16) BS_DECL(32_32)

typedef struct {
    unsigned W, V;
    void (*set)(void *, size_t, size_t, uint64_t);
    uint64_t (*get)(const void *, size_t, size_t);
} bsinst;
#define BS_ROW(w, v) {w, v, bitdim_bs_##w##_##v##_set, bitdim_bs_##w##_##v##_get}
static const bsinst bs_tab[] = {
    BS_ROW(8, 64), BS_ROW(16, 64), BS_ROW(32, 64), BS_ROW(64, 64),
    BS_ROW(8, 8),  BS_ROW(16, 16), BS_ROW(32, 32),
};
static const bsinst *bs_find(uint64_t W, uint64_t V) {
    for (size_t i = 0; i < sizeof bs_tab / sizeof bs_tab[0]; i++)
        if (bs_tab[i].W == W && bs_tab[i].V == V) return &bs_tab[i];
    return NULL;
}

#define BS_GUARD_WORDS 2
/* bs_setget W V off n v xprior
 * The stream is exactly the given bytes (little-endian words), its end flush
 * against an inaccessible page (an access to a word after the last one
 * faults), with BS_GUARD_WORDS canary words in front.
 *   get0  = Get(off, n) on the prior content
 *   mem   = stream after Set(off, n, v)
 *   get   = Get(off, n) after the Set
 *   lo    = ok|dirty  (canary words in front) */
static void h_bs_setget(const vcase *c) {
    uint64_t W = arg_u64(c, 0), V = arg_u64(c, 1);
    size_t off = (size_t)arg_u64(c, 2), n = (size_t)arg_u64(c, 3);
    uint64_t v = arg_u64(c, 4);
    size_t len;
    uint8_t *prior = arg_hex(c, 5, &len);
    const bsinst *bi = bs_find(W, V);
    if (!bi) { out_str("error", "no-such-instantiation"); free(prior); return; }
    size_t wb = W / 8, gl = BS_GUARD_WORDS * wb;
    uint8_t *tmp = malloc(gl + len + 1);
    for (size_t i = 0; i < gl; i++) tmp[i] = gbuf_canary(i);
    if (len) memcpy(tmp + gl, prior, len);
    gpage g = gpage_new(tmp, gl + len);
    uint8_t *s = g.p + gl;
    out_u64("get0", bi->get(s, off, n));
    bi->set(s, off, n, v);
    out_hex("mem", s, len);
    out_u64("get", bi->get(s, off, n));
    const char *lo = "ok";
    for (size_t i = 0; i < gl; i++) if (g.p[i] != gbuf_canary(i)) lo = "dirty";
    out_str("lo", lo);
    gpage_free(&g);
    free(tmp);
    free(prior);
}

/* bs_signed n v off : the signed helpers on a 64-bit variable of each of the
 * two types the documentation uses (vbitsVal = uint64_t, int64_t), then —
 * when the prepared value fits n bits — through a 64-bit stream at `off`. */
static void h_bs_signed(const vcase *c) {
    size_t n = (size_t)arg_u64(c, 0);
    int64_t orig = arg_i64(c, 1);
    size_t off = (size_t)arg_u64(c, 2);
    volatile size_t nn = n;
    uint64_t prepared = (uint64_t)orig;
    if (orig < 0) _varintBitstreamPrepareSigned(prepared, nn);
    out_u64("prep", prepared);
    uint64_t r = prepared;
    _varintBitstreamRestoreSigned(r, nn);
    out_i64("rest", (int64_t)r);
    int64_t sp = orig;
    if (orig < 0) _varintBitstreamPrepareSigned(sp, nn);
    out_u64("preps", (uint64_t)sp);
    int64_t sr = sp;
    _varintBitstreamRestoreSigned(sr, nn);
    out_i64("rests", sr);
    if (n == 64 || (prepared >> n) == 0) {
        uint64_t words[3] = {0x0123456789abcdefULL, 0xfedcba9876543210ULL, 0x5555aaaa3333ccccULL};
        gpage g = gpage_new((const uint8_t *)words, sizeof words);
        bitdim_bs_64_64_set(g.p, off, n, prepared);
        uint64_t back = bitdim_bs_64_64_get(g.p, off, n);
        _varintBitstreamRestoreSigned(back, nn);
        out_i64("via", (int64_t)back);
        gpage_free(&g);
    }
}

/* ------------------------------------------------------------ dimension */
/* opt_bitdim_priv.c is an OPTIONAL unit (it re-includes varintDimension.c to
 * reach a static function and the F16C-only accessors): when a refactor of
 * the library makes it uncompilable the driver is linked without it and
 * these weak symbols are NULL. */
__attribute__((weak)) void bitdim_priv_decode(const void *p, size_t *x, size_t *y, unsigned dim);
__attribute__((weak)) int bitdim_priv_have_half(void);
__attribute__((weak)) void bitdim_priv_set_half(void *d, size_t r, size_t c, float v, unsigned dim);
__attribute__((weak)) float bitdim_priv_get_half(const void *d, size_t r, size_t c, unsigned dim);
#include "varintExternal.h"

/* dim_pack r c */
static void h_dim_pack(const vcase *c) {
    size_t row = (size_t)arg_u64(c, 0), col = (size_t)arg_u64(c, 1);
    uint64_t packed = 0;
    varintDimensionPacked dim = 0;
    bool ok = varintDimensionPack(row, col, &packed, &dim);
    out_u64("ok", ok);
    if (ok) {
        out_u64("packed", packed);
        out_u64("dim", (uint64_t)dim);
        size_t ur = 0, uc = 0;
        varintDimensionUnpack(&ur, &uc, packed, dim);
        out_u64("ur", ur); out_u64("uc", uc);
        size_t mr = 0, mc = 0;
        varintDimensionUnpack_(mr, mc, packed, dim);
        out_u64("mr", mr); out_u64("mc", mc);
    }
}

static const char *frame_after(const gbuf *g, size_t used) {
    for (size_t i = used; i < g->size; i++)
        if (g->p[i] != gbuf_canary((size_t)(g->p - g->base) + i)) return "dirty";
    return "ok";
}

/* dim_pair rows cols align */
static void h_dim_pair(const vcase *c) {
    size_t rows = (size_t)arg_u64(c, 0), cols = (size_t)arg_u64(c, 1);
    unsigned align = (unsigned)arg_u64(c, 2);
    varintDimensionPair d0 = varintDimensionPairDimension(rows, cols);
    out_u64("dim0", (uint64_t)d0);
    gbuf g = gbuf_new(16, align);
    varintDimensionPair d = varintDimensionPairEncode(g.p, rows, cols);
    out_u64("dim", (uint64_t)d);
    uint64_t wr = VARINT_DIMENSION_PAIR_WIDTH_ROW_COUNT(d);
    uint64_t wc = VARINT_DIMENSION_PAIR_WIDTH_COL_COUNT(d);
    uint64_t len = VARINT_DIMENSION_PAIR_BYTE_LENGTH(d);
    out_u64("wr", wr); out_u64("wc", wc); out_u64("len", len);
    out_u64("sparse", VARINT_DIMENSION_PAIR_IS_SPARSE(d));
    out_hex("hdr", g.p, len <= 16 ? len : 16);
    out_str("frame", frame_after(&g, len <= 16 ? len : 16));
    out_str("guard", gbuf_guard(&g));
    gpage in = gpage_new(g.p, len <= 16 ? len : 16);
    size_t x = 0xDEAD, y = 0xBEEF;
    if (bitdim_priv_decode) {
        bitdim_priv_decode(in.p, &x, &y, (unsigned)d);
    } else {
        /* documented header format: rows then cols as external varints */
        x = wr ? (size_t)varintExternalGet(in.p, (varintWidth)wr) : 0;
        y = (size_t)varintExternalGet(in.p + wr, (varintWidth)wc);
    }
    out_u64("dr", x); out_u64("dc", y);
    gpage_free(&in);
    gbuf_free(&g);
}

/* deterministic prior content of a matrix buffer (same function in
 * drv_bitdim.ml) */
static uint8_t fill_byte(uint64_t seed, size_t i) {
    if (seed == 0) return 0;
    if (seed == 1) return 0xff;
    uint64_t x = (seed * 7919u + (uint64_t)i * 104729u + 12345u) % 65521u;
    x = (x * x + (uint64_t)i) % 65521u;
    return (uint8_t)(x & 0xff);
}

/* software half <-> float, exact for every non-NaN half value */
static float half_to_float(uint16_t h) {
    uint32_t s = (uint32_t)(h >> 15) << 31, e = (h >> 10) & 31, m = h & 1023, bits;
    if (e == 0) {
        if (m == 0) bits = s;
        else { int k = 0; while (!(m & 1024)) { m <<= 1; k++; } m &= 1023; bits = s | ((uint32_t)(113 - k) << 23) | (m << 13); }
    } else if (e == 31) bits = s | 0x7f800000u | (m << 13);
    else bits = s | ((e + 112) << 23) | (m << 13);
    float f; memcpy(&f, &bits, 4); return f;
}
static uint16_t float_to_half_exact(float f) {
    uint32_t b; memcpy(&b, &f, 4);
    uint16_t s = (uint16_t)((b >> 31) << 15);
    uint32_t e = (b >> 23) & 255, m = b & 0x7fffff;
    if (e == 255) return (uint16_t)(s | 0x7c00 | (m ? (0x200 | (m >> 13)) : 0));
    if (e == 0) return s;
    int he = (int)e - 112;
    if (he >= 31) return (uint16_t)(s | 0x7c00);
    if (he >= 1) return (uint16_t)(s | (he << 10) | (m >> 13));
    if (he < -10) return s;
    m |= 0x800000;
    return (uint16_t)(s | (m >> (14 - he)));
}

typedef struct { char kind; unsigned w; unsigned dim; } cellcfg;

static uint64_t cell_get(const uint8_t *buf, const cellcfg *k, size_t r, size_t c) {
    varintDimensionPair d = (varintDimensionPair)k->dim;
    switch (k->kind) {
    case 'u': return varintDimensionPairEntryGetUnsigned(buf, r, c, (varintWidth)k->w, d);
    case 'f': { float f = varintDimensionPairEntryGetFloat(buf, r, c, d); uint32_t b; memcpy(&b, &f, 4); return b; }
    case 'd': { double f = varintDimensionPairEntryGetDouble(buf, r, c, d); uint64_t b; memcpy(&b, &f, 8); return b; }
    case 'h': {
        /* NaN payloads are changed by the hardware conversion (quieting): all NaNs print as 0x7e00 */
        uint16_t h = float_to_half_exact(bitdim_priv_get_half(buf, r, c, k->dim));
        return ((h >> 10) & 31) == 31 && (h & 1023) ? 0x7e00 : h;
    }
    default: return varintDimensionPairEntryGetBit(buf, r, c, d);
    }
}
/* returns the toggle's return value (bit kind, v == 2), else v */
static uint64_t cell_set(uint8_t *buf, const cellcfg *k, size_t r, size_t c, uint64_t v) {
    varintDimensionPair d = (varintDimensionPair)k->dim;
    switch (k->kind) {
    case 'u': varintDimensionPairEntrySetUnsigned(buf, r, c, v, (varintWidth)k->w, d); return v;
    case 'f': { uint32_t b = (uint32_t)v; float f; memcpy(&f, &b, 4); varintDimensionPairEntrySetFloat(buf, r, c, f, d); return v; }
    case 'd': { double f; memcpy(&f, &v, 8); varintDimensionPairEntrySetDouble(buf, r, c, f, d); return v; }
    case 'h': bitdim_priv_set_half(buf, r, c, half_to_float((uint16_t)v), k->dim); return v;
    default:
        if (v == 2) return varintDimensionPairEntryToggleBit(buf, r, c, d);
        varintDimensionPairEntrySetBit(buf, r, c, v != 0, d);
        return v;
    }
}

#define MAXWATCH 96
static size_t watch_set(size_t *w, size_t nalloc, size_t cols, const uint64_t *ops, size_t nops) {
    size_t n = 0;
    if (nalloc <= 64) { for (size_t i = 0; i < nalloc; i++) w[n++] = i; return n; }
#define ADDW(x) do { uint64_t x_ = (x); if (x_ < nalloc && n < MAXWATCH) { int dup = 0; for (size_t j_ = 0; j_ < n; j_++) if (w[j_] == x_) dup = 1; if (!dup) w[n++] = (size_t)x_; } } while (0)
    ADDW(0); ADDW(1); ADDW(nalloc - 2); ADDW(nalloc - 1);
    for (size_t i = 0; i < nops && i < 8; i++) {
        uint64_t t = ops[3 * i] * cols + ops[3 * i + 1];
        ADDW(t - 1); ADDW(t); ADDW(t + 1); ADDW(t - 8); ADDW(t + 8); ADDW(t - cols); ADDW(t + cols);
    }
#undef ADDW
    return n;
}

/* dim_cell rows cols kind nalloc seed Lops
 *   kind: u1..u8 | f | d | h | b        ops: r,c,v triples
 *   (bit kind: v = 0 SetBit(false), 1 SetBit(true), 2 ToggleBit)
 * The buffer holds the header and the first `nalloc` cells (linear index
 * row*cols+col) and not one byte more. */
static void h_dim_cell(const vcase *c) {
    size_t rows = (size_t)arg_u64(c, 0), cols = (size_t)arg_u64(c, 1);
    const char *ks = c->argv[2];
    size_t nalloc = (size_t)arg_u64(c, 3);
    uint64_t seed = arg_u64(c, 4);
    size_t nl;
    uint64_t *ops = arg_list(c, 5, &nl);
    size_t nops = nl / 3;
    cellcfg k;
    k.kind = ks[0];
    k.w = k.kind == 'u' ? (unsigned)(ks[1] - '0') : k.kind == 'f' ? 4 : k.kind == 'd' ? 8 : k.kind == 'h' ? 2 : 0;
    if (k.kind == 'h' && (!bitdim_priv_have_half || !bitdim_priv_have_half())) { out_str("error", "no-f16c"); free(ops); return; }
    varintDimensionPair d0 = varintDimensionPairDimension(rows, cols);
    size_t hlen = VARINT_DIMENSION_PAIR_BYTE_LENGTH(d0);
    size_t total = hlen + (k.kind == 'b' ? (nalloc + 7) / 8 : nalloc * k.w);
    gbuf g = gbuf_new(total, (unsigned)(seed & 15));
    for (size_t i = 0; i < total; i++) g.p[i] = fill_byte(seed, i);
    varintDimensionPair d = varintDimensionPairEncode(g.p, rows, cols);
    k.dim = (unsigned)d;
    out_u64("dim", (uint64_t)d);
    out_u64("hlen", hlen);
    out_hex("hdr", g.p, hlen);
    uint8_t *init = malloc(total + 1);
    memcpy(init, g.p, total);
    size_t watch[MAXWATCH];
    size_t nw = watch_set(watch, nalloc, cols, ops, nops);
    uint64_t wv[MAXWATCH];
    uint64_t *pre = malloc((nops + 1) * 8), *gets = malloc((nops + 1) * 8), *ret = malloc((nops + 1) * 8);
    uint64_t *fin = malloc((nops + 1) * 8);
    uint64_t oth = 0, hchg = 0;
    for (size_t i = 0; i < nops; i++) {
        size_t r = (size_t)ops[3 * i], cc = (size_t)ops[3 * i + 1];
        uint64_t v = ops[3 * i + 2];
        size_t t = r * cols + cc;
        for (size_t j = 0; j < nw; j++) wv[j] = cell_get(g.p, &k, watch[j] / cols, watch[j] % cols);
        pre[i] = cell_get(g.p, &k, r, cc);
        ret[i] = cell_set(g.p, &k, r, cc, v);
        gets[i] = cell_get(g.p, &k, r, cc);
        for (size_t j = 0; j < nw; j++)
            if (watch[j] != t && wv[j] != cell_get(g.p, &k, watch[j] / cols, watch[j] % cols)) oth++;
        if (memcmp(g.p, init, hlen) != 0) hchg++;
    }
    for (size_t i = 0; i < nops; i++) fin[i] = cell_get(g.p, &k, (size_t)ops[3 * i], (size_t)ops[3 * i + 1]);
    out_list("pre", pre, nops);
    out_list("ret", ret, nops);
    out_list("gets", gets, nops);
    out_list("final", fin, nops);
    out_u64("oth", oth);
    out_u64("hchg", hchg);
    size_t nchg = 0;
    uint64_t *chg = malloc((2 * total + 2) * 8);
    for (size_t i = 0; i < total; i++) if (g.p[i] != init[i]) { chg[nchg++] = i; chg[nchg++] = g.p[i]; }
    out_list("chg", chg, nchg);
    out_str("guard", gbuf_guard(&g));
    free(chg); free(pre); free(gets); free(ret); free(fin); free(init); free(ops);
    gbuf_free(&g);
}

static const vreg tab[] = {
    {"bs_setget", h_bs_setget}, {"bs_signed", h_bs_signed},
    {"dim_pack", h_dim_pack},   {"dim_pair", h_dim_pair},
    {"dim_cell", h_dim_cell},
};
VREGISTER(tab)
