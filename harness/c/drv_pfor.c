/* drv_pfor.c — handlers for varintPFOR.{c,h} */
#include "core.h"
#include "varintPFOR.h"
#include "varintTagged.h"
#include <stdlib.h>
#include <string.h>

#define PFOR_HEX_MAX 100000 /* encodings longer than this are printed as head + hash */

/* The destination is a gbuf of `size` advertised bytes followed by PFOR_SLACK
 * more canary bytes of our own, so that an overrun of a few hundred bytes is
 * reported as guard=hi instead of corrupting the allocator. */
#define PFOR_SLACK 65536
static int canary_intact(const gbuf *g, size_t from, size_t to) {
    for (size_t i = from; i < to; i++) {
        if (g->p[i] != gbuf_canary((size_t)(g->p - g->base) + i)) return 0;
    }
    return 1;
}

static void out_meta(const char *pfx, const varintPFORMeta *m) {
    char k[32];
    snprintf(k, sizeof k, "%smin", pfx); out_u64(k, m->min);
    snprintf(k, sizeof k, "%smarker", pfx); out_u64(k, m->exceptionMarker);
    snprintf(k, sizeof k, "%stv", pfx); out_u64(k, m->thresholdValue);
    snprintf(k, sizeof k, "%swidth", pfx); out_u64(k, (uint64_t)m->width);
    snprintf(k, sizeof k, "%scount", pfx); out_u64(k, m->count);
    snprintf(k, sizeof k, "%sexc", pfx); out_u64(k, m->exceptionCount);
    snprintf(k, sizeof k, "%sthr", pfx); out_u64(k, m->threshold);
}

static void out_bytes(const char *k, const uint8_t *p, size_t n) {
    if (n <= PFOR_HEX_MAX) {
        out_hex(k, p, n);
    } else {
        uint32_t h = 0;
        for (size_t i = 0; i < n; i++) h = h * 31u + p[i];
        char kk[32];
        out_hex(k, p, 64);
        snprintf(kk, sizeof kk, "%shash", k);
        out_u64(kk, h);
    }
}

/* decoded list against the original: "ok" or the list */
static void out_cmp(const char *k, const uint64_t *got, size_t ngot, const uint64_t *want, size_t nwant) {
    if (ngot == nwant && (ngot == 0 || memcmp(got, want, ngot * sizeof(uint64_t)) == 0)) {
        out_str(k, "ok");
    } else {
        out_list(k, got, ngot);
    }
}

/* the indices probed with varintPFORGetAt: all of them for short arrays,
 * otherwise the ends, a stride, and the first/last 48 exception positions */
static size_t probe_indices(const uint64_t *xs, size_t n, const varintPFORMeta *m, uint32_t *idx, size_t cap) {
    size_t k = 0;
    if (n <= 300) {
        for (size_t i = 0; i < n; i++) idx[k++] = (uint32_t)i;
        return k;
    }
    idx[k++] = 0; idx[k++] = 1; idx[k++] = (uint32_t)(n - 2); idx[k++] = (uint32_t)(n - 1);
    for (size_t j = 0; j < 48; j++) idx[k++] = (uint32_t)((j * 2654435761ULL + 12345) % n);
    size_t ne = 0;
    for (size_t i = 0; i < n && ne < 48; i++) {
        if (xs[i] > m->thresholdValue || xs[i] - m->min == m->exceptionMarker) { idx[k++] = (uint32_t)i; ne++; }
    }
    ne = 0;
    for (size_t i = n; i-- > 0 && ne < 48;) {
        if (xs[i] > m->thresholdValue || xs[i] - m->min == m->exceptionMarker) { idx[k++] = (uint32_t)i; ne++; }
    }
    (void)cap;
    return k;
}

/* pfor_enc thr Lxs : analyse, size, encode into EXACTLY varintPFORSize bytes,
 * read the header back, decode (both entry paths) from an exact-size guarded
 * copy, random access */
static void h_pfor_enc(const vcase *c) {
    uint32_t thr = (uint32_t)arg_u64(c, 0);
    size_t n;
    uint64_t *xs = arg_list(c, 1, &n);
    varintPFORMeta ct;
    memset(&ct, 0xEE, sizeof ct);
    varintWidth ret = varintPFORComputeThreshold(xs, (uint32_t)n, thr, &ct);
    out_u64("ret", (uint64_t)ret);
    out_meta("ct_", &ct);
    size_t size = varintPFORSize(&ct);
    out_u64("size", size);

    gbuf g = gbuf_new(size + PFOR_SLACK, 0);
    varintPFORMeta m;
    memset(&m, 0xEE, sizeof m);
    size_t w = varintPFOREncode(g.p, xs, (uint32_t)n, thr, &m);
    out_u64("n", w);
    out_str("frame", canary_intact(&g, w < size ? w : size, size) ? "ok" : "dirty");
    out_str("guard", canary_intact(&g, size, size + PFOR_SLACK) ? gbuf_guard(&g) : "hi");
    size_t take = w <= size + PFOR_SLACK ? w : size + PFOR_SLACK;
    out_bytes("enc", g.p, take);
    out_meta("m_", &m);
    out_u64("size2", varintPFORSize(&m));

    gpage in = gpage_new(g.p, take);
    /* header accessor */
    varintPFORMeta rm;
    memset(&rm, 0, sizeof rm);
    size_t h = varintPFORReadMeta(in.p, &rm);
    out_u64("rm_h", h);
    out_meta("rm_", &rm);

    uint64_t *out = malloc((n + 1) * sizeof(uint64_t));
    /* decode, header parsed by the decoder */
    varintPFORMeta d1;
    memset(&d1, 0, sizeof d1);
    memset(out, 0x5A, (n + 1) * sizeof(uint64_t));
    size_t r1 = varintPFORDecode(in.p, out, &d1);
    out_u64("d1n", r1);
    out_cmp("d1", out, r1 <= n ? r1 : n, xs, n);
    out_u64("d1count", d1.count);
    out_u64("d1exc", d1.exceptionCount);
    /* decode with the encoder's metadata */
    varintPFORMeta d2 = m;
    memset(out, 0x5A, (n + 1) * sizeof(uint64_t));
    size_t r2 = varintPFORDecode(in.p, out, &d2);
    out_u64("d2n", r2);
    out_cmp("d2", out, r2 <= n ? r2 : n, xs, n);
    out_u64("d2exc", d2.exceptionCount);

    /* random access */
    uint32_t *idx = malloc((n + 400) * sizeof(uint32_t));
    size_t ni = probe_indices(xs, n, &m, idx, n + 400);
    uint64_t *ga = malloc((ni + 1) * sizeof(uint64_t));
    uint64_t *want = malloc((ni + 1) * sizeof(uint64_t));
    for (size_t k = 0; k < ni; k++) { /* probes in descending position order first */
        size_t i = ni - 1 - k;
        ga[i] = varintPFORGetAt(in.p, idx[i], &m);
        want[i] = xs[idx[i]];
    }
    out_cmp("ga", ga, ni, want, ni);
    out_u64("ga_end", varintPFORGetAt(in.p, (uint32_t)n, &m));
    out_u64("ga_far", varintPFORGetAt(in.p, (uint32_t)n + 7, &m));
    /* random access with the metadata read back from the header */
    for (size_t i = 0; i < ni; i++) ga[i] = varintPFORGetAt(in.p, idx[i], &rm);
    out_cmp("garm", ga, ni, want, ni);

    free(ga); free(want); free(idx); free(out);
    gpage_free(&in);
    gbuf_free(&g);
    free(xs);
}

/* pfor_dec xHEX cap mode : hand-made / malformed streams.  mode 0: zeroed
 * meta (decoder parses the header); mode 1: meta from varintPFORReadMeta first.
 * The handler refuses (skip=...) streams whose behaviour is not defined or not
 * observable here: more than cap elements, width outside 1..8 with a non-zero
 * count, a value area reaching more than 2048 bytes past the input. */
#define PFOR_DEC_CAP 4096
static __thread uint64_t dec_vals[PFOR_DEC_CAP + 1]; /* per thread (--threads mode) */
static void h_pfor_dec(const vcase *c) {
    size_t len;
    uint8_t *b = arg_hex(c, 0, &len);
    uint64_t cap = arg_u64(c, 1);
    int mode = (int)arg_u64(c, 2);
    if (cap > PFOR_DEC_CAP) cap = PFOR_DEC_CAP;
    /* bounded look at the header */
    int complete = 0;
    uint64_t count = 0, width = 0;
    if (len >= 1) {
        size_t w1 = varintTaggedGetLen(b);
        if (len >= w1 + 2) {
            width = b[w1];
            size_t w2 = varintTaggedGetLen(b + w1 + 1);
            if (len >= w1 + 1 + w2) {
                uint64_t cv = 0;
                varintTaggedGet(b + w1 + 1, (int32_t)w2, &cv);
                count = (uint32_t)cv;
                complete = 1;
            }
        }
    }
    if (complete) {
        if (count > cap) { out_str("skip", "cap"); free(b); return; }
        if (count > 0 && (width < 1 || width > 8)) { out_str("skip", "ub"); free(b); return; }
        if (count * width > len + 2048) { out_str("skip", "far"); free(b); return; }
    }
    gpage in = gpage_new(b, len);
    free(b);
    varintPFORMeta m;
    memset(&m, 0, sizeof m);
    if (mode == 1) {
        size_t h = varintPFORReadMeta(in.p, &m);
        out_u64("rm_h", h);
        out_meta("rm_", &m);
        if (m.width == 0) {
            /* the decoder would parse the header again: same as mode 0 */
        }
    }
    varintPFORMeta gm;
    memset(dec_vals, 0x5A, sizeof dec_vals);
    size_t r = varintPFORDecode(in.p, dec_vals, &m);
    gm = m;
    out_u64("dn", r);
    out_list("vals", dec_vals, r <= PFOR_DEC_CAP ? r : PFOR_DEC_CAP);
    out_meta("d_", &m);
    uint64_t ga[64];
    size_t ng = r < 64 ? r : 64;
    for (size_t i = 0; i < ng; i++) ga[i] = varintPFORGetAt(in.p, (uint32_t)i, &gm);
    out_list("ga", ga, ng);
    gpage_free(&in);
}

static const vreg tab[] = {
    {"pfor_enc", h_pfor_enc},
    {"pfor_dec", h_pfor_dec},
};
VREGISTER(tab)
