/* varintBitstream.h instantiated with VBITS uint8_t, VBITSVAL uint8_t */
#define VBITS uint8_t
#define VBITSVAL uint8_t
#define BITDIM_BS_ID 8_8
#include "bitdim_bs_inst.h"
