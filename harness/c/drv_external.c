/* drv_external.c — handlers for varintExternal.{c,h},
 * varintExternalBigEndian.{c,h} (little-endian host, widths 1..8). */
#include "core.h"
#include "varintExternal.h"
#include "varintExternalBigEndian.h"
#include <stdlib.h>
#include <string.h>
#include <limits.h>

static const char *x_frame_after(const gbuf *g, size_t used) {
    for (size_t i = used; i < g->size; i++) {
        if (g->p[i] != gbuf_canary((size_t)(g->p - g->base) + i)) return "dirty";
    }
    return "ok";
}

static size_t cap8(size_t w) { return w <= 8 ? w : 8; }

/* all little-endian readers on an input of exactly w bytes */
static void x_le_readers(const uint8_t *bytes, varintWidth w) {
    gpage in = gpage_new(bytes, w);
    uint64_t r;
    out_u64("get", varintExternalGet(in.p, w));
    r = 0xA5A5A5A5A5A5A5A5ULL;
    varintExternalGetQuick_(in.p, w, r);
    out_u64("getq", r);
    r = 0xA5A5A5A5A5A5A5A5ULL;
    varintExternalGetQuickMedium_(in.p, w, r);
    out_u64("getqm", r);
    out_u64("getqmrv", varintExternalGetQuickMediumReturnValue_(in.p, w));
    gpage_free(&in);
}

static void x_be_readers(const uint8_t *bytes, varintWidth w) {
    gpage in = gpage_new(bytes, w);
    uint64_t r;
    out_u64("get", varintExternalBigEndianGet(in.p, w));
    r = 0xA5A5A5A5A5A5A5A5ULL;
    varintExternalBigEndianGetQuick_(in.p, w, r);
    out_u64("getq", r);
    gpage_free(&in);
}

/* ext_rt x align */
static void h_ext_rt(const vcase *c) {
    uint64_t x = arg_u64(c, 0);
    unsigned align = (unsigned)arg_u64(c, 1);
    gbuf g = gbuf_new(8, align);
    varintWidth w = varintExternalPut(g.p, x);
    out_u64("w", w);
    out_hex("put", g.p, cap8(w));
    out_str("frame", x_frame_after(&g, cap8(w)));
    out_str("guard", gbuf_guard(&g));
    if (w >= 1 && w <= 8) x_le_readers(g.p, w);
    out_u64("len", varintExternalLen(x));
    varintWidth e;
    varintExternalUnsignedEncoding(x, e);
    out_u64("uenc", e);
    if (x <= (uint64_t)INT64_MAX) out_u64("senc", varintExternalSignedEncoding((int64_t)x));
    else out_str("senc", "na");
    gbuf_free(&g);
}

/* ext_fixed x w align : every fixed-width writer into exactly w bytes */
static void h_ext_fixed(const vcase *c) {
    uint64_t x = arg_u64(c, 0);
    varintWidth w = (varintWidth)arg_u64(c, 1);
    unsigned align = (unsigned)arg_u64(c, 2);
    if (w < 1 || w > 8) { out_str("put", "none"); return; }
    gbuf g = gbuf_new(w, align);
    varintExternalPutFixedWidth(g.p, x, w);
    out_hex("put", g.p, w);
    out_str("guard", gbuf_guard(&g));
    gbuf q = gbuf_new(w, align);
    varintExternalPutFixedWidthQuick_(q.p, x, w);
    out_hex("putq", q.p, w);
    out_str("guardq", gbuf_guard(&q));
    gbuf m = gbuf_new(w, align);
    varintExternalPutFixedWidthQuickMedium_(m.p, x, w);
    out_hex("putqm", m.p, w);
    out_str("guardqm", gbuf_guard(&m));
    x_le_readers(g.p, w);
    gbuf_free(&m);
    gbuf_free(&q);
    gbuf_free(&g);
}

/* extbe_rt x align */
static void h_extbe_rt(const vcase *c) {
    uint64_t x = arg_u64(c, 0);
    unsigned align = (unsigned)arg_u64(c, 1);
    gbuf g = gbuf_new(8, align);
    varintWidth w = varintExternalBigEndianPut(g.p, x);
    out_u64("w", w);
    out_hex("put", g.p, cap8(w));
    out_str("frame", x_frame_after(&g, cap8(w)));
    out_str("guard", gbuf_guard(&g));
    if (w >= 1 && w <= 8) x_be_readers(g.p, w);
    varintWidth e;
    varintExternalBigEndianUnsignedEncoding(x, e);
    out_u64("uenc", e);
    gbuf_free(&g);
}

/* extbe_fixed x w align */
static void h_extbe_fixed(const vcase *c) {
    uint64_t x = arg_u64(c, 0);
    varintWidth w = (varintWidth)arg_u64(c, 1);
    unsigned align = (unsigned)arg_u64(c, 2);
    if (w < 1 || w > 8) { out_str("put", "none"); return; }
    gbuf g = gbuf_new(w, align);
    varintExternalBigEndianPutFixedWidth(g.p, x, w);
    out_hex("put", g.p, w);
    out_str("guard", gbuf_guard(&g));
    gbuf q = gbuf_new(w, align);
    varintExternalBigEndianPutFixedWidthQuick_(q.p, x, w);
    out_hex("putq", q.p, w);
    out_str("guardq", gbuf_guard(&q));
    x_be_readers(g.p, w);
    gbuf_free(&q);
    gbuf_free(&g);
}

/* ext_getraw hex w : arbitrary stored bytes; the input handed over is
 * exactly the first w bytes */
static void h_ext_getraw(const vcase *c) {
    size_t len;
    uint8_t *b = arg_hex(c, 0, &len);
    varintWidth w = (varintWidth)arg_u64(c, 1);
    if (w < 1 || w > 8 || w > len) { out_str("get", "none"); free(b); return; }
    x_le_readers(b, w);
    gpage in = gpage_new(b, w);
    uint64_t r = 0xA5A5A5A5A5A5A5A5ULL;
    out_u64("beget", varintExternalBigEndianGet(in.p, w));
    varintExternalBigEndianGetQuick_(in.p, w, r);
    out_u64("begetq", r);
    gpage_free(&in);
    free(b);
}

/* ext_mono a b : widths chosen by both encoders for a and b */
static void h_ext_mono(const vcase *c) {
    uint64_t a = arg_u64(c, 0), b = arg_u64(c, 1);
    uint8_t ba[16], bb[16];
    out_u64("wa", varintExternalPut(ba, a));
    out_u64("wb", varintExternalPut(bb, b));
    out_u64("bwa", varintExternalBigEndianPut(ba, a));
    out_u64("bwb", varintExternalBigEndianPut(bb, b));
}

/* ext_signed v w : prepare, store in w bytes, load, restore.
 * w=3 uses the int32_t helpers, w=5,6,7 the int64_t ones.  The minimum
 * value is not passed to the macro (-(val) overflows: undefined). */
static void h_ext_signed(const vcase *c) {
    int64_t v = arg_i64(c, 0);
    varintWidth w = (varintWidth)arg_u64(c, 1);
    gbuf g = gbuf_new(w >= 1 && w <= 8 ? w : 1, 0);
    if (w == 3) {
        if (v < INT32_MIN || v > INT32_MAX) { out_str("prep", "na"); gbuf_free(&g); return; }
        int32_t a = (int32_t)v;
        if (a == INT32_MIN) { out_str("prep", "ub"); gbuf_free(&g); return; }
        varintPrepareSigned32to24_(a);
        out_i64("prep", a);
        varintExternalPutFixedWidth(g.p, (uint64_t)a, w);
        out_hex("put", g.p, w);
        out_str("guard", gbuf_guard(&g));
        gpage in = gpage_new(g.p, w);
        int32_t r = (int32_t)varintExternalGet(in.p, w);
        gpage_free(&in);
        out_i64("got", r);
        varintRestoreSigned24to32_(r);
        out_i64("rest", r);
    } else if (w == 5 || w == 6 || w == 7) {
        int64_t a = v;
        if (a == INT64_MIN) { out_str("prep", "ub"); gbuf_free(&g); return; }
        if (w == 5) varintPrepareSigned64to40_(a);
        else if (w == 6) varintPrepareSigned64to48_(a);
        else varintPrepareSigned64to56_(a);
        out_i64("prep", a);
        varintExternalPutFixedWidth(g.p, (uint64_t)a, w);
        out_hex("put", g.p, w);
        out_str("guard", gbuf_guard(&g));
        gpage in = gpage_new(g.p, w);
        int64_t r = (int64_t)varintExternalGet(in.p, w);
        gpage_free(&in);
        out_i64("got", r);
        if (w == 5) { varintRestoreSigned40to64_(r); }
        else if (w == 6) { varintRestoreSigned48to64_(r); }
        else { varintRestoreSigned56to64_(r); }
        out_i64("rest", r);
    } else {
        out_str("prep", "none");
    }
    gbuf_free(&g);
}

/* ext_restore r w : the restore macro on an arbitrary signed word (not only
 * on what a w-byte load can produce).  The one input whose negation
 * overflows is reported as ub without running the macro. */
static void h_ext_restore(const vcase *c) {
    int64_t v = arg_i64(c, 0);
    varintWidth w = (varintWidth)arg_u64(c, 1);
    unsigned k = (unsigned)w * 8 - 1;
    if (w == 3) {
        if (v < INT32_MIN || v > INT32_MAX) { out_str("rest", "na"); return; }
        int32_t r = (int32_t)v;
        if (((r >> k) & 1) && (int32_t)((unsigned long long)(long long)r ^ (1ULL << k)) == INT32_MIN) {
            out_str("rest", "ub");
            return;
        }
        varintRestoreSigned24to32_(r);
        out_i64("rest", r);
    } else if (w == 5 || w == 6 || w == 7) {
        int64_t r = v;
        if (((r >> k) & 1) && (int64_t)((uint64_t)r ^ (1ULL << k)) == INT64_MIN) {
            out_str("rest", "ub");
            return;
        }
        if (w == 5) { varintRestoreSigned40to64_(r); }
        else if (w == 6) { varintRestoreSigned48to64_(r); }
        else { varintRestoreSigned56to64_(r); }
        out_i64("rest", r);
    } else {
        out_str("rest", "none");
    }
}

/* ext_add hex w add force : the buffer is `hex` (len >= w), the slot its
 * first w bytes.  NoGrow: the allocation is exactly len bytes.  Grow: the
 * allocation is max(len, 8) bytes (the caller of the grow form owns room
 * for the family maximum). */
static void h_ext_add(const vcase *c) {
    size_t len;
    uint8_t *b = arg_hex(c, 0, &len);
    varintWidth w = (varintWidth)arg_u64(c, 1);
    int64_t add = arg_i64(c, 2);
    int force = (int)arg_u64(c, 3);
    if (w < 1 || w > 8 || w > len) { out_str("w", "none"); free(b); return; }
    size_t cap = force ? (len > 8 ? len : 8) : len;
    gbuf g = gbuf_new(cap, 0);
    gbuf_prefill(&g, b, len);
    varintWidth r = force ? varintExternalAddGrow(g.p, w, add) : varintExternalAddNoGrow(g.p, w, add);
    out_u64("w", r);
    size_t show = len;
    if (force && r > len && r <= cap) show = r;
    out_hex("buf", g.p, show);
    out_str("frame", x_frame_after(&g, show));
    out_str("guard", gbuf_guard(&g));
    /* what is stored now, read with the width the caller now holds */
    varintWidth now = r == 0 ? w : ((!force && r > w) ? w : r);
    if (now >= 1 && now <= 8 && now <= cap) {
        gpage in = gpage_new(g.p, now);
        out_u64("now", varintExternalGet(in.p, now));
        gpage_free(&in);
    }
    gbuf_free(&g);
    free(b);
}

static const vreg tab[] = {
    {"ext_rt", h_ext_rt},         {"ext_fixed", h_ext_fixed},
    {"extbe_rt", h_extbe_rt},     {"extbe_fixed", h_extbe_fixed},
    {"ext_getraw", h_ext_getraw}, {"ext_mono", h_ext_mono},
    {"ext_signed", h_ext_signed}, {"ext_restore", h_ext_restore},
    {"ext_add", h_ext_add},
};
VREGISTER(tab)
