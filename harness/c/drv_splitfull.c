/* drv_splitfull.c — handlers for the macro families of varintSplitFull.h and
 * varintSplitFullNoZero.h (header-only; instantiated here). */
#define _GNU_SOURCE
#include "core.h"
#include "varintSplitFull.h"
#include "varintSplitFullNoZero.h"
#include <stdlib.h>
#include <string.h>
#include <sys/mman.h>
#include <unistd.h>

static const char *sfd_frame_after(const gbuf *g, size_t used) {
    for (size_t i = used; i < g->size; i++) {
        if (g->p[i] != gbuf_canary((size_t)(g->p - g->base) + i)) return "dirty";
    }
    return "ok";
}

/* input whose FIRST byte sits right after an inaccessible page (for the
 * reversed readers, which walk downwards from ptr) and whose last byte is
 * flush against another inaccessible page */
typedef struct { uint8_t *map; size_t maplen; uint8_t *p; } sfd_lowpage;
static sfd_lowpage sfd_lowpage_new(const uint8_t *src, size_t len) {
    sfd_lowpage g;
    size_t ps = (size_t)sysconf(_SC_PAGESIZE);
    g.maplen = 2 * ps;
    g.map = mmap(NULL, g.maplen, PROT_READ | PROT_WRITE, MAP_PRIVATE | MAP_ANONYMOUS, -1, 0);
    if (g.map == MAP_FAILED) { fprintf(stderr, "driver: mmap\n"); exit(2); }
    if (mprotect(g.map, ps, PROT_NONE)) { fprintf(stderr, "driver: mprotect\n"); exit(2); }
    g.p = g.map + ps;
    if (len) memcpy(g.p, src, len);
    return g;
}
static void sfd_lowpage_free(sfd_lowpage *g) { munmap(g->map, g->maplen); }

/* the external read behind Get_ is defined only for width fields 1..8 */
static int sfd_defined(uint8_t b0) {
    if ((b0 & 0xc0) != 0xc0) return 1;
    return (b0 & 0x0f) >= 1 && (b0 & 0x0f) <= 8;
}
static size_t sfd_clip(uint64_t w) { return w > 16 ? 16 : (size_t)w; }

#define SFD_FAMILY(pfx, NAME, MAX22)                                                    \
    /* <pfx>_rt x align */                                                              \
    static void h_##pfx##_rt(const vcase *c) {                                          \
        uint64_t x = arg_u64(c, 0);                                                     \
        unsigned align = (unsigned)arg_u64(c, 1);                                       \
        varintWidth len = 0;                                                            \
        NAME##Length_(len, x);                                                          \
        /* exactly the advertised number of bytes between the canaries */               \
        gbuf g = gbuf_new(sfd_clip(len), align);                                        \
        varintWidth w = 0;                                                              \
        NAME##Put_(g.p, w, x);                                                          \
        out_u64("w", w);                                                                \
        out_hex("put", g.p, sfd_clip(w));                                               \
        out_str("frame", sfd_frame_after(&g, sfd_clip(w)));                             \
        out_str("guard", gbuf_guard(&g));                                               \
        out_u64("len", len);                                                            \
        gpage in = gpage_new(g.p, sfd_clip(w));                                         \
        varintWidth gl = 99;                                                            \
        NAME##GetLen_(in.p, gl);                                                        \
        out_u64("getlen", gl);                                                          \
        out_u64("getlenq", (uint64_t)NAME##GetLenQuick_(in.p));                         \
        if (sfd_defined(in.p[0])) {                                                     \
            varintWidth gw = 99;                                                        \
            uint64_t gv = 0;                                                            \
            NAME##Get_(in.p, gw, gv);                                                   \
            out_u64("getw", gw);                                                        \
            out_u64("getv", gv);                                                        \
        } else {                                                                        \
            out_str("get", "ub");                                                       \
        }                                                                               \
        gpage_free(&in);                                                                \
        gbuf_free(&g);                                                                  \
    }                                                                                   \
    /* <pfx>_rev x */                                                                   \
    static void h_##pfx##_rev(const vcase *c) {                                         \
        uint64_t x = arg_u64(c, 0);                                                     \
        varintWidth len = 0;                                                            \
        NAME##Length_(len, x);                                                          \
        size_t n = sfd_clip(len);                                                       \
        gbuf g = gbuf_new(n, (unsigned)(x & 7));                                        \
        varintWidth wr = 0;                                                             \
        uint8_t *dst = g.p + (n ? n - 1 : 0);                                           \
        NAME##ReversedPutReversed_(dst, wr, x);                                         \
        out_u64("wr", wr);                                                              \
        out_u64("off", (uint64_t)(dst - g.p));                                          \
        out_hex("putr", g.p, n);                                                        \
        out_str("guardr", gbuf_guard(&g));                                              \
        gbuf f = gbuf_new(n, (unsigned)((x >> 3) & 7));                                 \
        varintWidth wf = 0;                                                             \
        NAME##ReversedPutForward_(f.p, wf, x);                                          \
        out_u64("wf", wf);                                                              \
        out_hex("putf", f.p, sfd_clip(wf));                                             \
        out_str("framef", sfd_frame_after(&f, sfd_clip(wf)));                           \
        out_str("guardf", gbuf_guard(&f));                                              \
        out_u64("len", len);                                                            \
        sfd_lowpage in = sfd_lowpage_new(g.p, n);                                       \
        const uint8_t *ptr = in.p + (n ? n - 1 : 0);                                    \
        if (sfd_defined(ptr[0])) {                                                      \
            varintWidth gw = 99;                                                        \
            uint64_t gv = 0;                                                            \
            NAME##ReversedGet_(ptr, gw, gv);                                            \
            out_u64("getw", gw);                                                        \
            out_u64("getv", gv);                                                        \
        } else {                                                                        \
            out_str("get", "ub");                                                       \
        }                                                                               \
        sfd_lowpage_free(&in);                                                          \
        gbuf_free(&f);                                                                  \
        gbuf_free(&g);                                                                  \
    }                                                                                   \
    /* <pfx>_lenvar v : LengthVAR_ alone (v is the value minus MAX_22) */               \
    static void h_##pfx##_lenvar(const vcase *c) {                                      \
        uint64_t v = arg_u64(c, 0);                                                     \
        varintWidth len = 0;                                                            \
        NAME##LengthVAR_(len, v);                                                       \
        out_u64("len", len);                                                            \
    }                                                                                   \
    /* <pfx>_dec hex : readers on arbitrary bytes, exact-size guarded input */          \
    static void h_##pfx##_dec(const vcase *c) {                                         \
        size_t n;                                                                       \
        uint8_t *b = arg_hex(c, 0, &n);                                                 \
        if (n == 0) { out_str("get", "empty"); free(b); return; }                       \
        gpage in = gpage_new(b, n);                                                     \
        varintWidth gl = 99;                                                            \
        NAME##GetLen_(in.p, gl);                                                        \
        out_u64("getlen", gl);                                                          \
        out_u64("getlenq", (uint64_t)NAME##GetLenQuick_(in.p));                         \
        if (!sfd_defined(in.p[0])) out_str("get", "ub");                                \
        else if ((size_t)gl > n) out_str("get", "short");                               \
        else {                                                                          \
            gpage ex = gpage_new(b, (size_t)gl);                                        \
            varintWidth gw = 99;                                                        \
            uint64_t gv = 0;                                                            \
            NAME##Get_(ex.p, gw, gv);                                                   \
            out_u64("getw", gw);                                                        \
            out_u64("getv", gv);                                                        \
            varintWidth el = 0;                                                         \
            NAME##Length_(el, gv);                                                      \
            out_u64("lenv", el);                                                        \
            gpage_free(&ex);                                                            \
        }                                                                               \
        gpage_free(&in);                                                                \
        free(b);                                                                        \
    }                                                                                   \
    /* <pfx>_rdec hex : reversed reader, ptr at the LAST byte of hex */                 \
    static void h_##pfx##_rdec(const vcase *c) {                                        \
        size_t n;                                                                       \
        uint8_t *b = arg_hex(c, 0, &n);                                                 \
        if (n == 0) { out_str("get", "empty"); free(b); return; }                       \
        uint8_t t = b[n - 1];                                                           \
        varintWidth gl = 99;                                                            \
        NAME##GetLen_(&t, gl);                                                          \
        out_u64("getlen", gl);                                                          \
        if (!sfd_defined(t)) out_str("get", "ub");                                      \
        else if ((size_t)gl > n) out_str("get", "short");                               \
        else {                                                                          \
            sfd_lowpage in = sfd_lowpage_new(b + (n - (size_t)gl), (size_t)gl);         \
            const uint8_t *ptr = in.p + (size_t)gl - 1;                                 \
            varintWidth gw = 99;                                                        \
            uint64_t gv = 0;                                                            \
            NAME##ReversedGet_(ptr, gw, gv);                                            \
            out_u64("getw", gw);                                                        \
            out_u64("getv", gv);                                                        \
            sfd_lowpage_free(&in);                                                      \
        }                                                                               \
        free(b);                                                                        \
    }                                                                                   \
    /* <pfx>_mono a b : lengths of two values (monotonicity, boundaries) */             \
    static void h_##pfx##_mono(const vcase *c) {                                        \
        uint64_t a = arg_u64(c, 0), b = arg_u64(c, 1);                                  \
        varintWidth la = 0, lb = 0, wa = 0, wb = 0;                                     \
        uint8_t ba[16], bb[16];                                                         \
        NAME##Length_(la, a);                                                           \
        NAME##Length_(lb, b);                                                           \
        NAME##Put_(ba, wa, a);                                                          \
        NAME##Put_(bb, wb, b);                                                          \
        out_u64("la", la); out_u64("lb", lb);                                           \
        out_u64("wa", wa); out_u64("wb", wb);                                           \
    }                                                                                   \
    static varintWidth pfx##_len_of(uint64_t x) {                                       \
        varintWidth len = 0;                                                            \
        NAME##Length_(len, x);                                                          \
        return len;                                                                     \
    }                                                                                   \
    /* does the encoder keep x in an embedded (prefix 00/01/10) level? */               \
    static int pfx##_embedded(uint64_t x) {                                             \
        uint8_t b[16];                                                                  \
        varintWidth w = 0;                                                              \
        NAME##Put_(b, w, x);                                                            \
        return (b[0] & 0xc0) != 0xc0;                                                   \
    }

SFD_FAMILY(sf, varintSplitFull, VARINT_SPLIT_FULL_MAX_22)
SFD_FAMILY(sfnz, varintSplitFullNoZero, VARINT_SPLIT_FULL_NO_ZERO_MAX_22)

/* splitfull_max family k : the largest value whose Length_ is <= k (binary
 * search on the code), whether the step to k+1 bytes happens right after it,
 * and the published constant VARINT_SPLIT_FULL[_NO_ZERO]_STORAGE_k */
static void h_splitfull_max(const vcase *c) {
    int nz = !strcmp(c->argv[0], "sfnz");
    unsigned k = (unsigned)arg_u64(c, 1);
    varintWidth (*len_of)(uint64_t) = nz ? sfnz_len_of : sf_len_of;
    uint64_t lo = nz ? 1 : 0, hi = UINT64_MAX;
    if ((unsigned)len_of(lo) > k) {
        out_str("max", "none");
    } else {
        /* invariant: len_of(lo) <= k */
        while (lo < hi) {
            uint64_t mid = lo + (hi - lo) / 2 + 1;
            if ((unsigned)len_of(mid) <= k) lo = mid; else hi = mid - 1;
        }
        out_u64("max", lo);
        out_u64("tight", lo == UINT64_MAX ? 1 : ((unsigned)len_of(lo + 1) == k + 1));
    }
    static const uint64_t csf[10] = {0,
        VARINT_SPLIT_FULL_STORAGE_1, VARINT_SPLIT_FULL_STORAGE_2, VARINT_SPLIT_FULL_STORAGE_3,
        VARINT_SPLIT_FULL_STORAGE_4, VARINT_SPLIT_FULL_STORAGE_5, VARINT_SPLIT_FULL_STORAGE_6,
        VARINT_SPLIT_FULL_STORAGE_7, VARINT_SPLIT_FULL_STORAGE_8, VARINT_SPLIT_FULL_STORAGE_9};
    static const uint64_t cnz[10] = {0,
        VARINT_SPLIT_FULL_NO_ZERO_STORAGE_1, VARINT_SPLIT_FULL_NO_ZERO_STORAGE_2,
        VARINT_SPLIT_FULL_NO_ZERO_STORAGE_3, VARINT_SPLIT_FULL_NO_ZERO_STORAGE_4,
        VARINT_SPLIT_FULL_NO_ZERO_STORAGE_5, VARINT_SPLIT_FULL_NO_ZERO_STORAGE_6,
        VARINT_SPLIT_FULL_NO_ZERO_STORAGE_7, VARINT_SPLIT_FULL_NO_ZERO_STORAGE_8,
        VARINT_SPLIT_FULL_NO_ZERO_STORAGE_9};
    if (k >= 1 && k <= 9) out_u64("const", nz ? cnz[k] : csf[k]);
}

/* splitfull_emax family : the largest value the encoder keeps in an embedded
 * (first-type) level */
static void h_splitfull_emax(const vcase *c) {
    int nz = !strcmp(c->argv[0], "sfnz");
    int (*emb)(uint64_t) = nz ? sfnz_embedded : sf_embedded;
    uint64_t lo = nz ? 1 : 0, hi = UINT64_MAX;
    while (lo < hi) {
        uint64_t mid = lo + (hi - lo) / 2 + 1;
        if (emb(mid)) lo = mid; else hi = mid - 1;
    }
    out_u64("emax", lo);
    out_u64("tight", lo == UINT64_MAX ? 1 : !emb(lo + 1));
}

static const vreg tab[] = {
    {"sf_rt", h_sf_rt},         {"sf_rev", h_sf_rev},       {"sf_lenvar", h_sf_lenvar},
    {"sf_dec", h_sf_dec},       {"sf_rdec", h_sf_rdec},
    {"sfnz_rt", h_sfnz_rt},     {"sfnz_rev", h_sfnz_rev},   {"sfnz_lenvar", h_sfnz_lenvar},
    {"sfnz_dec", h_sfnz_dec},   {"sfnz_rdec", h_sfnz_rdec},
    {"sf_mono", h_sf_mono},     {"sfnz_mono", h_sfnz_mono},
    {"splitfull_max", h_splitfull_max}, {"splitfull_emax", h_splitfull_emax},
};
VREGISTER(tab)
