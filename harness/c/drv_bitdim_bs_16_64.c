/* varintBitstream.h instantiated with VBITS uint16_t, VBITSVAL uint64_t */
#define VBITS uint16_t
#define VBITSVAL uint64_t
#define BITDIM_BS_ID 16_64
#include "bitdim_bs_inst.h"
