/* bitdim_bs_inst.h — one instantiation of varintBitstream.h.
 * The including .c file defines VBITS, VBITSVAL and BITDIM_BS_ID (e.g. 8_64)
 * before including this file; it exports
 *   void     bitdim_bs_<id>_set(void *dst, size_t off, size_t n, uint64_t v)
 *   uint64_t bitdim_bs_<id>_get(const void *src, size_t off, size_t n)
 * The arguments are passed through `volatile` so that the optimiser cannot
 * specialise the header's branches on constants. */
#include <stddef.h>
#include <stdint.h>
#include "varintBitstream.h"
#define BITDIM_CAT_(a, b, c) a##b##c
#define BITDIM_CAT(a, b, c) BITDIM_CAT_(a, b, c)
void BITDIM_CAT(bitdim_bs_, BITDIM_BS_ID, _set)(void *dst, size_t off, size_t n, uint64_t v) {
    volatile size_t o = off, w = n;
    varintBitstreamSet((vbits *)dst, o, w, (vbitsVal)v);
}
uint64_t BITDIM_CAT(bitdim_bs_, BITDIM_BS_ID, _get)(const void *src, size_t off, size_t n) {
    volatile size_t o = off, w = n;
    return (uint64_t)varintBitstreamGet((const vbits *)src, o, w);
}
