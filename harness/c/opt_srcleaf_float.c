/* opt_srcleaf_float.c — OPTIONAL unit (dropped by the build if it stops compiling or linking):
 * a second, private compilation of src/varintFloat.c with every public symbol renamed, used
 * ONLY to reach the file's `static` leaf functions that drv_srcleaf.c runs against their
 * regenerated Gallina renderings (gen/c2coq_leaf.py).  The list of renamed symbols is the
 * output of `nm --defined-only -g` on the library object. */
#define varintFloatCompose srcleaf_priv_float_varintFloatCompose
#define varintFloatDecode srcleaf_priv_float_varintFloatDecode
#define varintFloatDecompose srcleaf_priv_float_varintFloatDecompose
#define varintFloatEncode srcleaf_priv_float_varintFloatEncode
#define varintFloatEncodeAuto srcleaf_priv_float_varintFloatEncodeAuto
#include "varintFloat.c"

uint64_t srcleaf_priv_trunc(uint64_t m, uint8_t f, uint8_t t) { return truncateMantissa(m, f, t); }
uint64_t srcleaf_priv_expand(uint64_t m, uint8_t f, uint8_t t) { return expandMantissa(m, f, t); }
