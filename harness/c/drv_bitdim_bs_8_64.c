/* varintBitstream.h instantiated with VBITS uint8_t, VBITSVAL uint64_t */
#define VBITS uint8_t
#define VBITSVAL uint64_t
#define BITDIM_BS_ID 8_64
#include "bitdim_bs_inst.h"
