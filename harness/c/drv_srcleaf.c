/* drv_srcleaf.c — C side of the src_leaf_* handlers: the REAL leaf functions of the
 * array-codec modules.  The same calls are evaluated by the model driver on the
 * Gallina functions that gen/c2coq.py regenerates from the current sources through
 * gen/c2coq_leaf.py (harness/ml/drv_srcleaf.ml); a difference is a bug of the
 * translator (or of CSem.v).  Header functions and public functions are called
 * directly; the `static` functions of a .c file are reached through the optional
 * units opt_srcleaf_<module>.c (weak symbols: NULL when such a unit was dropped,
 * the handler then prints ret=unavailable).  Generators keep every argument inside
 * the function's C domain. */
#include "core.h"
#include "varint.h"
#include "varintDelta.h"
#include "varintGroup.h"
#include "varintElias.h"
#include "varintFOR.h"
#include "varintBP128.h"
#include "varintAdaptive.h"
#include <stdlib.h>
#include <string.h>

__attribute__((weak)) uint64_t srcleaf_priv_floorLog2(uint64_t v);
__attribute__((weak)) uint64_t srcleaf_priv_marker(uint32_t w);
__attribute__((weak)) int srcleaf_priv_mulovf(size_t a, size_t b, size_t *r);
__attribute__((weak)) uint64_t srcleaf_priv_trunc(uint64_t m, uint8_t f, uint8_t t);
__attribute__((weak)) uint64_t srcleaf_priv_expand(uint64_t m, uint8_t f, uint8_t t);
__attribute__((weak)) int srcleaf_priv_bm_set(uint8_t *bits, uint16_t v);
__attribute__((weak)) int srcleaf_priv_bm_clear(uint8_t *bits, uint16_t v);
__attribute__((weak)) int srcleaf_priv_bm_contains(const uint8_t *bits, uint16_t v);

static void unavailable(void) { out_str("ret", "unavailable"); }

static gpage page_arg(const vcase *c, int i) {
    size_t len;
    uint8_t *b = arg_hex(c, i, &len);
    gpage in = gpage_new(b, len);
    free(b);
    return in;
}

/* varintDelta.h */
static void h_zigzag(const vcase *c) { out_u64("ret", varintDeltaZigZag(arg_i64(c, 0))); }
static void h_unzigzag(const vcase *c) { out_i64("ret", varintDeltaZigZagDecode(arg_u64(c, 0))); }

/* varintGroup.{h,c} */
static void h_g_bmsize(const vcase *c) { out_u64("ret", varintGroupBitmapSize_((uint8_t)arg_u64(c, 0))); }
static void h_g_wdec(const vcase *c) { out_u64("ret", varintGroupWidthDecode_((uint8_t)arg_u64(c, 0))); }
static void h_g_wenc(const vcase *c) { out_u64("ret", varintGroupWidthEncode_((varintWidth)arg_u64(c, 0))); }
static void h_g_fieldw(const vcase *c) {
    gpage in = page_arg(c, 0);
    out_u64("ret", varintGroupGetFieldWidth(in.p, (uint8_t)arg_u64(c, 1)));
    gpage_free(&in);
}
static void h_g_size(const vcase *c) {
    gpage in = page_arg(c, 0);
    out_u64("ret", varintGroupGetSize(in.p));
    gpage_free(&in);
}

/* varintElias.{h,c} */
static void h_floorlog2(const vcase *c) {
    if (!srcleaf_priv_floorLog2) { unavailable(); return; }
    out_u64("ret", srcleaf_priv_floorLog2(arg_u64(c, 0)));
}
static void h_gammabits(const vcase *c) { out_u64("ret", varintEliasGammaBits(arg_u64(c, 0))); }
static void h_maxbytes(const vcase *c) {
    size_t n = (size_t)arg_u64(c, 1);
    out_u64("ret", c->argv[0][0] == 'g' ? varintEliasGammaMaxBytes(n) : varintEliasDeltaMaxBytes(n));
}

/* varintFOR.c, varintBP128.h */
static void h_forwidth(const vcase *c) { out_u64("ret", varintFORComputeWidth(arg_u64(c, 0))); }
static void h_bits32(const vcase *c) { out_u64("ret", varintBP128BitsNeeded32((uint32_t)arg_u64(c, 0))); }
static void h_bits64(const vcase *c) { out_u64("ret", varintBP128BitsNeeded64(arg_u64(c, 0))); }

/* varintPFOR.c */
static void h_marker(const vcase *c) {
    if (!srcleaf_priv_marker) { unavailable(); return; }
    out_u64("ret", srcleaf_priv_marker((uint32_t)arg_u64(c, 0)));
}

/* varintAdaptive.{h,c} */
static void h_adpmax(const vcase *c) { out_u64("ret", varintAdaptiveMaxSize((size_t)arg_u64(c, 0))); }
static void h_mulovf(const vcase *c) {
    if (!srcleaf_priv_mulovf) { unavailable(); return; }
    size_t r = 0xDEADBEEF;
    int o = srcleaf_priv_mulovf((size_t)arg_u64(c, 0), (size_t)arg_u64(c, 1), &r);
    out_u64("ret", (uint64_t)o);
    out_u64("r", r);
}

/* varintFloat.c */
static void h_trunc(const vcase *c) {
    if (!srcleaf_priv_trunc) { unavailable(); return; }
    out_u64("ret", srcleaf_priv_trunc(arg_u64(c, 0), (uint8_t)arg_u64(c, 1), (uint8_t)arg_u64(c, 2)));
}
static void h_expand(const vcase *c) {
    if (!srcleaf_priv_expand) { unavailable(); return; }
    out_u64("ret", srcleaf_priv_expand(arg_u64(c, 0), (uint8_t)arg_u64(c, 1), (uint8_t)arg_u64(c, 2)));
}

/* varintBitmap.c: op in {set, clear, contains}; the bit array is exact-size inside canaries */
static void h_bm(const vcase *c) {
    const char *op = c->argv[0];
    if (!srcleaf_priv_bm_set || !srcleaf_priv_bm_clear || !srcleaf_priv_bm_contains) { unavailable(); return; }
    size_t len;
    uint8_t *b = arg_hex(c, 1, &len);
    gbuf g = gbuf_new(len, 0);
    gbuf_prefill(&g, b, len);
    free(b);
    uint16_t v = (uint16_t)arg_u64(c, 2);
    int r = op[0] == 's' ? srcleaf_priv_bm_set(g.p, v)
          : op[1] == 'l' ? srcleaf_priv_bm_clear(g.p, v) : srcleaf_priv_bm_contains(g.p, v);
    out_u64("ret", (uint64_t)r);
    if (op[0] == 's' || op[1] == 'l') {
        if (strcmp(gbuf_guard(&g), "ok") != 0) out_str("buf", gbuf_guard(&g));
        else out_hex("buf", g.p, g.size);
    }
    gbuf_free(&g);
}

static const vreg tab[] = {
    {"src_leaf_zigzag", h_zigzag},       {"src_leaf_unzigzag", h_unzigzag},
    {"src_leaf_group_bmsize", h_g_bmsize}, {"src_leaf_group_wdec", h_g_wdec},
    {"src_leaf_group_wenc", h_g_wenc},   {"src_leaf_group_fieldw", h_g_fieldw},
    {"src_leaf_group_size", h_g_size},   {"src_leaf_floorlog2", h_floorlog2},
    {"src_leaf_gammabits", h_gammabits}, {"src_leaf_maxbytes", h_maxbytes},
    {"src_leaf_forwidth", h_forwidth},   {"src_leaf_bits32", h_bits32},
    {"src_leaf_bits64", h_bits64},       {"src_leaf_marker", h_marker},
    {"src_leaf_adpmax", h_adpmax},       {"src_leaf_mulovf", h_mulovf},
    {"src_leaf_trunc", h_trunc},         {"src_leaf_expand", h_expand},
    {"src_leaf_bm", h_bm},
};
VREGISTER(tab)
