#define _GNU_SOURCE
#include "core.h"
#include <errno.h>
#include <inttypes.h>
#include <setjmp.h>
#include <signal.h>
#include <stdlib.h>
#include <string.h>
#include <sched.h>
#include <sys/mman.h>
#include <unistd.h>

static vreg g_tab[1024];
static int g_ntab;
void vregister(const vreg *table, int n) {
    for (int i = 0; i < n; i++) {
        g_tab[g_ntab++] = table[i];
    }
}

static void die(const char *m, const char *a) {
    fprintf(stderr, "driver: %s %s\n", m, a ? a : "");
    exit(2);
}

uint64_t arg_u64(const vcase *c, int i) {
    if (i >= c->argc) die("missing arg for", c->api);
    return strtoull(c->argv[i], NULL, 10);
}
int64_t arg_i64(const vcase *c, int i) {
    if (i >= c->argc) die("missing arg for", c->api);
    return strtoll(c->argv[i], NULL, 10);
}
static int hexv(int ch) {
    if (ch >= '0' && ch <= '9') return ch - '0';
    if (ch >= 'a' && ch <= 'f') return ch - 'a' + 10;
    die("bad hex", NULL);
    return 0;
}
uint8_t *arg_hex(const vcase *c, int i, size_t *len) {
    if (i >= c->argc) die("missing arg for", c->api);
    const char *s = c->argv[i];
    if (s[0] != 'x') die("hex arg must start with x:", s);
    s++;
    size_t n = strlen(s) / 2;
    uint8_t *b = malloc(n ? n : 1);
    for (size_t k = 0; k < n; k++) b[k] = (uint8_t)(hexv(s[2 * k]) * 16 + hexv(s[2 * k + 1]));
    *len = n;
    return b;
}
uint64_t *arg_list(const vcase *c, int i, size_t *n) {
    if (i >= c->argc) die("missing arg for", c->api);
    const char *s = c->argv[i];
    if (s[0] != 'L') die("list arg must start with L:", s);
    s++;
    size_t cnt = 0;
    if (*s) { cnt = 1; for (const char *q = s; *q; q++) if (*q == ',') cnt++; }
    uint64_t *v = malloc((cnt ? cnt : 1) * sizeof(uint64_t));
    size_t k = 0;
    while (*s) {
        char *e;
        v[k++] = strtoull(s, &e, 10);
        s = (*e == ',') ? e + 1 : e;
    }
    *n = cnt;
    return v;
}
int64_t *arg_ilist(const vcase *c, int i, size_t *n) {
    if (i >= c->argc) die("missing arg for", c->api);
    const char *s = c->argv[i];
    if (s[0] != 'L') die("list arg must start with L:", s);
    s++;
    size_t cnt = 0;
    if (*s) { cnt = 1; for (const char *q = s; *q; q++) if (*q == ',') cnt++; }
    int64_t *v = malloc((cnt ? cnt : 1) * sizeof(int64_t));
    size_t k = 0;
    while (*s) {
        char *e;
        v[k++] = strtoll(s, &e, 10);
        s = (*e == ',') ? e + 1 : e;
    }
    *n = cnt;
    return v;
}

long arg_oom(const vcase *c) {
    if (c->argc > 0 && !strncmp(c->argv[c->argc - 1], "@oom=", 5)) return atol(c->argv[c->argc - 1] + 5);
    return 0;
}

/* ---- output ---- */
static __thread char *g_line;
static __thread size_t g_cap, g_len;
static void lput(const char *s, size_t n) {
    if (g_len + n + 2 > g_cap) {
        g_cap = (g_len + n + 2) * 2;
        g_line = realloc(g_line, g_cap);
    }
    memcpy(g_line + g_len, s, n);
    g_len += n;
    g_line[g_len] = 0;
}
static void lputs(const char *s) { lput(s, strlen(s)); }
static void lkey(const char *k) { lputs(" "); lputs(k); lputs("="); }
void out_u64(const char *k, uint64_t v) { char b[32]; lkey(k); snprintf(b, sizeof b, "%" PRIu64, v); lputs(b); }
void out_i64(const char *k, int64_t v) { char b[32]; lkey(k); snprintf(b, sizeof b, "%" PRId64, v); lputs(b); }
void out_str(const char *k, const char *v) { lkey(k); lputs(v); }
void out_hex(const char *k, const uint8_t *p, size_t n) {
    static const char hx[] = "0123456789abcdef";
    lkey(k); lputs("x");
    char *t = malloc(2 * n + 1);
    for (size_t i = 0; i < n; i++) { t[2 * i] = hx[p[i] >> 4]; t[2 * i + 1] = hx[p[i] & 15]; }
    lput(t, 2 * n);
    free(t);
}
void out_list(const char *k, const uint64_t *p, size_t n) {
    char b[32]; lkey(k); lputs("L");
    for (size_t i = 0; i < n; i++) { snprintf(b, sizeof b, i ? ",%" PRIu64 : "%" PRIu64, p[i]); lputs(b); }
}
void out_ilist(const char *k, const int64_t *p, size_t n) {
    char b[32]; lkey(k); lputs("L");
    for (size_t i = 0; i < n; i++) { snprintf(b, sizeof b, i ? ",%" PRId64 : "%" PRId64, p[i]); lputs(b); }
}
void out_list32(const char *k, const uint32_t *p, size_t n) {
    char b[32]; lkey(k); lputs("L");
    for (size_t i = 0; i < n; i++) { snprintf(b, sizeof b, i ? ",%u" : "%u", p[i]); lputs(b); }
}

/* ---- guarded buffers ---- */
/* the canary pattern depends on the --poison value, so that output bytes the
 * library leaves unwritten (residue of the destination) differ between the
 * poison modes of the purity check */
static unsigned g_poison; /* 0 = no stack poisoning */
unsigned vdrv_poison(void) { return g_poison; }
uint8_t gbuf_canary(size_t i) { return (uint8_t)((0xA5 ^ (i * 7)) ^ (g_poison * 0x3B)); }
/* The usable area ends flush against an inaccessible page when align == 0
 * (a store beyond `size` faults even if it rewrites the byte already there);
 * with align != 0 the requested alignment is honoured and at most 15 canary
 * bytes separate the area from the page.  Below the area: `pad` canary bytes. */
gbuf gbuf_new(size_t size, unsigned align) {
    gbuf g;
    size_t ps = (size_t)sysconf(_SC_PAGESIZE);
    g.pad = 1024;
    g.size = size;
    size_t body = size + g.pad + 16;
    size_t pages = (body + ps - 1) / ps;
    size_t maplen = (pages + 1) * ps;
    uint8_t *map = mmap(NULL, maplen, PROT_READ | PROT_WRITE, MAP_PRIVATE | MAP_ANONYMOUS, -1, 0);
    if (map == MAP_FAILED) die("mmap", NULL);
    uint8_t *guard = map + pages * ps;
    if (mprotect(guard, ps, PROT_NONE)) die("mprotect", NULL);
    uint8_t *p = guard - size;
    if (align & 15) {
        size_t s = (size_t)(((uintptr_t)p - (align & 15)) & 15);
        p -= s;
    }
    g.base = map;
    g.p = p;
    g.maplen = maplen;
    g.end = guard;
    for (uint8_t *q = map; q < guard; q++) *q = gbuf_canary((size_t)(q - map));
    return g;
}
void gbuf_prefill(gbuf *g, const uint8_t *src, size_t len) {
    memcpy(g->p, src, len);
}
const char *gbuf_guard(const gbuf *g) {
    size_t lo = (size_t)(g->p - g->base);
    size_t start = lo > g->pad + 64 ? lo - g->pad - 64 : 0;
    for (size_t i = start; i < lo; i++) if (g->base[i] != gbuf_canary(i)) return "lo";
    for (uint8_t *q = g->p + g->size; q < g->end; q++) if (*q != gbuf_canary((size_t)(q - g->base))) return "hi";
    return "ok";
}
void gbuf_free(gbuf *g) { if (g->base) munmap(g->base, g->maplen); g->base = NULL; }

gpage gpage_new(const uint8_t *src, size_t len) {
    gpage g;
    size_t ps = (size_t)sysconf(_SC_PAGESIZE);
    size_t pages = (len + ps - 1) / ps + 1;
    g.maplen = (pages + 1) * ps;
    g.map = mmap(NULL, g.maplen, PROT_READ | PROT_WRITE, MAP_PRIVATE | MAP_ANONYMOUS, -1, 0);
    if (g.map == MAP_FAILED) die("mmap", NULL);
    uint8_t *guard = g.map + pages * ps;
    if (mprotect(guard, ps, PROT_NONE)) die("mprotect", NULL);
    g.p = guard - len;
    g.len = len;
    if (len) memcpy(g.p, src, len);
    return g;
}
void gpage_free(gpage *g) { munmap(g->map, g->maplen); g->map = NULL; }

/* ---- allocation interposition (only in builds linked with
 * -Wl,--wrap=malloc,--wrap=calloc,--wrap=realloc,--wrap=free) ---- */
#ifdef VDRV_WRAP_ALLOC
void *__real_malloc(size_t);
void *__real_calloc(size_t, size_t);
void *__real_realloc(void *, size_t);
void __real_free(void *);
static __thread int a_on;        /* counting/faulting active (inside a handler) */
static __thread long a_count;    /* allocations attempted so far in this case */
static __thread long a_fail_at;  /* 1-based index of the allocation to fail; 0 = none */
static __thread long a_live;     /* blocks allocated minus blocks freed inside the case */
static int a_should_fail(void) {
    if (!a_on) return 0;
    a_count++;
    return a_fail_at && a_count == a_fail_at;
}
void *__wrap_malloc(size_t n) {
    if (a_should_fail()) return NULL;
    void *p = __real_malloc(n);
    if (a_on && p) a_live++;
    return p;
}
void *__wrap_calloc(size_t a, size_t b) {
    if (a_should_fail()) return NULL;
    void *p = __real_calloc(a, b);
    if (a_on && p) a_live++;
    return p;
}
void *__wrap_realloc(void *q, size_t n) {
    if (a_should_fail()) return NULL;
    void *p = __real_realloc(q, n);
    if (a_on && p && !q) a_live++;
    if (a_on && q && n == 0 && !p) a_live--;
    return p;
}
void __wrap_free(void *p) {
    if (a_on && p) a_live--;
    __real_free(p);
}
/* harness-side allocations must not count: handlers bracket library calls */
void valloc_begin(long fail_at) { a_count = 0; a_live = 0; a_fail_at = fail_at; a_on = 1; }
long valloc_end(long *live) { a_on = 0; if (live) *live = a_live; return a_count; }
int valloc_available(void) { return 1; }
#else
void valloc_begin(long fail_at) { (void)fail_at; }
long valloc_end(long *live) { if (live) *live = 0; return 0; }
int valloc_available(void) { return 0; }
#endif

/* ---- running one case ---- */
static __thread sigjmp_buf g_jmp;
static __thread volatile int g_in_case;
static unsigned g_watchdog = 60; /* seconds per case in the single-threaded modes; 0 = off */
static volatile int g_fatal; /* set when the process must stop after the current line */
static void on_fault(int sig) {
    if (g_in_case) {
        /* an abort raised inside a case is almost always the allocator
         * detecting heap corruption: report it for this case, then stop the
         * process (the harness restarts the driver at the next case) */
        if (sig == SIGABRT) g_fatal = 1;
        siglongjmp(g_jmp, sig);
    }
    /* outside a case: keep what was printed so far, the last line marks where */
    fflush(stdout);
    _exit(3);
}

static void __attribute__((noinline)) poison_stack(unsigned pat) {
    volatile uint8_t big[96 * 1024];
    for (size_t i = 0; i < sizeof big; i++) big[i] = (uint8_t)(pat + (i >> 3));
    __asm__ volatile("" ::: "memory");
}
/* adversarial residue: every 64-bit word of the dead stack equals `word`
 * (the element count of the case), so that an uninitialised "already done
 * for this count?" field compares equal */
static int g_poison_count;
static void __attribute__((noinline)) poison_stack_words(uint64_t word) {
    volatile uint64_t big[12 * 1024];
    for (size_t i = 0; i < sizeof big / sizeof big[0]; i++) big[i] = word;
    __asm__ volatile("" ::: "memory");
}

/* run the case in `text` (modified in place); returns a malloc'd output line */
static char *run_case(char *text) {
    vcase c;
    c.argc = 0;
    char *save = NULL;
    char *echo = strdup(text);
    char *tok = strtok_r(text, " ", &save);
    c.api = tok;
    while ((tok = strtok_r(NULL, " ", &save)) != NULL && c.argc < MAXARGS) c.argv[c.argc++] = tok;
    vhandler h = NULL;
    for (int i = 0; i < g_ntab; i++) if (!strcmp(g_tab[i].name, c.api)) { h = g_tab[i].fn; break; }
    if (!h) die("unknown api", c.api);
    g_len = 0;
    if (g_line) g_line[0] = 0;
    int sig;
    const char *fault = NULL;
    if (g_poison) poison_stack(g_poison);
    if (g_poison_count) {
        uint64_t n = 0;
        for (int i = 0; i < c.argc && !n; i++)
            if (c.argv[i][0] == 'L' && c.argv[i][1]) { n = 1; for (const char *q = c.argv[i]; *q; q++) n += (*q == ','); }
        poison_stack_words(n);
    }
    g_in_case = 1;
    if ((sig = sigsetjmp(g_jmp, 1)) == 0) {
        if (g_watchdog) alarm(g_watchdog); /* a library call that never returns */
        h(&c);
        if (g_watchdog) alarm(0);
        g_in_case = 0;
    } else {
        if (g_watchdog) alarm(0);
        g_in_case = 0;
        valloc_end(NULL);
        fault = sig == SIGSEGV || sig == SIGBUS ? "segv" : sig == SIGABRT ? "abort" : sig == SIGFPE ? "fpe"
                : sig == SIGALRM ? "timeout" : "ill";
    }
    if (g_fatal) {
        /* do not touch the heap any more */
        static char small[512];
        snprintf(small, sizeof small, "%.400s -> fault=%s", echo, fault ? fault : "abort");
        fflush(stdout);
        (void)!write(1, small, strlen(small));
        (void)!write(1, "\n", 1);
        _exit(4);
    }
    size_t n = strlen(echo) + 4 + (fault ? 16 : (g_line ? strlen(g_line) : 0)) + 1;
    char *out = malloc(n);
    if (fault) snprintf(out, n, "%s -> fault=%s", echo, fault);
    else snprintf(out, n, "%s ->%s", echo, g_line ? g_line : "");
    free(echo);
    return out;
}

/* ---- modes ---- */
static char **g_cases;
static size_t g_ncases;
static void read_cases(const char *path) {
    FILE *f = strcmp(path, "-") ? fopen(path, "r") : stdin;
    if (!f) die("cannot open", path);
    char *line = NULL;
    size_t cap = 0, capc = 0;
    ssize_t n;
    while ((n = getline(&line, &cap, f)) > 0) {
        while (n > 0 && (line[n - 1] == '\n' || line[n - 1] == '\r')) line[--n] = 0;
        if (n == 0 || line[0] == '#') continue;
        if (g_ncases == capc) { capc = capc ? capc * 2 : 1024; g_cases = realloc(g_cases, capc * sizeof(char *)); }
        g_cases[g_ncases++] = strdup(line);
    }
    free(line);
    if (f != stdin) fclose(f);
}

static uint64_t g_rng = 88172645463325252ULL;
static uint64_t rnd(void) { g_rng ^= g_rng << 13; g_rng ^= g_rng >> 7; g_rng ^= g_rng << 17; return g_rng; }

#include <pthread.h>
typedef struct { int id; int nthreads; char **expect; long mismatches; char *first; } tctx;
__thread int vdrv_tid;   /* index of the calling driver thread (0 when sequential) */
int vdrv_nthreads = 1;
static pthread_barrier_t g_lockstep;
static void *thread_main(void *arg) {
    tctx *t = arg;
    vdrv_tid = t->id;
    /* every thread runs every case, starting at a different offset so that
     * different codecs overlap in time */
    for (size_t k = 0; k < g_ncases; k++) {
        size_t i = (k + (size_t)t->id * (g_ncases / (size_t)t->nthreads + 1)) % g_ncases;
        char *copy = strdup(g_cases[i]);
        char *out = run_case(copy);
        if (strcmp(out, t->expect[i])) {
            if (!t->mismatches) t->first = strdup(out);
            t->mismatches++;
        }
        free(out);
        free(copy);
        if ((k & 63) == 0) sched_yield();
    }
    /* lockstep phase: the cases whose inputs are shared objects (conc_*) are
     * run by all threads at the same moment, several times, so that calls on
     * the SAME object overlap (the staggered pass above rarely does that) */
    for (size_t i = 0; i < g_ncases; i++) {
        if (strncmp(g_cases[i], "conc_", 5)) continue;
        pthread_barrier_wait(&g_lockstep);
        for (int r = 0; r < 6; r++) {
            char *copy = strdup(g_cases[i]);
            char *out = run_case(copy);
            if (strcmp(out, t->expect[i])) {
                if (!t->mismatches) t->first = strdup(out);
                t->mismatches++;
            }
            free(out);
            free(copy);
        }
    }
    return NULL;
}

int main(int argc, char **argv) {
    int ai = 1;
    int threads = 0;
    long shuffle = -1, pred = -1;
    int oom = 0;
    long oom_cap = 64;
    while (ai < argc && !strncmp(argv[ai], "--", 2)) {
        if (!strcmp(argv[ai], "--threads")) threads = atoi(argv[++ai]);
        else if (!strcmp(argv[ai], "--shuffle")) shuffle = atol(argv[++ai]);
        else if (!strcmp(argv[ai], "--pred")) pred = atol(argv[++ai]);
        else if (!strcmp(argv[ai], "--poison")) g_poison = (unsigned)strtoul(argv[++ai], NULL, 0);
        else if (!strcmp(argv[ai], "--poison-count")) g_poison_count = 1;
        else if (!strcmp(argv[ai], "--oom")) oom = 1;
        else if (!strcmp(argv[ai], "--oom-cap")) oom_cap = atol(argv[++ai]);
        else die("unknown option", argv[ai]);
        ai++;
    }
    if (ai >= argc) die("usage: driver [--threads N | --shuffle seed | --pred seed | --poison P | --oom] <casefile>", NULL);
    struct sigaction sa;
    memset(&sa, 0, sizeof sa);
    sa.sa_handler = on_fault;
    sa.sa_flags = SA_NODEFER;
    sigaction(SIGSEGV, &sa, NULL);
    sigaction(SIGBUS, &sa, NULL);
    sigaction(SIGFPE, &sa, NULL);
    sigaction(SIGILL, &sa, NULL);
    sigaction(SIGABRT, &sa, NULL);
    sigaction(SIGALRM, &sa, NULL);
    if (threads > 0) g_watchdog = 0; /* alarm() is per process */
    if (getenv("VDRV_WATCHDOG")) g_watchdog = (unsigned)atoi(getenv("VDRV_WATCHDOG"));
    char *outbuf = malloc(1 << 20);
    setvbuf(stdout, outbuf, _IOFBF, 1 << 20);
    read_cases(argv[ai]);

    if (threads > 0) {
        /* sequential reference, then N threads over the same cases */
        char **expect = malloc(g_ncases * sizeof(char *));
        for (size_t i = 0; i < g_ncases; i++) { char *c = strdup(g_cases[i]); expect[i] = run_case(c); free(c); }
        pthread_t *th = malloc((size_t)threads * sizeof *th);
        tctx *tc = calloc((size_t)threads, sizeof *tc);
        vdrv_nthreads = threads;
        pthread_barrier_init(&g_lockstep, NULL, (unsigned)threads);
        for (int t = 0; t < threads; t++) { tc[t].id = t; tc[t].nthreads = threads; tc[t].expect = expect; pthread_create(&th[t], NULL, thread_main, &tc[t]); }
        long mism = 0;
        for (int t = 0; t < threads; t++) { pthread_join(th[t], NULL); mism += tc[t].mismatches; }
        long faults = 0;
        for (size_t i = 0; i < g_ncases; i++) if (strstr(expect[i], " fault=")) faults++;
        printf("threads=%d cases=%zu mismatches=%ld faults=%ld\n", threads, g_ncases, mism, faults);
        long shown = 0;
        for (size_t i = 0; i < g_ncases && shown < 200; i++) if (strstr(expect[i], " fault=")) { printf("FAULT %.300s\n", expect[i]); shown++; }
        for (int t = 0; t < threads; t++) if (tc[t].first) { printf("MISMATCH thread=%d %s\n", t, tc[t].first); break; }
        fflush(stdout);
        return 0;
    }

    if (oom) {
        /* every case once normally (counting allocations), then once per
         * allocation index with that allocation failing */
        for (size_t i = 0; i < g_ncases; i++) {
            char *c = strdup(g_cases[i]);
            char *o = run_case(c);
            free(c);
            /* handlers report the number of allocations as nalloc=<n> */
            long n = 0;
            char *q = strstr(o, " nalloc=");
            if (q) n = atol(q + 8);
            puts(o);
            free(o);
            if (n > oom_cap) n = oom_cap;
            for (long k = 1; k <= n; k++) {
                size_t L = strlen(g_cases[i]) + 32;
                char *c2 = malloc(L);
                snprintf(c2, L, "%s @oom=%ld", g_cases[i], k);
                char *o2 = run_case(c2);
                puts(o2);
                free(o2);
                free(c2);
            }
        }
        fflush(stdout);
        return 0;
    }

    size_t *order = malloc((g_ncases + 1) * sizeof(size_t));
    for (size_t i = 0; i < g_ncases; i++) order[i] = i;
    if (shuffle >= 0) {
        g_rng ^= (uint64_t)shuffle * 0x9E3779B97F4A7C15ULL + 1;
        for (size_t i = g_ncases; i > 1; i--) { size_t j = (size_t)(rnd() % i); size_t t = order[i - 1]; order[i - 1] = order[j]; order[j] = t; }
    }
    if (pred >= 0) g_rng ^= (uint64_t)pred * 0xD1B54A32D192ED03ULL + 1;
    char **outs = calloc(g_ncases + 1, sizeof(char *));
    for (size_t k = 0; k < g_ncases; k++) {
        size_t i = order[k];
        if (pred >= 0 && g_ncases > 1) {
            /* run some other case first (prefer the same api with the same
             * number of arguments), discard its output */
            size_t j = (size_t)(rnd() % g_ncases);
            size_t apilen = strcspn(g_cases[i], " ");
            size_t commas_i = 0;
            for (const char *q = g_cases[i]; *q; q++) commas_i += (*q == ',');
            int have = 0;
            for (size_t tries = 0; tries < 400; tries++) {
                size_t cand = (size_t)(rnd() % g_ncases);
                if (cand == i || strncmp(g_cases[cand], g_cases[i], apilen + 1)) continue;
                if (!have) { j = cand; have = 1; } /* same api */
                size_t commas_c = 0;
                for (const char *q = g_cases[cand]; *q; q++) commas_c += (*q == ',');
                /* best: same api, same number of list elements, different text
                 * (a stale "already analysed this count" shortcut needs exactly that) */
                if (commas_c == commas_i && strcmp(g_cases[cand], g_cases[i])) { j = cand; break; }
            }
            char *c = strdup(g_cases[j]);
            char *o = run_case(c);
            free(o);
            free(c);
        }
        char *c = strdup(g_cases[i]);
        outs[i] = run_case(c);
        free(c);
        if (shuffle < 0) { /* in-order: print at once, so a dying process leaves its trail */
            puts(outs[i]);
            free(outs[i]);
            outs[i] = NULL;
        }
    }
    for (size_t i = 0; i < g_ncases; i++) if (outs[i]) { puts(outs[i]); free(outs[i]); }
    fflush(stdout);
    return 0;
}
