#define _GNU_SOURCE
#include "core.h"
#include <errno.h>
#include <inttypes.h>
#include <setjmp.h>
#include <signal.h>
#include <stdlib.h>
#include <string.h>
#include <sys/mman.h>
#include <unistd.h>

static vreg g_tab[1024];
static int g_ntab;
void vregister(const vreg *table, int n) {
    for (int i = 0; i < n; i++) {
        g_tab[g_ntab++] = table[i];
    }
}

static void die(const char *m, const char *a) {
    fprintf(stderr, "driver: %s %s\n", m, a ? a : "");
    exit(2);
}

uint64_t arg_u64(const vcase *c, int i) {
    if (i >= c->argc) die("missing arg for", c->api);
    return strtoull(c->argv[i], NULL, 10);
}
int64_t arg_i64(const vcase *c, int i) {
    if (i >= c->argc) die("missing arg for", c->api);
    return strtoll(c->argv[i], NULL, 10);
}
static int hexv(int ch) {
    if (ch >= '0' && ch <= '9') return ch - '0';
    if (ch >= 'a' && ch <= 'f') return ch - 'a' + 10;
    die("bad hex", NULL);
    return 0;
}
uint8_t *arg_hex(const vcase *c, int i, size_t *len) {
    if (i >= c->argc) die("missing arg for", c->api);
    const char *s = c->argv[i];
    if (s[0] != 'x') die("hex arg must start with x:", s);
    s++;
    size_t n = strlen(s) / 2;
    uint8_t *b = malloc(n ? n : 1);
    for (size_t k = 0; k < n; k++) b[k] = (uint8_t)(hexv(s[2 * k]) * 16 + hexv(s[2 * k + 1]));
    *len = n;
    return b;
}
uint64_t *arg_list(const vcase *c, int i, size_t *n) {
    if (i >= c->argc) die("missing arg for", c->api);
    const char *s = c->argv[i];
    if (s[0] != 'L') die("list arg must start with L:", s);
    s++;
    size_t cnt = 0;
    if (*s) { cnt = 1; for (const char *q = s; *q; q++) if (*q == ',') cnt++; }
    uint64_t *v = malloc((cnt ? cnt : 1) * sizeof(uint64_t));
    size_t k = 0;
    while (*s) {
        char *e;
        v[k++] = strtoull(s, &e, 10);
        s = (*e == ',') ? e + 1 : e;
    }
    *n = cnt;
    return v;
}
int64_t *arg_ilist(const vcase *c, int i, size_t *n) {
    if (i >= c->argc) die("missing arg for", c->api);
    const char *s = c->argv[i];
    if (s[0] != 'L') die("list arg must start with L:", s);
    s++;
    size_t cnt = 0;
    if (*s) { cnt = 1; for (const char *q = s; *q; q++) if (*q == ',') cnt++; }
    int64_t *v = malloc((cnt ? cnt : 1) * sizeof(int64_t));
    size_t k = 0;
    while (*s) {
        char *e;
        v[k++] = strtoll(s, &e, 10);
        s = (*e == ',') ? e + 1 : e;
    }
    *n = cnt;
    return v;
}

/* ---- output ---- */
static char *g_line;
static size_t g_cap, g_len;
static void lput(const char *s, size_t n) {
    if (g_len + n + 2 > g_cap) {
        g_cap = (g_len + n + 2) * 2;
        g_line = realloc(g_line, g_cap);
    }
    memcpy(g_line + g_len, s, n);
    g_len += n;
    g_line[g_len] = 0;
}
static void lputs(const char *s) { lput(s, strlen(s)); }
static void lkey(const char *k) { lputs(" "); lputs(k); lputs("="); }
void out_u64(const char *k, uint64_t v) { char b[32]; lkey(k); snprintf(b, sizeof b, "%" PRIu64, v); lputs(b); }
void out_i64(const char *k, int64_t v) { char b[32]; lkey(k); snprintf(b, sizeof b, "%" PRId64, v); lputs(b); }
void out_str(const char *k, const char *v) { lkey(k); lputs(v); }
void out_hex(const char *k, const uint8_t *p, size_t n) {
    static const char *hx = "0123456789abcdef";
    lkey(k); lputs("x");
    char *t = malloc(2 * n + 1);
    for (size_t i = 0; i < n; i++) { t[2 * i] = hx[p[i] >> 4]; t[2 * i + 1] = hx[p[i] & 15]; }
    lput(t, 2 * n);
    free(t);
}
void out_list(const char *k, const uint64_t *p, size_t n) {
    char b[32]; lkey(k); lputs("L");
    for (size_t i = 0; i < n; i++) { snprintf(b, sizeof b, i ? ",%" PRIu64 : "%" PRIu64, p[i]); lputs(b); }
}
void out_ilist(const char *k, const int64_t *p, size_t n) {
    char b[32]; lkey(k); lputs("L");
    for (size_t i = 0; i < n; i++) { snprintf(b, sizeof b, i ? ",%" PRId64 : "%" PRId64, p[i]); lputs(b); }
}
void out_list32(const char *k, const uint32_t *p, size_t n) {
    char b[32]; lkey(k); lputs("L");
    for (size_t i = 0; i < n; i++) { snprintf(b, sizeof b, i ? ",%u" : "%u", p[i]); lputs(b); }
}

/* ---- guarded buffers ---- */
uint8_t gbuf_canary(size_t i) { return (uint8_t)(0xA5 ^ (i * 7)); }
gbuf gbuf_new(size_t size, unsigned align) {
    gbuf g;
    g.pad = 64;
    g.size = size;
    g.base = malloc(size + 2 * g.pad + 32);
    uintptr_t a = (uintptr_t)(g.base + g.pad);
    a = (a + 15) & ~(uintptr_t)15;
    g.p = (uint8_t *)a + (align & 15);
    size_t total = size + 2 * g.pad + 32;
    for (size_t i = 0; i < total; i++) g.base[i] = gbuf_canary(i);
    return g;
}
void gbuf_prefill(gbuf *g, const uint8_t *src, size_t len) {
    memcpy(g->p, src, len);
}
const char *gbuf_guard(const gbuf *g) {
    size_t total = g->size + 2 * g->pad + 32;
    size_t lo = (size_t)(g->p - g->base);
    for (size_t i = 0; i < lo; i++) if (g->base[i] != gbuf_canary(i)) return "lo";
    for (size_t i = lo + g->size; i < total; i++) if (g->base[i] != gbuf_canary(i)) return "hi";
    return "ok";
}
void gbuf_free(gbuf *g) { free(g->base); g->base = NULL; }

gpage gpage_new(const uint8_t *src, size_t len) {
    gpage g;
    size_t ps = (size_t)sysconf(_SC_PAGESIZE);
    size_t pages = (len + ps - 1) / ps + 1;
    g.maplen = (pages + 1) * ps;
    g.map = mmap(NULL, g.maplen, PROT_READ | PROT_WRITE, MAP_PRIVATE | MAP_ANONYMOUS, -1, 0);
    if (g.map == MAP_FAILED) die("mmap", NULL);
    uint8_t *guard = g.map + pages * ps;
    if (mprotect(guard, ps, PROT_NONE)) die("mprotect", NULL);
    g.p = guard - len;
    g.len = len;
    if (len) memcpy(g.p, src, len);
    return g;
}
void gpage_free(gpage *g) { munmap(g->map, g->maplen); g->map = NULL; }

/* ---- main loop ---- */
static sigjmp_buf g_jmp;
static volatile int g_in_case;
static void on_fault(int sig) {
    if (g_in_case) siglongjmp(g_jmp, sig);
    _exit(3);
}

int main(int argc, char **argv) {
    if (argc < 2) die("usage: driver <casefile>", NULL);
    FILE *f = strcmp(argv[1], "-") ? fopen(argv[1], "r") : stdin;
    if (!f) die("cannot open", argv[1]);
    struct sigaction sa;
    memset(&sa, 0, sizeof sa);
    sa.sa_handler = on_fault;
    sa.sa_flags = SA_NODEFER;
    sigaction(SIGSEGV, &sa, NULL);
    sigaction(SIGBUS, &sa, NULL);
    sigaction(SIGFPE, &sa, NULL);
    sigaction(SIGILL, &sa, NULL);
    sigaction(SIGABRT, &sa, NULL);
    char *line = NULL;
    size_t cap = 0;
    ssize_t n;
    char *outbuf = malloc(1 << 20);
    setvbuf(stdout, outbuf, _IOFBF, 1 << 20);
    while ((n = getline(&line, &cap, f)) > 0) {
        while (n > 0 && (line[n - 1] == '\n' || line[n - 1] == '\r')) line[--n] = 0;
        if (n == 0 || line[0] == '#') continue;
        vcase c;
        c.argc = 0;
        char *save = NULL;
        char *tok = strtok_r(line, " ", &save);
        c.api = tok;
        while ((tok = strtok_r(NULL, " ", &save)) != NULL && c.argc < MAXARGS) c.argv[c.argc++] = tok;
        vhandler h = NULL;
        for (int i = 0; i < g_ntab; i++) if (!strcmp(g_tab[i].name, c.api)) { h = g_tab[i].fn; break; }
        if (!h) die("unknown api", c.api);
        g_len = 0;
        if (g_line) g_line[0] = 0;
        /* echo the case */
        fputs(c.api, stdout);
        for (int i = 0; i < c.argc; i++) { fputc(' ', stdout); fputs(c.argv[i], stdout); }
        fputs(" ->", stdout);
        int sig;
        g_in_case = 1;
        if ((sig = sigsetjmp(g_jmp, 1)) == 0) {
            h(&c);
            g_in_case = 0;
            if (g_line) fputs(g_line, stdout);
        } else {
            g_in_case = 0;
            fprintf(stdout, " fault=%s", sig == SIGSEGV || sig == SIGBUS ? "segv" : sig == SIGABRT ? "abort" : sig == SIGFPE ? "fpe" : "ill");
        }
        fputc('\n', stdout);
    }
    fflush(stdout);
    return 0;
}
