/* drv_elias.c — handlers for varintElias.{c,h} */
#include "core.h"
#include "varintElias.h"
#include <stdlib.h>
#include <string.h>

#define BIG_BYTES 8192 /* longer byte strings are printed as hash + head */

static int is_gamma(const vcase *c, int i) { return c->argv[i][0] == 'g'; }

/* bytes, or "h<hash>:<first 32 bytes>" when long (same rule in drv_elias.ml) */
static void out_bytes(const char *k, const uint8_t *p, size_t n) {
    if (n <= BIG_BYTES) {
        out_hex(k, p, n);
        return;
    }
    uint64_t h = 7;
    for (size_t i = 0; i < n; i++) h = (h * 31 + p[i]) % 1000000007ULL;
    char pre[64], *s = malloc(64 + 2 * 32 + 1);
    snprintf(pre, sizeof pre, "h%llu:", (unsigned long long)h);
    strcpy(s, pre);
    size_t l = strlen(s);
    for (size_t i = 0; i < 32; i++) snprintf(s + l + 2 * i, 3, "%02x", p[i]);
    out_str(k, s);
    free(s);
}

/* decoded list: "ok" when equal to the first n of ref (and n <= nref), else the list */
static void out_cmp(const char *k, const uint64_t *got, size_t n, const uint64_t *ref, size_t nref) {
    if (n <= nref && (n == 0 || memcmp(got, ref, n * sizeof(uint64_t)) == 0)) out_str(k, "ok");
    else out_list(k, got, n);
}

/* round trip: "ok" when exactly ref[0..nref) came back, else what came back */
static void out_rt(const char *k, const uint64_t *got, size_t n, size_t cap, const uint64_t *ref, size_t nref) {
    if (n == nref && (n == 0 || memcmp(got, ref, n * sizeof(uint64_t)) == 0)) out_str(k, "ok");
    else out_list(k, got, n <= cap ? n : cap);
}

static size_t enc_array(int gamma, uint8_t *dst, const uint64_t *v, size_t n, varintEliasMeta *m) {
    return gamma ? varintEliasGammaEncodeArray(dst, v, n, m) : varintEliasDeltaEncodeArray(dst, v, n, m);
}
static size_t dec_array(int gamma, const uint8_t *src, size_t bits, uint64_t *v, size_t cap) {
    return gamma ? varintEliasGammaDecodeArray(src, bits, v, cap) : varintEliasDeltaDecodeArray(src, bits, v, cap);
}
static size_t max_bytes(int gamma, size_t n) {
    return gamma ? varintEliasGammaMaxBytes(n) : varintEliasDeltaMaxBytes(n);
}

/* values[] output area of exactly cap elements inside canaries */
static gbuf out_values(size_t cap) { return gbuf_new(cap * sizeof(uint64_t), 0); }

/* elias_enc g|d Lvalues align : destination of exactly MaxBytes(count) bytes */
static void h_elias_enc(const vcase *c) {
    int gamma = is_gamma(c, 0);
    size_t n;
    uint64_t *v = arg_list(c, 1, &n);
    unsigned align = (unsigned)arg_u64(c, 2);
    size_t max = max_bytes(gamma, n);
    gbuf g = gbuf_new(max, align);
    varintEliasMeta m;
    memset(&m, 0xEE, sizeof m);
    size_t ret = enc_array(gamma, g.p, v, n, &m);
    out_u64("max", max);
    out_u64("ret", ret);
    size_t show = ret <= max ? ret : max;
    out_bytes("bytes", g.p, show);
    const char *tail = "zero";
    for (size_t i = show; i < max; i++) if (g.p[i] != 0) tail = "dirty";
    out_str("tail", tail);
    out_str("guard", gbuf_guard(&g));
    out_u64("count", m.count);
    out_u64("tbits", m.totalBits);
    out_u64("ebytes", m.encodedBytes);
    /* meta == NULL variant returns the same */
    gbuf g2 = gbuf_new(max, align);
    size_t ret2 = enc_array(gamma, g2.p, v, n, NULL);
    out_str("nometa", (ret2 == ret && memcmp(g.p, g2.p, max) == 0) ? "same" : "differs");
    gbuf_free(&g2);
    /* decode the bytes the encoder reported, with the original count */
    gpage in = gpage_new(g.p, show);
    gbuf o = out_values(n);
    size_t d = dec_array(gamma, in.p, m.totalBits, (uint64_t *)o.p, n);
    out_u64("n", d);
    out_rt("rt", (uint64_t *)o.p, d, n, v, n);
    out_str("oguard", gbuf_guard(&o));
    /* same with the byte-granular size (padding bits declared as input) */
    gbuf o8 = out_values(n);
    size_t d8 = dec_array(gamma, in.p, show * 8, (uint64_t *)o8.p, n);
    out_u64("n8", d8);
    out_rt("rt8", (uint64_t *)o8.p, d8, n, v, n);
    gbuf_free(&o8);
    gbuf_free(&o);
    gpage_free(&in);
    gbuf_free(&g);
    free(v);
}

/* elias_val x : single-value functions on a 16-byte writer (x >= 1) */
static void h_elias_val(const vcase *c) {
    uint64_t x = arg_u64(c, 0);
    out_u64("gbits", varintEliasGammaBits(x));
    out_u64("dbits", varintEliasDeltaBits(x));
    for (int gamma = 1; gamma >= 0; gamma--) {
        gbuf g = gbuf_new(16, 0);
        varintBitWriter w;
        varintBitWriterInit(&w, g.p, 16);
        size_t bits = gamma ? varintEliasGammaEncode(&w, x) : varintEliasDeltaEncode(&w, x);
        size_t nb = varintBitWriterBytes(&w);
        out_u64(gamma ? "gw" : "dw", bits);
        out_u64(gamma ? "gpos" : "dpos", w.bitPos);
        out_hex(gamma ? "gb" : "db", g.p, nb <= 16 ? nb : 16);
        out_str(gamma ? "gguard" : "dguard", gbuf_guard(&g));
        gpage in = gpage_new(g.p, nb <= 16 ? nb : 16);
        varintBitReader r;
        varintBitReaderInit(&r, in.p, bits);
        uint64_t y = gamma ? varintEliasGammaDecode(&r) : varintEliasDeltaDecode(&r);
        out_u64(gamma ? "gv" : "dv", y);
        out_u64(gamma ? "grpos" : "drpos", r.bitPos);
        gpage_free(&in);
        gbuf_free(&g);
    }
}

/* elias_bw Lvalues Lnbits : raw bit writer / reader (each nBits <= 64) */
static void h_elias_bw(const vcase *c) {
    size_t n, n2;
    uint64_t *v = arg_list(c, 0, &n);
    uint64_t *nb = arg_list(c, 1, &n2);
    if (n2 < n) n = n2;
    size_t total = 0;
    for (size_t i = 0; i < n; i++) total += nb[i];
    size_t cap = (total + 7) / 8;
    gbuf g = gbuf_new(cap, 0);
    varintBitWriter w;
    varintBitWriterInit(&w, g.p, cap);
    for (size_t i = 0; i < n; i++) varintBitWriterWrite(&w, v[i], nb[i]);
    out_u64("pos", w.bitPos);
    out_u64("nbytes", varintBitWriterBytes(&w));
    out_hex("bytes", g.p, cap);
    out_str("guard", gbuf_guard(&g));
    gpage in = gpage_new(g.p, cap);
    varintBitReader r;
    varintBitReaderInit(&r, in.p, total);
    uint64_t *rd = malloc((n ? n : 1) * sizeof(uint64_t));
    char *more = malloc(n + 2);
    for (size_t i = 0; i < n; i++) {
        more[i] = varintBitReaderHasMore(&r, nb[i]) ? '1' : '0';
        rd[i] = varintBitReaderRead(&r, nb[i]);
    }
    more[n] = varintBitReaderHasMore(&r, 1) ? '1' : '0';
    more[n + 1] = 0;
    out_list("rd", rd, n);
    out_str("more", more);
    out_u64("rpos", r.bitPos);
    free(rd); free(more);
    gpage_free(&in);
    gbuf_free(&g);
    free(v); free(nb);
}

/* elias_cap g|d Lvalues cap : decode a valid encoding into exactly cap slots */
static void h_elias_cap(const vcase *c) {
    int gamma = is_gamma(c, 0);
    size_t n;
    uint64_t *v = arg_list(c, 1, &n);
    size_t cap = (size_t)arg_u64(c, 2);
    size_t max = max_bytes(gamma, n);
    uint8_t *enc = malloc(max ? max : 1);
    varintEliasMeta m;
    size_t ret = enc_array(gamma, enc, v, n, &m);
    gpage in = gpage_new(enc, ret);
    gbuf o = out_values(cap);
    size_t d = dec_array(gamma, in.p, m.totalBits, (uint64_t *)o.p, cap);
    out_u64("n", d);
    out_cmp("pre", (uint64_t *)o.p, d <= cap ? d : cap, v, n);
    out_str("guard", gbuf_guard(&o));
    gbuf_free(&o);
    gpage_free(&in);
    free(enc);
    free(v);
}

/* elias_dec g|d hex bits cap : arbitrary bytes; the input buffer handed over
 * holds exactly ceil(bits/8) bytes (bits is clamped to 8*len) */
static void h_elias_dec(const vcase *c) {
    int gamma = is_gamma(c, 0);
    size_t len;
    uint8_t *b = arg_hex(c, 1, &len);
    size_t bits = (size_t)arg_u64(c, 2);
    size_t cap = (size_t)arg_u64(c, 3);
    if (bits > len * 8) bits = len * 8;
    size_t give = (bits + 7) / 8;
    /* the bits of the last byte after the declared bit count are not input:
     * under --poison they carry the poison pattern instead of the case's bits */
    if (vdrv_poison() && (bits & 7) && give) {
        uint8_t keep = (uint8_t)(0xFF << (8 - (bits & 7)));
        b[give - 1] = (uint8_t)((b[give - 1] & keep) | ((uint8_t)vdrv_poison() & (uint8_t)~keep));
    }
    gpage in = gpage_new(b, give);
    gbuf o = out_values(cap);
    size_t d = dec_array(gamma, in.p, bits, (uint64_t *)o.p, cap);
    out_u64("n", d);
    out_list("vals", (uint64_t *)o.p, d <= cap ? d : cap);
    out_str("guard", gbuf_guard(&o));
    gbuf_free(&o);
    gpage_free(&in);
    free(b);
}

/* elias_ben Lvalues : IsBeneficial predicates (zeros allowed) */
static void h_elias_ben(const vcase *c) {
    size_t n;
    uint64_t *v = arg_list(c, 0, &n);
    out_u64("g", varintEliasGammaIsBeneficial(v, n));
    out_u64("d", varintEliasDeltaIsBeneficial(v, n));
    free(v);
}

static const vreg tab[] = {
    {"elias_enc", h_elias_enc}, {"elias_val", h_elias_val}, {"elias_bw", h_elias_bw},
    {"elias_cap", h_elias_cap}, {"elias_dec", h_elias_dec}, {"elias_ben", h_elias_ben},
};
VREGISTER(tab)
