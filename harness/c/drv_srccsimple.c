/* drv_srccsimple.c — C side of the src_csimple_* handlers.  The same calls are
 * evaluated by the model driver on the Gallina functions that gen/c2coq.py
 * regenerates from the current src/varintChainedSimple.c
 * (harness/ml/drv_srccsimple.ml); a difference is a bug of the translator (or of
 * CSem.v).  Destinations are exact-size and printed whole; sources end flush
 * against an inaccessible page. */
#include "core.h"
#include "varint.h"
#include "varintChainedSimple.h"
#include <stdlib.h>
#include <string.h>

static gbuf buf_arg(const vcase *c, int i) {
    size_t len;
    uint8_t *b = arg_hex(c, i, &len);
    gbuf g = gbuf_new(len, 0);
    gbuf_prefill(&g, b, len);
    free(b);
    return g;
}

static gpage page_arg(const vcase *c, int i) {
    size_t len;
    uint8_t *b = arg_hex(c, i, &len);
    gpage in = gpage_new(b, len);
    free(b);
    return in;
}

static void put_like(gbuf *g, varintWidth w) {
    out_u64("ret", w);
    if (strcmp(gbuf_guard(g), "ok") != 0) out_str("buf", gbuf_guard(g));
    else out_hex("buf", g->p, g->size);
}

static void h_len(const vcase *c) { out_u64("ret", varintChainedSimpleLength(arg_u64(c, 0))); }

static void h_enc(const vcase *c) {
    gbuf g = buf_arg(c, 1);
    varintWidth w = varintChainedSimpleEncode64(g.p, arg_u64(c, 0));
    put_like(&g, w);
    gbuf_free(&g);
}

static void h_enc32(const vcase *c) {
    gbuf g = buf_arg(c, 1);
    varintWidth w = varintChainedSimpleEncode32(g.p, (uint32_t)arg_u64(c, 0));
    put_like(&g, w);
    gbuf_free(&g);
}

static void h_dec(const vcase *c) {
    gpage in = page_arg(c, 0);
    uint64_t v = arg_u64(c, 1);
    varintWidth w = varintChainedSimpleDecode64(in.p, &v);
    out_u64("ret", w);
    out_u64("v", v);
    gpage_free(&in);
}

static void h_dec32(const vcase *c) {
    gpage in = page_arg(c, 0);
    uint32_t v = (uint32_t)arg_u64(c, 1);
    varintWidth w = varintChainedSimpleDecode32(in.p, &v);
    out_u64("ret", w);
    out_u64("v", v);
    gpage_free(&in);
}

static void h_dec32f(const vcase *c) {
    gpage in = page_arg(c, 0);
    uint32_t v = (uint32_t)arg_u64(c, 1);
    varintWidth w = varintChainedSimpleDecode32Fallback(in.p, &v);
    out_u64("ret", w);
    out_u64("v", v);
    gpage_free(&in);
}

static const vreg tab[] = {
    {"src_csimple_len", h_len},     {"src_csimple_enc", h_enc},     {"src_csimple_enc32", h_enc32},
    {"src_csimple_dec", h_dec},     {"src_csimple_dec32", h_dec32}, {"src_csimple_dec32f", h_dec32f},
};
VREGISTER(tab)
