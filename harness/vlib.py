"""vlib.py — shared machinery of bin/check.

Flow of one check (see DESIGN.md section 2):
  regenerate facts -> build Coq (deps + Properties_Cnn.v, Print Assumptions)
  -> extract + build OCaml model driver -> build C driver from /repo's
  working tree -> generate cases -> run both -> diff -> direct oracle ->
  failing-input search -> verdict + evidence + replay.
"""
import fcntl
import glob
import hashlib
import importlib.util
import json
import os
import random
import re
import shutil
import subprocess
import sys
import tempfile
import time

VERIF = os.path.dirname(os.path.dirname(os.path.abspath(__file__)))
REPO = os.environ.get("VERIF_REPO", "/repo")
COQ = os.path.join(VERIF, "coq")
GUARD = "MATTSTA_VARINT_VERIF"

LIB_SOURCES = [
    "varintExternal.c", "varintExternalBigEndian.c", "varintChained.c",
    "varintChainedSimple.c", "varintTagged.c", "varintDimension.c",
    "varintDelta.c", "varintFOR.c", "varintPFOR.c", "varintGroup.c",
    "varintDict.c", "varintRLE.c", "varintElias.c", "varintBP128.c",
    "varintFloat.c", "varintAdaptive.c", "varintBitmap.c",
]

# build configurations of the implementation
CONFIGS = {
    # as /repo/_build (RelWithDebInfo + the CMakeLists flags)
    "pinned": dict(cc="gcc", flags="-O2 -g -DNDEBUG -std=c11 -mtune=native -O3"),
    # unoptimised, asserts on
    "O0": dict(cc="gcc", flags="-O0 -g -std=c11"),
    # sanitised (recover: diagnostics are logged, aborts only on ASan errors)
    "asan": dict(cc="clang", flags="-O1 -g -std=c11 -fsanitize=address,undefined -fno-omit-frame-pointer"),
    "native": dict(cc="gcc", flags="-O2 -g -DNDEBUG -std=c11 -march=native -O3"),
    # the other compiler, optimising, no sanitizer (its optimiser exploits different undefined behaviour)
    "clang": dict(cc="clang", flags="-O2 -g -DNDEBUG -std=c11"),
    # ThreadSanitizer build for the --threads mode of the driver
    "tsan": dict(cc="clang", flags="-O1 -g -std=c11 -fsanitize=thread -fno-omit-frame-pointer"),
    # allocation-failure injection: malloc family wrapped at link time
    "oom": dict(cc="gcc", flags="-O2 -g -DNDEBUG -std=c11 -O3 -DVDRV_WRAP_ALLOC "
                "-Wl,--wrap=malloc,--wrap=calloc,--wrap=realloc,--wrap=free"),
    # every uninitialised automatic variable forced to zero / to a 0xFE pattern: results that
    # differ between the two (or from the plain build) were computed from uninitialised locals
    "initzero": dict(cc="gcc", flags="-O2 -g -DNDEBUG -std=c11 -O3 -ftrivial-auto-var-init=zero"),
    "initpat": dict(cc="gcc", flags="-O2 -g -DNDEBUG -std=c11 -O3 -ftrivial-auto-var-init=pattern"),
    # for valgrind memcheck (no sanitizer, debug info, light optimisation)
    "vg": dict(cc="gcc", flags="-O1 -g -DNDEBUG -std=c11"),
}

ALLOWED_AXIOMS = {
    # stdlib axioms that may appear (named in the trusted base when they do)
    "ClassicalDedekindReals.sig_forall_dec", "ClassicalDedekindReals.sig_not_dec",
    "FunctionalExtensionality.functional_extensionality_dep",
    "functional_extensionality_dep", "sig_forall_dec", "sig_not_dec",
    "Classical_Prop.classic", "classic", "Eqdep.Eq_rect_eq.eq_rect_eq", "eq_rect_eq",
    "ProofIrrelevance.proof_irrelevance", "proof_irrelevance", "JMeq_eq", "JMeq.JMeq_eq",
}


def evidence_dir():
    """evidence/ holds runs against /repo itself; runs against any other tree
    (VERIF_REPO=… used to try seeded changes) must not overwrite it"""
    if os.path.realpath(REPO) == "/repo":
        return os.path.join(VERIF, "evidence")
    return os.path.join(VERIF, "build", "evidence-other-tree")


def log(*a):
    print(*a, file=sys.stderr, flush=True)


def run(cmd, cwd=None, timeout=None, env=None, stdin=None):
    p = subprocess.run(cmd, cwd=cwd, timeout=timeout, env=env, input=stdin,
                       stdout=subprocess.PIPE, stderr=subprocess.PIPE, text=True,
                       shell=isinstance(cmd, str))
    return p.returncode, p.stdout, p.stderr


class Lock:
    def __init__(self, path):
        self.path = path

    def __enter__(self):
        os.makedirs(os.path.dirname(self.path), exist_ok=True)
        self.f = open(self.path, "w")
        fcntl.flock(self.f, fcntl.LOCK_EX)
        return self

    def __exit__(self, *a):
        fcntl.flock(self.f, fcntl.LOCK_UN)
        self.f.close()


# ---------------------------------------------------------------- facts

def regen_facts():
    """Regenerate coq/gen/*.v from /repo's current sources.  Returns a dict of
    what was generated (for the evidence) and a list of problems."""
    sys.path.insert(0, os.path.join(VERIF, "gen"))
    import facts  # noqa
    return facts.regenerate(REPO, os.path.join(COQ, "gen"))


# ---------------------------------------------------------------- Coq

def coq_files():
    th = sorted(glob.glob(os.path.join(COQ, "theories", "*.v")))
    gen = sorted(glob.glob(os.path.join(COQ, "gen", "*.v")))
    return th, gen


def coq_makefile():
    th, gen = coq_files()
    files = [os.path.relpath(f, COQ) for f in th + gen
             if not os.path.basename(f).startswith("Properties_")]
    rc, out, err = run(["coq_makefile", "-f", "_CoqProject", "-o", "Makefile"] + files, cwd=COQ)
    if rc != 0:
        raise RuntimeError("coq_makefile failed: " + err)


def build_coq_deps(jobs=16, timeout=3000):
    """Full .vo build of every model/proof file (not Properties_*, not Extract)."""
    coq_makefile()
    rc, out, err = run(["make", "-k", "-j%d" % jobs], cwd=COQ, timeout=timeout)
    return rc, out + err


def check_properties(prop_file, timeout=900):
    """Compile theories/<prop_file>.v (only `exact`s + Print Assumptions) and
    return list of (theorem, ok, axioms, note)."""
    src = os.path.join(COQ, "theories", prop_file + ".v")
    text = open(src).read()
    theorems = re.findall(r"^Theorem\s+(\w+)", text, re.M)
    rc, out, err = run(["coqc", "-Q", "theories", "VV", "-Q", "gen", "VVgen",
                        "-w", "-notation-overridden,-deprecated-hint-without-locality",
                        "theories/%s.v" % prop_file], cwd=COQ, timeout=timeout)
    results = []
    failed_at = None
    fail_note = ""
    if rc != 0:
        # find the theorem enclosing the error line; theorems before it were
        # checked (their Print Assumptions output is in `out`), later ones not
        m = re.search(r'line (\d+)', err)
        if m:
            ln = int(m.group(1))
            lines = text.split("\n")
            for i in range(min(ln, len(lines)) - 1, -1, -1):
                mm = re.match(r"(Theorem|Example)\s+(\w+)", lines[i])
                if mm:
                    failed_at = mm.group(2)
                    break
        fail_note = "coqc failed" + (" at " + failed_at if failed_at else "") + ": " + err.strip()[-400:]
        if failed_at is None or failed_at not in theorems:
            # failure outside a Theorem (import, Example): nothing is established
            for t in theorems:
                results.append((t, False, [], fail_note))
            return results, err
    # split Print Assumptions output: blocks appear in order
    blocks = []
    cur = None
    for line in out.split("\n"):
        if line.startswith("Closed under the global context"):
            blocks.append([])
            cur = None
        elif line.startswith("Axioms:"):
            cur = []
            blocks.append(cur)
        elif cur is not None and line.strip():
            # an axiom entry starts at column 0 with its (possibly qualified)
            # name; its type may continue on indented lines
            m = re.match(r"^([A-Za-z_][\w.']*)\s*(:|$)", line)
            if m and not line.startswith(" "):
                cur.append(m.group(1))
    reached_failure = False
    for i, t in enumerate(theorems):
        if failed_at is not None and t == failed_at:
            reached_failure = True
            results.append((t, False, [], fail_note))
            continue
        if reached_failure:
            results.append((t, False, [], "not checked: an earlier theorem of this file (%s) failed" % failed_at))
            continue
        if i < len(blocks):
            ax = blocks[i]
            bad = [a for a in ax if a not in ALLOWED_AXIOMS]
            results.append((t, not bad, ax, "" if not bad else "non-permitted axioms: " + ",".join(bad)))
        else:
            results.append((t, False, [], "no Print Assumptions output"))
    return results, out


def forbidden_scan():
    """grep the development for Admitted/admit/Axiom/Parameter/... ."""
    bad = []
    pat = re.compile(r"\b(Admitted|admit|Axiom|Parameter|Conjecture|Admit Obligations|Unset Guard Checking|"
                     r"Unset Positivity Checking|Unset Universe Checking|bypass_check|Hypothesis|Variable)\b")
    for f in sum(coq_files(), []):
        depth = 0
        for i, line in enumerate(open(f), 1):
            code = re.sub(r"\(\*.*?\*\)", "", line)
            if re.match(r"\s*Section\b", code):
                depth += 1
            if re.match(r"\s*End\b", code) and depth > 0:
                depth -= 1
            m = pat.search(code)
            if m:
                if m.group(1) in ("Hypothesis", "Variable") and depth > 0:
                    continue
                bad.append("%s:%d: %s" % (os.path.relpath(f, VERIF), i, line.strip()))
    return bad


def gen_extract_v():
    """coq/gen/Extract.v is assembled from `(* EXTRACT: a b c *)` markers in
    theories/*.v (one list per model file)."""
    mods, names = [], []
    for f in sorted(glob.glob(os.path.join(COQ, "theories", "*.v"))):
        txt = open(f).read()
        found = re.findall(r"\(\*\s*EXTRACT:\s*(.*?)\*\)", txt, re.S)
        if found:
            mods.append(os.path.splitext(os.path.basename(f))[0])
            for blk in found:
                for n in blk.split():
                    if n not in names:
                        names.append(n)
    # names called by the OCaml glue must be unambiguous in the single model.ml
    defs = {}
    for f in sorted(glob.glob(os.path.join(COQ, "theories", "*.v"))):
        for n in re.findall(r"^(?:Definition|Fixpoint|Inductive|Record)\s+(\w+)", open(f).read(), re.M):
            defs.setdefault(n, []).append(os.path.basename(f))
    amb = ["%s (%s)" % (n, ",".join(defs[n])) for n in names if len(set(defs.get(n, []))) > 1]
    if amb:
        raise RuntimeError("extracted names defined in more than one module (prefix them): " + "; ".join(amb))
    text = ("(* generated by harness/vlib.py from EXTRACT markers — do not edit.\n"
            "   Only ExtrOcamlBasic: bool, option, list, prod, unit, sumbool map to OCaml's\n"
            "   own types; N, Z, positive and nat stay the Coq inductive datatypes. *)\n"
            + "".join("Require Import VV.%s.\n" % m for m in mods)
            + "Require Import ExtrOcamlBasic.\nExtraction Language OCaml.\nSet Extraction Optimize.\n"
            + 'Extraction "model.ml"\n  ' + "\n  ".join(names) + ".\n")
    path = os.path.join(COQ, "extract", "Extract.v")
    os.makedirs(os.path.dirname(path), exist_ok=True)
    open(path, "w").write(text)
    return path, names


def build_model_driver(timeout=900):
    """Extract the model to OCaml and build the model driver.  Returns path."""
    ex = os.path.join(COQ, "extract")
    os.makedirs(ex, exist_ok=True)
    gen_extract_v()
    # the model driver is a function of the Coq sources (incl. regenerated
    # gen/*.v) and the OCaml glue only: rebuild when any of them changed
    h = hashlib.sha1()
    for f in sorted(glob.glob(os.path.join(COQ, "theories", "*.v")) + glob.glob(os.path.join(COQ, "gen", "*.v"))
                    + glob.glob(os.path.join(VERIF, "harness", "ml", "*.ml")) + [os.path.join(ex, "Extract.v")]):
        if os.path.basename(f).startswith("Properties_"):
            continue
        h.update(f.encode())
        h.update(open(f, "rb").read())
    stamp = os.path.join(ex, "mdrv.stamp")
    if os.path.exists(os.path.join(ex, "mdrv")) and os.path.exists(stamp) and open(stamp).read() == h.hexdigest():
        return os.path.join(ex, "mdrv")
    if os.path.exists(stamp):
        os.unlink(stamp)
    rc, out, err = run(["coqc", "-Q", "../theories", "VV", "-Q", "../gen", "VVgen",
                        "-w", "-all", "Extract.v"], cwd=ex, timeout=timeout)
    if rc != 0:
        raise RuntimeError("extraction failed: " + err[-2000:])
    mls = sorted(glob.glob(os.path.join(VERIF, "harness", "ml", "*.ml")))
    for f in mls:
        shutil.copy(f, ex)
    names = [os.path.basename(f) for f in mls]
    order = ["core.ml"] + sorted(n for n in names if n.startswith("drv_")) + ["main.ml"]
    rc, out, err = run(["ocamlfind", "ocamlopt", "-O2", "-package", "zarith", "-linkpkg", "-w", "-a",
                        "model.mli", "model.ml"] + order + ["-o", "mdrv"], cwd=ex, timeout=timeout)
    if rc != 0:
        rc, out, err = run(["ocamlfind", "ocamlopt", "-package", "zarith", "-linkpkg", "-w", "-a",
                            "model.mli", "model.ml"] + order + ["-o", "mdrv"], cwd=ex, timeout=timeout)
    if rc != 0:
        raise RuntimeError("model driver build failed: " + (out + err)[-3000:])
    open(stamp, "w").write(h.hexdigest())
    return os.path.join(ex, "mdrv")


def coq_setup(need_model=True):
    """Facts + deps + model driver, under the shared lock.  Returns
    (ok, log, model_driver_path)."""
    with Lock(os.path.join(VERIF, "build", "coq.lock")):
        facts_info = regen_facts()
        rc, lg = build_coq_deps()
        mdrv = None
        if need_model:
            try:
                mdrv = build_model_driver()
            except RuntimeError as e:
                raise RuntimeError("model driver cannot be built (Coq build rc=%s):\n%s\n%s" % (rc, lg[-3000:], e))
        return rc == 0, lg, mdrv, facts_info


# ---------------------------------------------------------------- C side

BUILD_NOTES = []


def tmp_root():
    d = os.environ.get("VERIF_TMP") or os.path.join(VERIF, "build", "tmp")
    os.makedirs(d, exist_ok=True)
    return d


def build_c_driver(config="pinned", extra_flags="", workdir=None):
    """Compile /repo/src library files + harness/c/*.c into a driver binary
    inside a fresh directory.  Returns (path, dir)."""
    cfg = CONFIGS[config]
    d = workdir or tempfile.mkdtemp(prefix="cdrv-%s-" % config, dir=tmp_root())
    src = os.path.join(REPO, "src")
    hc = os.path.join(VERIF, "harness", "c")
    units = [os.path.join(src, f) for f in LIB_SOURCES] + sorted(glob.glob(os.path.join(hc, "*.c")))
    flags = "%s -D%s -I%s -I%s %s" % (cfg["flags"], GUARD, src, hc, extra_flags)
    mk = ["CC=%s" % cfg["cc"], "CFLAGS=%s -w" % flags, "OBJS=" + " ".join(
        os.path.splitext(os.path.basename(u))[0] + ".o" for u in units),
        "all: drv", "drv: $(OBJS)", "\t$(CC) $(CFLAGS) -o $@ $(OBJS) -lm -lpthread"]
    for u in units:
        o = os.path.splitext(os.path.basename(u))[0] + ".o"
        mk.append("%s: %s\n\t$(CC) $(CFLAGS) -c -o $@ %s" % (o, u, u))
    open(os.path.join(d, "Makefile"), "w").write("\n".join(mk) + "\n")
    rc, out, err = run(["make", "-j16", "-s"], cwd=d, timeout=900)
    if rc != 0 and any(os.path.basename(u).startswith("opt_") for u in units):
        # optional harness units (opt_*.c reach into library internals); a
        # refactor may make one uncompilable or unlinkable: link without it.
        # First the units whose object did not compile, then (a link error, e.g.
        # a duplicate symbol) the remaining optional units one at a time, last all.
        opt = [os.path.splitext(os.path.basename(u))[0] + ".o" for u in units if os.path.basename(u).startswith("opt_")]
        run(["make", "-j16", "-s", "-k"], cwd=d, timeout=900)
        failed = [o for o in opt if not os.path.exists(os.path.join(d, o))]
        base_mk = open(os.path.join(d, "Makefile")).read()

        def attempt(drop):
            mk2 = base_mk
            for o in drop:
                mk2 = mk2.replace(" " + o, "", 1)
            open(os.path.join(d, "Makefile"), "w").write(mk2)
            return run(["make", "-j16", "-s", "-k"], cwd=d, timeout=900)
        tries = []
        if failed:
            tries.append(failed)
        tries += [failed + [o] for o in opt if o not in failed]
        tries.append(opt)
        for drop in tries:
            rc, out, err = attempt(drop)
            if rc == 0:
                BUILD_NOTES.append("config %s: optional harness units dropped (did not build/link against this tree): %s" % (config, ",".join(drop)))
                break
    if rc != 0:
        raise RuntimeError("C driver build failed (%s):\n%s" % (config, (out + err)[-4000:]))
    return os.path.join(d, "drv"), d


def run_driver(binary, case_lines, timeout=1800, env=None, args=(), wrapper=()):
    """Run a driver on the given case lines; returns list of output lines."""
    d = tmp_root()
    fd, path = tempfile.mkstemp(prefix="cases-", suffix=".txt", dir=d)
    with os.fdopen(fd, "w") as f:
        f.write("\n".join(case_lines) + "\n")
    try:
        e = dict(os.environ)
        if env:
            e.update(env)
        def _big_stack():
            import resource
            try:
                resource.setrlimit(resource.RLIMIT_STACK, (resource.RLIM_INFINITY, resource.RLIM_INFINITY))
            except (ValueError, OSError):
                try:
                    soft, hard = resource.getrlimit(resource.RLIMIT_STACK)
                    resource.setrlimit(resource.RLIMIT_STACK, (hard, hard))
                except (ValueError, OSError):
                    pass
        p = subprocess.run(list(wrapper) + [binary] + list(args) + [path], stdout=subprocess.PIPE,
                           stderr=subprocess.PIPE, text=True, timeout=timeout, env=e, preexec_fn=_big_stack)
        outs = p.stdout.split("\n")
        if outs and outs[-1] == "":
            outs.pop()
        return p.returncode, outs, p.stderr
    finally:
        os.unlink(path)


def parse_out(line):
    """'api a b -> k=v k=v' -> (case, {k:v})"""
    if " ->" not in line:
        return line, {}
    case, _, rest = line.partition(" ->")
    kv = {}
    for tok in rest.split():
        k, _, v = tok.partition("=")
        kv[k] = v
    return case, kv


# ---------------------------------------------------------------- helpers for generators

U64 = (1 << 64) - 1


def boundary_values():
    """values around every byte/7-bit/tagged/split boundary"""
    s = set()
    for k in range(0, 65):
        for d in (-2, -1, 0, 1, 2):
            s.add((1 << k) + d)
    for k in range(1, 10):
        for d in (-2, -1, 0, 1, 2):
            s.add((1 << (7 * k)) + d)
    for b in (240, 2287, 2288, 67823, 67824, 16383, 16384, 16446, 16447, 4210750, 4210751, 81981, 81982,
              63, 64, 16447, 4210751, 20987967):
        for d in (-2, -1, 0, 1, 2):
            s.add(b + d)
    return sorted(v for v in s if 0 <= v <= U64)


_LIT_CACHE = {}


def scraped_literals(files):
    """integer literals currently present in the given /repo files (+-1,+-2)"""
    key = tuple(files)
    if key in _LIT_CACHE:
        return _LIT_CACHE[key]
    s = set()
    for f in files:
        p = os.path.join(REPO, f)
        if not os.path.exists(p):
            continue
        txt = open(p, errors="replace").read()
        txt = re.sub(r"/\*.*?\*/", " ", txt, flags=re.S)
        for m in re.finditer(r"\b(0[xX][0-9a-fA-F]+|\d+)(?:[uU]?[lL]{0,2})\b", txt):
            try:
                v = int(m.group(1), 0) if not (m.group(1).startswith("0") and m.group(1).isdigit() and len(m.group(1)) > 1) else int(m.group(1), 10)
            except ValueError:
                continue
            for d in (-2, -1, 0, 1, 2):
                if 0 <= v + d <= U64:
                    s.add(v + d)
    r = sorted(s)
    _LIT_CACHE[key] = r
    return r


def rand_u64(rng):
    """random 64-bit value with uniformly chosen bit length"""
    k = rng.randint(0, 64)
    if k == 0:
        return 0
    return rng.getrandbits(k) | (1 << (k - 1))


def hexs(bs):
    return "x" + "".join("%02x" % b for b in bs)


def lst(vs):
    return "L" + ",".join(str(v) for v in vs)


# ---------------------------------------------------------------- minimiser

def shrink_candidates(case):
    """Smaller variants of a case: for every list argument (L…) drop halves,
    quarters, … and single elements; for hex arguments (x…) drop trailing
    bytes.  Values are never altered, so a shrunk case stays inside whatever
    value domain the original was in."""
    toks = case.split(" ")
    out = []
    for i, t in enumerate(toks[1:], 1):
        if t.startswith("L") and len(t) > 1:
            xs = t[1:].split(",")
            n = len(xs)
            if n <= 1:
                continue
            k = n // 2
            seen = set()
            while k >= 1:
                for st in range(0, n, k):
                    ys = xs[:st] + xs[st + k:]
                    key = ",".join(ys)
                    if ys and key not in seen:
                        seen.add(key)
                        out.append(" ".join(toks[:i] + ["L" + key] + toks[i + 1:]))
                if len(out) > 400:
                    break
                k //= 2
    return out


def minimise(case, orc, binary, env=None, rounds=40):
    """Delta-debugging on the case's list arguments against the C driver and
    the direct oracle (batch per round)."""
    best = case
    for _ in range(rounds):
        cands = shrink_candidates(best)
        if not cands:
            break
        rc, outs, _ = run_driver(binary, cands, env=env, timeout=600)
        found = None
        for c, o in zip(cands, outs):
            api, _, rest = c.partition(" ")
            try:
                msg = orc(rest.split(), parse_out(o)[1])
            except Exception:
                msg = None
            if msg:
                found = c
                break
        if not found:
            break
        best = found
    return best


# ---------------------------------------------------------------- known findings

def load_known():
    p = os.path.join(VERIF, "known_findings.jsonl")
    out = []
    if os.path.exists(p):
        for line in open(p):
            line = line.strip()
            if line and not line.startswith("#") and line.startswith("{"):
                out.append(json.loads(line))
    return out


def match_known(known, prop, api, args, ckv):
    for k in known:
        if k.get("status") != "known" or k.get("property") != prop:
            continue
        if k.get("api") not in (None, api):
            continue
        try:
            env = {"args": args, "c": ckv, "int": int, "len": len, "api": api,
                   "L": lambda s: [int(x) for x in s[1:].split(",")] if len(s) > 1 else [],
                   "X": lambda s: bytes.fromhex(s[1:])}
            if eval(k.get("predicate", "True"), {"__builtins__": {}}, env):
                return k
        except Exception:
            continue
    return None


# ---------------------------------------------------------------- the check runner

class Spec:
    """Aggregate of every checks/parts/*.py entry for one property."""

    def __init__(self, prop, parts):
        self.prop = prop
        self.parts = parts
        self.COQ_PROPS = []
        self.ORACLES = {}
        self.TRUSTED_BASE = []
        self.ASSUMPTIONS = []
        self.FILES = []
        rules = []
        cq, ct = [], []
        self.EXTRA_CFLAGS = ""
        for name, p in parts:
            for x in p.get("coq_props", []):
                if x not in self.COQ_PROPS:
                    self.COQ_PROPS.append(x)
            for k, v in p.get("oracles", {}).items():
                if k in self.ORACLES and self.ORACLES[k] is not v:
                    a, b = self.ORACLES[k], v
                    self.ORACLES[k] = (lambda a, b: (lambda args, c: a(args, c) or b(args, c)))(a, b)
                else:
                    self.ORACLES[k] = v
            self.TRUSTED_BASE += [t for t in p.get("trusted_base", []) if t not in self.TRUSTED_BASE]
            self.ASSUMPTIONS += [t for t in p.get("assumptions", []) if t not in self.ASSUMPTIONS]
            self.FILES += [t for t in p.get("files", []) if t not in self.FILES]
            if p.get("rule"):
                rules.append("[%s] %s" % (name, p["rule"]))
            for c in p.get("configs_quick", ["pinned"]):
                if c not in cq:
                    cq.append(c)
            for c in p.get("configs_thorough", ["pinned", "O0", "asan", "clang"]):
                if c not in ct:
                    ct.append(c)
        self.MINIMISE = set()
        for name, p in parts:
            self.MINIMISE |= set(p.get("minimise", []))
        self.RULE = " ".join(rules)
        self.CONFIGS_QUICK = cq
        self.CONFIGS_THOROUGH = ct

    def generate(self, rng, tier):
        for name, p in self.parts:
            g = p.get("generate")
            if g:
                yield from g(random.Random(rng.getrandbits(48)), tier)

    def classify(self, case, m):
        api = case.split(" ", 1)[0]
        for name, p in self.parts:
            f = p.get("classify")
            if f:
                # a part classifies its own apis; it may not understand others'
                if p.get("oracles") and api not in p["oracles"]:
                    continue
                try:
                    r = f(case, m)
                except Exception:
                    r = None
                if r is not None:
                    return r
        return "other"

    def customs(self):
        return [(name, p["custom"]) for name, p in self.parts if p.get("custom")]

    def search(self, rng, divergent):
        for name, p in self.parts:
            f = p.get("search")
            if f:
                yield from f(random.Random(rng.getrandbits(48)), divergent)


def load_spec(prop):
    parts = []
    only = [x for x in os.environ.get("VERIF_PARTS", "").split(",") if x]
    for path in sorted(glob.glob(os.path.join(VERIF, "checks", "parts", "*.py"))):
        name = os.path.splitext(os.path.basename(path))[0]
        if only and name not in only:
            continue
        sp = importlib.util.spec_from_file_location("part_" + name, path)
        mod = importlib.util.module_from_spec(sp)
        sp.loader.exec_module(mod)
        if prop in getattr(mod, "PARTS", {}):
            parts.append((name, mod.PARTS[prop]))
    if not parts:
        raise SystemExit("no checks/parts/*.py entry for property %s" % prop)
    return Spec(prop, parts)


class CustomCtx:
    """What a part's custom(ctx) runner may use."""

    def __init__(self, check, drivers, mdrv, rng):
        self.check = check
        self.tier = check.tier
        self.seed = check.seed
        self.drivers = drivers
        self.mdrv = mdrv
        self.rng = rng

    def build(self, config, extra=""):
        if config in self.drivers:
            return self.drivers[config]
        b, d = build_c_driver(config, extra)
        self.check.tmpdirs.append(d)
        self.drivers[config] = b
        return b

    def run_c(self, binary, cases, args=(), env=None, wrapper=(), timeout=3000):
        return run_driver(binary, cases, timeout=timeout, env=env, args=args, wrapper=wrapper)

    def run_model(self, cases):
        return run_driver(self.mdrv, cases)

    def cases_from(self, prop, parts=None, limit=None, tier=None):
        """cases generated by other parts' generators for property `prop`"""
        sp = load_spec(prop)
        out, seen = [], set()
        for name, p in sp.parts:
            if parts and name not in parts:
                continue
            g = p.get("generate")
            if not g:
                continue
            mine = []
            for line in g(random.Random(self.rng.getrandbits(48)), tier or "quick"):
                if line not in seen:
                    seen.add(line)
                    mine.append(line)
                    if limit and len(mine) >= 60 * limit:
                        break
            if limit and len(mine) > limit:
                # a uniform sample of the part's cases (all of its apis), not just the first ones
                mine = random.Random(self.rng.getrandbits(48)).sample(mine, limit)
            out += mine
        return out

    def save(self, name, text):
        d = os.path.join(VERIF, "replays")
        os.makedirs(d, exist_ok=True)
        p = os.path.join(d, name)
        open(p, "w").write(text)
        return p


class Check:
    """One property check; self.spec aggregates checks/parts/*.py."""

    def __init__(self, prop, tier, seed):
        self.prop = prop
        self.tier = tier
        self.seed = seed
        self.t0 = time.time()
        self.spec = load_spec(prop)
        self.violations = []     # (kind, api, case, detail)
        self.known_seen = []
        self.notes = []
        self.tmpdirs = []

    # -- evidence / replay
    def write_replay(self, obj):
        d = os.path.join(VERIF, "replays")
        os.makedirs(d, exist_ok=True)
        h = hashlib.sha1(json.dumps(obj, sort_keys=True).encode()).hexdigest()[:12]
        p = os.path.join(d, "%s-%s.json" % (self.prop, h))
        json.dump(obj, open(p, "w"), indent=1)
        return p

    def cleanup(self):
        for d in self.tmpdirs:
            shutil.rmtree(d, ignore_errors=True)

    def run(self):
        try:
            return self._run()
        finally:
            self.cleanup()

    def _run(self):
        spec = self.spec
        prop = self.prop
        known = load_known()
        rng = random.Random(self.seed)
        ev = {"property_id": prop, "tier": self.tier, "seed": self.seed, "level": "proof"}
        cov = {}
        exit_code = 0
        vio_lines = []

        # 1+2. facts, proofs, model driver
        try:
            ok, lg, mdrv, facts_info = coq_setup()
        except RuntimeError as e:
            # the model side of the correspondence cannot be built for this tree
            # (typically: a function regenerated from the source changed its shape — e.g.
            # gained a loop and with it a fuel argument — so the OCaml glue that runs the
            # regenerated functions no longer type-checks, or the translator itself failed).
            # The tie between model and code no longer checks and nothing can be compared.
            rp = self.write_replay({"property": prop, "kind": "model-build",
                                    "detail": "the model driver (extracted Coq model + regenerated source renderings + OCaml glue) "
                                              "does not build for the current /repo tree, so the proofs about the regenerated "
                                              "functions and the correspondence cannot be checked: " + str(e)[-2500:],
                                    "broken": ["model driver build (regenerated source / extraction / harness/ml)"],
                                    "seed": self.seed, "tier": self.tier})
            print("VIOLATION property=%s replay=%s no-failing-input-found" % (prop, rp))
            cov.update({"evaluations": 0, "distinct_nontrivial": 0, "samples": [], "rule": "model driver build failed",
                        "obligations": 0, "discharged": 0, "theorems": [], "notes": [str(e)[-500:]]})
            ev["coverage"] = cov
            ev["wall_s"] = round(time.time() - self.t0, 2)
            ev["violations"] = 1
            os.makedirs(evidence_dir(), exist_ok=True)
            json.dump(ev, open(os.path.join(evidence_dir(), prop + ".json"), "w"), indent=1)
            print("[%s %s] model driver build failed; obligations not checked" % (prop, self.tier))
            return 1
        cov["facts_regenerated"] = facts_info
        scan = forbidden_scan()
        obligations = []
        broken = []
        if scan:
            broken.append(("forbidden-construct", "; ".join(scan[:5])))
        if not ok:
            m = re.findall(r'File "\./([^"]+)", line (\d+)[^\n]*\n(Error:[^\n]*(?:\n[^\n]*){0,3})', lg)
            first = m[0] if m else ("?", "?", lg[-600:])
            broken.append(("coq-build", "%s:%s %s" % first))
        for pf in getattr(spec, "COQ_PROPS", []):
            res, out = check_properties(pf)
            for (t, okk, ax, note) in res:
                obligations.append({"theorem": t, "file": pf + ".v", "discharged": bool(okk), "axioms": ax, "note": note[:300]})
                if not okk:
                    broken.append((t, note[:300]))
        if self.tier == "thorough" and getattr(spec, "COQ_PROPS", []) and not broken:
            # second opinion: the independent checker re-checks the compiled
            # property files and everything they depend on
            try:
                rc, out, err = run(["coqchk", "-o", "-silent", "-Q", "theories", "VV", "-Q", "gen", "VVgen"]
                                   + ["VV." + pf for pf in spec.COQ_PROPS], cwd=COQ, timeout=3000)
                m = re.search(r"\* Axioms:(.*?)\n\s*\n\* Constants", out + err, re.S)
                axs = [a.strip() for a in (m.group(1).split("\n") if m else []) if a.strip() and a.strip() != "<none>"]
                cov["coqchk"] = {"rc": rc, "axioms_of_loaded_libraries": axs}
                if rc != 0:
                    broken.append(("coqchk", (out + err)[-400:]))
            except Exception as e:  # noqa
                cov["coqchk"] = {"error": str(e)[-300:]}
        cov["obligations"] = len(obligations)
        cov["discharged"] = sum(1 for o in obligations if o["discharged"])
        cov["theorems"] = obligations
        cov["checker_cmd"] = "coq_makefile -f _CoqProject -o Makefile && make -j16 (full .vo) ; coqc theories/Properties_%s.v (Print Assumptions per theorem)" % prop
        cov["trusted_base"] = getattr(spec, "TRUSTED_BASE", []) + [
            "Coq 8.16.1 kernel (vm_compute used for finite facts; no native_compute)",
            "hand-written Gallina model <-> C tied by differential execution on this run's cases only",
            "extraction (ExtrOcamlBasic only) + OCaml 4.13.1 + zarith for text<->N conversion in the driver",
            "C driver, generators, guard-page/canary mechanisms in /verif/harness",
            "gcc/clang, glibc, x86-64 little-endian LP64",
        ]

        # 3. implementation build(s)
        configs = list(getattr(spec, "CONFIGS_QUICK", ["pinned"]))
        if self.tier == "thorough":
            configs = list(getattr(spec, "CONFIGS_THOROUGH", ["pinned", "O0", "asan"]))
        drivers = {}
        from concurrent.futures import ThreadPoolExecutor
        with ThreadPoolExecutor(max_workers=4) as pool:
            futs = {cfgname: pool.submit(build_c_driver, cfgname, getattr(spec, "EXTRA_CFLAGS", "")) for cfgname in configs}
        for cfgname in configs:
            try:
                b, d = futs[cfgname].result()
                self.tmpdirs.append(d)
                drivers[cfgname] = b
            except RuntimeError as e:
                if cfgname == "pinned":
                    # the correspondence itself is broken: the driver no longer
                    # builds against this tree.  Nothing can be searched.
                    rp = self.write_replay({"property": prop, "kind": "correspondence-build",
                                            "detail": "the correspondence driver does not build against the current /repo tree, "
                                                      "so model and implementation cannot be compared: " + str(e)[-1500:],
                                            "broken": ["correspondence driver build (config pinned)"],
                                            "seed": self.seed, "tier": self.tier})
                    print("VIOLATION property=%s replay=%s no-failing-input-found" % (prop, rp))
                    cov.update({"evaluations": 0, "distinct_nontrivial": 0, "samples": [], "rule": "driver build failed",
                                "notes": [str(e)[-500:]]})
                    ev["coverage"] = cov
                    ev["wall_s"] = round(time.time() - self.t0, 2)
                    ev["violations"] = 1
                    os.makedirs(evidence_dir(), exist_ok=True)
                    json.dump(ev, open(os.path.join(evidence_dir(), prop + ".json"), "w"), indent=1)
                    return 1
                self.notes.append("config %s did not build: %s" % (cfgname, str(e)[-300:]))

        # 4. cases
        cases = []
        seen = set()
        corpus = os.path.join(VERIF, "harness", "corpus", prop + ".txt")
        if os.path.exists(corpus):
            for line in open(corpus):
                line = line.strip()
                if line and not line.startswith("#") and line not in seen:
                    seen.add(line)
                    cases.append(line)
        for line in spec.generate(rng, self.tier):
            if line not in seen:
                seen.add(line)
                cases.append(line)
        cov["evaluations"] = 0
        dist = {}
        for c in cases:
            a = c.split(" ", 1)[0]
            dist[a] = dist.get(a, 0) + 1
        cov["input_distribution"] = dist

        # 5. run model once, each C config
        try:
            mrc, mout, merr = run_driver(mdrv, cases, timeout=(1800 if self.tier == "quick" else 7200)) if cases else (0, [], "")
        except subprocess.TimeoutExpired:
            raise RuntimeError("the model driver did not finish %d cases within its time limit (a generator produces cases "
                               "that are too expensive for the extracted model)" % len(cases))
        if mrc != 0 or len(mout) != len(cases):
            raise RuntimeError("model driver failed rc=%s lines=%d/%d: %s" % (mrc, len(mout), len(cases), merr[-2000:]))
        nontrivial = set()
        classes = {}
        classify = spec.classify
        for c, mo in zip(cases, mout):
            if classify:
                cl = classify(c, parse_out(mo)[1])
                if cl is not None:
                    classes[cl] = classes.get(cl, 0) + 1
                    if cl != "trivial":
                        nontrivial.add(c)
            else:
                nontrivial.add(c)
        cov["distinct_nontrivial"] = len(nontrivial)
        cov["class_distribution"] = classes
        cov["rule"] = getattr(spec, "RULE", "distinct case lines (corpus, boundary-aimed, scraped literals, random); non-trivial = classified other than 'trivial' by the check's classify()")
        cov["samples"] = [mout[i] for i in sorted(set([0, len(cases) // 3, (2 * len(cases)) // 3, len(cases) - 1])) if 0 <= i < len(cases)]

        divergences = []      # (config, case, c_line, m_line)
        oracle_fail = []      # (config, case, msg, c_line)
        faults = 0
        for cfgname, binary in list(drivers.items()):
            if not cases:
                break
            env = {}
            if cfgname == "asan":
                env = {"ASAN_OPTIONS": "detect_leaks=0:abort_on_error=1:handle_segv=0:handle_abort=0:allocator_may_return_null=1",
                       "UBSAN_OPTIONS": "print_stacktrace=0:halt_on_error=0"}
            crc, cout, cerr = run_driver(binary, cases, env=env)
            deaths = 0
            while len(cout) < len(cases) and deaths < 25:
                # the driver process died (e.g. heap corruption that the
                # SIGSEGV handler cannot turn into a fault= token): blame the
                # case it died on and carry on with the next one
                deaths += 1
                if cout and cout[-1].endswith("fault=abort") and crc == 4:
                    # the driver reported the abort for its last case itself and stopped
                    idx = len(cout) - 1
                else:
                    idx = len(cout)
                    oracle_fail.append((cfgname, cases[idx], "driver process died on this case (rc=%s) %s" % (crc, cerr[-300:].replace("\n", " ")), ""))
                    cout.append("%s -> fault=died" % cases[idx])
                if idx + 1 < len(cases):
                    crc, more, cerr2 = run_driver(binary, cases[idx + 1:], env=env)
                    cout += more
                    cerr += cerr2
            if len(cout) < len(cases):
                cout = cout + ["%s -> fault=not-run" % c for c in cases[len(cout):]]
            cov["evaluations"] += len(cases)
            ubsan = len(re.findall(r"runtime error:", cerr))
            if ubsan:
                self.notes.append("%s: %d UBSan diagnostics (logged as observations): %s" % (
                    cfgname, ubsan, "; ".join(sorted(set(re.findall(r"runtime error: [^\n]*", cerr)))[:5])))
            for c, co, mo in zip(cases, cout, mout):
                _, ckv = parse_out(co)
                api, _, rest = c.partition(" ")
                args = rest.split()
                if "fault" in ckv:
                    faults += 1
                msg = None
                orc = spec.ORACLES.get(api)
                if ckv.get("fault") in ("died", "not-run"):
                    orc = None
                if orc:
                    try:
                        msg = orc(args, ckv)
                    except Exception as e:  # malformed C output is a failure of the check on C
                        msg = "oracle exception %r on %r" % (e, co[:200])
                if msg:
                    oracle_fail.append((cfgname, c, msg, co))
                if co != mo:
                    divergences.append((cfgname, c, co, mo))
        cov["divergences"] = len(divergences)
        cov["oracle_failures"] = len(oracle_fail)
        cov["faults_observed"] = faults
        cov["configs"] = list(drivers.keys())

        # 6b. custom runners of the parts (threads, purity, allocation plans …)
        ctx = CustomCtx(self, drivers, mdrv, rng)
        for cname, fn in spec.customs():
            info = fn(ctx) or {}
            cov["evaluations"] += int(info.pop("evaluations", 0))
            for (cfgname, c, msg, co) in info.pop("failures", []):
                oracle_fail.append((cfgname, c, msg, co))
            cov.setdefault("custom", {})[cname] = info
        cov["oracle_failures"] = len(oracle_fail)
        if not cov.get("samples") and cov.get("custom"):
            cov["samples"] = [v.get("sample") for v in cov["custom"].values() if v.get("sample")] or ["(custom runner)"]
        cov["distinct_nontrivial"] += sum(int(v.get("distinct_nontrivial", 0)) for v in cov.get("custom", {}).values())

        # 7. verdict
        reported = set()

        def report(kind, cfgname, case, msg, co, mo=None, nofail=False):
            nonlocal exit_code
            api, _, rest = case.partition(" ")
            args = rest.split()
            _, ckv = parse_out(co or "")
            k = match_known(known, prop, api, args, ckv) if not nofail else None
            if k:
                tag = k.get("id", k.get("what", ""))
                if tag not in [x[0] for x in self.known_seen]:
                    self.known_seen.append((tag, k.get("what", ""), case))
                return
            key = (kind, api)
            if key in reported:
                return
            reported.add(key)
            rp = self.write_replay({"property": prop, "kind": kind, "config": cfgname, "case": case,
                                    "c_result": co, "model_result": mo, "detail": msg, "seed": self.seed,
                                    "tier": self.tier,
                                    "broken": [b[0] for b in broken] if nofail else None})
            vio_lines.append("VIOLATION property=%s replay=%s%s" % (prop, rp, " no-failing-input-found" if nofail else ""))
            exit_code = 1

        done_min = set()
        for (cfgname, c, msg, co) in oracle_fail:
            api = c.split(" ", 1)[0]
            if api in spec.MINIMISE and api not in done_min and cfgname in drivers and api in spec.ORACLES:
                done_min.add(api)
                try:
                    small = minimise(c, spec.ORACLES[api], drivers[cfgname])
                    if small != c:
                        _, so, _ = run_driver(drivers[cfgname], [small])
                        m2 = spec.ORACLES[api](small.split(" ")[1:], parse_out(so[0])[1]) if so else None
                        if m2:
                            c, msg, co = small, m2 + " [minimised]", so[0]
                except Exception as e:
                    self.notes.append("minimiser failed on %s: %r" % (api, e))
            report("oracle", cfgname, c, msg, co)

        # correspondence broke without an oracle failure on those cases -> search
        div_only = [d for d in divergences if not any(o[1] == d[1] for o in oracle_fail)]
        if div_only or broken:
            found = False
            if oracle_fail:
                found = any(True for _ in oracle_fail)
            if not found and hasattr(spec, "search"):
                # fresh boundary-aimed batch + neighbourhood of the divergent cases
                extra = list(spec.search(rng, [d[1] for d in div_only[:50]]))
                extra = [e for e in extra if e not in seen]
                if extra and drivers:
                    cfgname = "pinned" if "pinned" in drivers else list(drivers)[0]
                    crc, cout, cerr = run_driver(drivers[cfgname], extra)
                    cov["evaluations"] += len(extra)
                    cov["search_cases"] = len(extra)
                    for c, co in zip(extra, cout):
                        api, _, rest = c.partition(" ")
                        orc = spec.ORACLES.get(api)
                        if orc:
                            try:
                                msg = orc(rest.split(), parse_out(co)[1])
                            except Exception as e:
                                msg = "oracle exception %r" % (e,)
                            if msg:
                                report("oracle(search)", cfgname, c, msg, co)
                                found = True
            # divergences not explained by a known finding or an oracle failure
            unexplained = []
            for (cfgname, c, co, mo) in div_only:
                api, _, rest = c.partition(" ")
                if match_known(known, prop, api, rest.split(), parse_out(co)[1]):
                    k = match_known(known, prop, api, rest.split(), parse_out(co)[1])
                    tag = k.get("id", "")
                    if tag not in [x[0] for x in self.known_seen]:
                        self.known_seen.append((tag, k.get("what", ""), c))
                    continue
                unexplained.append((cfgname, c, co, mo))
            if unexplained and not [v for v in vio_lines if "no-failing" not in v]:
                cfgname, c, co, mo = unexplained[0]
                report("correspondence", cfgname, c,
                       "model and implementation differ on %d case(s); no input violating the property statement found" % len(unexplained),
                       co, mo, nofail=True)
            if broken and not vio_lines:
                rp = self.write_replay({"property": prop, "kind": "proof-obligation", "broken": broken,
                                        "detail": "theorem(s) / build no longer check; search found no failing input",
                                        "seed": self.seed, "tier": self.tier})
                vio_lines.append("VIOLATION property=%s replay=%s no-failing-input-found" % (prop, rp))
                exit_code = 1

        for (tag, what, case) in self.known_seen:
            print("KNOWN-FINDING: property=%s %s %s [case: %s]" % (prop, tag, what, case[:160]))
        for v in vio_lines:
            print(v)

        cov["known_findings_observed"] = [x[0] for x in self.known_seen]
        cov["notes"] = self.notes + BUILD_NOTES
        ev["coverage"] = cov
        ev["assumptions"] = getattr(spec, "ASSUMPTIONS", [])
        ev["wall_s"] = round(time.time() - self.t0, 2)
        ev["violations"] = len(vio_lines)
        os.makedirs(evidence_dir(), exist_ok=True)
        json.dump(ev, open(os.path.join(evidence_dir(), prop + ".json"), "w"), indent=1)
        log("[%s %s] cases=%d configs=%s obligations=%d/%d divergences=%d oracle_fail=%d known=%d wall=%.1fs" % (
            prop, self.tier, len(cases), ",".join(drivers), cov["discharged"], cov["obligations"],
            len(divergences), len(oracle_fail), len(self.known_seen), time.time() - self.t0))
        return exit_code


def replay(prop, path):
    """Re-run the case stored in a replay file against the current tree."""
    obj = json.load(open(path))
    chk = Check(prop, "quick", obj.get("seed", 0))
    spec = chk.spec
    case = obj.get("case")
    if not case:
        print("replay file names broken obligation(s): %s" % obj.get("broken"))
        ok, lg, mdrv, _ = coq_setup(need_model=False)
        bad = not ok
        for pf in getattr(spec, "COQ_PROPS", []):
            res, _ = check_properties(pf)
            bad = bad or any(not r[1] for r in res)
        if bad:
            print("VIOLATION property=%s replay=%s no-failing-input-found" % (prop, path))
            return 1
        return 0
    api0 = case.split(" ", 1)[0]
    if api0 not in spec.ORACLES or case.startswith("--") or obj.get("config") in ("tsan", "vg", "oom"):
        # found by a custom runner (threads / histories / allocation plans):
        # the replay is the runner itself on the current tree with the same seed
        print("replay: re-running the %s runner with seed %s" % (prop, obj.get("seed")))
        return Check(prop, obj.get("tier") or "quick", obj.get("seed", 0)).run()
    ok, lg, mdrv, _ = coq_setup()
    b, d = build_c_driver(obj.get("config") or "pinned", getattr(spec, "EXTRA_CFLAGS", ""))
    try:
        _, cout, _ = run_driver(b, [case])
        _, mout, _ = run_driver(mdrv, [case])
        print("C    :", cout[0] if cout else "<none>")
        print("model:", mout[0] if mout else "<none>")
        api, _, rest = case.partition(" ")
        orc = spec.ORACLES.get(api)
        msg = orc(rest.split(), parse_out(cout[0])[1]) if (orc and cout) else None
        if msg:
            print("oracle:", msg)
            print("VIOLATION property=%s replay=%s" % (prop, path))
            return 1
        if cout != mout:
            print("VIOLATION property=%s replay=%s no-failing-input-found" % (prop, path))
            return 1
        print("replay: property holds on this case now")
        return 0
    finally:
        shutil.rmtree(d, ignore_errors=True)
