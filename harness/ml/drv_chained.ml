(* drv_chained.ml — model side of the chained / chained-simple handlers (same
   output format as harness/c/drv_chained.c) *)
open Model
open Core

let ch_two32 = n_of_z (BZ.shift_left BZ.one 32)
let ch_u32 x = n_of_z (BZ.logand (z_of_n x) (BZ.pred (BZ.shift_left BZ.one 32)))

let out_put bs =
  out_int "w" (List.length bs);
  out_hex "put" bs;
  out_str "frame" "ok"; out_str "guard" "ok"

let () = register "chained_rt" (fun a ->
  let x = n_of_string a.(0) in
  let bs = chained_put x in
  out_put bs;
  let (gw, gv) = chained_get bs in
  out_n "getw" gw; out_n "getv" gv;
  out_n "len" (chained_len x);
  let (w32, v32) = chained_get32 bs in
  out_n "m32w" w32; out_n "m32v" v32)

let () = register "chained32_rt" (fun a ->
  let x = ch_u32 (n_of_string a.(0)) in
  let bs = chained_put32 x in
  out_put bs;
  let (gw, gv) = chained_get32 bs in
  out_n "getw" gw; out_n "getv" gv;
  if List.length bs >= 2 then begin
    let (fw, fv) = chained_get32_fn bs in
    out_n "fnw" fw; out_n "fnv" fv
  end;
  out_n "len" (chained_len x))

let () = register "csimple_rt" (fun a ->
  let x = n_of_string a.(0) in
  let bs = csimple_encode64 x in
  out_put bs;
  let (gw, gv) = csimple_decode64 bs in
  out_n "getw" gw; out_n "getv" gv;
  out_n "len" (csimple_length x);
  let (w32, v32) = csimple_decode32 bs in
  out_n "d32w" w32; out_n "d32v" v32)

let () = register "csimple32_rt" (fun a ->
  let x = ch_u32 (n_of_string a.(0)) in
  let bs = csimple_encode32 x in
  out_put bs;
  out_hex "put64" (csimple_encode64 x);
  let (gw, gv) = csimple_decode32 bs in
  out_n "getw" gw; out_n "getv" gv;
  let (fw, fv) = csimple_decode32_fallback bs in
  out_n "fbw" fw; out_n "fbv" fv;
  out_n "len" (csimple_length x))

let () = register "chained_dec" (fun a ->
  let b = bytes_of_hex a.(0) in
  let (w, v) = chained_get b in
  out_n "w" w; out_n "v" v;
  let (w32, v32) = chained_get32 b in
  out_n "m32w" w32; out_n "m32v" v32;
  out_n "len" (chained_len v);
  out_hex "put" (chained_put v))

let () = register "csimple_dec" (fun a ->
  let b = bytes_of_hex a.(0) in
  let (w, v) = csimple_decode64 b in
  out_n "w" w; out_n "v" v;
  let (w32, v32) = csimple_decode32 b in
  out_n "d32w" w32; out_n "d32v" v32;
  out_n "len" (csimple_length v);
  out_hex "put" (csimple_encode64 v))

let () = register "chained_mono" (fun a ->
  let x = n_of_string a.(0) and y = n_of_string a.(1) in
  out_n "la" (chained_len x); out_n "lb" (chained_len y);
  out_hex "ea" (chained_put x); out_hex "eb" (chained_put y))

let () = register "csimple_mono" (fun a ->
  let x = n_of_string a.(0) and y = n_of_string a.(1) in
  out_n "la" (csimple_length x); out_n "lb" (csimple_length y);
  out_hex "ea" (csimple_encode64 x); out_hex "eb" (csimple_encode64 y))
