(* drv_float.ml — model side of the float handlers (same output format as
   harness/c/drv_float.c) *)
open Model
open Core

let n_le a b = BZ.leq (z_of_n a) (z_of_n b)
let n_min a b = if n_le a b then a else b

(* prediction of decode_and_print: the C reads exactly the bytes it consumes,
   so an input shorter than that ends in the guard page.  The model is run on
   the input padded with 0x01 bytes (a valid exponent width), so that padding
   never makes the model leave defined behaviour before C would fault. *)
let decode_and_print (z : n list) (count : int) =
  let len = List.length z in
  let bound = 4 + 2 * ((count + 7) / 8) + 25 * count + 16 in
  let padded = z @ List.init (max 0 (bound - len)) (fun _ -> n_of_int 1) in
  match fl_decode padded (nat_of_int count) with
  | None -> out_str "ub" "1"
  | Some (dlen, outs) ->
    if int_of_n dlen > len then begin Buffer.clear line; out_str "fault" "segv" end
    else begin
      out_n "dlen" dlen;
      out_nlist "dec" outs;
      out_str "oguard" "ok"
    end

let encoded_and_print mx len enc =
  out_n "max" mx;
  out_n "len" len;
  let show = int_of_n (n_min len mx) in
  let shown = firstn show enc in
  out_hex "enc" shown;
  out_str "frame" "ok";
  out_str "guard" "ok";
  shown

let () = register "float_rt" (fun a ->
  let prec = n_of_string a.(0) and mode = n_of_string a.(1) in
  let ds = nlist_of_arg a.(2) in
  let n = List.length ds in
  let mx = fl_max_encoded_size (n_of_int n) prec in
  let enc = fl_encode ds prec mode in
  let shown = encoded_and_print mx (fl_encode_ret ds prec mode) enc in
  decode_and_print shown n)

let () = register "float_auto" (fun a ->
  let err = n_of_string a.(0) and mode = n_of_string a.(1) in
  let ds = nlist_of_arg a.(2) in
  let n = List.length ds in
  let (prec, enc) = fl_encode_auto ds err mode in
  out_n "prec" prec;
  out_n "pmax" (fl_max_encoded_size (n_of_int n) prec);
  let mx = fl_max_encoded_size (n_of_int n) (n_of_int 0) in
  let shown = encoded_and_print mx (fl_encode_ret ds prec mode) enc in
  decode_and_print shown n;
  out_str "again" "same")

let () = register "float_dec" (fun a ->
  let count = int_of_string a.(0) in
  decode_and_print (bytes_of_hex a.(1)) count)

let b2i b = if b then 1 else 0

let () = register "float_parts" (fun a ->
  let d = n_of_string a.(0) in
  let p = fl_decompose d in
  out_int "normal" (b2i (p_normal p));
  out_n "sign" (p_sign p);
  out_z "exp" (p_exp p);
  out_n "mant" (p_mant p);
  out_int "isspecial" (b2i (not (p_normal p)));
  out_n "comp" (fl_compose (p_sign p) (p_exp p) (p_mant p)))

let () = register "float_compose" (fun a ->
  out_n "comp" (fl_compose (n_of_string a.(0)) (cz_of_string a.(1)) (n_of_string a.(2))))

let () = register "float_size" (fun a ->
  let count = n_of_string a.(0) and prec = n_of_string a.(1) in
  out_n "max" (fl_max_encoded_size count prec);
  out_n "mbits" (fl_mant_bits prec);
  out_n "ebits" (fl_exp_bits prec);
  out_n "relerr" (fl_max_rel_error_bits prec))
