(* drv_frame.ml — model side of harness/c/drv_frame.c *)
open Model
open Core

let () = register "frame_put" (fun a ->
  let fam = a.(0) in
  let x = n_of_string a.(1) in
  let w = int_of_string a.(2) in
  let some = function Some b -> b | None -> [] in
  let bytes =
    match fam with
    | "tagged" -> tagged_put64 x
    | "tagged_fixed" -> some (tagged_put64_fixed x (n_of_int w))
    | "ext" -> ext_put x
    | "ext_fixed" -> some (ext_put_fixed x (nat_of_int w))
    | "extbe" -> extbe_put x
    | "extbe_fixed" -> some (extbe_put_fixed x (nat_of_int w))
    | "chained" -> chained_put x
    | "csimple" -> csimple_encode64 x
    | _ -> failwith "family" in
  out_int "w" (List.length bytes);
  out_hex "bytes" bytes)
