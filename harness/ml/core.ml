(* core.ml — OCaml side of the correspondence driver: conversions between
   decimal/hex text and the extracted Coq datatypes, output helpers,
   registry. *)
module BZ = Z
open Model

let rec pos_of_z (v : BZ.t) : positive =
  if BZ.equal v BZ.one then XH
  else if BZ.testbit v 0 then XI (pos_of_z (BZ.shift_right v 1))
  else XO (pos_of_z (BZ.shift_right v 1))

let n_of_z (v : BZ.t) : n = if BZ.sign v = 0 then N0 else Npos (pos_of_z v)

let rec z_of_pos (p : positive) : BZ.t =
  match p with
  | XH -> BZ.one
  | XO q -> BZ.shift_left (z_of_pos q) 1
  | XI q -> BZ.succ (BZ.shift_left (z_of_pos q) 1)

let z_of_n = function N0 -> BZ.zero | Npos p -> z_of_pos p
let cz_of_z (v : BZ.t) : z =
  if BZ.sign v = 0 then Z0 else if BZ.sign v > 0 then Zpos (pos_of_z v) else Zneg (pos_of_z (BZ.neg v))
let z_of_cz = function Z0 -> BZ.zero | Zpos p -> z_of_pos p | Zneg p -> BZ.neg (z_of_pos p)

let n_of_int i = n_of_z (BZ.of_int i)
let int_of_n x = BZ.to_int (z_of_n x)
let rec nat_of_int i = if i <= 0 then O else S (nat_of_int (i - 1))
let int_of_nat x = let rec go acc = function O -> acc | S m -> go (acc + 1) m in go 0 x

let n_of_string s = n_of_z (BZ.of_string s)
let string_of_n x = BZ.to_string (z_of_n x)
let cz_of_string s = cz_of_z (BZ.of_string s)
let string_of_cz x = BZ.to_string (z_of_cz x)

(* "x00ff" -> byte list *)
let bytes_of_hex (s : string) : n list =
  if String.length s < 1 || s.[0] <> 'x' then failwith ("hex arg must start with x: " ^ s);
  let n = (String.length s - 1) / 2 in
  List.init n (fun i -> n_of_int (int_of_string ("0x" ^ String.sub s (1 + 2 * i) 2)))

let hex_of_bytes (l : n list) : string =
  let b = Buffer.create 64 in
  Buffer.add_char b 'x';
  List.iter (fun x -> Buffer.add_string b (Printf.sprintf "%02x" ((int_of_n x) land 255))) l;
  Buffer.contents b

let list_of_arg (s : string) : string list =
  if String.length s < 1 || s.[0] <> 'L' then failwith ("list arg must start with L: " ^ s);
  let body = String.sub s 1 (String.length s - 1) in
  if body = "" then [] else String.split_on_char ',' body

let nlist_of_arg s = List.map n_of_string (list_of_arg s)
let zlist_of_arg s = List.map cz_of_string (list_of_arg s)

let rec firstn k l = if k <= 0 then [] else match l with [] -> [] | x :: t -> x :: firstn (k - 1) t

(* output *)
let line = Buffer.create 256
let out_str k v = Buffer.add_char line ' '; Buffer.add_string line k; Buffer.add_char line '='; Buffer.add_string line v
let out_n k v = out_str k (string_of_n v)
let out_z k v = out_str k (string_of_cz v)
let out_int k v = out_str k (string_of_int v)
let out_hex k l = out_str k (hex_of_bytes l)
let out_nlist k l = out_str k ("L" ^ String.concat "," (List.map string_of_n l))
let out_zlist k l = out_str k ("L" ^ String.concat "," (List.map string_of_cz l))

let registry : (string, string array -> unit) Hashtbl.t = Hashtbl.create 64
let register name f = Hashtbl.replace registry name f
