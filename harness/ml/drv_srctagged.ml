(* drv_srctagged.ml — model side of the src_tagged_* handlers: runs the
   functions that gen/c2coq.py regenerated from the current src/varintTagged.c
   (same output format as harness/c/drv_srctagged.c) *)
open Model
open Core

let why = function
  | None -> "untranslated"
  | Some COob -> "oob"
  | Some (CUB _) -> "ub"
  | Some CFuel -> "fuel"
  | Some (COk _) -> "ok"

let cell s = if s = "-" then None else Some (cz_of_string s)
let out_cell k = function None -> out_str k "unset" | Some v -> out_z k v

let put_like r =
  match r with
  | Some (COk (w, out)) -> out_z "ret" w; out_hex "buf" out
  | _ -> out_str "ret" (why r)

let get_like r =
  match r with
  | Some (COk (w, v)) -> out_z "ret" w; out_cell "v" v
  | _ -> out_str "ret" (why r)

let scalar r =
  match r with
  | Some (COk w) -> out_z "ret" w
  | _ -> out_str "ret" (why r)

let () = register "src_tagged_len" (fun a -> scalar (srcrun_varintTaggedLen (cz_of_string a.(0))))
let () = register "src_tagged_getlen" (fun a -> scalar (srcrun_varintTaggedGetLen (bytes_of_hex a.(0))))
let () = register "src_tagged_put" (fun a ->
  put_like (srcrun_varintTaggedPut64 (bytes_of_hex a.(1)) (cz_of_string a.(0))))
let () = register "src_tagged_put32" (fun a ->
  put_like (srcrun_varintTaggedPutVarint32 (bytes_of_hex a.(1)) (cz_of_string a.(0))))
let () = register "src_tagged_fixed" (fun a ->
  put_like (srcrun_varintTaggedPut64FixedWidth (bytes_of_hex a.(2)) (cz_of_string a.(0)) (cz_of_string a.(1))))
let () = register "src_tagged_get" (fun a ->
  get_like (srcrun_varintTaggedGet (bytes_of_hex a.(0)) (cz_of_string a.(1)) (cell a.(2))))
let () = register "src_tagged_get64" (fun a ->
  get_like (srcrun_varintTaggedGet64 (bytes_of_hex a.(0)) (cell a.(1))))
let () = register "src_tagged_get32" (fun a ->
  get_like (srcrun_varintTaggedGetVarint32 (bytes_of_hex a.(0)) (cell a.(1))))
let () = register "src_tagged_getrv" (fun a -> scalar (srcrun_varintTaggedGet64ReturnValue (bytes_of_hex a.(0))))
let () = register "src_tagged_add" (fun a ->
  let b = bytes_of_hex a.(0) and add = cz_of_string a.(1) in
  put_like (if a.(2) <> "0" then srcrun_varintTaggedAddGrow b add else srcrun_varintTaggedAddNoGrow b add))

(* the header's Quick macros (translated through wrapper functions) *)
let buf_only r =
  match r with
  | Some (COk out) -> out_hex "buf" out
  | _ -> out_str "buf" (why r)
let () = register "src_tagged_lenq" (fun a -> scalar (srcrun_q_varintTaggedLenQuick (cz_of_string a.(0))))
let () = register "src_tagged_getlenq" (fun a -> scalar (srcrun_q_varintTaggedGetLenQuick_ (bytes_of_hex a.(0))))
let () = register "src_tagged_getq" (fun a -> scalar (srcrun_q_varintTaggedGet64Quick_ (bytes_of_hex a.(0))))
let () = register "src_tagged_fixedq" (fun a ->
  buf_only (srcrun_q_varintTaggedPut64FixedWidthQuick_ (bytes_of_hex a.(2)) (cz_of_string a.(0)) (cz_of_string a.(1))))
