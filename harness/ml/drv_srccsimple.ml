(* drv_srccsimple.ml — model side of the src_csimple_* handlers: runs the
   functions that gen/c2coq.py regenerated from the current
   src/varintChainedSimple.c (same output format as harness/c/drv_srccsimple.c).
   Loops get 64 iterations of fuel. *)
open Model
open Core

let fuel = nat_of_int 64
let why = function
  | None -> "untranslated"
  | Some COob -> "oob"
  | Some (CUB _) -> "ub"
  | Some CFuel -> "fuel"
  | Some (COk _) -> "ok"
let cell s = if s = "-" then None else Some (cz_of_string s)
let put_like r = match r with Some (COk (w, out)) -> out_z "ret" w; out_hex "buf" out | _ -> out_str "ret" (why r)
let get_like r =
  match r with
  | Some (COk (w, v)) -> out_z "ret" w; (match v with None -> out_str "v" "unset" | Some x -> out_z "v" x)
  | _ -> out_str "ret" (why r)
let scalar r = match r with Some (COk w) -> out_z "ret" w | _ -> out_str "ret" (why r)

let () = register "src_csimple_len" (fun a -> scalar (srcrun_varintChainedSimpleLength fuel (cz_of_string a.(0))))
let () = register "src_csimple_enc" (fun a ->
  put_like (srcrun_varintChainedSimpleEncode64 fuel (bytes_of_hex a.(1)) (cz_of_string a.(0))))
let () = register "src_csimple_enc32" (fun a ->
  put_like (srcrun_varintChainedSimpleEncode32 (bytes_of_hex a.(1)) (cz_of_string a.(0))))
let () = register "src_csimple_dec" (fun a ->
  get_like (srcrun_varintChainedSimpleDecode64 fuel (bytes_of_hex a.(0)) (cell a.(1))))
let () = register "src_csimple_dec32" (fun a ->
  get_like (srcrun_varintChainedSimpleDecode32 fuel (bytes_of_hex a.(0)) (cell a.(1))))
let () = register "src_csimple_dec32f" (fun a ->
  get_like (srcrun_varintChainedSimpleDecode32Fallback fuel (bytes_of_hex a.(0)) (cell a.(1))))
