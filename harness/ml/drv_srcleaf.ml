(* drv_srcleaf.ml — model side of the src_leaf_* handlers: runs the leaf functions
   that gen/c2coq.py regenerated from the current sources through gen/c2coq_leaf.py
   (same output format as harness/c/drv_srcleaf.c).  Loops get 80 iterations of fuel
   (the longest, the 64-bit shift-and-count loops, need 65). *)
open Model
open Core

let fuel = nat_of_int 80
let why = function
  | None -> "untranslated"
  | Some COob -> "oob"
  | Some (CUB _) -> "ub"
  | Some CFuel -> "fuel"
  | Some (COk _) -> "ok"
let scalar r = match r with Some (COk w) -> out_z "ret" w | _ -> out_str "ret" (why r)
let z a i = cz_of_string a.(i)

let () = register "src_leaf_zigzag" (fun a -> scalar (srcrun_varintDeltaZigZag (z a 0)))
let () = register "src_leaf_unzigzag" (fun a -> scalar (srcrun_varintDeltaZigZagDecode (z a 0)))
let () = register "src_leaf_group_bmsize" (fun a -> scalar (srcrun_varintGroupBitmapSize_ (z a 0)))
let () = register "src_leaf_group_wdec" (fun a -> scalar (srcrun_varintGroupWidthDecode_ (z a 0)))
let () = register "src_leaf_group_wenc" (fun a -> scalar (srcrun_varintGroupWidthEncode_ (z a 0)))
let () = register "src_leaf_group_fieldw" (fun a -> scalar (srcrun_varintGroupGetFieldWidth (bytes_of_hex a.(0)) (z a 1)))
let () = register "src_leaf_group_size" (fun a -> scalar (srcrun_varintGroupGetSize fuel (bytes_of_hex a.(0))))
let () = register "src_leaf_floorlog2" (fun a -> scalar (srcrun_floorLog2 fuel (z a 0)))
let () = register "src_leaf_gammabits" (fun a -> scalar (srcrun_varintEliasGammaBits fuel (z a 0)))
let () = register "src_leaf_maxbytes" (fun a ->
  scalar (if a.(0).[0] = 'g' then srcrun_varintEliasGammaMaxBytes (z a 1) else srcrun_varintEliasDeltaMaxBytes (z a 1)))
let () = register "src_leaf_forwidth" (fun a -> scalar (srcrun_varintFORComputeWidth fuel (z a 0)))
let () = register "src_leaf_bits32" (fun a -> scalar (srcrun_varintBP128BitsNeeded32 fuel (z a 0)))
let () = register "src_leaf_bits64" (fun a -> scalar (srcrun_varintBP128BitsNeeded64 fuel (z a 0)))
let () = register "src_leaf_marker" (fun a -> scalar (srcrun_varintPFORCalculateMarker (z a 0)))
let () = register "src_leaf_adpmax" (fun a -> scalar (srcrun_varintAdaptiveMaxSize (z a 0)))
let () = register "src_leaf_mulovf" (fun a ->
  (* the C passes the address of a local that holds a value: Some _ *)
  match srcrun_size_mul_overflow (z a 0) (z a 1) (Some (cz_of_string "3735928559")) with
  | Some (COk (o, r)) -> out_z "ret" o; (match r with None -> out_str "r" "unset" | Some x -> out_z "r" x)
  | r -> out_str "ret" (why r))
let () = register "src_leaf_trunc" (fun a -> scalar (srcrun_truncateMantissa (z a 0) (z a 1) (z a 2)))
let () = register "src_leaf_expand" (fun a -> scalar (srcrun_expandMantissa (z a 0) (z a 1) (z a 2)))
let () = register "src_leaf_bm" (fun a ->
  let bits = bytes_of_hex a.(1) in
  let put r = match r with Some (COk (w, out)) -> out_z "ret" w; out_hex "buf" out | _ -> out_str "ret" (why r) in
  match a.(0) with
  | "set" -> put (srcrun_bitmapSet_ bits (z a 2))
  | "clear" -> put (srcrun_bitmapClear_ bits (z a 2))
  | _ -> scalar (srcrun_bitmapContains_ bits (z a 2)))
