(* drv_adaptive.ml — model side of the adaptive handlers (same output format as
   harness/c/drv_adaptive.c) *)
open Model
open Core

let adp_hex_max = 4096

exception Adp_fault
exception Adp_other of string

let adp_out_bytes k (l : n list) =
  let n = List.length l in
  if n <= adp_hex_max then out_hex k l
  else begin
    let h = List.fold_left (fun h b -> (h * 31 + int_of_n b) land 0xFFFFFFFF) 0 l in
    out_hex k (firstn 64 l);
    out_int (k ^ "hash") h
  end

let adp_b k b = out_int k (if b then 1 else 0)
let adp_n_eq a b = BZ.equal (z_of_n a) (z_of_n b)

let m64 = BZ.shift_left BZ.one 64
let mask64 = BZ.pred m64
let w64 x = BZ.logand x mask64

(* same arrays as gen_values in drv_adaptive.c *)
let adp_gen_values kind n a b c : n list =
  let mul1 = BZ.of_string "6364136223846793005" and add1 = BZ.of_string "1442695040888963407" in
  let k1000003 = BZ.of_int 1000003 in
  List.init n (fun i ->
    let i = BZ.of_int i in
    let x = match kind with
      | 0 -> w64 (BZ.add a (BZ.mul i b))
      | 1 -> if BZ.sign a <> 0 && BZ.sign (BZ.erem i a) = 0 then b else w64 (BZ.add c (BZ.mul i k1000003))
      | 2 ->
        let a' = if BZ.sign a = 0 then BZ.one else a in
        w64 (BZ.add (BZ.erem (BZ.shift_right (w64 (BZ.add (BZ.mul i mul1) add1)) 11) a') b)
      | 3 ->
        let a' = if BZ.sign a = 0 then BZ.one else a in
        w64 (BZ.add (BZ.mul (BZ.erem i a') b) c)
      | 4 -> w64 (BZ.sub (BZ.add b i) (if BZ.sign a <> 0 && BZ.equal (BZ.erem i a) BZ.one then BZ.one else BZ.zero))
      | _ -> BZ.zero in
    n_of_z x)

let adp_out_for_meta (m : for_meta) =
  out_n "fm_min" m.fm_min; out_n "fm_max" m.fm_max; out_n "fm_range" m.fm_range;
  out_n "fm_count" m.fm_count; out_n "fm_size" m.fm_size; out_n "fm_width" m.fm_width

let adp_out_pfor_meta pfx (m : pfor_meta) =
  out_n (pfx ^ "min") m.pm_min; out_n (pfx ^ "marker") m.pm_marker; out_n (pfx ^ "tv") m.pm_tv;
  out_n (pfx ^ "width") m.pm_width; out_n (pfx ^ "count") m.pm_count; out_n (pfx ^ "exc") m.pm_exc;
  out_n (pfx ^ "thr") m.pm_thr

let adp_analysis (xs : n list) =
  let st = adp_analyze xs in
  out_n "cnt" st.as_count; out_n "min" st.as_min; out_n "max" st.as_max;
  out_n "range" st.as_range; out_n "uniq" st.as_unique; out_n "avg" st.as_avg_delta;
  out_n "maxd" st.as_max_delta; out_n "outl" st.as_outliers;
  out_n "ur" (adp_f32_bits st.as_unique_ratio); out_n "or" (adp_f32_bits st.as_outlier_ratio);
  adp_b "sorted" st.as_sorted; adp_b "rsorted" st.as_rsorted; adp_b "fits" st.as_fits;
  out_n "sel" (adp_select st);
  out_z "cs" (adp_check_sorted xs);
  out_n "cu" (adp_count_unique xs);
  out_n "ad" (adp_avg_delta xs)

let rec adp_first_diff k a b = match a, b with
  | x :: a', y :: b' when adp_n_eq x y -> adp_first_diff (k + 1) a' b'
  | _ -> k

let adp_roundtrip (xs : n list) (force : n option) =
  let n = List.length xs in
  match force with
  | Some e when int_of_n e = 1 && n = 0 -> out_str "skip" "ub"
  | _ ->
    out_n "max" (adp_max_size (n_of_int n));
    let r = match force with None -> adp_encode xs | Some e -> adp_encode_with xs e in
    (match r with
     | AEUB -> Buffer.clear line; out_str "model" "ub"
     | AEFail b ->
       out_int "n" 0;
       out_str "frame" (if b = [] then "ok" else "dirty"); out_str "guard" "ok";
       (match b with h :: _ -> out_n "hdr" h | [] -> out_str "hdr" "?")
     | AEOk (enc, m) ->
       out_n "n" m.am_size;
       (* the model's encoders return exactly the bytes written: nothing after the returned
          length is touched; the guard zone is hit when they outnumber the advertised size *)
       out_str "frame" "ok";
       out_str "guard" (if BZ.gt (BZ.of_int (List.length enc)) (z_of_n (adp_max_size (n_of_int n))) then "hi" else "ok");
       out_n "hdr" (List.hd enc);
       adp_out_bytes "enc" enc;
       out_n "m_type" m.am_type; out_n "m_count" m.am_count; out_n "m_size" m.am_size;
       (match m.am_for with Some fm when int_of_n m.am_type = 1 -> adp_out_for_meta fm | _ -> ());
       (match m.am_pfor with Some pm when int_of_n m.am_type = 2 -> adp_out_pfor_meta "pm_" pm | _ -> ());
       (try
          out_n "get" (adp_get_encoding_type enc);
          (match adp_read_meta enc with
           | POk rm ->
             out_int "rm_h" 1;
             out_n "rm_type" rm.am_type; out_n "rm_count" rm.am_count; out_n "rm_size" rm.am_size
           | POob -> raise Adp_fault
           | PUB -> raise (Adp_other "ub")
           | PFuel -> raise (Adp_other "fuel"));
          (match adp_decode enc (n_of_int n) with
           | ADOk (ret, stores, _) ->
             out_n "dn" ret;
             out_str "oguard" "ok";
             let d = int_of_n ret in
             let dd = min d n in
             let got = firstn dd stores in
             if dd = n && adp_first_diff 0 got xs = n then out_str "rt" "ok"
             else begin
               out_str "rt" "diff";
               out_int "at" (min (adp_first_diff 0 got xs) dd);
               out_nlist "got" (firstn 64 got)
             end;
             out_n "d_type" (List.hd enc); out_n "d_count" ret
           | ADOob -> raise Adp_fault
           | ADUB -> raise (Adp_other "ub")
           | ADFuel -> raise (Adp_other "fuel"))
        with
        | Adp_fault -> Buffer.clear line; out_str "fault" "segv"
        | Adp_other s -> out_str "model" s))

let bz s = BZ.of_string s

let () = register "adaptive_rt" (fun a ->
  let xs = nlist_of_arg a.(0) in
  adp_analysis xs;
  adp_roundtrip xs None)

let () = register "adaptive_rtg" (fun a ->
  let xs = adp_gen_values (int_of_string a.(0)) (int_of_string a.(1)) (bz a.(2)) (bz a.(3)) (bz a.(4)) in
  adp_analysis xs;
  adp_roundtrip xs None)

let () = register "adaptive_with" (fun a ->
  let e = n_of_string a.(0) in
  adp_roundtrip (nlist_of_arg a.(1)) (Some e))

let () = register "adaptive_withg" (fun a ->
  let e = n_of_string a.(0) in
  let xs = adp_gen_values (int_of_string a.(1)) (int_of_string a.(2)) (bz a.(3)) (bz a.(4)) (bz a.(5)) in
  adp_roundtrip xs (Some e))

(* one meta object for two calls: the model is a function of the second array only *)
let () = register "adaptive_rt2" (fun a ->
  let xs = nlist_of_arg a.(1) in
  out_str "b2b" "same";
  adp_analysis xs;
  adp_roundtrip xs None)

let () = register "adaptive_with2" (fun a ->
  let e = n_of_string a.(0) in
  if int_of_n e = 1 && (nlist_of_arg a.(1) = [] || nlist_of_arg a.(2) = []) then out_str "skip" "ub"
  else begin out_str "b2b" "same"; adp_roundtrip (nlist_of_arg a.(2)) (Some e) end)

let () = register "adaptive_dec_cap" (fun a ->
  let e = n_of_string a.(0) in
  let cap = int_of_string a.(1) in
  let xs = nlist_of_arg a.(2) in
  let n = List.length xs in
  if int_of_n e = 1 && n = 0 then out_str "skip" "ub"
  else
    match adp_encode_with xs e with
    | AEUB -> out_str "model" "ub"
    | AEFail _ -> out_int "n" 0
    | AEOk (enc, m) ->
      out_n "n" m.am_size;
      (match adp_decode enc (n_of_int cap) with
       | ADOk (ret, stores, _) ->
         out_n "dn" ret;
         out_str "guard" "ok";
         out_int "touched" (List.length stores);
         let d = int_of_n ret in
         let dd = min d cap in
         let got = firstn dd stores in
         if dd <= n && adp_first_diff 0 got xs >= dd then out_str "prefix" "ok"
         else begin out_str "prefix" "diff"; out_nlist "got" (firstn 64 got) end;
         out_n "d_type" (List.hd enc); out_n "d_count" ret
       | ADOob -> Buffer.clear line; out_str "fault" "segv"
       | ADUB -> out_str "model" "ub"
       | ADFuel -> out_str "model" "fuel"))

let () = register "adaptive_ratio" (fun a ->
  let x = n_of_string a.(0) and y = n_of_string a.(1) in
  if BZ.sign (z_of_n y) = 0 then out_str "skip" "div0"
  else begin
    let q = adp_ratio x y in
    out_n "fa" (adp_f32_bits (adp_f32_of_N x)); out_n "fb" (adp_f32_bits (adp_f32_of_N y));
    out_n "q" (adp_f32_bits q);
    adp_b "lt015" (adp_f32_lt q adp_f015);
    adp_b "gt005" (adp_f32_lt adp_f005 q);
    adp_b "lt005" (adp_f32_lt q adp_f005)
  end)
