(* main.ml — reads a case file, evaluates the extracted model, prints one
   canonical line per case *)
open Core
let () =
  let ic = if Sys.argv.(1) = "-" then stdin else open_in Sys.argv.(1) in
  let oc = stdout in
  (try
     while true do
       let l = input_line ic in
       if String.length l > 0 && l.[0] <> '#' then begin
         let toks = Array.of_list (List.filter (fun s -> s <> "") (String.split_on_char ' ' l)) in
         let api = toks.(0) in
         let args = Array.sub toks 1 (Array.length toks - 1) in
         Buffer.clear line;
         (match Hashtbl.find_opt registry api with
          | None -> prerr_endline ("model driver: unknown api " ^ api); exit 2
          | Some f ->
            (try f args with
             | Stack_overflow -> Buffer.clear line; out_str "model" "stack_overflow"
             | Failure m -> Buffer.clear line; out_str "model_failure" m));
         output_string oc api;
         Array.iter (fun s -> output_char oc ' '; output_string oc s) args;
         output_string oc " ->";
         Buffer.output_buffer oc line;
         output_char oc '\n'
       end
     done
   with End_of_file -> ());
  flush oc
