(* drv_bp128.ml — model side of the BP128 handlers (same output format as
   harness/c/drv_bp128.c) *)
open Model
open Core

let hexmax = 1536

let out_bytes k (l : n list) =
  let len = List.length l in
  if len <= hexmax then out_hex k l
  else begin
    let h = ref 0xcbf29ce484222325L in
    List.iter (fun b ->
      h := Int64.mul (Int64.logxor !h (Int64.of_int (int_of_n b))) 0x100000001b3L) l;
    out_str k (Printf.sprintf "h%d:%016Lx" len !h)
  end

let out_meta (m : meta) =
  out_n "mcount" (m_count m);
  out_n "mblocks" (m_blockCount m);
  out_n "mbytes" (m_encodedBytes m);
  out_n "mlast" (m_lastBlockSize m);
  out_n "mwidth" (m_maxBitWidth m)

let rec is_prefix got want =
  match got, want with
  | [], _ -> true
  | g :: gt, w :: wt -> g = w && is_prefix gt wt
  | _ :: _, [] -> false

let out_cmp k got want =
  if is_prefix got want then out_str k "ok" else out_nlist k got

let b2i b = if b then 1 else 0

(* prints n bound enc frame guard [meta]; returns (bytes, fits) *)
let do_enc enc metaf vs with_meta =
  let bs = enc vs in
  let n = List.length bs in
  let bound = int_of_n (max_bytes (n_of_int (List.length vs))) in
  out_int "n" n;
  out_int "bound" bound;
  out_bytes "enc" (if n <= bound then bs else firstn bound bs);
  out_str "frame" (if n <= bound then "ok" else "dirty");
  out_str "guard" "ok";
  if with_meta then out_meta (metaf vs);
  (bs, n <= bound)

let do_dec dec bs cap want =
  match dec bs (n_of_int cap) with
  | None -> out_str "dn" "undefined"
  | Some out ->
    let dn = List.length out in
    out_int "dn" dn;
    out_cmp "dec" (if dn <= cap then out else firstn cap out) want;
    out_str "oframe" (if dn <= cap then "ok" else "dirty");
    out_str "oguard" "ok"

let rt name enc metaf dec sorted benef getc =
  register name (fun a ->
    let vs = nlist_of_arg a.(0) in
    let count = List.length vs in
    let (bs, fits) = do_enc enc metaf vs true in
    out_int "sorted" (b2i (sorted vs));
    out_int "benef" (b2i (benef vs));
    if count > 0 && fits then begin
      if getc then out_n "getcount" (get_count bs);
      do_dec dec bs count vs
    end)

let () = rt "bp32" encode32 encode32_meta decode32 is_sorted is_beneficial32 false
let () = rt "bpd32" delta_encode32 delta_encode32_meta delta_decode32 is_sorted is_beneficial32 false
let () = rt "bp64" encode64 encode64_meta decode64 is_sorted is_beneficial64 true
let () = rt "bpd64" delta_encode64 delta_encode64_meta delta_decode64 is_sorted is_beneficial64 true

let capd name enc metaf dec =
  register name (fun a ->
    let vs = nlist_of_arg a.(0) in
    let count = List.length vs in
    let (bs, fits) = do_enc enc metaf vs false in
    if Array.length a >= 2 && count > 0 && fits then do_dec dec bs (int_of_string a.(1)) vs)

let () = capd "bp32_cap" encode32 encode32_meta decode32
let () = capd "bpd32_cap" delta_encode32 delta_encode32_meta delta_decode32
let () = capd "bp64_cap" encode64 encode64_meta decode64
let () = capd "bpd64_cap" delta_encode64 delta_encode64_meta delta_decode64

let blk name enc dec with_width =
  register name (fun a ->
    let (prev, vs) =
      if with_width then (n_of_int 0, nlist_of_arg a.(0))
      else (n_of_string a.(0), nlist_of_arg a.(1)) in
    if List.length vs <> 128 then out_str "skip" "need128"
    else begin
      let bs = enc vs prev in
      let n = List.length bs in
      out_int "n" n;
      if with_width then out_n "width" (max_bit_width vs);
      out_bytes "enc" bs;
      out_str "frame" "ok"; out_str "guard" "ok";
      match dec bs prev with
      | None -> out_str "used" "undefined"
      | Some (out, used) ->
        out_n "used" used;
        out_cmp "dec" out vs;
        out_str "oguard" "ok"
    end)

let () = blk "bp_blk32" (fun vs _ -> encode_block32 vs) (fun z _ -> decode_block32 z) true
let () = blk "bp_dblk32" delta_encode_block32 delta_decode_block32 false

let raw name dec =
  register name (fun a ->
    let z = bytes_of_hex a.(0) in
    let cap = int_of_string a.(1) in
    match dec z (n_of_int cap) with
    | None -> out_str "dn" "undefined"
    | Some out ->
      let dn = List.length out in
      out_int "dn" dn;
      out_nlist "dec" (if dn <= cap then out else firstn cap out);
      out_str "oframe" (if dn <= cap then "ok" else "dirty");
      out_str "oguard" "ok")

let () = raw "bp_raw32" decode32
let () = raw "bp_rawd32" delta_decode32
let () = raw "bp_raw64" decode64
let () = raw "bp_rawd64" delta_decode64

let () = register "bp_maxbytes" (fun a -> out_n "bound" (max_bytes (n_of_string a.(0))))

let two32 = n_of_z (BZ.shift_left BZ.one 32)
let () = register "bp_bits" (fun a ->
  let v = n_of_string a.(0) in
  out_n "b64" (bits_needed v);
  if BZ.lt (z_of_n v) (z_of_n two32) then out_n "b32" (bits_needed v))
