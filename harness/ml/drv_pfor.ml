(* drv_pfor.ml — model side of the PFOR handlers (same output format as
   harness/c/drv_pfor.c) *)
open Model
open Core

let pfor_hex_max = 100000

exception Pfor_fault
exception Pfor_other of string

let ok_or = function
  | POk a -> a
  | POob -> raise Pfor_fault
  | PUB -> raise (Pfor_other "ub")
  | PFuel -> raise (Pfor_other "fuel")

let out_meta pfx (m : pfor_meta) =
  out_n (pfx ^ "min") m.pm_min;
  out_n (pfx ^ "marker") m.pm_marker;
  out_n (pfx ^ "tv") m.pm_tv;
  out_n (pfx ^ "width") m.pm_width;
  out_n (pfx ^ "count") m.pm_count;
  out_n (pfx ^ "exc") m.pm_exc;
  out_n (pfx ^ "thr") m.pm_thr

let out_bytes k (l : n list) =
  let n = List.length l in
  if n <= pfor_hex_max then out_hex k l
  else begin
    let h = List.fold_left (fun h b -> (h * 31 + int_of_n b) land 0xFFFFFFFF) 0 l in
    out_hex k (firstn 64 l);
    out_int (k ^ "hash") h
  end

let n_eq a b = BZ.equal (z_of_n a) (z_of_n b)
let rec nlist_eq a b = match a, b with
  | [], [] -> true
  | x :: a', y :: b' -> n_eq x y && nlist_eq a' b'
  | _ -> false

let out_cmp k got want = if nlist_eq got want then out_str k "ok" else out_nlist k got

(* same index set as probe_indices in drv_pfor.c *)
let probe_indices (xs : BZ.t array) (m : pfor_meta) : int list =
  let n = Array.length xs in
  if n <= 300 then List.init n (fun i -> i)
  else begin
    let tv = z_of_n m.pm_tv and mn = z_of_n m.pm_min and mk = z_of_n m.pm_marker in
    let two64 = BZ.shift_left BZ.one 64 in
    let is_exc v = BZ.gt v tv || BZ.equal (BZ.erem (BZ.sub v mn) two64) mk in
    let base = [0; 1; n - 2; n - 1] in
    let stride = List.init 48 (fun j ->
      BZ.to_int (BZ.erem (BZ.add (BZ.mul (BZ.of_int j) (BZ.of_string "2654435761")) (BZ.of_int 12345)) (BZ.of_int n))) in
    let fw = ref [] and ne = ref 0 in
    (try for i = 0 to n - 1 do
       if !ne >= 48 then raise Exit;
       if is_exc xs.(i) then begin fw := i :: !fw; incr ne end
     done with Exit -> ());
    let bw = ref [] in
    ne := 0;
    (try for i = n - 1 downto 0 do
       if !ne >= 48 then raise Exit;
       if is_exc xs.(i) then begin bw := i :: !bw; incr ne end
     done with Exit -> ());
    base @ stride @ List.rev !fw @ List.rev !bw
  end

let zero = n_of_int 0

let () = register "pfor_enc" (fun a ->
  let thr = n_of_string a.(0) in
  let xs = nlist_of_arg a.(1) in
  let n = List.length xs in
  let ct = pfor_compute_threshold xs thr in
  out_n "ret" (pfor_compute_threshold_ret xs thr);
  out_meta "ct_" ct;
  out_n "size" (pfor_size ct);
  let (enc, m) = pfor_encode xs thr in
  out_int "n" (List.length enc);
  out_str "frame" "ok"; out_str "guard" "ok";
  out_bytes "enc" enc;
  out_meta "m_" m;
  out_n "size2" (pfor_size m);
  (try
    let (h, rm) = ok_or (pfor_read_meta enc pfor_meta_zero) in
    out_n "rm_h" h;
    out_meta "rm_" rm;
    let (v1, d1) = ok_or (pfor_decode enc pfor_meta_zero) in
    out_int "d1n" (List.length v1);
    out_cmp "d1" (firstn n v1) xs;
    out_n "d1count" d1.pm_count;
    out_n "d1exc" d1.pm_exc;
    let (v2, d2) = ok_or (pfor_decode enc m) in
    out_int "d2n" (List.length v2);
    out_cmp "d2" (firstn n v2) xs;
    out_n "d2exc" d2.pm_exc;
    let arr = Array.of_list (List.map z_of_n xs) in
    let idx = probe_indices arr m in
    let want = List.map (fun i -> n_of_z arr.(i)) idx in
    let ga = List.map (fun i -> ok_or (pfor_get_at enc (n_of_int i) m)) idx in
    out_cmp "ga" ga want;
    out_n "ga_end" (ok_or (pfor_get_at enc (n_of_int n) m));
    out_n "ga_far" (ok_or (pfor_get_at enc (n_of_int (n + 7)) m));
    let ga2 = List.map (fun i -> ok_or (pfor_get_at enc (n_of_int i) rm)) idx in
    out_cmp "garm" ga2 want
  with
  | Pfor_fault -> Buffer.clear line; out_str "fault" "segv"
  | Pfor_other s -> out_str "model" s))

let pfor_dec_cap = 4096
let nine = cz_of_z (BZ.of_int 9)

let () = register "pfor_dec" (fun a ->
  let b = bytes_of_hex a.(0) in
  let cap = min (int_of_string a.(1)) pfor_dec_cap in
  let mode = int_of_string a.(2) in
  let len = List.length b in
  let rec drop k l = if k <= 0 then l else match l with [] -> [] | _ :: t -> drop (k - 1) t in
  (* bounded look at the header *)
  let complete = ref false and count = ref 0 and width = ref 0 in
  if len >= 1 then begin
    let w1 = int_of_n (tagged_getlen b) in
    if len >= w1 + 2 then begin
      width := int_of_n (List.nth b w1);
      let rest = drop (w1 + 1) b in
      let w2 = int_of_n (tagged_getlen rest) in
      if len >= w1 + 1 + w2 then begin
        let (_, cv) = tagged_get rest (cz_of_z (BZ.of_int w2)) in
        count := BZ.to_int (BZ.erem (z_of_n cv) (BZ.shift_left BZ.one 32));
        complete := true
      end
    end
  end;
  if !complete && !count > cap then out_str "skip" "cap"
  else if !complete && !count > 0 && (!width < 1 || !width > 8) then out_str "skip" "ub"
  else if !complete && !count * !width > len + 2048 then out_str "skip" "far"
  else
    try
      let m = ref pfor_meta_zero in
      if mode = 1 then begin
        let (h, rm) = ok_or (pfor_read_meta b pfor_meta_zero) in
        out_n "rm_h" h;
        out_meta "rm_" rm;
        m := rm
      end;
      let (vals, dm) = ok_or (pfor_decode b !m) in
      let r = List.length vals in
      out_int "dn" r;
      out_nlist "vals" (firstn pfor_dec_cap vals);
      out_meta "d_" dm;
      let ng = min r 64 in
      let ga = List.init ng (fun i -> ok_or (pfor_get_at b (n_of_int i) dm)) in
      out_nlist "ga" ga
    with
    | Pfor_fault -> Buffer.clear line; out_str "fault" "segv"
    | Pfor_other s -> out_str "model" s)
