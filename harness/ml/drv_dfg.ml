(* drv_dfg.ml — model side of harness/c/drv_dfg.c (delta, FOR, group); prints
   the model's prediction of every token the C driver prints. *)
open Model
open Core

let guard_elems = 4
let ni = n_of_int
let n_eq a b = BZ.equal (z_of_n a) (z_of_n b)
let cz_eq a b = BZ.equal (z_of_cz a) (z_of_cz b)
let rec list_eq eq a b =
  match a, b with
  | [], [] -> true
  | x :: a', y :: b' -> eq x y && list_eq eq a' b'
  | _, _ -> false
let rec drop k l = if k <= 0 then l else match l with [] -> [] | _ :: t -> drop (k - 1) t
let nth_n l i = List.nth l i

(* FNV-1a 64 over the bytes, as out_enc of the C driver *)
let out_enc k (bs : n list) =
  let len = List.length bs in
  if len <= 160 then out_hex k bs
  else begin
    let h = ref 0xcbf29ce484222325L in
    List.iter (fun b ->
      h := Int64.logxor !h (Int64.of_int (int_of_n b));
      h := Int64.mul !h 0x100000001b3L) bs;
    out_str k (Printf.sprintf "h%016Lx" !h);
    out_hex "head" (firstn 24 bs)
  end

let out_rt k got want = if list_eq n_eq got want then out_str k "ok" else out_nlist k got
let out_irt k got want = if list_eq cz_eq got want then out_str k "ok" else out_zlist k got
let ub () = out_str "ub" "1"

(* ---------------------------------------------------------------- delta *)

let () = register "zigzag" (fun a ->
  let n = cz_of_string a.(0) in
  let z = delta_zigzag n in
  out_n "zz" z; out_z "back" (delta_unzigzag z))

let () = register "unzigzag" (fun a ->
  let u = n_of_string a.(0) in
  let d = delta_unzigzag u in
  out_z "z" d; out_n "again" (delta_zigzag d))

let () = register "delta_put" (fun a ->
  let d = cz_of_string a.(0) in
  let bs = delta_put d in
  out_int "w" (List.length bs); out_hex "put" bs;
  out_str "frame" "ok"; out_str "guard" "ok";
  match delta_get bs with
  | Some (gw, back) -> out_n "gw" gw; out_z "get" back
  | None -> ub ())

let () = register "delta_s" (fun a ->
  let v = zlist_of_arg a.(0) in
  let n = List.length v in
  out_n "max" (delta_max_encoded_size (ni n));
  match delta_encode v with
  | None -> ub ()
  | Some enc ->
    out_int "n" (List.length enc); out_enc "enc" enc;
    out_str "frame" "ok"; out_str "guard" "ok";
    (match delta_decode enc (nat_of_int n) with
     | None -> ub ()
     | Some (r, out) ->
       out_n "dn" r; out_irt "rt" out v;
       out_int "wr" (List.length out); out_str "oguard" "ok"))

let () = register "delta_u" (fun a ->
  let v = nlist_of_arg a.(0) in
  let n = List.length v in
  out_n "max" (delta_max_encoded_size (ni n));
  let enc = delta_encode_u v in
  out_int "n" (List.length enc); out_enc "enc" enc;
  out_str "frame" "ok"; out_str "guard" "ok";
  match delta_decode_u enc (nat_of_int n) with
  | None -> ub ()
  | Some (r, out) ->
    out_n "dn" r; out_rt "rt" out v;
    out_int "wr" (List.length out); out_str "oguard" "ok")

(* ---------------------------------------------------------------- FOR *)

let out_meta k (m : for_meta) =
  out_nlist k [m.fm_min; m.fm_max; m.fm_range; m.fm_count; m.fm_size; m.fm_width]

let idx_count n = if n <= 300 then n else 128
let idx_at n k = if n <= 300 then k else (k * (n - 1)) / 127

exception Ub

let get = function Some x -> x | None -> raise Ub

let for_read_side (enc : n list) (v : n list) =
  let n = List.length v in
  let va = Array.of_list v in
  out_meta "rm" (for_read_metadata enc);
  out_n "gc" (for_get_count enc);
  out_n "gm" (for_get_min_value enc);
  out_n "gw" (for_get_offset_width enc);
  let (r, out) = get (for_decode enc (ni n)) in
  out_n "dn" r; out_rt "rt" out v; out_int "wr" (List.length out);
  let (r, out) = get (for_batch_decode enc (ni n)) in
  out_n "bn" r; out_rt "brt" out v; out_int "bwr" (List.length out);
  let bad = ref None in
  for k = 0 to idx_count n - 1 do
    let i = idx_at n k in
    let x = get (for_get_at enc (ni i)) in
    if not (n_eq x va.(i)) && !bad = None then bad := Some [ni i; x]
  done;
  (match !bad with Some l -> out_nlist "at" l | None -> out_str "at" "ok");
  let starts = [| 0; 0; n - 1; n / 2; n; 1; 0; n / 3 |] in
  let sizes = [| n; 1; 1; n; 1; 16; n + 5; n / 3 + 1 |] in
  let blkbad = ref (-1) in
  let rets = Array.make 8 (ni 0) in
  for k = 0 to 7 do
    let (br, out) = get (for_decode_block enc (ni starts.(k)) (ni sizes.(k))) in
    rets.(k) <- br;
    let bri = int_of_n br in
    let good = bri <= sizes.(k) && List.length out <= bri && starts.(k) + bri <= n
               && list_eq n_eq out (firstn bri (drop starts.(k) v)) in
    if (not good) && !blkbad < 0 then blkbad := k
  done;
  out_nlist "bc" (Array.to_list rets);
  if !blkbad < 0 then out_str "blk" "ok" else out_int "blk" !blkbad

let () = register "for_enc" (fun a ->
  let v = nlist_of_arg a.(0) in
  let mode = int_of_string a.(1) in
  let n = List.length v in
  if n = 0 then ub () else
  try
    let an = get (if mode >= 3 then for_batch_analyze v else for_analyze v) in
    out_meta "an" an;
    out_n "size" (for_size an);
    out_n "cw" (for_compute_width an.fm_range);
    let zero = { fm_min = ni 0; fm_max = ni 0; fm_range = ni 0; fm_count = ni 0; fm_size = ni 0; fm_width = ni 0 } in
    let mp = match mode with
      | 0 | 3 -> None
      | 2 | 4 -> Some an
      | _ -> Some zero in
    let (enc, cm) = get (if mode >= 3 then for_batch_encode v mp else for_encode v mp) in
    out_int "n" (List.length enc); out_enc "enc" enc;
    out_str "frame" "ok"; out_str "guard" "ok";
    (match cm with Some m -> out_meta "cm" m | None -> ());
    for_read_side enc v
  with Ub -> Buffer.clear line; ub ())

let () = register "for_encm" (fun a ->
  let v = nlist_of_arg a.(0) in
  let mn = n_of_string a.(1) in
  let wd = int_of_string a.(2) in
  let n = List.length v in
  if n = 0 || wd < 1 || wd > 8 then ub () else
  try
    let cm = { fm_min = mn; fm_max = ni 0; fm_range = ni 0; fm_count = ni n; fm_size = ni 0; fm_width = ni wd } in
    out_n "size" (for_size cm);
    let (enc, cm') = get (for_encode v (Some cm)) in
    out_int "n" (List.length enc); out_enc "enc" enc;
    out_str "frame" "ok"; out_str "guard" "ok";
    (match cm' with Some m -> out_meta "cm" m | None -> ());
    let (r, out) = get (for_decode enc (ni n)) in
    out_n "dn" r;
    out_nlist "dec" (if n <= 40 then out else []);
    out_int "wr" (List.length out)
  with Ub -> Buffer.clear line; ub ())

let for_caps (enc : n list) (caps : n list) (v : n list option) (show : bool) =
  let ncaps = List.length caps in
  List.iteri (fun which (kr, kw, ko, kd) ->
    let bad = ref (-1) in
    let rets = ref [] and wrs = ref [] in
    List.iteri (fun k cap ->
      let (r, out) = get (match which with
        | 0 -> for_decode enc cap
        | 1 -> for_batch_decode enc cap
        | _ -> for_decode_block enc (ni 0) cap) in
      rets := r :: !rets;
      wrs := ni (List.length out) :: !wrs;
      let ri = int_of_n r in
      (match v with
       | Some vv ->
         if ri > 0 && (ri > List.length vv || BZ.gt (z_of_n r) (z_of_n cap)
                       || not (list_eq n_eq (firstn ri out) (firstn ri vv))) && !bad < 0 then bad := k
       | None -> ());
      if show && ri > 0 && ri <= 40 && k + 1 = ncaps then out_nlist kd out) caps;
    out_nlist kr (List.rev !rets);
    out_nlist kw (List.rev !wrs);
    (match v with
     | Some _ -> if !bad < 0 then out_str ko "ok" else out_int ko !bad
     | None -> ()))
    [ ("ret", "wr", "out", "dec"); ("bret", "bwr", "bout", "bdec"); ("kret", "kwr", "kout", "kdec") ]

let () = register "for_cap" (fun a ->
  let v = nlist_of_arg a.(0) in
  let caps = nlist_of_arg a.(1) in
  if v = [] then ub () else
  try
    let (enc, _) = get (for_encode v None) in
    out_int "n" (List.length enc);
    for_caps enc caps (Some v) false
  with Ub -> Buffer.clear line; ub ())

let () = register "for_capx" (fun a ->
  let b = bytes_of_hex a.(0) in
  let caps = nlist_of_arg a.(1) in
  try for_caps b caps None true
  with Ub -> Buffer.clear line; ub ())

(* ---------------------------------------------------------------- group *)

let range k = List.init k (fun i -> i)

let () = register "group" (fun a ->
  let v = nlist_of_arg a.(0) in
  let fc = int_of_string a.(1) in
  let n = List.length v in
  let refused = fc = 0 || fc > 64 in
  if fc > 255 || ((not refused) && fc > n) then ub () else
  try
    let size = get (group_size v (ni fc)) in
    out_n "size" size;
    out_n "bms" (group_bitmap_size (ni fc));
    let enc = get (group_encode v (ni fc)) in
    let w = List.length enc in
    out_int "n" w; out_enc "enc" enc;
    out_str "frame" "ok"; out_str "guard" "ok";
    if w > 0 && w <= int_of_n size then begin
      out_n "gs" (group_get_size enc);
      out_n "fc" (group_get_field_count enc);
      let m = if fc + 1 <= 256 then fc + 1 else 256 in
      out_nlist "fw" (List.map (fun i -> group_get_field_width enc (ni i)) (range m));
      let ((r, fco), out) = get (group_decode enc (ni fc)) in
      out_n "dn" r;
      out_n "dfc" (match fco with Some c -> c | None -> ni 238);
      out_rt "rt" (if int_of_n r <> 0 then out else []) (firstn fc v);
      out_int "wr" (List.length out);
      let va = Array.of_list v in
      let bad = ref (-1) in
      let go = List.map (fun i ->
        let (ret, x) = get (group_get_field enc (ni i)) in
        let okay =
          if i < fc then (int_of_n ret <> 0 && (match x with Some y -> n_eq y va.(i) | None -> false))
          else (int_of_n ret = 0 && x = None) in
        if (not okay) && !bad < 0 then bad := i;
        ret) (range m) in
      out_nlist "go" go;
      if !bad < 0 then out_str "gf" "ok" else out_int "gf" !bad
    end
  with Ub -> Buffer.clear line; ub ())

let group_caps (enc : n list) (caps : n list) (v : n list option) (show : bool) =
  let ncaps = List.length caps in
  let bad = ref (-1) in
  let rets = ref [] and wrs = ref [] and fcos = ref [] in
  List.iteri (fun k cap ->
    let ((r, fco), out) = get (group_decode enc cap) in
    rets := r :: !rets;
    wrs := ni (List.length out) :: !wrs;
    let dfc = match fco with Some c -> c | None -> ni 238 in
    fcos := dfc :: !fcos;
    (match v with
     | Some vv ->
       if int_of_n r > 0 && (int_of_n dfc <> List.length vv || BZ.gt (z_of_n dfc) (z_of_n cap)
                             || not (list_eq n_eq out vv)) && !bad < 0 then bad := k
     | None -> ());
    if show && int_of_n r > 0 && k + 1 = ncaps then out_nlist "dec" out) caps;
  out_nlist "ret" (List.rev !rets);
  out_nlist "wr" (List.rev !wrs);
  out_nlist "fco" (List.rev !fcos);
  match v with
  | Some _ -> if !bad < 0 then out_str "out" "ok" else out_int "out" !bad
  | None -> ()

let () = register "group_cap" (fun a ->
  let v = nlist_of_arg a.(0) in
  let caps = nlist_of_arg a.(1) in
  let n = List.length v in
  if n = 0 || n > 64 then ub () else
  try
    let enc = get (group_encode v (ni n)) in
    out_int "n" (List.length enc);
    group_caps enc caps (Some v) false
  with Ub -> Buffer.clear line; ub ())

let () = register "group_capx" (fun a ->
  let b = bytes_of_hex a.(0) in
  let caps = nlist_of_arg a.(1) in
  try
    out_n "gs" (if b = [] then ni 0 else group_get_size b);
    out_n "fc" (if b = [] then ni 0 else group_get_field_count b);
    group_caps b caps None true
  with Ub -> Buffer.clear line; ub ())
