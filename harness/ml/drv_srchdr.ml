(* drv_srchdr.ml — model side of the src_hdr_* handlers: runs the header accessors that
   gen/c2coq.py regenerated from the current src/varintFOR.c / src/varintBP128.c
   (gen/c2coq_hdr.py, coq/gen/Src_hdr_*.v; same output format as harness/c/drv_srchdr.c). *)
open Model
open Core

let why = function
  | None -> "untranslated"
  | Some COob -> "oob"
  | Some (CUB _) -> "ub"
  | Some CFuel -> "fuel"
  | Some (COk _) -> "ok"
let scalar k r = match r with Some (COk w) -> out_z k w | _ -> out_str k (why r)

let () = register "src_hdr_for" (fun a ->
  let b = bytes_of_hex a.(0) in
  scalar "min" (srcrun_varintFORGetMinValue b);
  scalar "count" (srcrun_varintFORGetCount b);
  scalar "width" (srcrun_varintFORGetOffsetWidth b);
  let blank = Some (((((None, None), None), None), None), None) in
  let f = function None -> "unset" | Some v -> string_of_cz v in
  match srcrun_varintFORReadMetadata b blank with
  | Some (COk (Some (((((mn, mx), rg), ct), sz), ow))) ->
    out_str "meta" (String.concat "," [f mn; f mx; f rg; f ct; f sz; f ow])
  | Some (COk None) -> out_str "meta" "null"
  | r -> out_str "meta" (why r))

let () = register "src_hdr_bp128" (fun a ->
  let b = bytes_of_hex a.(0) in
  scalar "count" (srcrun_varintBP128GetCount b (cz_of_z (BZ.of_int (List.length b)))))
