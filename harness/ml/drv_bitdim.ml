(* drv_bitdim.ml — model side of harness/c/drv_bitdim.c (same output text) *)
open Model
open Core

let nz i = n_of_z i
let ni = n_of_int
let zn = z_of_n

(* ------------------------------------------------------------ bitstream *)

(* bytes (little-endian words of wb bytes) <-> slot list *)
let rec take k l = if k <= 0 then [] else match l with [] -> [] | x :: t -> x :: take (k - 1) t
let rec drop k l = if k <= 0 then l else match l with [] -> [] | _ :: t -> drop (k - 1) t
let rec words_of_bytes wb l = match l with [] -> [] | _ -> of_le (take wb l) :: words_of_bytes wb (drop wb l)
let bytes_of_words wb ws = List.concat_map (fun w -> le_bytes (nat_of_int wb) w) ws

let () = register "bs_setget" (fun a ->
  let w = int_of_string a.(0) and v = int_of_string a.(1) in
  let off = n_of_string a.(2) and n = n_of_string a.(3) and x = n_of_string a.(4) in
  let prior = bytes_of_hex a.(5) in
  if not (List.mem (w, v) [(8,64);(16,64);(32,64);(64,64);(8,8);(16,16);(32,32)]) then
    out_str "error" "no-such-instantiation"
  else begin
    let wb = w / 8 in
    let s = words_of_bytes wb prior in
    let wn = ni w and vn = ni v in
    match bs_get wn vn s off n with
    | None -> out_str "fault" "segv"
    | Some g0 ->
      (match bs_set wn vn s off n x with
       | None -> out_str "fault" "segv"
       | Some s' ->
         out_n "get0" g0;
         out_hex "mem" (bytes_of_words wb s');
         (match bs_get wn vn s' off n with
          | Some g -> out_n "get" g
          | None -> out_str "get" "none");
         out_str "lo" "ok")
  end)

let two64 = BZ.shift_left BZ.one 64
let to_u64 z = BZ.erem z two64

let () = register "bs_signed" (fun a ->
  let n = n_of_string a.(0) in
  let orig = BZ.of_string a.(1) in
  let off = n_of_string a.(2) in
  let v = cz_of_z orig in
  match bs_signed_store v n with
  | None -> out_str "model" "ub"
  | Some p ->
    out_n "prep" p;
    (match bs_signed_load p n with Some r -> out_z "rest" r | None -> out_str "rest" "none");
    (* the int64_t-typed variable holds the same bits *)
    out_n "preps" p;
    (match bs_signed_load p n with Some r -> out_z "rests" r | None -> out_str "rests" "none");
    let ni_ = BZ.to_int (zn n) in
    if ni_ = 64 || BZ.equal (BZ.shift_right (zn p) ni_) BZ.zero then begin
      let words = List.map (fun s -> nz (BZ.of_string s))
          ["0x0123456789abcdef"; "0xfedcba9876543210"; "0x5555aaaa3333cccc"] in
      let w64 = ni 64 in
      match bs_set w64 w64 words off n p with
      | None -> out_str "fault" "segv"
      | Some s' ->
        (match bs_get w64 w64 s' off n with
         | Some b -> (match bs_signed_load b n with Some r -> out_z "via" r | None -> out_str "via" "none")
         | None -> out_str "fault" "segv")
    end)

(* ------------------------------------------------------------ dimension *)

let () = register "dim_pack" (fun a ->
  let r = n_of_string a.(0) and c = n_of_string a.(1) in
  match dim_pack r c with
  | PackFalse -> out_int "ok" 0
  | PackFuel -> out_str "model" "out-of-fuel"
  | PackOk (p, d) ->
    out_int "ok" 1; out_n "packed" p; out_n "dim" d;
    (match dim_unpack p d with
     | Some (x, y) -> out_n "ur" x; out_n "uc" y; out_n "mr" x; out_n "mc" y
     | None -> out_str "model" "ub"))

let () = register "dim_pair" (fun a ->
  let rows = n_of_string a.(0) and cols = n_of_string a.(1) in
  out_n "dim0" (pair_dimension rows cols);
  match pair_encode rows cols with
  | None -> out_str "model" "ub"
  | Some (d, hdr) ->
    out_n "dim" d;
    out_n "wr" (pair_row_count d); out_n "wc" (pair_col_count d);
    out_n "len" (pair_byte_length d);
    out_n "sparse" (pair_is_sparse d);
    out_hex "hdr" hdr; out_str "frame" "ok"; out_str "guard" "ok";
    (match pair_decode hdr d with
     | Some (x, y) -> out_n "dr" x; out_n "dc" y
     | None -> out_str "fault" "segv"))

let fill_byte seed i =
  if seed = 0 then 0 else if seed = 1 then 255 else begin
    let x = (seed * 7919 + i * 104729 + 12345) mod 65521 in
    let x = (x * x + i) mod 65521 in
    x land 255
  end

exception Model_none

let some = function Some x -> x | None -> raise Model_none

type cellcfg = { kind : char; w : int; dim : n }

let cell_get buf k r c : n =
  match k.kind with
  | 'u' -> some (entry_get_unsigned buf r c (ni k.w) k.dim)
  | 'f' -> some (entry_get_float buf r c k.dim)
  | 'd' -> some (entry_get_double buf r c k.dim)
  | 'h' ->
    (* NaN payloads are changed by the hardware conversion: all NaNs print as 0x7e00 *)
    let h = int_of_n (some (entry_get_half buf r c k.dim)) in
    if (h lsr 10) land 31 = 31 && h land 1023 <> 0 then ni 0x7e00 else ni h
  | _ -> if some (entry_get_bit buf r c k.dim) then ni 1 else ni 0

(* (new buffer, value of the `ret` column) *)
let cell_set buf k r c (v : n) : n list * n =
  match k.kind with
  | 'u' -> (some (entry_set_unsigned buf r c v (ni k.w) k.dim), v)
  | 'f' -> (some (entry_set_float buf r c v k.dim), v)
  | 'd' -> (some (entry_set_double buf r c v k.dim), v)
  | 'h' -> (some (entry_set_half buf r c v k.dim), v)
  | _ ->
    let vi = int_of_n v in
    if vi = 2 then
      let (b, old) = some (entry_toggle_bit buf r c k.dim) in (b, if old then ni 1 else ni 0)
    else (some (entry_set_bit buf r c (vi <> 0) k.dim), v)

let watch_set nalloc (cols : BZ.t) (ops : (BZ.t * BZ.t * BZ.t) list) : int list =
  if nalloc <= 64 then List.init nalloc (fun i -> i)
  else begin
    let acc = ref [] in
    let addw (x : BZ.t) =
      (* the C computes in uint64_t *)
      let x = to_u64 x in
      if BZ.lt x (BZ.of_int nalloc) then begin
        let xi = BZ.to_int x in
        if not (List.mem xi !acc) then acc := xi :: !acc
      end in
    addw BZ.zero; addw BZ.one; addw (BZ.of_int (nalloc - 2)); addw (BZ.of_int (nalloc - 1));
    List.iteri (fun i (r, c, _) ->
        if i < 8 then begin
          let t = BZ.add (BZ.mul r cols) c in
          addw (BZ.pred t); addw t; addw (BZ.succ t);
          addw (BZ.sub t (BZ.of_int 8)); addw (BZ.add t (BZ.of_int 8));
          addw (BZ.sub t cols); addw (BZ.add t cols)
        end) ops;
    List.rev !acc
  end

let rec triples = function
  | r :: c :: v :: t -> (r, c, v) :: triples t
  | _ -> []

let () = register "dim_cell" (fun a ->
  let rows = n_of_string a.(0) and cols = n_of_string a.(1) in
  let ks = a.(2) in
  let nalloc = int_of_string a.(3) in
  let seed = int_of_string a.(4) in
  let ops = triples (List.map BZ.of_string (list_of_arg a.(5))) in
  let kind = ks.[0] in
  let w = match kind with 'u' -> Char.code ks.[1] - 48 | 'f' -> 4 | 'd' -> 8 | 'h' -> 2 | _ -> 0 in
  try
    let (d, hdr) = some (pair_encode rows cols) in
    let hlen = List.length hdr in
    let total = hlen + (if kind = 'b' then (nalloc + 7) / 8 else nalloc * w) in
    let tail = List.init (total - hlen) (fun i -> ni (fill_byte seed (i + hlen))) in
    let init = hdr @ tail in
    let k = { kind; w; dim = d } in
    out_n "dim" d; out_int "hlen" hlen; out_hex "hdr" hdr;
    let colsz = zn cols in
    let watch = watch_set nalloc colsz ops in
    let rc t = (nz (BZ.div (BZ.of_int t) colsz), nz (BZ.rem (BZ.of_int t) colsz)) in
    let buf = ref init in
    let oth = ref 0 and hchg = ref 0 in
    let pre = ref [] and ret = ref [] and gets = ref [] in
    List.iter (fun (r, c, v) ->
        let rn = nz r and cn = nz c in
        let t = BZ.add (BZ.mul r colsz) c in
        let wv = List.map (fun t -> let (r, c) = rc t in cell_get !buf k r c) watch in
        pre := cell_get !buf k rn cn :: !pre;
        let (b', rv) = cell_set !buf k rn cn (nz v) in
        buf := b';
        ret := rv :: !ret;
        gets := cell_get !buf k rn cn :: !gets;
        List.iter2 (fun wt old ->
            if not (BZ.equal (BZ.of_int wt) t) then begin
              let (r, c) = rc wt in
              if cell_get !buf k r c <> old then incr oth
            end) watch wv;
        if firstn hlen !buf <> hdr then incr hchg) ops;
    let fin = List.map (fun (r, c, _) -> cell_get !buf k (nz r) (nz c)) ops in
    out_nlist "pre" (List.rev !pre);
    out_nlist "ret" (List.rev !ret);
    out_nlist "gets" (List.rev !gets);
    out_nlist "final" fin;
    out_int "oth" !oth; out_int "hchg" !hchg;
    let chg = ref [] in
    List.iteri (fun i (x, y) -> if x <> y then chg := ni (int_of_n x) :: ni i :: !chg)
      (List.combine !buf init);
    out_nlist "chg" (List.rev !chg);
    out_str "guard" "ok"
  with Model_none -> Buffer.clear line; out_str "model" "none")
