(* drv_extbig.ml — model side of harness/c/drv_extbig.c *)
open Model
open Core

let xb_two64 = BZ.shift_left BZ.one 64
let xb_out128 (v : n) =
  let z = z_of_n v in
  out_n "ghi" (n_of_z (BZ.shift_right z 64));
  out_n "glo" (n_of_z (BZ.erem z xb_two64))

let () = register "extbig" (fun a ->
  let hi = n_of_string a.(0) and lo = n_of_string a.(1) in
  let w = int_of_string a.(2) in
  let v = n_of_z (BZ.add (BZ.shift_left (z_of_n hi) 64) (z_of_n lo)) in
  if w < 1 || w > 16 then out_str "put" "none" else begin
    let wn = nat_of_int w in
    match extbig_put_fixed v wn with
    | None -> out_str "put" "none"
    | Some bs ->
      out_hex "put" bs; out_str "guard" "ok";
      (match extbig_get bs wn with Some r -> xb_out128 r | None -> out_str "get" "none");
      if w <= 8 then begin
        (match ext_get bs wn with Some r -> out_n "g64" r | None -> out_str "g64" "none");
        (match ext_put_fixed lo wn with Some b -> out_hex "put64" b | None -> out_str "put64" "none")
      end
  end)

let () = register "extbig_get" (fun a ->
  let b = bytes_of_hex a.(0) in
  let w = int_of_string a.(1) in
  if w < 1 || w > 16 || List.length b < w then out_str "get" "none"
  else match extbig_get (firstn w b) (nat_of_int w) with
    | Some r -> xb_out128 r
    | None -> out_str "get" "none")
