(* drv_splitfull.ml — model side of the SplitFull / SplitFullNoZero handlers
   (same output format as harness/c/drv_splitfull.c) *)
open Model
open Core

type sf_family = {
  f_length : n -> n;
  f_length_var : n -> n;
  f_put : n -> n list;
  f_getlen : n list -> n;
  f_getlen_quick : n list -> n;
  f_get : n list -> (n * n) option;
  f_rev_put_reversed : n -> n list * nat;
  f_rev_put_forward : n -> n list;
  f_rev_get : n list -> nat -> (n * n) option;
  f_max : n -> n;
  f_emax : n;
}

let fam_sf = {
  f_length = sf_length; f_length_var = sf_length_var; f_put = sf_put;
  f_getlen = sf_getlen; f_getlen_quick = sf_getlen_quick; f_get = sf_get;
  f_rev_put_reversed = sf_rev_put_reversed; f_rev_put_forward = sf_rev_put_forward;
  f_rev_get = sf_rev_get; f_max = sf_max; f_emax = sf_emax }

let fam_sfnz = {
  f_length = sfnz_length; f_length_var = sfnz_length_var; f_put = sfnz_put;
  f_getlen = sfnz_getlen; f_getlen_quick = sfnz_getlen_quick; f_get = sfnz_get;
  f_rev_put_reversed = sfnz_rev_put_reversed; f_rev_put_forward = sfnz_rev_put_forward;
  f_rev_get = sfnz_rev_get; f_max = sfnz_max; f_emax = sfnz_emax }

let out_get = function
  | Some (w, v) -> out_n "getw" w; out_n "getv" v
  | None -> out_str "get" "ub"

let rec lastn k l = let n = List.length l in if n <= k then l else lastn k (List.tl l)

let reg pfx f =
  register (pfx ^ "_rt") (fun a ->
    let x = n_of_string a.(0) in
    let bs = f.f_put x in
    out_int "w" (List.length bs);
    out_hex "put" bs;
    out_str "frame" "ok"; out_str "guard" "ok";
    out_n "len" (f.f_length x);
    out_n "getlen" (f.f_getlen bs);
    out_n "getlenq" (f.f_getlen_quick bs);
    out_get (f.f_get bs));
  register (pfx ^ "_rev") (fun a ->
    let x = n_of_string a.(0) in
    let (bs, off) = f.f_rev_put_reversed x in
    out_int "wr" (List.length bs);
    out_int "off" (int_of_nat off);
    out_hex "putr" bs; out_str "guardr" "ok";
    let fs = f.f_rev_put_forward x in
    out_int "wf" (List.length fs);
    out_hex "putf" fs; out_str "framef" "ok"; out_str "guardf" "ok";
    out_n "len" (f.f_length x);
    out_get (f.f_rev_get bs off));
  register (pfx ^ "_lenvar") (fun a ->
    out_n "len" (f.f_length_var (n_of_string a.(0))));
  register (pfx ^ "_mono") (fun a ->
    let x = n_of_string a.(0) and y = n_of_string a.(1) in
    out_n "la" (f.f_length x); out_n "lb" (f.f_length y);
    out_int "wa" (List.length (f.f_put x)); out_int "wb" (List.length (f.f_put y)));
  register (pfx ^ "_dec") (fun a ->
    let b = bytes_of_hex a.(0) in
    let n = List.length b in
    if n = 0 then out_str "get" "empty" else begin
      let gl = f.f_getlen b in
      out_n "getlen" gl;
      out_n "getlenq" (f.f_getlen_quick b);
      let gli = int_of_n gl in
      match f.f_get (firstn gli b) with
      | None -> out_str "get" "ub"
      | Some (w, v) ->
        if gli > n then out_str "get" "short"
        else begin out_n "getw" w; out_n "getv" v; out_n "lenv" (f.f_length v) end
    end);
  register (pfx ^ "_rdec") (fun a ->
    let b = bytes_of_hex a.(0) in
    let n = List.length b in
    if n = 0 then out_str "get" "empty" else begin
      let t = List.nth b (n - 1) in
      let gl = f.f_getlen [t] in
      out_n "getlen" gl;
      let gli = int_of_n gl in
      match f.f_rev_get [t] O with
      | None -> out_str "get" "ub"
      | Some _ ->
        if gli > n then out_str "get" "short"
        else out_get (f.f_rev_get (lastn gli b) (nat_of_int (gli - 1)))
    end)

let () = reg "sf" fam_sf
let () = reg "sfnz" fam_sfnz

let () = register "splitfull_max" (fun a ->
  let f = if a.(0) = "sfnz" then fam_sfnz else fam_sf in
  let k = n_of_string a.(1) in
  let m = f.f_max k in
  out_n "max" m; out_str "tight" "1";
  let ki = int_of_string a.(1) in
  if ki >= 1 && ki <= 9 then out_n "const" m)

let () = register "splitfull_emax" (fun a ->
  let f = if a.(0) = "sfnz" then fam_sfnz else fam_sf in
  out_n "emax" f.f_emax; out_str "tight" "1")
