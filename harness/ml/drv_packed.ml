(* drv_packed.ml — model side of harness/c/drv_packed.c (same output text).
   An access outside the slots the C driver makes accessible is predicted as
   the line ` fault=segv`. *)
open Model
open Core

exception Pk_fault

let pk_cfg (a : string array) : pcfg =
  let g i = n_of_string a.(i) in
  let p = int_of_string a.(2) in
  { p_w = g 0; p_S = g 1; p_P = (if p = 0 then None else Some (n_of_int p));
    p_V = g 3; p_L = g 4; p_compact = (a.(5) <> "0") }

(* little-endian bytes <-> slots *)
let pk_slots_of_bytes (sb : int) (bytes : n list) : n list =
  let arr = Array.of_list (List.map int_of_n bytes) in
  let ns = Array.length arr / sb in
  List.init ns (fun k ->
    let v = ref BZ.zero in
    for j = sb - 1 downto 0 do v := BZ.add (BZ.shift_left !v 8) (BZ.of_int arr.(k * sb + j)) done;
    n_of_z !v)

let pk_hex_of_slots (sb : int) (slots : n list) : string =
  let b = Buffer.create 256 in
  Buffer.add_char b 'x';
  List.iter (fun s ->
    let v = ref (z_of_n s) in
    for _ = 1 to sb do
      Buffer.add_string b (Printf.sprintf "%02x" (BZ.to_int (BZ.logand !v (BZ.of_int 255))));
      v := BZ.shift_right !v 8
    done) slots;
  Buffer.contents b

let pk_check_touched lo hi (t : n list) =
  List.iter (fun k -> let k = BZ.to_int (z_of_n k) in if k < lo || k > hi then raise Pk_fault) t

let pk_in_window n i j =
  if n <= 48 then true
  else if j < 8 || j + 8 >= n then true
  else j + 8 >= i && j <= i + 8

let pk_fault_line () = Buffer.clear line; out_str "fault" "segv"

let () = register "packed_elem" (fun a ->
  let c = pk_cfg a in
  let w = int_of_string a.(0) and s = int_of_string a.(1) in
  let op = int_of_string a.(6) in
  let i = int_of_string a.(7) in
  let ni = n_of_int i in
  let bytes = bytes_of_hex a.(9) in
  let sb = s / 8 in
  let arr = pk_slots_of_bytes sb bytes in
  let nslots = List.length arr in
  let first = i * w / s and last = (i * w + w - 1) / s in
  try
    let (arr', t) =
      match op with
      | 0 -> packed_set c arr ni (n_of_string a.(8))
      | 1 -> packed_set_incr c arr ni (cz_of_string a.(8))
      | 2 -> packed_set_half c arr ni
      | _ -> (arr, []) in
    pk_check_touched first last t;
    let (r, t) = packed_get c arr' ni in
    pk_check_touched first last t;
    (* a shift by the width of its type would be undefined in C: never predicted *)
    if packed_shift_ub c ni then out_str "ub" "shift";
    out_n "ret" r;
    out_str "arr" (pk_hex_of_slots sb arr');
    out_str "vbits" a.(3);
    let n = nslots * s / w in
    let l = int_of_string a.(4) in
    let nmax = if l >= 32 then 0x80000000 else if l = 16 then 65536 else 256 in
    let n = if n > nmax then nmax else n in
    let el = ref [] in
    for j = 0 to n - 1 do
      if pk_in_window n i j then begin
        let (v, t) = packed_get c arr' (n_of_int j) in
        pk_check_touched 0 (nslots - 1) t;
        el := v :: !el
      end
    done;
    out_nlist "elems" (List.rev !el)
  with Pk_fault -> pk_fault_line ())

let pk_some = function Some x -> x | None -> failwith "binary search out of fuel"

let () = register "packed_ops" (fun a ->
  let c = pk_cfg a in
  let w = int_of_string a.(0) and s = int_of_string a.(1) and l = int_of_string a.(4) in
  let bytes = bytes_of_hex a.(6) in
  let ops = Array.of_list (List.map (fun x -> BZ.of_string x) (list_of_arg a.(7))) in
  let sb = s / 8 in
  let nbytes = List.length bytes in
  let arr = ref (pk_slots_of_bytes sb bytes) in
  let nslots = List.length !arr in
  let cap = nbytes * 8 / w in
  let lmax = if l >= 32 then 0x7fffffff else if l = 16 then 65535 else 255 in
  let cap = if cap > lmax then lmax else cap in
  let len = ref 0 in
  let nops = Array.length ops / 3 in
  let res = ref [] in
  let st = Buffer.create 256 in
  let chk t = pk_check_touched 0 (nslots - 1) t in
  try
    for k = 0 to nops - 1 do
      let op = BZ.to_int ops.(3 * k) in
      let x = ops.(3 * k + 1) and y = ops.(3 * k + 2) in
      (* the C driver passes x and y as uint64_t *)
      let u v = n_of_z (BZ.extract v 0 64) in
      let ux = u x and uy = u y in
      let xi = if BZ.sign x >= 0 && BZ.fits_int x then BZ.to_int x else max_int in
      let nlen = n_of_int !len in
      let count_ok () = BZ.sign y >= 0 && BZ.equal (BZ.div (BZ.mul (z_of_n uy) (BZ.of_int 8)) (BZ.of_int w)) (BZ.of_int !len) in
      let r =
        match op with
        | 0 ->
          if !len >= cap then (-2) else begin
            let (a', t) = pk_some (packed_insert_sorted c !arr nlen ux) in
            chk t; arr := a'; incr len; 0 end
        | 1 ->
          let ((found, a'), t) = pk_some (packed_delete_member c !arr nlen ux) in
          chk t; arr := a'; if found then (decr len; 1) else 0
        | 2 -> let (r, t) = pk_some (packed_member c !arr nlen ux) in chk t; BZ.to_int (z_of_cz r)
        | 3 -> let (r, t) = pk_some (packed_binary_search c !arr nlen ux) in chk t; int_of_n r
        | 4 ->
          if !len >= cap || xi > !len then (-2) else begin
            let (a', t) = packed_insert c !arr nlen ux uy in chk t; arr := a'; incr len; 0 end
        | 5 ->
          if xi >= !len then (-2) else begin
            let (a', t) = packed_delete c !arr nlen ux in chk t; arr := a'; decr len; 0 end
        | 6 ->
          if xi >= !len then (-2) else begin
            let (a', t) = packed_set c !arr ux uy in chk t; arr := a'; 0 end
        | 7 ->
          if xi >= !len then (-2) else begin
            let (v, t) = packed_get c !arr ux in chk t; int_of_n v end
        | 8 ->
          if xi >= !len then (-2) else begin
            let (a', t) = packed_set_incr c !arr ux (cz_of_z y) in chk t; arr := a'; 0 end
        | 9 ->
          if xi >= !len then (-2) else begin
            let (a', t) = packed_set_half c !arr ux in chk t; arr := a'; 0 end
        | 10 ->
          if !len >= cap || not (count_ok ()) then (-2) else begin
            let (a', t) = pk_some (packed_insert_sorted_bytes c !arr uy ux) in
            chk t; arr := a'; incr len; 0 end
        | 11 ->
          if not (count_ok ()) then (-2) else begin
            let ((found, a'), t) = pk_some (packed_delete_member_bytes c !arr uy ux) in
            chk t; arr := a'; if found then (decr len; 1) else 0 end
        | 12 ->
          if not (count_ok ()) then (-2) else begin
            let (r, t) = pk_some (packed_member_bytes c !arr uy ux) in chk t; BZ.to_int (z_of_cz r) end
        | 13 ->
          if not (count_ok ()) || xi >= !len then (-2) else begin
            let (a', t) = packed_delete_bytes c !arr uy ux in chk t; arr := a'; decr len; 0 end
        | _ -> (-3) in
      res := r :: !res;
      if k > 0 then Buffer.add_char st '/';
      for j = 0 to !len - 1 do
        let (v, t) = packed_get c !arr (n_of_int j) in
        chk t;
        if j > 0 then Buffer.add_char st ',';
        Buffer.add_string st (BZ.format "%x" (z_of_n v))
      done
    done;
    out_str "r" ("L" ^ String.concat "," (List.rev_map string_of_int !res));
    out_str "st" (Buffer.contents st);
    out_int "len" !len;
    out_str "raw" (pk_hex_of_slots sb !arr);
    out_str "twin" "same"
  with Pk_fault -> pk_fault_line ())
