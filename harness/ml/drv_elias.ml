(* drv_elias.ml — model side of the Elias handlers (same output format as
   harness/c/drv_elias.c) *)
open Model
open Core

let big_bytes = 8192

(* bytes, or "h<hash>:<first 32 bytes>" when long (same rule as drv_elias.c) *)
let out_bytes k (l : n list) =
  let n = List.length l in
  if n <= big_bytes then out_hex k l
  else begin
    let h = List.fold_left (fun h b -> (h * 31 + int_of_n b) mod 1000000007) 7 l in
    let hd = hex_of_bytes (firstn 32 l) in
    out_str k (Printf.sprintf "h%d:%s" h (String.sub hd 1 (String.length hd - 1)))
  end

let n_eq a b = BZ.equal (z_of_n a) (z_of_n b)
let rec list_eq a b = match a, b with
  | [], [] -> true
  | x :: a', y :: b' -> n_eq x y && list_eq a' b'
  | _ -> false
let rec is_prefix a b = match a, b with
  | [], _ -> true
  | x :: a', y :: b' -> n_eq x y && is_prefix a' b'
  | _ -> false

let is_gamma s = String.length s > 0 && s.[0] = 'g'
let enc_array g = if g then elias_gamma_encode_array else elias_delta_encode_array
let dec_array g = if g then elias_gamma_decode_array else elias_delta_decode_array

let () = register "elias_enc" (fun a ->
  let g = is_gamma a.(0) in
  let xs = nlist_of_arg a.(1) in
  let count = List.length xs in
  let e = enc_array g xs in
  out_n "max" e.ee_extent;
  out_n "ret" e.ee_ret;
  out_bytes "bytes" e.ee_bytes;
  out_str "tail" "zero";
  out_str "guard" (if e.ee_ovf then "hi" else "ok");
  out_n "count" e.ee_count;
  out_n "tbits" e.ee_totalBits;
  out_n "ebytes" e.ee_encodedBytes;
  out_str "nometa" "same";
  let d = dec_array g e.ee_bytes e.ee_totalBits (nat_of_int count) in
  out_int "n" (List.length d);
  if list_eq d xs then out_str "rt" "ok" else out_nlist "rt" d;
  out_str "oguard" "ok";
  let d8 = dec_array g e.ee_bytes (n_of_int (8 * int_of_n e.ee_ret)) (nat_of_int count) in
  out_int "n8" (List.length d8);
  if list_eq d8 xs then out_str "rt8" "ok" else out_nlist "rt8" d8)

let sixteen = n_of_int 16

let () = register "elias_val" (fun a ->
  let x = n_of_string a.(0) in
  out_n "gbits" (elias_gamma_bits x);
  out_n "dbits" (elias_delta_bits x);
  List.iter (fun g ->
    let p s = (if g then "g" else "d") ^ s in
    let (w, bits) = (if g then elias_gamma_encode else elias_delta_encode) (bw_init sixteen) x in
    out_n (p "w") bits;
    out_n (p "pos") (bw_pos w);
    let bytes = bw_buffer w in
    out_hex (p "b") bytes;
    out_str (p "guard") (if bw_ovf w then "hi" else "ok");
    let (y, r) = (if g then elias_gamma_decode else elias_delta_decode) (br_init bytes bits) in
    out_n (p "v") y;
    out_n (p "rpos") (br_pos r)) [true; false])

let rec pad_zero k l = if k <= 0 then l else pad_zero (k - 1) (l @ [N0])

let () = register "elias_bw" (fun a ->
  let vs = nlist_of_arg a.(0) and nbs = List.map int_of_n (nlist_of_arg a.(1)) in
  let rec zip a b = match a, b with x :: a', y :: b' -> (x, y) :: zip a' b' | _ -> [] in
  let items = zip vs nbs in
  let total = List.fold_left (fun s (_, k) -> s + k) 0 items in
  let cap = (total + 7) / 8 in
  let w = List.fold_left (fun w (v, k) -> bw_write w v (nat_of_int k)) (bw_init (n_of_int cap)) items in
  out_n "pos" (bw_pos w);
  out_n "nbytes" (bw_bytes w);
  let bytes = bw_buffer w in
  (* the C prints the whole capacity: bytes beyond the writer's are the memset's zeros *)
  out_hex "bytes" (pad_zero (cap - List.length bytes) bytes);
  out_str "guard" (if bw_ovf w then "hi" else "ok");
  let r = ref (br_init bytes (n_of_int total)) in
  let more = Buffer.create 16 in
  let rd = List.map (fun (_, k) ->
    Buffer.add_char more (if br_has_more !r (n_of_int k) then '1' else '0');
    let (v, r') = br_read !r (nat_of_int k) in
    r := r'; v) items in
  Buffer.add_char more (if br_has_more !r (n_of_int 1) then '1' else '0');
  out_nlist "rd" rd;
  out_str "more" (Buffer.contents more);
  out_n "rpos" (br_pos !r))

let () = register "elias_cap" (fun a ->
  let g = is_gamma a.(0) in
  let xs = nlist_of_arg a.(1) in
  let cap = int_of_string a.(2) in
  let e = enc_array g xs in
  let d = dec_array g e.ee_bytes e.ee_totalBits (nat_of_int cap) in
  out_int "n" (List.length d);
  if is_prefix d xs then out_str "pre" "ok" else out_nlist "pre" d;
  out_str "guard" "ok")

let () = register "elias_dec" (fun a ->
  let g = is_gamma a.(0) in
  let b = bytes_of_hex a.(1) in
  let bits = int_of_string a.(2) in
  let cap = int_of_string a.(3) in
  let len = List.length b in
  let bits = if bits > len * 8 then len * 8 else bits in
  let give = (bits + 7) / 8 in
  let d = dec_array g (firstn give b) (n_of_int bits) (nat_of_int cap) in
  out_int "n" (List.length d);
  out_nlist "vals" d;
  out_str "guard" "ok")

let () = register "elias_ben" (fun a ->
  let xs = nlist_of_arg a.(0) in
  out_int "g" (if elias_gamma_is_beneficial xs then 1 else 0);
  out_int "d" (if elias_delta_is_beneficial xs then 1 else 0))
