(* drv_srcchained.ml — model side of the src_chained_* handlers: runs the
   functions that gen/c2coq.py regenerated from the current src/varintChained.c
   (same output format as harness/c/drv_srcchained.c).  Loops get 64 iterations
   of fuel. *)
open Model
open Core

let fuel = nat_of_int 64
let why = function
  | None -> "untranslated"
  | Some COob -> "oob"
  | Some (CUB _) -> "ub"
  | Some CFuel -> "fuel"
  | Some (COk _) -> "ok"
let cell s = if s = "-" then None else Some (cz_of_string s)
let put_like r = match r with Some (COk (w, out)) -> out_z "ret" w; out_hex "buf" out | _ -> out_str "ret" (why r)
let get_like r =
  match r with
  | Some (COk (w, v)) -> out_z "ret" w; (match v with None -> out_str "v" "unset" | Some x -> out_z "v" x)
  | _ -> out_str "ret" (why r)
let scalar r = match r with Some (COk w) -> out_z "ret" w | _ -> out_str "ret" (why r)

let () = register "src_chained_len" (fun a -> scalar (srcrun_varintChainedVarintLen fuel (cz_of_string a.(0))))
let () = register "src_chained_put" (fun a ->
  put_like (srcrun_varintChainedPutVarint fuel (bytes_of_hex a.(1)) (cz_of_string a.(0))))
let () = register "src_chained_put32" (fun a ->
  put_like (srcrun_q_varintChained_putVarint32 fuel (bytes_of_hex a.(1)) (cz_of_string a.(0))))
let () = register "src_chained_get" (fun a -> get_like (srcrun_varintChainedGetVarint (bytes_of_hex a.(0)) (cell a.(1))))
let () = register "src_chained_get32fn" (fun a -> get_like (srcrun_varintChainedGetVarint32 (bytes_of_hex a.(0)) (cell a.(1))))
let () = register "src_chained_get32" (fun a -> get_like (srcrun_q_varintChained_getVarint32 (bytes_of_hex a.(0)) (cell a.(1))))
