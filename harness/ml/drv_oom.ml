(* drv_oom.ml — model side of harness/c/drv_oom.c (property C18): for a case
   and its fault plan `@oom=k` (k-th allocation of the call fails; absent = no
   failure) print the prediction of the allocation skeleton of Oom.v:
     nalloc=<attempted> ret=ok|fail [rt=ok|BAD] leak=<n> [obj=ok] *)
open Model
open Core

(* split a trailing "@oom=k" off the arguments *)
let oom_plan (a : string array) : int * string array =
  let n = Array.length a in
  if n > 0 && String.length a.(n - 1) > 5 && String.sub a.(n - 1) 0 5 = "@oom=" then
    (int_of_string (String.sub a.(n - 1) 5 (String.length a.(n - 1) - 5)), Array.sub a 0 (n - 1))
  else (0, a)

(* kind: blocks of the object/array the call hands to the caller on success *)
let oom_report (k : int) (kind : int) (obj : bool) (skel : oom_outcome aprog) =
  let r = arun (nat_of_int k) skel in
  out_int "nalloc" (int_of_nat (oom_count r));
  (match oom_val r with
   | OomFail -> out_str "ret" "fail"
   | OomOkCorrect -> out_str "ret" "ok"; out_str "rt" "ok"
   | OomOkWrong -> out_str "ret" "ok"; out_str "rt" "BAD"
   | OomCrash -> out_str "fault" "crash");
  out_z "leak" (oom_leak (n_of_int kind) r);
  if obj then out_str "obj" "ok"

let oom_reg name kind obj (f : string array -> oom_outcome aprog) =
  register name (fun a0 -> let (k, a) = oom_plan a0 in oom_report k kind obj (f a))

let l = nlist_of_arg
let n = n_of_string

let () =
  oom_reg "oom_dict_create" 2 false (fun _ -> oom_dict_create_skel);
  oom_reg "oom_dict_build" 0 true (fun a -> oom_case_dict_build (l a.(0)) (l a.(1)));
  oom_reg "oom_dict_encode" 0 false (fun a -> oom_case_dict_encode (l a.(0)));
  oom_reg "oom_dict_size" 0 false (fun a -> oom_case_dict_size (l a.(0)));
  oom_reg "oom_dict_stats" 0 false (fun a -> oom_case_dict_stats (l a.(0)));
  oom_reg "oom_dict_ratio" 0 false (fun a -> oom_case_dict_ratio (l a.(0)));
  oom_reg "oom_dict_decode" 1 false (fun _ -> oom_dict_decode_skel);
  oom_reg "oom_dict_decode_into" 0 false (fun _ -> oom_dict_decode_into_skel);
  oom_reg "oom_pfor_threshold" 0 false (fun a -> oom_case_pfor_threshold (l a.(0)));
  oom_reg "oom_pfor_encode" 0 false (fun a -> oom_case_pfor_encode (l a.(0)) (n a.(1)));
  oom_reg "oom_float_encode" 0 false (fun _ -> oom_float_encode_skel);
  oom_reg "oom_float_encode_auto" 0 false (fun _ -> oom_float_encode_auto_skel);
  oom_reg "oom_float_decode" 0 false (fun a -> oom_case_float_decode (l a.(0)));
  oom_reg "oom_adp_unique" 0 false (fun a -> oom_case_adp_unique (l a.(0)));
  oom_reg "oom_adp_analyze" 0 false (fun a -> oom_case_adp_unique (l a.(0)));
  oom_reg "oom_adp_encode_with" 0 false (fun a -> oom_case_adp_encode_with (l a.(0)) (n a.(1)));
  register "oom_adp_encode" (fun a0 ->
    let (k, a) = oom_plan a0 in
    (* sel / selF are measured on the C side by oom_adp_probe and re-checked
       by the C handler (facts=ok) *)
    out_str "facts" "ok";
    oom_report k 0 false (oom_case_adp_encode (l a.(0)) (n a.(1)) (n a.(2))));
  oom_reg "oom_adp_decode" 0 false (fun a -> oom_adp_decode_skel (n a.(1)));
  oom_reg "oom_bm_create" 2 false (fun _ -> oom_bm_create_skel);
  oom_reg "oom_bm_clone" 2 true (fun _ -> oom_bm_clone_skel);
  oom_reg "oom_bm_add" 0 true (fun a -> oom_case_bm_add (l a.(0)) (n a.(1)));
  oom_reg "oom_bm_remove" 0 true (fun a -> oom_case_bm_remove (l a.(0)) (n a.(1)));
  oom_reg "oom_bm_add_many" 0 true (fun a -> oom_case_bm_add_many (l a.(0)) (l a.(1)));
  oom_reg "oom_bm_add_range" 0 true (fun a -> oom_case_bm_add_range (l a.(0)) (n a.(1)) (n a.(2)));
  oom_reg "oom_bm_remove_range" 0 true (fun a -> oom_case_bm_remove_range (l a.(0)) (n a.(1)) (n a.(2)));
  oom_reg "oom_bm_and" 2 true (fun a -> oom_case_bm_and (l a.(0)) (l a.(1)));
  oom_reg "oom_bm_or" 2 true (fun a -> oom_case_bm_or (l a.(0)) (l a.(1)));
  oom_reg "oom_bm_xor" 2 true (fun a -> oom_case_bm_xor (l a.(0)) (l a.(1)));
  oom_reg "oom_bm_andnot" 2 true (fun a -> oom_case_bm_andnot (l a.(0)) (l a.(1)));
  oom_reg "oom_bm_encode" 0 true (fun _ -> oom_bm_encode_skel);
  oom_reg "oom_bm_decode" 2 false (fun _ -> oom_bm_decode_skel);
  oom_reg "oom_bm_to_array" 0 true (fun _ -> oom_bm_to_array_skel)
