(* drv_external.ml — model side of the external handlers (same output format
   as harness/c/drv_external.c) *)
open Model
open Core

let xz s = BZ.of_string s
let i63max = BZ.pred (BZ.shift_left BZ.one 63)
let i64min = BZ.neg (BZ.shift_left BZ.one 63)
let i32min = BZ.neg (BZ.shift_left BZ.one 31)
let i32max = BZ.pred (BZ.shift_left BZ.one 31)

let out_on k = function Some v -> out_n k v | None -> out_str k "none"
let out_ohex k = function Some v -> out_hex k v | None -> out_str k "none"

let le_readers bs w =
  let bs = firstn w bs in
  let wn = nat_of_int w in
  out_on "get" (ext_get bs wn);
  out_on "getq" (ext_getq bs wn);
  out_on "getqm" (ext_getq_medium bs wn);
  out_on "getqmrv" (ext_getq_medium_rv bs wn)

let be_readers bs w =
  let bs = firstn w bs in
  let wn = nat_of_int w in
  out_on "get" (extbe_get bs wn);
  out_on "getq" (extbe_getq bs wn)

let () = register "ext_rt" (fun a ->
  let x = n_of_string a.(0) in
  let bs = ext_put x in
  let w = List.length bs in
  out_int "w" w; out_hex "put" bs; out_str "frame" "ok"; out_str "guard" "ok";
  if w >= 1 && w <= 8 then le_readers bs w;
  out_int "len" (int_of_nat (ext_len x));
  out_int "uenc" (int_of_nat (ext_unsigned_encoding x));
  if BZ.leq (xz a.(0)) i63max then
    (match ext_signed_encoding (cz_of_string a.(0)) with
     | Some e -> out_int "senc" (int_of_nat e)
     | None -> out_str "senc" "none")
  else out_str "senc" "na")

let () = register "ext_fixed" (fun a ->
  let x = n_of_string a.(0) in
  let w = int_of_string a.(1) in
  if w < 1 || w > 8 then out_str "put" "none" else begin
    let wn = nat_of_int w in
    let p = ext_put_fixed x wn in
    out_ohex "put" p; out_str "guard" "ok";
    out_ohex "putq" (ext_putq x wn); out_str "guardq" "ok";
    out_ohex "putqm" (ext_putq_medium x wn); out_str "guardqm" "ok";
    match p with Some bs -> le_readers bs w | None -> ()
  end)

let () = register "extbe_rt" (fun a ->
  let x = n_of_string a.(0) in
  let bs = extbe_put x in
  let w = List.length bs in
  out_int "w" w; out_hex "put" bs; out_str "frame" "ok"; out_str "guard" "ok";
  if w >= 1 && w <= 8 then be_readers bs w;
  out_int "uenc" (int_of_nat (ext_unsigned_encoding x)))

let () = register "extbe_fixed" (fun a ->
  let x = n_of_string a.(0) in
  let w = int_of_string a.(1) in
  if w < 1 || w > 8 then out_str "put" "none" else begin
    let wn = nat_of_int w in
    let p = extbe_put_fixed x wn in
    out_ohex "put" p; out_str "guard" "ok";
    out_ohex "putq" (extbe_putq x wn); out_str "guardq" "ok";
    match p with Some bs -> be_readers bs w | None -> ()
  end)

let () = register "ext_getraw" (fun a ->
  let b = bytes_of_hex a.(0) in
  let w = int_of_string a.(1) in
  if w < 1 || w > 8 || w > List.length b then out_str "get" "none" else begin
    le_readers b w;
    let bs = firstn w b in
    out_on "beget" (extbe_get bs (nat_of_int w));
    out_on "begetq" (extbe_getq bs (nat_of_int w))
  end)

let () = register "ext_mono" (fun a ->
  let x = n_of_string a.(0) and y = n_of_string a.(1) in
  out_int "wa" (List.length (ext_put x));
  out_int "wb" (List.length (ext_put y));
  out_int "bwa" (List.length (extbe_put x));
  out_int "bwb" (List.length (extbe_put y)))

let bits_of_w w = if w = 3 then n_of_int 32 else n_of_int 64

let () = register "ext_signed" (fun a ->
  let v = xz a.(0) in
  let w = int_of_string a.(1) in
  if w = 3 && (BZ.lt v i32min || BZ.gt v i32max) then out_str "prep" "na"
  else if not (w = 3 || w = 5 || w = 6 || w = 7) then out_str "prep" "none"
  else begin
    let wn = nat_of_int w in
    match prepare_w wn (cz_of_z v) with
    | None -> out_str "prep" "ub"
    | Some p ->
      out_z "prep" p;
      (match ext_put_fixed (of_s64 p) wn with
       | None -> out_str "put" "none"
       | Some bs ->
         out_hex "put" bs; out_str "guard" "ok";
         (match ext_get bs wn with
          | None -> out_str "got" "none"
          | Some g ->
            let r = to_sbits (bits_of_w w) g in
            out_z "got" r;
            (match restore_w wn r with
             | None -> out_str "rest" "ub"
             | Some r' -> out_z "rest" r')))
  end)

let () = register "ext_restore" (fun a ->
  let v = xz a.(0) in
  let w = int_of_string a.(1) in
  if w = 3 && (BZ.lt v i32min || BZ.gt v i32max) then out_str "rest" "na"
  else if not (w = 3 || w = 5 || w = 6 || w = 7) then out_str "rest" "none"
  else
    match restore_w (nat_of_int w) (cz_of_z v) with
    | None -> out_str "rest" "ub"
    | Some r -> out_z "rest" r)

let () = register "ext_add" (fun a ->
  let b = bytes_of_hex a.(0) in
  let w = int_of_string a.(1) in
  let add = cz_of_string a.(2) in
  let force = a.(3) <> "0" in
  let len = List.length b in
  if w < 1 || w > 8 || w > len then out_str "w" "none" else begin
    match external_add b (nat_of_int w) add force with
    | None -> out_str "w" "none"
    | Some (rn, nb) ->
      let r = int_of_nat rn in
      let cap = if force then max len 8 else len in
      out_int "w" r;
      let show = if force && r > len && r <= cap then r else len in
      out_hex "buf" (firstn show nb);
      out_str "frame" "ok"; out_str "guard" "ok";
      let now = if r = 0 then w else if (not force) && r > w then w else r in
      if now >= 1 && now <= 8 && now <= cap then
        out_on "now" (ext_get (firstn now nb) (nat_of_int now))
  end)
