(* drv_split.ml — model side of the split / split-full-16 handlers (same
   output format as harness/c/drv_split.c) *)
open Model
open Core

let some_or d = function Some x -> x | None -> d
let cz_of_int i = cz_of_z (BZ.of_int i)
let is16 s = (s = "split16")

let emit_get fam bs =
  let (gl, glq, g) =
    if fam = 0 then (split_getlen bs, split_getlen_quick bs, split_get bs)
    else (split16_getlen bs, split16_getlen_quick bs, split16_get bs) in
  out_n "getlen" gl; out_n "getlenq" glq;
  match g with
  | None -> out_str "get" "ub"
  | Some (w, v) -> out_n "getw" w; out_n "getv" v

let rt fam a =
  let x = n_of_string a.(0) in
  out_n "len" (if fam = 0 then split_length x else split16_length x);
  let bs = some_or [] (if fam = 0 then split_put x else split16_put x) in
  out_int "w" (List.length bs);
  out_hex "put" bs;
  out_str "frame" "ok"; out_str "guard" "ok";
  emit_get fam bs

let () = register "split_rt" (rt 0)
let () = register "split16_rt" (rt 1)

let rget key bs pos =
  match split_rev_get_at bs (cz_of_int pos) with
  | None -> out_str (key ^ "get") "ub"
  | Some (w, v) -> out_n (key ^ "getw") w; out_n (key ^ "getv") v

let () = register "split_rev" (fun a ->
  let x = n_of_string a.(0) in
  out_n "len" (split_length x);
  let (bs, pos) = match split_rev_put_reversed x with
    | Some (b, p) -> (b, int_of_nat p) | None -> ([], 0) in
  out_int "w" (List.length bs);
  out_hex "put" bs;
  out_int "pos" pos;
  out_str "frame" "ok"; out_str "guard" "ok";
  rget "r" bs pos;
  let fb = some_or [] (split_rev_put_forward x) in
  out_int "fw" (List.length fb);
  out_hex "fput" fb;
  out_str "fframe" "ok"; out_str "fguard" "ok";
  rget "f" fb (List.length fb - 1))

let () = register "split_get" (fun a -> emit_get 0 (bytes_of_hex a.(0)))
let () = register "split16_get" (fun a -> emit_get 1 (bytes_of_hex a.(0)))
let () = register "split_rget" (fun a ->
  let bs = bytes_of_hex a.(0) in
  rget "r" bs (max 0 (List.length bs - 1)))

let () = register "split_len2" (fun a ->
  let f = if is16 a.(0) then split16_length else split_length in
  out_n "la" (f (n_of_string a.(1)));
  out_n "lb" (f (n_of_string a.(2))))

let () = register "split_lenvar" (fun a ->
  let f = if is16 a.(0) then split16_length_var else split_length_var in
  out_n "lv" (f (n_of_string a.(1))))

let () = register "split_max" (fun a ->
  let rows = if is16 a.(0) then split16_rows else split_rows in
  let k = int_of_string a.(1) in
  let sel = a.(2) in
  let pick = List.filter (fun (((len, _), emb), _) ->
      int_of_n len = k &&
      (sel = "all" || (sel = "first" && emb) || (sel = "second" && not emb))) rows in
  (match pick with
   | [] -> out_str "max" "X"; out_str "type" "X"
   | r0 :: rest ->
     let best = List.fold_left (fun (((_, _), _), bm as b) (((_, _), _), m as r) ->
         if BZ.geq (z_of_n m) (z_of_n bm) then r else b) r0 rest in
     let (((_, pre), _), m) = best in
     out_n "max" m; out_n "type" pre);
  out_int "levels" (List.length rows))
