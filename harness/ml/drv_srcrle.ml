(* drv_srcrle.ml — model side of the src_rle_* handlers: runs the functions that
   gen/c2coq.py regenerated from the current src/varintRLE.c (same output format
   as harness/c/drv_srcrle.c).  Loops get 4096 iterations of fuel. *)
open Model
open Core

let fuel = nat_of_int 4096
let why = function
  | None -> "untranslated"
  | Some COob -> "oob"
  | Some (CUB _) -> "ub"
  | Some CFuel -> "fuel"
  | Some (COk _) -> "ok"
let scalar r = match r with Some (COk w) -> out_z "ret" w | _ -> out_str "ret" (why r)
let rec rep n x = if n <= 0 then [] else x :: rep (n - 1) x
let init_vals cap = rep cap (cz_of_string "7777")

let () = register "src_rle_dec" (fun a ->
  let cap = int_of_string a.(1) in
  let r = if a.(2) <> "0"
    then srcrun_varintRLEDecodeWithHeader fuel (bytes_of_hex a.(0)) (init_vals cap) (cz_of_string a.(1))
    else srcrun_varintRLEDecode fuel (bytes_of_hex a.(0)) (init_vals cap) (cz_of_string a.(1)) in
  match r with
  | Some (COk (n, vs)) -> out_z "ret" n; out_zlist "vals" vs
  | _ -> out_str "ret" (why r))
let () = register "src_rle_run" (fun a ->
  let r = srcrun_varintRLEDecodeRun (bytes_of_hex a.(0)) None None in
  match r with
  | Some (COk ((n, Some l), Some v)) -> out_z "ret" n; out_z "len" l; out_z "val" v
  | Some (COk _) -> out_str "ret" "unset"
  | _ -> out_str "ret" (why r))
let () = register "src_rle_at" (fun a -> scalar (srcrun_varintRLEGetAt fuel (bytes_of_hex a.(0)) (cz_of_string a.(1))))
let () = register "src_rle_count" (fun a -> scalar (srcrun_varintRLEGetCount (bytes_of_hex a.(0))))
let () = register "src_rle_rc" (fun a ->
  let b = bytes_of_hex a.(0) in
  scalar (srcrun_varintRLEGetRunCount fuel b (cz_of_z (BZ.of_int (List.length b)))))

(* encoders and the analysis (struct varintRLEMeta out-parameter, NULL allowed) *)
let out_meta = function
  | None -> out_str "meta" "null"
  | Some (((c, r), e), u) ->
    let f = function None -> "unset" | Some v -> string_of_cz v in
    out_str "meta" (String.concat "," [f c; f r; f e; f u])
let blank = Some (((None, None), None), None)
let () = register "src_rle_enc" (fun a ->
  let vs = zlist_of_arg a.(0) in
  let n = cz_of_z (BZ.of_int (List.length vs)) in
  let meta = if a.(2) <> "0" then blank else None in
  let r = if a.(1) <> "0" then srcrun_varintRLEEncodeWithHeader fuel (bytes_of_hex a.(3)) vs n meta
          else srcrun_varintRLEEncode fuel (bytes_of_hex a.(3)) vs n meta in
  match r with
  | Some (COk ((w, out), m)) -> out_z "ret" w; out_hex "buf" out; out_meta m
  | _ -> out_str "ret" (why r))
let () = register "src_rle_size" (fun a ->
  let vs = zlist_of_arg a.(0) in
  let n = cz_of_z (BZ.of_int (List.length vs)) in
  scalar (srcrun_varintRLESize fuel vs n);
  (match srcrun_varintRLEIsBeneficial fuel vs n with Some (COk b) -> out_z "ben" b | r -> out_str "ben" (why r));
  (match srcrun_varintRLEAnalyze fuel vs n blank with
   | Some (COk (b, m)) -> out_z "ana" b; out_meta m
   | r -> out_str "ana" (why r)))
