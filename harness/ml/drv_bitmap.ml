(* drv_bitmap.ml — model side of harness/c/drv_bitmap.c (same output text) *)
open Model
open Core

let pool_size = 4
let xcap = 65536 + 64

let ints_of_nlist (l : n list) : int list = List.map int_of_n l

(* values as maximal chunks of consecutive increments: "3-7,9,12-13" *)
let intervals (v : int array) (n : int) : string =
  let b = Buffer.create 256 in
  let i = ref 0 and first = ref true in
  while !i < n do
    let j = ref !i in
    while !j + 1 < n && v.(!j + 1) = v.(!j) + 1 do incr j done;
    if not !first then Buffer.add_char b ',';
    if !j > !i then Buffer.add_string b (Printf.sprintf "%d-%d" v.(!i) v.(!j))
    else Buffer.add_string b (string_of_int v.(!i));
    first := false;
    i := !j + 1
  done;
  Buffer.contents b

let groups (v : int array) (n : int) : int =
  let g = ref 0 in
  for i = 0 to n - 1 do
    if i = 0 || v.(i) <> v.(i - 1) + 1 then incr g
  done;
  !g

let split_on c s = if s = "" then [] else String.split_on_char c s

let () = register "bm_ops" (fun a ->
  let ops = if Array.length a > 0 then a.(0) else "" in
  let hex = if Array.length a > 1 then bytes_of_hex a.(1) else [] in
  let hexlen = List.length hex in
  let pool = Array.make pool_size bm_create in
  let step = ref 0 in
  List.iter (fun tok ->
    if tok <> "" then begin
      let op = tok.[0] in
      let fld = Array.of_list (List.map int_of_string (split_on '.' (String.sub tok 1 (String.length tok - 1)))) in
      let nf = Array.length fld in
      let i = if nf > 0 then fld.(0) land 3 else 0 in
      let pv = ref [] in
      let flag = ref '-' in
      let extra = ref "" in
      let exp_full = ref false and iter_full = ref false in
      let nv k = n_of_int (fld.(k) land 65535) in
      let setflag b = flag := if b then '1' else '0' in
      (match op with
       | 'a' -> let (s, f) = bm_add pool.(i) (nv 1) in pool.(i) <- s; setflag f; pv := [fld.(1)]
       | 'r' -> let (s, f) = bm_remove pool.(i) (nv 1) in pool.(i) <- s; setflag f; pv := [fld.(1)]
       | 'q' -> setflag (bm_contains pool.(i) (nv 1)); pv := [fld.(1)]
       | 'A' -> pool.(i) <- bm_add_range pool.(i) (nv 1) (nv 2); pv := [fld.(1); fld.(2)]
       | 'R' -> pool.(i) <- bm_remove_range pool.(i) (nv 1) (nv 2); pv := [fld.(1); fld.(2)]
       | 'z' -> pool.(i) <- bm_clear pool.(i)
       | 'p' -> pool.(i) <- bm_optimize pool.(i)
       | 'm' ->
         let vs = List.init (nf - 1) (fun k -> nv (k + 1)) in
         pool.(i) <- bm_add_many pool.(i) vs;
         pv := List.init (min (nf - 1) 3) (fun k -> fld.(k + 1))
       | 'k' -> let j = fld.(1) land 3 in pool.(i) <- bm_clone pool.(j); extra := ":u1"
       | 'n' | 'o' | 'x' | 'd' ->
         let j = fld.(1) land 3 and k = fld.(2) land 3 in
         let r = (match op with
             | 'n' -> bm_and pool.(j) pool.(k)
             | 'o' -> bm_or pool.(j) pool.(k)
             | 'x' -> bm_xor pool.(j) pool.(k)
             | _ -> bm_andnot pool.(j) pool.(k)) in
         pool.(i) <- r; extra := ":u1"
       | 's' ->
         let bs = bm_encode pool.(i) in
         let w = List.length bs in
         let h = ref 0 in
         List.iteri (fun k b -> h := (!h + (k + 1) * int_of_n b) land 0xFFFFFFFF) bs;
         let (r, _) = bm_decode bs (n_of_int w) in
         (match r with Some s -> pool.(i) <- s; setflag true | None -> setflag false);
         extra := Printf.sprintf ":L%d:h%d:gok" w !h
       | 'D' ->
         let (r, alloc) = bm_decode hex (n_of_int hexlen) in
         let ok = ref 1 in
         (match r with
          | Some s ->
            let bound = 24 + (if hexlen > 8192 then hexlen else 8192) + 64 in
            ok := if int_of_n alloc <= bound then 1 else 0;
            pool.(i) <- s; setflag true
          | None -> setflag false);
         extra := Printf.sprintf ":m%d" !ok
       | 'e' -> exp_full := true
       | 't' -> iter_full := true
       | _ -> ());
      let vb = pool.(i) in
      let (((size, ty), card), cap) = bm_get_stats vb in
      let cardi = int_of_n (bm_cardinality vb) in
      let digest = cardi <= 1024 || not (op = 'a' || op = 'r' || op = 'q') || !step mod 8 = 0 in
      let ex = if digest || !exp_full then Array.of_list (ints_of_nlist (bm_to_array vb)) else [||] in
      let n = Array.length ex in
      let over = n > cardi in
      let lim = min n xcap in
      let b = Buffer.create 64 in
      if digest then begin
        let sum = ref 0 in
        for k = 0 to lim - 1 do sum := !sum + ex.(k) done;
        Buffer.add_string b (Printf.sprintf "%c:%d:%d:%d:%d:%d:%d%s:%d:%d:" !flag cardi
                               (if bm_is_empty vb then 1 else 0) (int_of_n ty) (int_of_n cap) (int_of_n size)
                               n (if over then "!" else "") !sum (groups ex lim))
      end else
        Buffer.add_string b (Printf.sprintf "%c:%d:%d:%d:%d:%d:-:-:-:" !flag cardi
                               (if bm_is_empty vb then 1 else 0) (int_of_n ty) (int_of_n cap) (int_of_n size));
      let pr = ref [] in
      List.iter (fun x ->
          if x - 1 >= 0 then pr := (x - 1) :: !pr;
          pr := x :: !pr;
          if x + 1 <= 65535 then pr := (x + 1) :: !pr) !pv;
      let pr = List.rev !pr @ [0; 4095; 4096; 65535] in
      List.iter (fun x -> Buffer.add_char b (if bm_contains vb (n_of_int (x land 65535)) then '1' else '0')) pr;
      Buffer.add_string b !extra;
      out_str (string_of_int !step) (Buffer.contents b);
      if !exp_full then out_str (string_of_int !step ^ "e") (intervals ex lim);
      if !iter_full then begin
        let acc = ref [] and cnt = ref 0 in
        let it = ref bm_iter_init in
        let go = ref true in
        while !go && !cnt < xcap do
          let (it', f) = bm_iter_next vb !it in
          it := it';
          if f && bm_it_has it' then begin acc := int_of_n (bm_it_cur it') :: !acc; incr cnt end
          else go := false
        done;
        let arr = Array.of_list (List.rev !acc) in
        out_str (string_of_int !step ^ "t")
          (intervals arr (Array.length arr) ^ (if bm_it_has !it then "/h1" else "/h0"))
      end;
      incr step
    end) (split_on ',' ops))
