(* drv_rledict.ml — model side of the RLE / dictionary handlers (same output
   format as harness/c/drv_rledict.c) *)
open Model
open Core

let two64 = BZ.shift_left BZ.one 64

(* segment list "L c,s,d,..." -> values *)
let segs_of_arg (s : string) : n list =
  let t = Array.of_list (List.map BZ.of_string (list_of_arg s)) in
  let k = Array.length t in
  let acc = ref [] in
  let j = ref 0 in
  while !j + 3 <= k do
    let c = BZ.to_int t.(!j) and d = t.(!j + 2) in
    let x = ref t.(!j + 1) in
    for _ = 1 to c do
      acc := n_of_z !x :: !acc;
      x := BZ.erem (BZ.add !x d) two64
    done;
    j := !j + 3
  done;
  List.rev !acc

let n_eq a b = BZ.equal (z_of_n a) (z_of_n b)
let len l = List.length l

let fnv (l : n list) : string =
  let h = ref 0xcbf29ce484222325L in
  List.iter (fun b ->
    h := Int64.logxor !h (Int64.of_int (int_of_n b land 255));
    h := Int64.mul !h 0x100000001b3L) l;
  Printf.sprintf "%016Lx" !h

let rec drop k l = if k <= 0 then l else match l with [] -> [] | _ :: t -> drop (k - 1) t

let out_blob k (l : n list) =
  let n = len l in
  if n <= 1024 then out_hex k l
  else begin
    let hd = hex_of_bytes (firstn 32 l) and tl = hex_of_bytes (drop (n - 32) l) in
    out_str k (Printf.sprintf "%d:%s..%s:%s" n
                 (String.sub hd 1 (String.length hd - 1))
                 (String.sub tl 1 (String.length tl - 1)) (fnv l))
  end

let out_cmp k (got : n list) (exp : n list) =
  if len got <> len exp then out_str k (Printf.sprintf "len%d" (len got))
  else begin
    let rec go i g e = match g, e with
      | x :: g', y :: e' -> if n_eq x y then go (i + 1) g' e' else Some (i, x)
      | _ -> None in
    match go 0 got exp with
    | None -> out_str k "ok"
    | Some (i, x) -> out_str k (Printf.sprintf "bad@%d:%s" i (string_of_n x))
  end

let out_meta k (m : rle_meta) =
  out_nlist k [m.rm_count; m.rm_run_count; m.rm_encoded_size; m.rm_unique_values]

let sample_index i count =
  if count <= 96 then true
  else if count > 10000 then i < 3 || i + 3 >= count || i mod (count / 6 + 1) = 0
  else if i < 8 || i + 8 >= count then true
  else i mod (count / 16 + 1) = 0

let out_rres_len k r = match r with
  | RleOk l -> out_int k (len l)
  | RleFuel _ -> out_str k "fuel"

let out_optn k = function Some x -> out_n k x | None -> out_str k "fuel"

let () = register "rle_enc" (fun a ->
  let v = segs_of_arg a.(0) in
  let hdr = a.(1) <> "0" in
  let count = len v in
  let cn = n_of_int count in
  out_n "max" (rle_max_size cn);
  out_n "size" (rle_size v);
  let (bytes, meta) = if hdr then rle_encode_with_header v else rle_encode v in
  let n = len bytes in
  out_int "n" n; out_str "guard" "ok"; out_str "frame" "ok";
  out_blob "bytes" bytes;
  out_meta "meta" meta;
  out_int "n2" n; out_str "guard2" "ok";
  let (am, ben) = rle_analyze v in
  out_meta "ameta" am;
  out_int "ben" (if ben then 1 else 0);
  out_int "ben2" (if rle_is_beneficial v then 1 else 0);
  let r = if hdr then rle_decode_with_header bytes cn else rle_decode bytes cn in
  out_rres_len "dn" r;
  out_cmp "rt" (rle_stores r) v;
  out_str "dguard" "ok";
  if hdr then begin
    out_n "getcount" (rle_get_count bytes);
    let hl = int_of_n (tagged_len cn) in
    if n >= hl then out_optn "rc" (rle_get_run_count (drop hl bytes) (n_of_int (n - hl)))
    else out_int "rc" 0
  end else begin
    let at = ref "ok" in
    (try
       List.iteri (fun i x ->
         if sample_index i count then
           match rle_get_at bytes (n_of_int i) with
           | Some y -> if not (n_eq x y) then begin
               at := Printf.sprintf "bad@%d:%s" i (string_of_n y); raise Exit end
           | None -> at := Printf.sprintf "fuel@%d" i; raise Exit) v
     with Exit -> ());
    out_str "at" !at;
    out_optn "rc" (rle_get_run_count bytes (n_of_int n))
  end)

let () = register "rle_cap" (fun a ->
  let v = segs_of_arg a.(0) in
  let hdr = a.(1) <> "0" in
  let cap = n_of_string a.(2) in
  let capi = int_of_n cap in
  let (bytes, _) = if hdr then rle_encode_with_header v else rle_encode v in
  let r = if hdr then rle_decode_with_header bytes cap else rle_decode bytes cap in
  out_int "n" (len bytes);
  out_rres_len "ret" r;
  out_str "guard" "ok";
  let st = rle_stores r in
  out_int "touched" (len st);
  let k = min (len st) capi in
  out_cmp "out" (firstn k st) (firstn k v))

let () = register "rle_hostile" (fun a ->
  let b = bytes_of_hex a.(0) in
  let cap = n_of_string a.(1) in
  let r = rle_decode b cap in
  out_rres_len "ret" r;
  out_str "guard" "ok";
  let st = rle_stores r in
  out_int "touched" (len st);
  out_nlist "out" st)

let () = register "rle_hostile_hdr" (fun a ->
  let b = bytes_of_hex a.(0) in
  let cap = n_of_string a.(1) in
  let r = rle_decode_with_header b cap in
  out_rres_len "ret" r;
  out_str "guard" "ok";
  let st = rle_stores r in
  out_int "touched" (len st);
  out_nlist "out" st)

let () = register "rle_rc" (fun a ->
  let b = bytes_of_hex a.(0) in
  out_optn "rc" (rle_get_run_count b (n_of_int (len b))))

let minus_one = cz_of_z BZ.minus_one
let u64max = n_of_z (BZ.pred two64)
let nadd1 x = n_of_z (BZ.erem (BZ.succ (z_of_n x)) two64)
let nsub1 x = n_of_z (BZ.erem (BZ.pred (z_of_n x)) two64)

let out_dict_info (v : n list) =
  match dict_build v with
  | DictBuildFail -> out_int "build" (-1)
  | DictBuildOverflow -> out_str "build" "overflow"
  | DictBuildOk d ->
    out_int "build" 0;
    out_n "ds" d.dct_size;
    out_int "dw" (int_of_nat d.dct_index_width);
    let dict_arr = Array.of_list v in
    let count = Array.length dict_arr in
    let probes = List.concat_map (fun i -> [dict_arr.(i); nadd1 dict_arr.(i); nsub1 dict_arr.(i)]) [0; count / 2; count - 1]
                 @ [n_of_int 0; u64max] in
    let lk = ref "ok" in
    let res = List.map (fun p ->
      match dict_find d p with
      | None -> lk := "fuel"; minus_one
      | Some r ->
        if BZ.sign (z_of_cz r) >= 0 && not (n_eq (dict_lookup d (n_of_z (z_of_cz r))) p) then lk := "bad";
        r) probes in
    out_zlist "find" res;
    out_str "lookup" !lk;
    out_n "lookup_oob" (dict_lookup d d.dct_size)

let out_stats v =
  match dict_get_stats v with
  | None -> out_str "st" "fail"
  | Some (((((a, b), c), d), e), f) -> out_nlist "st" [a; b; c; d; e; f]

let decode_both (bytes : n list) (v : n list) =
  let n = n_of_int (len bytes) in
  (match dict_decode bytes n with
   | DictOk (out, _) -> out_str "dec" "ok"; out_int "oc" (len out); out_cmp "rt" out v
   | DictFuel -> out_str "dec" "fuel"
   | _ -> out_str "dec" "null");
  (match dict_decode_into bytes n (n_of_int (len v)) with
   | DictOk (out, _) -> out_int "di" (len out); out_cmp "rt2" out v
   | DictFuel -> out_str "di" "fuel"
   | _ -> out_int "di" 0; out_cmp "rt2" [] v);
  out_str "dguard" "ok"

let () = register "dict_enc" (fun a ->
  let v = segs_of_arg a.(0) in
  let size = dict_encoded_size v in
  out_n "size" size;
  let r = dict_encode v in
  let n = int_of_n (dict_ret r) in
  out_int "n" n;
  (* bytes written on a failed encode are inside the advertised size iff their
     number does not exceed it *)
  let written = len (fst r) in
  out_str "guard" (if written <= int_of_n size then "ok" else "hi");
  out_str "frame" (if n = written || written = 0 then "ok" else "dirty");
  out_blob "bytes" (firstn n (fst r));
  if n > 0 then decode_both (fst r) v;
  if v <> [] then out_dict_info v;
  out_stats v)

let () = register "dict_with" (fun a ->
  let dv = segs_of_arg a.(0) in
  let v = segs_of_arg a.(1) in
  match dict_build dv with
  | DictBuildFail -> out_int "build" (-1)
  | DictBuildOverflow -> out_str "build" "overflow"
  | DictBuildOk d ->
    out_int "build" 0;
    let size = dict_encoded_size_with_dict d (n_of_int (len v)) in
    out_n "size" size;
    let r = dict_encode_with_dict d v in
    let n = int_of_n (dict_ret r) in
    out_int "n" n;
    out_str "guard" (if len (fst r) <= int_of_n size then "ok" else "hi");
    if n > 0 then begin
      out_blob "bytes" (fst r);
      decode_both (fst r) v
    end)

let () = register "dict_cap" (fun a ->
  let v = segs_of_arg a.(0) in
  let cap = n_of_string a.(1) in
  let r = dict_encode v in
  let bytes = if snd r then fst r else [] in
  out_int "n" (len bytes);
  let (ret, st) = match dict_decode_into bytes (n_of_int (len bytes)) cap with
    | DictOk (out, _) -> (len out, out)
    | DictPartial (out, _) -> (0, out)
    | _ -> (0, []) in
  out_int "ret" ret;
  out_str "guard" (if len st <= int_of_n cap then "ok" else "hi");
  out_int "touched" (len st);
  let k = min ret (int_of_n cap) in
  out_cmp "out" (firstn k st) (firstn k v))

let () = register "dict_dec" (fun a ->
  let b = bytes_of_hex a.(0) in
  let cap = n_of_string a.(1) in
  let n = n_of_int (len b) in
  (match dict_decode b n with
   | DictOk (out, _) -> out_str "dec" "ok"; out_int "oc" (len out); out_nlist "out" (firstn 4096 out)
   | DictFuel -> out_str "dec" "fuel"
   | _ -> out_str "dec" "null");
  let (ret, st) = match dict_decode_into b n cap with
    | DictOk (out, _) -> (string_of_int (len out), out)
    | DictPartial (out, _) -> ("0", out)
    | DictFuel -> ("fuel", [])
    | _ -> ("0", []) in
  out_str "di" ret;
  out_str "guard" (if len st <= int_of_n cap then "ok" else "hi");
  out_int "touched" (len st);
  out_nlist "out2" st)
