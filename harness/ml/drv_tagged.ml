(* drv_tagged.ml — model side of the tagged handlers (same output format as
   harness/c/drv_tagged.c) *)
open Model
open Core

let two32 = n_of_z (BZ.shift_left BZ.one 32)
let n_lt a b = BZ.lt (z_of_n a) (z_of_n b)
let nine = cz_of_z (BZ.of_int 9)

let () = register "tagged_rt" (fun a ->
  let x = n_of_string a.(0) in
  let bs = tagged_put64 x in
  out_int "w" (List.length bs);
  out_hex "put" bs;
  out_str "frame" "ok"; out_str "guard" "ok";
  let (gw, gv) = tagged_get bs nine in
  out_n "getw" gw; out_n "getv" gv;
  let (gw, gv) = tagged_get64 bs in
  out_n "get64w" gw; out_n "get64v" gv;
  out_n "getrv" (tagged_get64_return_value bs);
  out_n "getq" (tagged_get64_quick bs);
  out_n "len" (tagged_len x);
  out_n "lenq" (tagged_len_quick x);
  out_n "getlen" (tagged_getlen bs);
  out_n "getlenq" (tagged_getlen bs);
  if n_lt x two32 then begin
    let b2 = tagged_put32 x in
    out_int "w32" (List.length b2);
    out_hex "put32" b2; out_str "frame32" "ok";
    let (w, v) = tagged_get32 bs in
    out_n "get32w" w; out_n "get32v" v
  end)

let () = register "tagged_fixed" (fun a ->
  let x = n_of_string a.(0) in
  let width = n_of_string a.(1) in
  let r = tagged_put64_fixed x width in
  let bs = match r with Some b -> b | None -> [] in
  out_int "w" (List.length bs);
  out_hex "put" bs; out_str "frame" "ok"; out_str "guard" "ok";
  let q = match tagged_put64_fixed_quick x width with Some b -> b | None -> [] in
  out_hex "putq" q; out_str "frameq" "ok"; out_str "guardq" "ok";
  let w = List.length bs in
  if w >= 1 && w <= 9 then begin
    let (gw, gv) = tagged_get bs (cz_of_z (BZ.of_int w)) in
    out_n "getw" gw; out_n "getv" gv
  end)

let () = register "tagged_getn" (fun a ->
  let b = bytes_of_hex a.(0) in
  let n = int_of_string a.(1) in
  let len = List.length b in
  let give = if n < 0 then 0 else min n len in
  let nn = if give < n then give else n in
  let (w, v) = tagged_get (firstn give b) (cz_of_z (BZ.of_int nn)) in
  out_n "w" w;
  if int_of_n w <> 0 then out_n "v" v else out_str "v" "untouched")

let sgn = function Eq -> 0 | Lt -> -1 | Gt -> 1

let () = register "tagged_cmp" (fun a ->
  let x = n_of_string a.(0) and y = n_of_string a.(1) in
  let ea = tagged_put64 x and eb = tagged_put64 y in
  out_int "cmp" (sgn (lex ea eb));
  out_hex "ea" ea; out_hex "eb" eb)

let () = register "tagged_tuple_cmp" (fun a ->
  let xs = nlist_of_arg a.(0) and ys = nlist_of_arg a.(1) in
  let ka = List.concat_map tagged_put64 xs and kb = List.concat_map tagged_put64 ys in
  out_int "cmp" (sgn (lex ka kb));
  out_hex "ka" ka; out_hex "kb" kb;
  out_str "rev" "same")

let () = register "tagged_keys" (fun a ->
  let x = n_of_string a.(0) and x0 = n_of_string a.(1) and y = n_of_string a.(2) in
  let kb = tagged_put64 y in
  let k = tagged_put64 x in
  out_hex "k64" k; out_int "c64" (sgn (lex k kb));
  if BZ.lt (z_of_n x) (BZ.shift_left BZ.one 32) then begin
    let k = tagged_put32 x in out_hex "k32" k; out_int "c32" (sgn (lex k kb)) end;
  let k = match tagged_put64_fixed x (tagged_len x) with Some b -> b | None -> [] in
  out_hex "kfix" k; out_int "cfix" (sgn (lex k kb));
  let k = match tagged_put64_fixed_quick x (tagged_len x) with Some b -> b | None -> [] in
  out_hex "kq" k; out_int "cq" (sgn (lex k kb));
  let lim = BZ.shift_left BZ.one 63 in
  if BZ.lt (z_of_n x) lim && BZ.lt (z_of_n x0) lim then begin
    let p = tagged_put64 x0 @ [n_of_int 0; n_of_int 0; n_of_int 0; n_of_int 0; n_of_int 0; n_of_int 0; n_of_int 0; n_of_int 0; n_of_int 0] in
    let (w, nb) = tagged_add p (cz_of_z (BZ.sub (z_of_n x) (z_of_n x0))) true in
    out_n "wadd" w;
    let l = int_of_n (tagged_getlen nb) in
    let k = firstn l nb in
    out_hex "kadd" k; out_int "cadd" (sgn (lex k kb)) end)

let () = register "tagged_add" (fun a ->
  let b = bytes_of_hex a.(0) in
  let add = cz_of_string a.(1) in
  let force = a.(2) <> "0" in
  let cur = int_of_n (tagged_getlen b) in
  let (w, nb) = tagged_add b add force in
  let wi = int_of_n w in
  out_int "w" wi;
  let show = if (not force) || wi = 0 then cur else max wi cur in
  out_hex "buf" (firstn show nb);
  out_str "frame" "ok"; out_str "guard" "ok")
