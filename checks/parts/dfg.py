"""dfg — delta, frame-of-reference and group codecs (src/varintDelta.*, varintFOR.*, varintGroup.*)
contributions to C02 (lossless + random access), C03 (advertised size), C13 (output capacity),
C16 (metadata / header accessors).

Handlers (harness/c/drv_dfg.c, harness/ml/drv_dfg.ml):
  zigzag n | unzigzag u | delta_put d | delta_s L<int64> | delta_u L<uint64>
  for_enc L<uint64> mode(0..4) | for_encm L<uint64> min width | for_cap L<values> L<caps>
  for_capx x<stream> L<caps> | group L<values> fieldCount | group_cap L<values> L<caps>
  group_capx x<stream> L<caps>
Every oracle below evaluates the property statement on the C output alone.
"""
from vlib import *  # noqa

FILES = ["src/varintDelta.c", "src/varintDelta.h", "src/varintFOR.c", "src/varintFOR.h",
         "src/varintGroup.c", "src/varintGroup.h"]

I64_MIN, I64_MAX = -(1 << 63), (1 << 63) - 1

LENS_SMALL = [1, 2, 3, 4, 5, 7, 8, 9, 15, 16, 17, 31, 32, 33, 63, 64, 65]
LENS_MID = [127, 128, 129, 240, 241, 255, 256, 257]
LENS_BIG = [2287, 2288, 4095, 4096, 4097]
LENS_HUGE = [65535, 65536]


def Lp(s):
    return [int(x) for x in s[1:].split(",")] if len(s) > 1 else []


# ----------------------------------------------------------------- reference arithmetic (python)

def nbytes(v):
    """the `while ((v >>= 8) != 0) w++` width"""
    w = 1
    while v >> 8:
        v >>= 8
        w += 1
    return w


def tagged_len(x):
    if x <= 240:
        return 1
    if x <= 2287:
        return 2
    if x <= 67823:
        return 3
    return 1 + max(3, nbytes(x))


def tag(x, width=None):
    """tagged varint bytes (README format); width forces a longer, non-canonical form (4..9)"""
    if width is None:
        if x <= 240:
            return [x]
        if x <= 2287:
            return [(x - 240) // 256 + 241, (x - 240) % 256]
        if x <= 67823:
            return [249, (x - 2288) // 256, (x - 2288) % 256]
        width = tagged_len(x)
    k = width - 1
    return [247 + k] + list(x.to_bytes(k, "big"))


def zigzag(n):
    return 2 * n if n >= 0 else -2 * n - 1


def norm_width(v):
    w = nbytes(v)
    return 1 if w <= 1 else 2 if w <= 2 else 4 if w <= 4 else 8


# ----------------------------------------------------------------- value pools

def width_ranges():
    """ranges max-min straddling every offset-width boundary"""
    s = {0, 1, 2, U64, U64 - 1}
    for k in range(1, 8):
        s |= {256 ** k - 2, 256 ** k - 1, 256 ** k, 256 ** k + 1}
    return sorted(s)


def tagged_bases():
    """minima straddling every tagged-length boundary (min is stored as a tagged varint)"""
    s = {0, 1, 240, 241, 2287, 2288, 67823, 67824}
    for k in range(3, 8):
        s |= {256 ** k - 1, 256 ** k}
    s |= {(1 << 63) - 1, 1 << 63, U64}
    return sorted(s)


def delta_steps():
    """signed deltas straddling every zigzag byte-width boundary"""
    s = {0, 1, -1, 2, -2, I64_MAX, I64_MIN, I64_MAX - 1, I64_MIN + 1}
    for k in range(1, 8):
        h = 1 << (8 * k - 1)
        s |= {h - 2, h - 1, h, h + 1, -h + 1, -h, -h - 1, -h - 2}
    return sorted(s)


def literal_pool():
    return [v for v in scraped_literals(FILES)]


def span_array(rng, n, base, R, shape):
    """n values with min = base and (n >= 2) max = base + R exactly"""
    R = min(R, U64 - base)
    if n == 1:
        return [base]
    mid = [base + (rng.getrandbits(64) % (R + 1)) for _ in range(n - 2)]
    v = [base, base + R] + mid
    if shape == "asc":
        v.sort()
    elif shape == "desc":
        v.sort(reverse=True)
    elif shape == "rand":
        rng.shuffle(v)
    elif shape == "ends":      # extremes last / first
        v = mid + [base + R, base]
    return v


def walk_signed(rng, n, steps, start=None):
    """int64 values whose consecutive differences are all representable in int64"""
    cur = start if start is not None else rng.choice([0, -1, 1, I64_MAX, I64_MIN, rng.randint(-1000, 1000),
                                                       rng.getrandbits(63) - (1 << 62)])
    out = [cur]
    tries = 0
    while len(out) < n:
        d = rng.choice(steps) if rng.random() < 0.8 else rng.randint(-(1 << rng.randint(1, 62)), 1 << rng.randint(1, 62))
        nxt = cur + d
        tries += 1
        if I64_MIN <= nxt <= I64_MAX and I64_MIN <= d <= I64_MAX:
            out.append(nxt)
            cur = nxt
        elif tries > 50 * n:
            out.append(cur)
    return out


def walk_unsigned(rng, n, steps, start=None):
    cur = start if start is not None else rng.choice([0, 1, U64, 1 << 63, (1 << 63) - 1, rand_u64(rng)])
    out = [cur]
    while len(out) < n:
        if rng.random() < 0.8:
            cur = (cur + rng.choice(steps)) & U64
        else:
            cur = rand_u64(rng)
        out.append(cur)
    return out


def rand_len(rng, hi=300):
    r = rng.random()
    if r < 0.5:
        return rng.randint(1, 20)
    if r < 0.9:
        return rng.randint(1, hi)
    return rng.choice(LENS_SMALL + LENS_MID)


# ----------------------------------------------------------------- generators: encoder / decoder cases

def gen_delta(rng, tier, heavy=True):
    steps = delta_steps()
    lits = literal_pool()
    for d in steps:
        yield "zigzag %d" % d
        yield "delta_put %d" % d
    for v in boundary_values():
        yield "unzigzag %d" % v
        if v <= I64_MAX:
            yield "zigzag %d" % v
            yield "zigzag %d" % (-v)
    yield "delta_s L"
    yield "delta_u L"
    # single elements and pairs at every base-width / delta-width boundary
    for b in tagged_bases() + width_ranges():
        yield "delta_u L%d" % b
        sb = b if b <= I64_MAX else b - (1 << 64)
        yield "delta_s L%d" % sb
        yield "delta_s L%d" % (-sb if I64_MIN <= -sb <= I64_MAX else sb)
    for d in steps:
        for start in (0, 1 << 63, U64, 12345):
            yield "delta_u %s" % lst([start, (start + d) & U64])
        for start in (0, -1, I64_MAX, I64_MIN, 1000):
            if I64_MIN <= start + d <= I64_MAX:
                yield "delta_s %s" % lst([start, start + d])
    # unsigned pairs whose int64 accumulator would overflow (decoder adds in uint64)
    for a, b in ((1 << 63, 0), (U64, 1 << 63), ((1 << 63) + 5, 3), (1 << 63, (1 << 63) - 1), (0, 1 << 63), (U64, 0), (0, U64)):
        yield "delta_u %s" % lst([a, b])
        yield "delta_u %s" % lst([a, b, a, b, a])
    # literals of the sources as lengths and as values
    for v in lits:
        if 1 <= v <= 300:
            yield "delta_u %s" % lst(walk_unsigned(rng, v, steps))
            yield "delta_s %s" % lst(walk_signed(rng, v, steps))
        yield "delta_u %s" % lst([v, 0, v])
    # length classes
    lens = LENS_SMALL + LENS_MID
    for n in lens:
        yield "delta_u %s" % lst(walk_unsigned(rng, n, steps))
        yield "delta_s %s" % lst(walk_signed(rng, n, steps))
        yield "delta_u %s" % lst(sorted(rand_u64(rng) for _ in range(n)))
        yield "delta_s %s" % lst([7] * n)
    if heavy:
        big = LENS_BIG + (LENS_HUGE if tier == "thorough" else [])
        for n in big:
            small = [-3, -2, -1, 0, 1, 2, 3, 127, 128, -128, -129]
            yield "delta_u %s" % lst(walk_unsigned(rng, n, small, start=1000))
            yield "delta_s %s" % lst(walk_signed(rng, n, small, start=0))
        for n in (LENS_BIG[1], LENS_BIG[-1]) + ((LENS_HUGE[1],) if tier == "thorough" else ()):
            # worst case of the bound: every delta needs 8 bytes
            yield "delta_u %s" % lst([(0 if i % 2 == 0 else 1 << 63) + i for i in range(n)])
            yield "delta_s %s" % lst([(I64_MAX - i if i % 2 == 0 else -i) for i in range(n)])
    nr = 250 if tier == "quick" else 5000
    for _ in range(nr):
        n = rand_len(rng)
        yield "delta_u %s" % lst(walk_unsigned(rng, n, steps))
        yield "delta_s %s" % lst(walk_signed(rng, n, steps))


def gen_for(rng, tier, heavy=True):
    Rs, Bs = width_ranges(), tagged_bases()
    lits = literal_pool()
    mode = 0
    # every offset width x every tagged length of the minimum, short arrays
    for R in Rs:
        for b in Bs:
            if b + R > U64:
                b = U64 - R
            for n in (2, 3):
                yield "for_enc %s %d" % (lst(span_array(rng, n, b, R, "ends" if n == 3 else "asis")), mode)
                mode = (mode + 1) % 5
    for b in Bs:
        yield "for_enc L%d %d" % (b, mode)
        mode = (mode + 1) % 5
        for n in (2, 16, 17):
            yield "for_enc %s %d" % (lst([b] * n), mode)      # constant: min = max
            mode = (mode + 1) % 5
    yield "for_enc %s 0" % lst([U64, 0])
    yield "for_enc %s 1" % lst([0, U64, U64, 0, 1 << 63])
    for v in lits:
        yield "for_enc %s %d" % (lst([v, 0, v]), mode)
        mode = (mode + 1) % 5
        if 1 <= v <= 300:
            yield "for_enc %s %d" % (lst(span_array(rng, v, rng.choice(Bs[:12]), rng.choice(Rs[:20]), "rand")), mode)
    # length classes (SIMD threshold 16, tagged count boundaries 240/241, 2287/2288)
    for n in LENS_SMALL + LENS_MID:
        for shape in ("rand", "asc", "desc"):
            R = rng.choice(Rs)
            b = rng.choice(Bs)
            if b + R > U64:
                b = U64 - R
            yield "for_enc %s %d" % (lst(span_array(rng, n, b, R, shape)), mode)
            mode = (mode + 1) % 5
    if heavy:
        big = LENS_BIG + (LENS_HUGE if tier == "thorough" else [])
        for n in big:
            yield "for_enc %s %d" % (lst(span_array(rng, n, 1000, 255, "rand")), mode)
            mode = (mode + 1) % 5
            yield "for_enc %s %d" % (lst(span_array(rng, n, 67824, 65536, "rand")), mode)
            mode = (mode + 1) % 5
        for n in (LENS_BIG[0], LENS_BIG[-1]) + ((LENS_HUGE[1],) if tier == "thorough" else ()):
            yield "for_enc %s %d" % (lst(span_array(rng, n, 0, U64, "rand")), mode)
            mode = (mode + 1) % 5
    nr = 300 if tier == "quick" else 6000
    for _ in range(nr):
        n = rand_len(rng)
        R = rng.choice(Rs) if rng.random() < 0.6 else rand_u64(rng)
        b = rng.choice(Bs) if rng.random() < 0.5 else rand_u64(rng)
        if b + R > U64:
            b = U64 - R
        yield "for_enc %s %d" % (lst(span_array(rng, n, b, R, rng.choice(["rand", "asc", "desc", "ends"]))), rng.randint(0, 4))
    # caller metadata taken on trust (count matches): any min / width
    for _ in range(60 if tier == "quick" else 1000):
        n = rng.randint(1, 12)
        v = [rand_u64(rng) for _ in range(n)]
        yield "for_encm %s %d %d" % (lst(v), rng.choice([0, min(v), max(v), rng.choice(Bs), rand_u64(rng)]), rng.randint(1, 8))


def group_values(rng, n):
    edges = [0, 1, 255, 256, 65535, 65536, (1 << 24) - 1, 1 << 24, (1 << 32) - 1, 1 << 32, 1 << 40, 1 << 48,
             (1 << 56) - 1, 1 << 56, U64]
    r = rng.random()
    if r < 0.4:
        return [rng.choice(edges) for _ in range(n)]
    if r < 0.5:
        e = rng.choice(edges)
        return [e] * n
    return [rand_u64(rng) for _ in range(n)]


def gen_group(rng, tier):
    lits = literal_pool()
    counts = sorted(set(list(range(1, 18)) + [31, 32, 33, 47, 48, 49, 61, 62, 63, 64] + [v for v in lits if 1 <= v <= 64]))
    for fc in counts:
        for _ in range(4):
            yield "group %s %d" % (lst(group_values(rng, fc)), fc)
        yield "group %s %d" % (lst(group_values(rng, fc + 3)), fc)      # more values than fields
        for w in (0, 255, 256, 65535, 65536, (1 << 32) - 1, 1 << 32, U64):
            yield "group %s %d" % (lst([w] * fc), fc)
    # refused field counts: nothing written, 0 returned
    for fc in (0, 65, 66, 100, 128, 200, 254, 255):
        yield "group %s %d" % (lst(group_values(rng, 3)), fc)
    for v in lits:
        yield "group %s 3" % lst([v, 0, v])
    for _ in range(400 if tier == "quick" else 8000):
        fc = rng.randint(1, 64) if rng.random() < 0.7 else rng.randint(1, 8)
        yield "group %s %d" % (lst(group_values(rng, fc)), fc)


def for_stream(minv, width, count, body, min_w=None, cnt_w=None):
    return tag(minv, min_w) + [width & 255] + tag(count, cnt_w) + body


def gen_caps(rng, tier):
    Rs, Bs = width_ranges(), tagged_bases()
    # valid FOR encodings x all capacities 0..count+2
    for n in list(range(1, 21)) + [31, 32, 33]:
        for _ in range(2):
            R, b = rng.choice(Rs), rng.choice(Bs)
            if b + R > U64:
                b = U64 - R
            yield "for_cap %s %s" % (lst(span_array(rng, n, b, R, "rand")), lst(range(0, n + 3)))
    for n in LENS_MID + [64, 65]:
        R, b = rng.choice(Rs[:16]), rng.choice(Bs[:10])
        yield "for_cap %s %s" % (lst(span_array(rng, n, b, R, "rand")),
                                 lst([0, 1, 15, 16, 17, n // 2, n - 2, n - 1, n, n + 1, 2 * n]))
    for n in LENS_BIG[1:4] + (LENS_HUGE if tier == "thorough" else []):
        yield "for_cap %s %s" % (lst(span_array(rng, n, 5, 200, "rand")), lst([0, 1, n - 1, n, n + 1]))
    for _ in range(150 if tier == "quick" else 3000):
        n = rand_len(rng, 120)
        R = rng.choice(Rs) if rng.random() < 0.6 else rand_u64(rng)
        b = rng.choice(Bs) if rng.random() < 0.5 else rand_u64(rng)
        if b + R > U64:
            b = U64 - R
        caps = sorted(set([0, n - 1, n, n + 1] + [rng.randint(0, n + 2) for _ in range(4)]))
        yield "for_cap %s %s" % (lst(span_array(rng, n, b, R, "rand")), lst(caps))
    # hand-made streams: the header declares what it likes; the bytes are physically there
    # for every read a reader is entitled to make with the given capacities
    for _ in range(120 if tier == "quick" else 2000):
        w = rng.randint(1, 8)
        r = rng.random()
        if r < 0.35:
            cnt = rng.randint(0, 12)
            caps = sorted(set([0, max(cnt - 1, 0), cnt, cnt + 1, cnt + 5]))
        elif r < 0.7:
            cnt = rng.choice([240, 241, 2287, 2288, 67823, 67824, 1 << 24, 1 << 32, 1 << 40, 1 << 56, (1 << 61) + 3, U64])
            caps = sorted(set([0, 1, rng.randint(2, 30)]))
        else:
            cnt = rng.randint(13, 300)
            caps = sorted(set([0, 1, cnt - 1, cnt, cnt + 1]))
        minv = rng.choice(Bs) if rng.random() < 0.7 else rand_u64(rng)
        need = (max(caps) + 4) * 8 + 32
        if cnt <= max(caps):
            need = max(need, cnt * w + 32)
        body = [rng.getrandbits(8) for _ in range(need)]
        if rng.random() < 0.15:
            body[:16] = [255] * 16
        mw = cw = None
        if rng.random() < 0.2 and minv <= 16777215:
            mw = rng.randint(5, 9)        # non-canonical tagged minimum
        if rng.random() < 0.2 and cnt <= 16777215:
            cw = rng.randint(5, 9)
        yield "for_capx %s %s" % (hexs(for_stream(minv, w, cnt, body, mw, cw)), lst(caps))
    # unsupported widths are only reachable with an empty count (no element is read)
    for w in (0, 9, 16, 17, 200, 255):
        yield "for_capx %s %s" % (hexs(for_stream(rng.choice(Bs), w, 0, [rng.getrandbits(8) for _ in range(64)])), lst([0, 1, 5]))
    # group: valid encodings x all capacities
    for fc in list(range(1, 18)) + [31, 32, 33, 63, 64]:
        for _ in range(2):
            yield "group_cap %s %s" % (lst(group_values(rng, fc)), lst(list(range(0, fc + 3)) + [64, 65, 255, 256]))
    for _ in range(150 if tier == "quick" else 3000):
        fc = rng.randint(1, 64)
        yield "group_cap %s %s" % (lst(group_values(rng, fc)),
                                   lst(sorted(set([0, fc - 1, fc, fc + 1, rng.randint(0, 70)]))))
    # hand-made group streams, padded so that every entitled read is inside
    for _ in range(120 if tier == "quick" else 2000):
        r = rng.random()
        cnt = rng.choice([0, 1, 2, 63, 64, 65, 66, 128, 255]) if r < 0.5 else rng.randint(0, 255)
        body = [rng.getrandbits(8) for _ in range(700)]
        if rng.random() < 0.3:
            body[:64] = [rng.choice([0, 0x55, 0xaa, 0xff])] * 64
        caps = sorted(set([0, 1, max(cnt - 1, 0), cnt, cnt + 1, 63, 64, 65, 300]))
        yield "group_capx %s %s" % (hexs([cnt] + body), lst(caps))


# ----------------------------------------------------------------- per-property generators

def generate_C02(rng, tier):
    yield from gen_delta(rng, tier)
    yield from gen_for(rng, tier)
    yield from gen_group(rng, tier)


def generate_C03(rng, tier):
    # worst cases of each bound first
    for n in (1, 2, 3, 17, 128, 241):
        yield "delta_u %s" % lst([(0 if i % 2 == 0 else 1 << 63) + i for i in range(n)])
        yield "delta_s %s" % lst([(I64_MAX - i if i % 2 == 0 else -i) for i in range(n)])
        yield "delta_u %s" % lst([U64 if i % 2 == 0 else (1 << 63) for i in range(n)])
        yield "for_enc %s %d" % (lst([U64 if i % 2 == 0 else 0 for i in range(n)]), n % 5)
        yield "for_enc %s %d" % (lst([U64 - (i % 2) * 255 for i in range(n)]), n % 5)       # 9-byte minimum
        yield "for_enc %s %d" % (lst([(1 << 56) + (i % 3) for i in range(n)]), n % 5)
    for fc in (1, 4, 5, 63, 64):
        yield "group %s %d" % (lst([U64] * fc), fc)
        yield "group %s %d" % (lst([1 << 32] * fc), fc)
    yield from gen_delta(rng, tier)
    yield from gen_for(rng, tier)
    yield from gen_group(rng, tier)


def generate_C13(rng, tier):
    yield from gen_caps(rng, tier)


def generate_C16(rng, tier):
    yield from gen_for(rng, tier)
    yield from gen_group(rng, tier)


# ----------------------------------------------------------------- direct oracles

def _fault(c):
    if "fault" in c:
        return "fault=" + c["fault"]
    return None


def o_zigzag(args, c):
    n = int(args[0])
    if _fault(c):
        return _fault(c)
    if int(c["zz"]) != zigzag(n):
        return "zigzag(%d) = %s, documented mapping gives %d" % (n, c["zz"], zigzag(n))
    if int(c["back"]) != n:
        return "zigzag decode of zigzag(%d) = %s" % (n, c["back"])
    return None


def o_delta_put_rt(args, c):
    if _fault(c):
        return _fault(c)
    if int(c["get"]) != int(args[0]):
        return "delta get of put(%s) = %s" % (args[0], c["get"])
    if int(c["gw"]) != int(c["w"]):
        return "get consumed %s bytes, put wrote %s" % (c["gw"], c["w"])
    return None


def o_delta_rt(args, c):
    if _fault(c):
        return _fault(c)
    if c.get("rt") != "ok":
        return "decode(encode xs) differs: %s" % str(c.get("rt"))[:120]
    if int(c["dn"]) > int(c["n"]):
        return "decoder consumed %s bytes, encoder reported %s" % (c["dn"], c["n"])
    return None


def o_delta_bound(args, c):
    if _fault(c):
        return _fault(c)
    if int(c["n"]) > int(c["max"]):
        return "encoder returned %s > varintDeltaMaxEncodedSize = %s" % (c["n"], c["max"])
    if c["guard"] != "ok" or c["frame"] != "ok":
        return "wrote outside the advertised %s bytes (guard=%s frame=%s)" % (c["max"], c["guard"], c["frame"])
    return None


def o_delta_put_bound(args, c):
    if _fault(c):
        return _fault(c)
    if int(c["w"]) > 9 or c["guard"] != "ok":
        return "varintDeltaPut wrote %s bytes (max 9), guard=%s" % (c["w"], c["guard"])
    return None


def o_for_rt(args, c):
    if _fault(c):
        return _fault(c)
    n = len(Lp(args[0]))
    for k, cnt in (("rt", "dn"), ("brt", "bn")):
        if c.get(k) != "ok":
            return "%s: decode(encode xs) differs: %s" % (k, str(c.get(k))[:120])
        if int(c[cnt]) != n:
            return "%s = %s elements decoded, %d encoded" % (cnt, c[cnt], n)
    if c.get("at") != "ok":
        return "varintFORGetAt differs from the array at (index,value) %s" % c.get("at")
    if c.get("blk") != "ok":
        return "varintFORDecodeBlock request #%s differs from the array slice" % c.get("blk")
    return None


def o_for_size(args, c):
    if _fault(c):
        return _fault(c)
    if int(c["n"]) != int(c["size"]):
        return "encoder wrote %s bytes, varintFORSize promised %s" % (c["n"], c["size"])
    if c["guard"] != "ok" or c["frame"] != "ok":
        return "wrote outside the advertised %s bytes (guard=%s)" % (c["size"], c["guard"])
    return None


def o_for_meta(args, c):
    if _fault(c):
        return _fault(c)
    v = Lp(args[0])
    mn, mx, n = min(v), max(v), len(v)
    w = nbytes(mx - mn)
    nb = int(c["n"])
    want = [mn, mx, mx - mn, n, nb, w]
    names = ["minValue", "maxValue", "range", "count", "encodedSize", "offsetWidth"]
    for key in ("an", "cm"):
        if key in c:
            got = Lp(c[key])
            for i in range(6):
                if got[i] != want[i]:
                    return "%s.%s = %d, real %d" % (key, names[i], got[i], want[i])
    rm = Lp(c["rm"])
    for i in (0, 3, 4, 5):      # max/range are documented as not filled by ReadMetadata
        if rm[i] != want[i]:
            return "ReadMetadata.%s = %d, real %d" % (names[i], rm[i], want[i])
    if int(c["gc"]) != n or int(c["gm"]) != mn or int(c["gw"]) != w:
        return "accessors count/min/width = %s/%s/%s, real %d/%d/%d" % (c["gc"], c["gm"], c["gw"], n, mn, w)
    if int(c["dn"]) != n:
        return "reported count %d but decoding yields %s" % (n, c["dn"])
    if int(c["cw"]) != w or int(c["size"]) != nb:
        return "ComputeWidth/Size = %s/%s, real %d/%d" % (c["cw"], c["size"], w, nb)
    return None


def o_for_encm_size(args, c):
    if _fault(c):
        return _fault(c)
    if "ub" in c:
        return None
    if int(c["n"]) > int(c["size"]) or c["guard"] != "ok" or c["frame"] != "ok":
        return "wrote %s bytes / guard %s with varintFORSize(meta) = %s" % (c["n"], c["guard"], c["size"])
    return None


def _group_valid(args):
    fc = int(args[1])
    return 1 <= fc <= 64


def o_group_rt(args, c):
    if _fault(c):
        return _fault(c)
    if not _group_valid(args):
        return None
    if int(c["n"]) == 0:
        return "encoder refused %s fields" % args[1]
    if c.get("rt") != "ok" or int(c["dfc"]) != int(args[1]):
        return "decode(encode xs) = %s with field count %s" % (str(c.get("rt"))[:120], c.get("dfc"))
    if int(c["dn"]) > int(c["n"]):
        return "decoder consumed %s bytes, encoder wrote %s" % (c["dn"], c["n"])
    if c.get("gf") != "ok":
        return "varintGroupGetField differs at field %s" % c.get("gf")
    return None


def o_group_size(args, c):
    if _fault(c):
        return _fault(c)
    if int(c["n"]) != int(c["size"]):
        return "encoder wrote %s bytes, varintGroupSize promised %s" % (c["n"], c["size"])
    if c["guard"] != "ok" or c["frame"] != "ok":
        return "wrote outside the advertised %s bytes (guard=%s)" % (c["size"], c["guard"])
    return None


def o_group_meta(args, c):
    if _fault(c):
        return _fault(c)
    if not _group_valid(args):
        return None
    fc = int(args[1])
    v = Lp(args[0])[:fc]
    if int(c["gs"]) != int(c["n"]):
        return "varintGroupGetSize = %s, encoder wrote %s" % (c["gs"], c["n"])
    if int(c["fc"]) != fc or int(c["dfc"]) != fc:
        return "field count reported %s/%s, real %d" % (c["fc"], c["dfc"], fc)
    fw = Lp(c["fw"])
    want = [norm_width(x) for x in v]
    if fw[:fc] != want:
        return "field widths %s, real %s" % (fw[:fc], want)
    # the widths are the real layout: each field starts where the previous ones end
    go = Lp(c["go"])
    off = 1 + (2 * fc + 7) // 8
    for i in range(fc):
        off += fw[i]
        if go[i] != off:
            return "field %d ends at %d by GetField, %d by the reported widths" % (i, go[i], off)
    if off != int(c["n"]):
        return "widths sum to %d bytes, encoder wrote %s" % (off, c["n"])
    return None


def _caps_check(caps, rets, wrs, count, what, all_or_nothing):
    for cap, r, w in zip(caps, rets, wrs):
        if w > cap:
            return "%s: capacity %d, element %d written" % (what, cap, w - 1)
        if count is not None and cap < count and all_or_nothing and r != 0:
            return "%s: capacity %d < count %d but returned %d" % (what, cap, count, r)
        if not all_or_nothing and r > cap:
            return "%s: capacity %d, %d elements reported" % (what, cap, r)
    return None


def o_for_cap(args, c):
    if _fault(c):
        return _fault(c)
    v, caps = Lp(args[0]), Lp(args[1])
    n = len(v)
    for (kr, kw, ko, what, aon) in (("ret", "wr", "out", "varintFORDecode", True),
                                    ("bret", "bwr", "bout", "varintFORBatchDecode", True),
                                    ("kret", "kwr", "kout", "varintFORDecodeBlock", False)):
        m = _caps_check(caps, Lp(c[kr]), Lp(c[kw]), n, what, aon)
        if m:
            return m
        if c[ko] != "ok":
            return "%s: output is not a prefix of the array at capacity #%s" % (what, c[ko])
        if aon:
            for cap, r in zip(caps, Lp(c[kr])):
                if cap >= n and r != n:
                    return "%s: capacity %d >= count %d but returned %d" % (what, cap, n, r)
    return None


def o_for_capx(args, c):
    if _fault(c):
        return _fault(c)
    caps = Lp(args[1])
    for (kr, kw, what, aon) in (("ret", "wr", "varintFORDecode", True), ("bret", "bwr", "varintFORBatchDecode", True),
                                ("kret", "kwr", "varintFORDecodeBlock", False)):
        rets = Lp(c[kr])
        m = _caps_check(caps, rets, Lp(c[kw]), None, what, False)
        if m:
            return m
    return None


def o_group_cap(args, c):
    if _fault(c):
        return _fault(c)
    v, caps = Lp(args[0]), Lp(args[1])
    n = len(v)
    rets, wrs, fco = Lp(c["ret"]), Lp(c["wr"]), Lp(c["fco"])
    for cap, r, w, f in zip(caps, rets, wrs, fco):
        if w > cap:
            return "varintGroupDecode: capacity %d, element %d written" % (cap, w - 1)
        if cap < n and (r != 0 or w != 0):
            return "varintGroupDecode: capacity %d < %d fields but returned %d / wrote %d" % (cap, n, r, w)
        if cap >= n and (r == 0 or f != n):
            return "varintGroupDecode: capacity %d >= %d fields but returned %d, count %d" % (cap, n, r, f)
    if c["out"] != "ok":
        return "varintGroupDecode: wrong values at capacity #%s" % c["out"]
    return None


def o_group_capx(args, c):
    if _fault(c):
        return _fault(c)
    caps = Lp(args[1])
    stream = bytes.fromhex(args[0][1:])
    cnt = stream[0] if stream else 0
    for cap, r, w in zip(caps, Lp(c["ret"]), Lp(c["wr"])):
        if w > cap:
            return "varintGroupDecode: capacity %d, element %d written" % (cap, w - 1)
        if cap < cnt and (r != 0 or w != 0):
            return "varintGroupDecode: capacity %d < declared %d fields but returned %d / wrote %d" % (cap, cnt, r, w)
    return None


def _both(f, g):
    def h(args, c):
        return f(args, c) or g(args, c)
    return h


ORACLES_C02 = {"zigzag": o_zigzag, "delta_put": o_delta_put_rt, "delta_s": o_delta_rt, "delta_u": o_delta_rt,
               "for_enc": o_for_rt, "group": o_group_rt}
ORACLES_C03 = {"delta_put": o_delta_put_bound, "delta_s": o_delta_bound, "delta_u": o_delta_bound,
               "for_enc": o_for_size, "for_encm": o_for_encm_size, "group": o_group_size}
ORACLES_C13 = {"for_cap": o_for_cap, "for_capx": o_for_capx, "group_cap": o_group_cap, "group_capx": o_group_capx}
ORACLES_C16 = {"for_enc": o_for_meta, "group": o_group_meta}


# ----------------------------------------------------------------- classification

def _lenclass(n):
    for b in (1, 16, 64, 128, 240, 256, 2287, 4096, 65535):
        if n <= b:
            return "<=%d" % b
    return ">65535"


def classify(case, m):
    t = case.split()
    api = t[0]
    if api in ("zigzag", "unzigzag", "delta_put"):
        return api
    if api in ("delta_s", "delta_u"):
        n = len(Lp(t[1]))
        if n <= 1:
            return "trivial"
        return "%s/n%s" % (api, _lenclass(n))
    if api == "for_enc":
        n = len(Lp(t[1]))
        rm = Lp(m.get("rm", "L0,0,0,0,0,0"))
        if n <= 1:
            return "trivial"
        return "for/n%s/w%d/m%s" % (_lenclass(n), rm[5], t[2])
    if api == "for_encm":
        return "for_trusted_meta"
    if api == "group":
        fc = int(t[2])
        if not (1 <= fc <= 64):
            return "group/refused"
        return "group/fc%s" % _lenclass(fc)
    if api in ("for_cap", "group_cap"):
        return "%s/n%s" % (api, _lenclass(len(Lp(t[1]))))
    return api


def search(rng, divergent_cases):
    """shrunk variants (prefixes, halves, single elements) of divergent cases, then a fresh batch"""
    for c in divergent_cases[:20]:
        t = c.split()
        if len(t) >= 2 and t[1].startswith("L"):
            v = Lp(t[1])
            rest = " ".join(t[2:])
            for k in sorted(set([1, 2, 3, len(v) // 2, len(v) - 1])):
                if 0 < k < len(v):
                    yield ("%s %s %s" % (t[0], lst(v[:k]), rest)).strip()
                    yield ("%s %s %s" % (t[0], lst(v[-k:]), rest)).strip()
            for i in range(min(len(v), 8)):
                for d in (-1, 1):
                    w = list(v)
                    if t[0] == "delta_s":
                        if I64_MIN <= w[i] + d <= I64_MAX:
                            w[i] += d
                    else:
                        w[i] = (w[i] + d) & U64
                    if t[0] in ("delta_u", "for_enc", "group", "for_cap", "group_cap"):
                        yield ("%s %s %s" % (t[0], lst(w), rest)).strip()
    r2 = random.Random(rng.getrandbits(32))
    yield from gen_delta(r2, "quick", heavy=False)
    yield from gen_for(r2, "quick", heavy=False)
    yield from gen_group(r2, "quick")
    yield from gen_caps(r2, "quick")


RULE = ("arrays of every listed length class (1..65, 127..129, 240/241, 255..257, 2287/2288, 4095..4097; thorough "
        "65535/65536) whose range max-min sits on each side of every offset-width boundary and whose minimum sits on "
        "each side of every tagged-length boundary; delta steps on each side of every zigzag byte-width boundary, "
        "signed walks with representable differences; groups of 1..64 fields with values on every 1/2/4/8-byte "
        "boundary, refused field counts; every integer literal of the six source files (+-2) as value, range, step "
        "and length; capacities 0..count+2 on valid encodings and hand-made headers (huge / non-canonical counts, "
        "empty count with unsupported widths) for the capacity-taking readers; non-trivial = more than one element")

COMMON = dict(files=FILES, rule=RULE, classify=classify, search=search,
              assumptions=["little-endian host (endianIsLittle() true), LP64",
                           "signed delta: consecutive differences representable in int64_t (else C signed overflow)",
                           "FOR: count >= 1; a caller-provided varintFORMeta whose count matches is trusted by the C code, "
                           "so the lossless domain is meta NULL / stale count / meta = varintFORAnalyze(values)",
                           "group: 1 <= fieldCount <= 64 (VARINT_GROUP_MAX_FIELDS), values[] holds fieldCount entries",
                           "pinned build defines neither NEON nor AVX2: batch entry points take the scalar paths"],
              trusted_base=["python re-statement of tagged length / zigzag / byte width used only by oracles and stream builders"],
              configs_quick=["pinned", "O0", "native"], configs_thorough=["pinned", "O0", "asan", "native"])

# *_src theorems: about the Gallina renderings of the leaf functions regenerated from the current source on
# every run (gen/c2coq_leaf.py -> coq/gen/Src_leaf_{delta,group,for}.v), proved equal to the hand model in LeafSrc*.v
SRC_LEAF_TRUSTED = COMMON["trusted_base"] + [
    "gen/c2coq.py + CSem.v for the *_src theorems (C-to-Gallina translator, clang 14 typed AST -> "
    "coq/gen/Src_leaf_*.v via gen/c2coq_leaf.py; subset and assumptions in the translator's docstring; LP64, two's "
    "complement, gcc's implementation-defined choices); the renderings are tied to the compiled C by the translator, "
    "not by proof"]

PARTS = {
    "C02": dict(COMMON, coq_props=["Properties_C02_dfg", "Properties_C02_dfg_src"], generate=generate_C02,
                oracles=ORACLES_C02, trusted_base=SRC_LEAF_TRUSTED),
    "C03": dict(COMMON, coq_props=["Properties_C03_dfg"], generate=generate_C03, oracles=ORACLES_C03),
    "C13": dict(COMMON, coq_props=["Properties_C13_dfg"], generate=generate_C13, oracles=ORACLES_C13),
    # Properties_C16_dfg_hdr_src: the header accessors of src/varintFOR.c regenerated from the current source
    # (gen/c2coq_hdr.py -> coq/gen/Src_hdr_for.v), proved equal to the hand model in HdrSrcFOR.v
    "C16": dict(COMMON, coq_props=["Properties_C16_dfg", "Properties_C16_dfg_src", "Properties_C16_dfg_hdr_src"],
                generate=generate_C16, oracles=ORACLES_C16, trusted_base=SRC_LEAF_TRUSTED),
}
