"""C09 — packed bit arrays (src/varintPacked.h and its instantiations)."""
import importlib.util
import os
from bisect import bisect_left
from math import gcd

from vlib import *  # noqa

FILES = ["src/varintPacked.h", "src/varintPackedTest.c", "src/varintDimension.c"]
RULE = ("per generated instantiation (bits 1-32 x uint8/16/32/64 slots where an element spans <= 2 slots x "
        "{plain, compact, promotion+uint16 lengths, compact+uint64 promotion+uint8 lengths} + the five in-tree ones): "
        "single-element Set/SetIncr/SetHalf/Get at the first, last (exactly sized array), slot-straddling and "
        "slot-ending positions and at every start-bit residue, on random/all-ones/zero arrays, run with only the "
        "element's own slots accessible on the high and on the low side; operation sequences (sorted insert, "
        "delete-member, member, lower bound, positional insert/delete, set/incr/half, ...Bytes forms) on exactly "
        "sized guard-paged arrays filled to capacity; values from the literals of the C files, 0, 2^w-1, random; "
        "non-trivial = anything but a Get on an untouched array")

# ---- the generated translation unit (harness/c/packed_inst.h) is refreshed on import
_g = os.path.join(VERIF, "harness", "c", "gen_packed.py")
_sp = importlib.util.spec_from_file_location("gen_packed", _g)
gen_packed = importlib.util.module_from_spec(_sp)
_sp.loader.exec_module(gen_packed)
gen_packed.generate()
INSTS = [it["key"] for it in gen_packed.instances()]


def cfg(key):
    return "%d %d %d %d %d %d" % key


def slots_needed(n, w, S):
    return (n * w + S - 1) // S


def to_hex(v, nbytes):
    return "x" + v.to_bytes(nbytes, "little").hex()


def from_hex(s):
    return int.from_bytes(bytes.fromhex(s[1:]), "little")


def rand_array(rng, nbytes):
    r = rng.random()
    if r < 0.15:
        return (1 << (8 * nbytes)) - 1
    if r < 0.25:
        return 0
    return rng.getrandbits(8 * nbytes) if nbytes else 0


def lmax(L):
    return 0x7fffffff if L >= 32 else (65535 if L == 16 else 255)


def elem_case(key, op, i, arg, n, content):
    w, S = key[0], key[1]
    nb = slots_needed(n, w, S) * S // 8
    return "packed_elem %s %d %d %d %s" % (cfg(key), op, i, arg, to_hex(content & ((1 << (8 * nb)) - 1), nb))


def values_for(rng, w, lits):
    m = (1 << w) - 1
    vs = [0, m, m >> 1, (m >> 1) + 1 if w > 1 else 1, 0x5555555555555555 & m, 0xAAAAAAAAAAAAAAAA & m, 1]
    vs += [rng.choice(lits) & m for _ in range(2)]
    vs += [rng.getrandbits(w) for _ in range(2)]
    return vs


def positions_for(rng, key):
    """element counts/positions aimed at slot boundaries: (n, i)"""
    w, S, L = key[0], key[1], key[4]
    p = S // gcd(w, S)                 # start-bit pattern repeats every p elements
    out = [(1, 0)]
    lim = min(lmax(L), 255 if L == 8 else 4000)
    n = min(2 * p + 1, lim)
    out.append((n, n - 1))             # last element of an exactly sized array
    n2 = min(p, lim)
    out.append((n2, n2 - 1))           # element ending exactly at a slot boundary, end of array
    for i in range(min(2 * p, lim)):   # first straddling element, first element ending at a boundary
        if (i * w) // S != (i * w + w - 1) // S:
            out.append((i + 2, i))
            out.append((i + 1, i))
            break
    k = rng.randrange(min(3 * p, lim))
    out.append((k + 1 + rng.randrange(3), k))
    return out


def generate(rng, tier):
    lits = [v for v in scraped_literals(FILES) if v < (1 << 32)] or [0]
    quick = tier == "quick"
    # 1. single-element operations, every instantiation
    for key in INSTS:
        w, S, P, V, L, comp = key
        m = (1 << w) - 1
        for (n, i) in positions_for(rng, key):
            nb = slots_needed(n, w, S) * S // 8
            vals = values_for(rng, w, lits)
            for v in (vals if not quick else rng.sample(vals, 3)):
                yield elem_case(key, 0, i, v, n, rand_array(rng, nb))
            yield elem_case(key, 3, i, 0, n, rand_array(rng, nb))
            yield elem_case(key, 2, i, 0, n, rand_array(rng, nb))
            # increments: in range, to the maximum, and (outside the property, model vs code only) beyond / negative
            content = rand_array(rng, nb)
            cur = (content >> (i * w)) & m
            yield elem_case(key, 1, i, rng.randint(0, m - cur), n, content)
            yield elem_case(key, 1, i, m - cur, n, content)
            if not quick or rng.random() < 0.3:
                yield elem_case(key, 1, i, rng.choice([m - cur + 1, -1, -cur, -(cur + 1), 1 << V, (1 << V) - 1,
                                                       rng.randint(-(1 << 40), 1 << 40)]), n, content)
    # 2. every start-bit residue for the plain and the compact instantiation of each (w, S)
    for key in INSTS:
        w, S, P, V, L, comp = key
        if P != 0 or L != 32:
            continue
        p = S // gcd(w, S)
        n = p + 2
        nb = slots_needed(n, w, S) * S // 8
        for i in range(p + 1):
            if quick and p > 8 and rng.random() < 0.5:
                continue
            yield elem_case(key, 0, i, rng.getrandbits(w), n, rand_array(rng, nb))
            if not quick:
                yield elem_case(key, 0, i, (1 << w) - 1, i + 1, 0)
                yield elem_case(key, 0, i, 0, i + 1, (1 << (8 * slots_needed(i + 1, w, S) * S // 8)) - 1)
    # 3. far elements (large bit offsets)
    far = [k for k in INSTS if k[4] >= 16]
    for _ in range(4 if quick else 40):
        key = rng.choice(far)
        w, S, L = key[0], key[1], key[4]
        i = min(lmax(L), rng.randrange(1 << 14, 1 << 16) if quick else rng.randrange(1 << 14, (1 << 21) // w))
        n = min(i + 1 + rng.randrange(2), lmax(L) + 1)
        nb = slots_needed(n, w, S) * S // 8
        yield elem_case(key, 0, i, rng.getrandbits(w), n, rng.getrandbits(8 * nb))
    # 4. operation sequences
    reps = 2 if quick else 12
    for key in INSTS:
        for _ in range(reps):
            yield ops_case(rng, key, lits, unsort=rng.random() < 0.15)
    # 5. long sorted histories for narrow length types: arrays longer than half the
    #    length type's range, where index arithmetic done in the length type wraps
    #    (added after seeded change C09-3: a midpoint computed as (LEN)(min+max)>>1)
    narrow8 = [k for k in INSTS if k[4] == 8]
    for key in (rng.sample(narrow8, min(len(narrow8), 6 if quick else 40))):
        yield ops_case(rng, key, lits, cap=rng.choice([130, 200, 255]), nops=rng.choice([150, 270]))
    # (uint16 length types would need > 32768 elements per history: one step of such a
    #  history costs the model and the oracle a pass over the whole array, so a history is
    #  quadratic — left out; the uint8 instantiations exercise the same index arithmetic)


def ops_case(rng, key, lits, unsort=False, cap=None, nops=None):
    w, S, P, V, L, comp = key
    m = (1 << w) - 1
    if cap is None:
        cap = rng.choice([1, 2, 3, 5, 8, 8, 13, 16, 24])
    cap = min(cap, lmax(L))
    nslots = slots_needed(cap, w, S)
    nb = nslots * S // 8
    cap = min((nb * 8) // w, lmax(L))
    pre = rand_array(rng, nb)
    dom = sorted(set([0, m] + [rng.getrandbits(w) for _ in range(rng.choice([2, 4, 12]))] +
                     [rng.choice(lits) & m for _ in range(2)]))
    ref = []
    ops = []
    if nops is None:
        nops = cap + rng.randrange(4, 16)
    fill = rng.random() < 0.7         # drive the array to capacity first
    for s in range(nops):
        r = rng.random()
        v = rng.choice(dom)
        issorted = all(ref[k] <= ref[k + 1] for k in range(len(ref) - 1))
        bytes_ok = lambda ln: ((((ln * w + 7) // 8) * 8) // w) == ln
        if (fill and len(ref) < cap and r < 0.8) or (r < 0.35 and len(ref) < cap):
            if bytes_ok(len(ref)) and rng.random() < 0.15:
                ops += [10, v, (len(ref) * w + 7) // 8]
            else:
                ops += [0, v, 0]
            ref.insert(bisect_left(ref, v) if issorted else 0, v)   # (exact position irrelevant for generation)
            if not issorted:
                ref.sort()
        elif r < 0.5:
            x = rng.choice(ref) if ref and rng.random() < 0.7 else v
            if bytes_ok(len(ref)) and rng.random() < 0.15:
                ops += [11, x, (len(ref) * w + 7) // 8]
            else:
                ops += [1, x, 0]
            if x in ref:
                ref.remove(x)
        elif r < 0.62:
            x = rng.choice(ref) if ref and rng.random() < 0.6 else v
            if bytes_ok(len(ref)) and rng.random() < 0.2:
                ops += [12, x, (len(ref) * w + 7) // 8]
            else:
                ops += [2, x, 0]
        elif r < 0.7:
            ops += [3, min(m, v + rng.choice([0, 0, 1])), 0]
        elif r < 0.78 and len(ref) < cap:
            pos = bisect_left(ref, v) if not unsort else rng.randint(0, len(ref))
            ops += [4, pos, v]
            ref.insert(pos, v)
        elif r < 0.84 and ref:
            pos = rng.randrange(len(ref))
            if bytes_ok(len(ref)) and rng.random() < 0.2:
                ops += [13, pos, (len(ref) * w + 7) // 8]
            else:
                ops += [5, pos, 0]
            del ref[pos]
        elif r < 0.88 and ref:
            pos = rng.randrange(len(ref))
            lo = ref[pos - 1] if pos > 0 else 0
            hi = ref[pos + 1] if pos + 1 < len(ref) else m
            nv = rng.randint(min(lo, hi), max(lo, hi)) if not unsort else v
            ops += [6, pos, nv]
            ref[pos] = nv
        elif r < 0.92 and ref:
            ops += [7, rng.randrange(len(ref)), 0]
        elif r < 0.96 and ref:
            pos = rng.randrange(len(ref))
            hi = ref[pos + 1] if pos + 1 < len(ref) else m
            by = rng.randint(0, max(0, hi - ref[pos])) if not unsort else rng.randint(0, m - ref[pos])
            ops += [8, pos, by]
            ref[pos] += by
        elif ref:
            pos = rng.randrange(len(ref))
            ops += [9, pos, 0]
            ref[pos] //= 2
            if not unsort and not all(ref[k] <= ref[k + 1] for k in range(len(ref) - 1)):
                ref.sort()   # generation-time bookkeeping only; the oracle keeps its own reference
        else:
            ops += [2, v, 0]
        if len(ref) >= cap:
            fill = False
    return "packed_ops %s %s %s" % (cfg(key), to_hex(pre, nb), lst(ops))


# ---------------------------------------------------------------- oracles (C output only)

def _L(s):
    return [int(x) for x in s[1:].split(",")] if len(s) > 1 else []


def in_window(n, i, j):
    if n <= 48:
        return True
    if j < 8 or j + 8 >= n:
        return True
    return j + 8 >= i and j <= i + 8


def o_elem(args, c):
    w, S = int(args[0]), int(args[1])
    op, i, arg = int(args[6]), int(args[7]), int(args[8])
    if "fault" in c:
        return "access outside the slots of element %d (fault=%s)" % (i, c["fault"])
    m = (1 << w) - 1
    B = from_hex(args[9])
    A = from_hex(c["arr"])
    nb = (len(args[9]) - 1) // 2
    n = min((nb * 8) // w, lmax(int(args[4])) + 1)
    lo = i * w
    cur = (B >> lo) & m
    if op == 0:
        want = arg
    elif op == 1:
        if not (arg >= 0 and cur + arg <= m):
            return None            # the property speaks of non-negative increments with the result in range
        want = cur + arg
    elif op == 2:
        want = cur // 2
    else:
        want = cur
    if "ab" in c:
        return "result depends on where the array is placed"
    if (A ^ B) & ~(m << lo):
        return "storage bits outside element %d changed" % i
    if (A >> lo) & m != want:
        return "element %d holds %d after the operation, expected %d" % (i, (A >> lo) & m, want)
    if int(c["ret"]) != want:
        return "Get(%d) returns %s, expected %d" % (i, c["ret"], want)
    el = _L(c["elems"])
    js = [j for j in range(n) if in_window(n, i, j)]
    if len(el) != len(js):
        return "wrong number of elements read back"
    for j, e in zip(js, el):
        exp = want if j == i else (B >> (j * w)) & m
        if e != exp:
            return "Get(%d) returns %d after the operation on element %d, expected %d" % (j, e, i, exp)
    return None


def o_ops(args, c):
    w, S, L = int(args[0]), int(args[1]), int(args[4])
    if "fault" in c:
        return "access outside the exactly sized array (fault=%s)" % c["fault"]
    m = (1 << w) - 1
    pre = from_hex(args[6])
    nb = (len(args[6]) - 1) // 2
    cap = min((nb * 8) // w, lmax(L))
    ops = _L(args[7])
    res = _L(c["r"])
    states = c["st"].split("/") if ops else []
    nops = len(ops) // 3
    if len(res) != nops or len(states) != nops:
        return "wrong number of results"
    if c.get("twin") != "same":
        return "result depends on where the array is placed"
    ref = []
    maxlen = 0
    excused = False     # an increment outside the property's precondition may spill into neighbours
    for s in range(nops):
        op, x, y = ops[3 * s:3 * s + 3]
        got = [int(t, 16) for t in states[s].split(",")] if states[s] else []
        r = res[s]
        srt = all(ref[k] <= ref[k + 1] for k in range(len(ref) - 1))
        exp_r, check = None, True
        cnt_ok = op < 10 or (y * 8) // w == len(ref)
        if op in (0, 10):
            if len(ref) >= cap or not cnt_ok:
                exp_r = -2
            elif srt:
                ref.insert(bisect_left(ref, x), x)
                exp_r = 0
            else:
                check = False
        elif op in (1, 11):
            if not cnt_ok:
                exp_r = -2
            elif srt:
                if x in ref:
                    ref.remove(x)      # a sorted list: the first equal element
                    exp_r = 1
                else:
                    exp_r = 0
            else:
                check = False
        elif op in (2, 12):
            if not cnt_ok:
                exp_r = -2
            elif srt:
                exp_r = ref.index(x) if x in ref else -1
            else:
                check = False
        elif op == 3:
            if srt:
                exp_r = bisect_left(ref, x)
            else:
                check = False
        elif op == 4:
            if len(ref) >= cap or x > len(ref):
                exp_r = -2
            else:
                ref.insert(x, y)
                exp_r = 0
        elif op in (5, 13):
            if x >= len(ref) or not cnt_ok:
                exp_r = -2
            else:
                del ref[x]
                exp_r = 0
        elif op == 6:
            if x >= len(ref):
                exp_r = -2
            else:
                ref[x] = y
                exp_r = 0
        elif op == 7:
            exp_r = ref[x] if x < len(ref) else -2
        elif op == 8:
            if x >= len(ref):
                exp_r = -2
            elif y >= 0 and ref[x] + y <= m:
                ref[x] += y
                exp_r = 0
            else:
                check = False
                excused = True
        elif op == 9:
            if x >= len(ref):
                exp_r = -2
            else:
                ref[x] //= 2
                exp_r = 0
        if not check:
            ref = list(got)        # outside what the property specifies: follow the implementation
        else:
            if r != exp_r:
                return "step %d (op %d %d %d): result %d, reference %d" % (s, op, x, y, r, exp_r)
            if got != ref:
                return "step %d (op %d %d %d): array %s, reference %s" % (s, op, x, y, got, ref)
        maxlen = max(maxlen, len(ref))
    if int(c["len"]) != len(ref):
        return "final length"
    raw = from_hex(c["raw"])
    if not excused and (raw ^ pre) >> (maxlen * w):
        return "storage bits beyond the array (after element %d) changed" % maxlen
    return None


def classify(case, m):
    t = case.split()
    if t[0] == "packed_elem":
        w, S, op, i = int(t[1]), int(t[2]), int(t[7]), int(t[8])
        two = (i * w) // S != (i * w + w - 1) // S
        nb = (len(t[10]) - 1) // 2
        lastslot = (i * w + w - 1) // S == nb * 8 // S - 1
        if op == 3 and from_hex(t[10]) == 0:
            return "trivial"
        return "%s/%s%s" % (["set", "incr", "half", "get"][op], "two-slot" if two else "one-slot",
                             "/last-slot" if lastslot else "")
    if t[0] == "packed_ops":
        return "ops/%s" % ("compact" if t[6] == "1" else "plain")
    return None


def search(rng, divergent_cases):
    """neighbourhood of divergent cases (nearby positions / values, prefixes of
    operation lists) + a fresh batch"""
    for c in divergent_cases[:20]:
        t = c.split()
        key = tuple(int(x) for x in t[1:7])
        if key not in INSTS:
            continue
        w, S = key[0], key[1]
        if t[0] == "packed_elem":
            op, i, arg = int(t[7]), int(t[8]), int(t[9])
            B = from_hex(t[10])
            n = ((len(t[10]) - 1) // 2 * 8) // w
            for di in range(-3, 4):
                if 0 <= i + di < n:
                    for v in (arg, 0, (1 << w) - 1):
                        yield elem_case(key, op, i + di, v if op == 0 else arg, n, B)
                        yield elem_case(key, 0, i + di, v & ((1 << w) - 1), n, 0)
        elif t[0] == "packed_ops":
            ops = _L(t[8])
            for k in range(3, len(ops), 3):
                yield "packed_ops %s %s %s" % (" ".join(t[1:7]), t[7], lst(ops[:k]))
    r2 = random.Random(rng.getrandbits(32))
    yield from generate(r2, "quick")


PARTS = {
    "C09": dict(coq_props=["Properties_C09_packed", "Properties_C09_packed_bytes"], files=FILES, rule=RULE, generate=generate,
                oracles={"packed_elem": o_elem, "packed_ops": o_ops}, classify=classify, search=search,
                assumptions=["element counts below 2^31 and below the maximum of the instantiation's length type",
                             "values passed to Set/Insert are below 2^w (the C asserts it)",
                             "positional Delete is called with offset < len, Insert with offset <= len"],
                trusted_base=["generated instantiation unit harness/c/packed_inst.h (gen_packed.py) lists the admitted "
                              "(bits, slot, promotion, value, length type, compact) combinations"],
                configs_quick=["pinned", "O0"]),
}
