"""float — src/varintFloat.{c,h}: C07 (codec accuracy), C03 (size bound), C16 (returned
length = bytes written = bytes the decoder walks).  Doubles are decimal uint64 bit patterns."""
import struct
from fractions import Fraction
from vlib import *  # noqa

FILES = ["src/varintFloat.c", "src/varintFloat.h"]
MB = {0: 52, 1: 23, 2: 10, 3: 4}
F52 = (1 << 52) - 1
INF = 0x7FF << 52
ONE = 1023 << 52

RULE_C07 = ("arrays of bit patterns of every class (NaN payloads quiet/signalling, +-inf, +-0, subnormals, normals "
            "with biased exponent 1, 2, around the bias, 2045, 2046), fractions all-ones / carrying / tie / just "
            "below tie at each precision's rounding position, decimal magnitudes 1e-308..1e308 mixed in one array, "
            "exponent spreads 254..257 and 2045 (COMMON fallback), every integer literal of varintFloat.{c,h} used "
            "as exponent, fraction and raw pattern, lengths around the bitmap byte boundaries, every precision x "
            "mode; auto: requested errors at, between and next to every mode bound; a constructed malformed "
            "stream for the decoder (defined behaviour only).  non-trivial = at least one element")
RULE_C03 = ("float_rt / float_auto with the output buffer allocated to exactly varintFloatMaxEncodedSize inside "
            "canaries: all-special arrays (8 bytes each), all-normal arrays with 2-byte exponents, alternating "
            "extreme exponents (widest deltas), lengths 1..17 and around 64/256; float_size for counts up to 2^60")
RULE_C16 = ("float_rt / float_auto: the encoder's return value against the bytes it wrote (canary frame after the "
            "returned length), against an independent walk of the stream layout, and against the decoder's return "
            "value")


def bits_of(x):
    return struct.unpack("<Q", struct.pack("<d", x))[0]


def mk(sign, e, frac):
    return (sign << 63) | (e << 52) | (frac & F52)


def is_special(d):
    e = (d >> 52) & 0x7FF
    return e == 0 or e == 0x7FF


def _carry_fracs():
    """fractions that sit at / next to the rounding position of each precision"""
    out = {0, 1, F52, F52 - 1, 1 << 51, (1 << 51) - 1, (1 << 51) + 1}
    for mb in (23, 10, 4):
        shift = 53 - mb                      # bits dropped from the 53-bit significand
        half = 1 << (shift - 1)
        top = F52 & ~((1 << shift) - 1)      # kept fraction bits all ones
        out |= {top | half, top | (half - 1), top | (half + 1), top, top | ((1 << shift) - 1),
                half, half - 1, half + 1, (1 << shift), (1 << shift) | half, (1 << shift) - 1,
                (3 << shift) | half, (3 << shift) | (half - 1)}
    return sorted(out)


SPECIALS = ([0, 1 << 63, INF, INF | (1 << 63)]
            + [INF | p for p in (1, 1 << 51, (1 << 51) | 1, F52, 0x000F00000000BEEF, 1 << 50)]
            + [(1 << 63) | INF | p for p in (1, 1 << 51, F52, 0x0007FFFFFFFFFFFF)]
            + [1, 2, F52, F52 - 1, 1 << 51, (1 << 63) | 1, (1 << 63) | F52, 0x000123456789ABCD])
EXPS = [1, 2, 3, 127, 128, 255, 256, 257, 1000, 1013, 1019, 1021, 1022, 1023, 1024, 1025, 1026, 1150, 1278, 1279, 1280,
        2044, 2045, 2046]
DECIMALS = [bits_of(x) for x in (1e-308, 2.2250738585072014e-308, 1e-300, 1e-200, 1e-100, 1e-10, 1e-5, 0.1, 0.5,
                                 1.0, 1.5, 1.9999999999, 2.0, 3.141592653589793, 25.34, 100.0, 1e5, 1e10, 1e100,
                                 1e200, 1e300, 1e308, 1.7976931348623157e308, -1e-308, -1.9999999999, -1e308,
                                 -25.37, -1.7976931348623157e308)]


def _pool():
    vals = set(SPECIALS) | set(DECIMALS)
    fr = _carry_fracs()
    for e in EXPS:
        for f in fr:
            vals.add(mk(0, e, f))
        vals.add(mk(1, e, fr[-1]))
    lits = [v for v in scraped_literals(FILES)]
    for v in lits:
        vals.add(v & U64)                                  # raw pattern
        if 1 <= v <= 2046:
            vals.add(mk(0, v, F52))
            vals.add(mk(1, v, 0))
        vals.add(mk(0, 1023, v & F52))
        vals.add(mk(0, 1, v & F52))
        if v < 1 << 62:
            vals.add(bits_of(float(v)))
    return sorted(vals)


def rand_double(rng):
    r = rng.random()
    if r < 0.12:
        return rng.choice(SPECIALS)
    if r < 0.2:
        return mk(rng.getrandbits(1), rng.choice((0, 0x7FF)), rand_u64(rng) & F52)
    e = rng.choice(EXPS) if rng.random() < 0.35 else rng.randint(1, 2046)
    f = rng.choice(_CF) if rng.random() < 0.4 else rng.getrandbits(52)
    return mk(rng.getrandbits(1), e, f)


_CF = _carry_fracs()


def rand_normal(rng, elo=1, ehi=2046):
    f = rng.choice(_CF) if rng.random() < 0.4 else rng.getrandbits(52)
    return mk(rng.getrandbits(1), rng.randint(elo, ehi), f)


def arrays(rng, tier):
    """structured arrays (lists of bit patterns)"""
    big = tier != "quick"
    # lengths around the bitmap byte boundaries
    for n in list(range(0, 19)) + [31, 32, 33, 63, 64, 65]:
        yield [rand_double(rng) for _ in range(n)]
    for n in (1, 2, 7, 8, 9, 16, 17, 40):
        yield [rng.choice(SPECIALS) for _ in range(n)]                 # all special
        yield [rand_normal(rng) for _ in range(n)]                      # all normal, any magnitude
        yield [rand_normal(rng, 1020, 1030) for _ in range(n)]          # similar magnitude
    # exponent spreads at the one-byte limit of COMMON_EXPONENT
    for spread in (0, 1, 254, 255, 256, 257, 300, 2045):
        for lo in (1, 2, 700, 2046 - spread):
            if 1 <= lo and lo + spread <= 2046:
                a = [mk(0, lo, F52), mk(1, lo + spread, 0)]
                yield a
                yield [rng.choice(SPECIALS)] + a[::-1] + [rng.choice(SPECIALS), rand_normal(rng, lo, lo + spread)]
    # spread 255 that becomes 256 only through a rounding carry
    for lo in (1, 500, 1790):
        yield [mk(0, lo, 0), mk(0, lo + 255, F52)]
        yield [mk(0, lo, F52), mk(0, lo + 255, F52)]
    # carry out of the largest finite exponent
    yield [mk(0, 2046, F52), mk(1, 2046, F52), mk(0, 2046, F52 - 1), mk(0, 2046, 0)]
    # slowly varying / alternating extreme exponents (delta mode)
    yield [mk(0, 1000 + i, rng.getrandbits(52)) for i in range(40)]
    yield [mk(i & 1, 1 if i & 1 else 2046, rng.getrandbits(52)) for i in range(21)]
    yield [mk(0, 2046, F52) if i % 3 else rng.choice(SPECIALS) for i in range(25)]
    # decimal magnitudes 1e-308 .. 1e308 in one array
    yield list(DECIMALS)
    yield [bits_of(10.0 ** k) for k in range(-307, 309, 7)]
    yield [bits_of(rng.choice((-1, 1)) * rng.uniform(1, 10) * 10.0 ** rng.randint(-307, 307)) for _ in range(60)]
    # the library test's data
    yield [bits_of(x) for x in (25.34, 25.35, 25.36, 25.33, 25.37)]
    sizes = (130, 257, 700) if not big else (130, 257, 1000, 4000, 8000)   # the extracted model recurses on bit lists
    for n in sizes:
        yield [rand_double(rng) for _ in range(n)]
        yield [rand_normal(rng, 1000, 1040) for _ in range(n)]


def generate_C07(rng, tier):
    pool = _pool()
    modes = (0, 1, 2)
    precs = (0, 1, 2, 3)
    # every pool value alone and next to a neighbour, every precision, modes in rotation
    k = 0
    for v in pool:
        for p in precs:
            yield "float_rt %d %d %s" % (p, modes[k % 3], lst([v]))
            k += 1
    for v in pool[::3]:
        yield "float_parts %d" % v
    for arr in arrays(rng, tier):
        for p in precs:
            for m in modes:
                yield "float_rt %d %d %s" % (p, m, lst(arr))
    n_rand = 400 if tier == "quick" else 20000
    for _ in range(n_rand):
        n = rng.choice((1, 2, 3, 5, 8, 9, 13, 24))
        kind = rng.random()
        if kind < 0.5:
            arr = [rand_double(rng) for _ in range(n)]
        elif kind < 0.8:
            lo = rng.randint(1, 2046)
            arr = [rand_normal(rng, lo, min(2046, lo + rng.choice((3, 200, 255, 256, 600)))) for _ in range(n)]
        else:
            arr = [rng.choice(pool) for _ in range(n)]
        yield "float_rt %d %d %s" % (rng.choice(precs), rng.choice(modes), lst(arr))
    # enum values outside the declared ones (default branches; decoder treats mode >= 2 as delta)
    for p, m in ((4, 0), (7, 1), (255, 2), (0, 3), (2, 255), (3, 77)):
        yield "float_rt %d %d %s" % (p, m, lst([rand_double(rng) for _ in range(9)]))
    # automatic selection: requested errors at / between / next to the mode bounds
    errs = set()
    for mb in (52, 23, 10, 4):
        b = (1023 - mb) << 52
        errs |= {b, b - 1, b + 1, b + (1 << 51), b - (1 << 50)}
    errs |= {bits_of(x) for x in (1e-300, 1e-16, 1e-12, 1e-10, 9.9e-11, 1e-9, 1e-8, 1e-7, 1.2e-7, 1e-6, 1e-5, 1e-4,
                                  4e-4, 4.9e-4, 5e-4, 5.1e-4, 9.7e-4, 1e-3, 0.01, 0.029, 0.03, 0.031, 0.05, 0.0625,
                                  0.07, 0.1, 0.5, 0.999, 5e-324)}
    errs |= {v for v in scraped_literals(FILES) if v < (1 << 63)}
    weird = [0, 1 << 63, ONE, ONE + 1, INF, INF | 1, INF | (1 << 51), (1 << 63) | bits_of(0.5), (1 << 63) | INF,
             bits_of(2.0), bits_of(1e300)]
    sample = [list(DECIMALS), [bits_of(x) for x in (25.34, 25.35, 25.36, 25.33, 25.37)],
              [mk(0, 1023, f) for f in _CF], [mk(0, 2046, F52), mk(1, 1, F52), INF | 5, 0]]
    for i, e in enumerate(sorted(errs) + weird):
        for arr in sample if tier != "quick" else (sample[i % len(sample)], sample[2]):
            yield "float_auto %d %d %s" % (e, i % 3, lst(arr))
    for _ in range(150 if tier == "quick" else 5000):
        e = mk(0, rng.randint(960, 1023), rng.getrandbits(52)) if rng.random() < 0.8 else rand_u64(rng)
        yield "float_auto %d %d %s" % (e, rng.randrange(3), lst([rand_double(rng) for _ in range(rng.randint(1, 12))]))
    # decompose / compose on arbitrary arguments
    for _ in range(300 if tier == "quick" else 5000):
        yield "float_compose %d %d %d" % (rng.choice((0, 1, 1, 2, 3, rand_u64(rng))),
                                          rng.choice((0, -1022, -1023, -1024, 1023, 1024, 1025, -32768, 32767,
                                                      rng.randint(-1100, 1100), rng.randint(-32768, 32767))),
                                          rng.choice((0, 1, 1 << 52, (1 << 53) - 1, rand_u64(rng))))
    for _ in range(300 if tier == "quick" else 5000):
        yield "float_parts %d" % rand_double(rng)
    yield from malformed(rng, tier)


# ---- malformed / arbitrary streams for the decoder (only inputs on which the C is defined:
# exponent widths 1..8, mantissa width <= 64); truncation makes the C fault on the guard page,
# which the model predicts from the number of bytes it consumes.
def _stream(rng, count):
    mode = rng.choice((0, 1, 2, 2, 3, 200))
    mb = rng.choice((0, 1, 4, 7, 8, 10, 23, 52, 52, 53, 63, 64))
    nb = (count + 7) // 8
    flags = [rng.random() < 0.4 for _ in range(count)]
    s = [rng.randrange(256), rng.randrange(256), mb, mode]
    bm = [0] * nb
    for i, f in enumerate(flags):
        if f:
            bm[i // 8] |= 1 << (i % 8)
    if count % 8 and rng.random() < 0.5:
        bm[-1] |= rng.randrange(256) & ~((1 << (count % 8)) - 1) & 255      # junk in the padding bits
    s += bm
    s += [rng.randrange(256) for _ in range(nb)]
    normal = flags.count(False)

    def expo():
        w = rng.choice((1, 1, 2, 2, 3, 8, rng.randint(1, 8)))
        return [w] + [rng.randrange(256) if rng.random() < 0.7 else rng.choice((0, 255)) for _ in range(w)]
    if mode == 0:
        for _ in range(normal):
            s += expo()
    elif mode == 1:
        if normal:
            s += expo() + [rng.randrange(256) for _ in range(normal)]
    else:
        for _ in range(normal):
            s += expo()
    if normal:
        s += [rng.randrange(256) for _ in range((normal * mb + 7) // 8)]
    for f in flags:
        if f:
            s += [rng.randrange(256) for _ in range(8)]
    return s


def malformed(rng, tier):
    for _ in range(250 if tier == "quick" else 5000):
        count = rng.choice((0, 1, 2, 3, 7, 8, 9, 17))
        s = _stream(rng, count)
        r = rng.random()
        if r < 0.35 and s:
            s = s[:rng.randrange(len(s))]                  # truncated
        elif r < 0.5:
            s = s + [rng.randrange(256) for _ in range(rng.randint(1, 9))]   # trailing bytes
        yield "float_dec %d %s" % (count, hexs(s))


# ---- oracles ---------------------------------------------------------------------------

def _val(d):
    """|d| as (integer significand, biased exponent >= 1): value = sig * 2^(e - 1075)"""
    e = (d >> 52) & 0x7FF
    f = d & F52
    return (f, 1) if e == 0 else (f | (1 << 52), e)


def _check_elem(d, r, mb, err=None):
    """the C07 statement for one element: d input pattern, r decoded pattern, mb mantissa bits of
    the mode (52 = full), err = requested error as Fraction for the automatic selection"""
    if mb == 52 or is_special(d):
        return None if r == d else "%d decoded as %d, must be bit-exact" % (d, r)
    if (r >> 63) != (d >> 63):
        return "sign of %d changed (%d)" % (d, r)
    sig, e = _val(d)
    re_ = (r >> 52) & 0x7FF
    if re_ == 0x7FF:
        if r & F52:
            return "normal %d decoded as NaN %d" % (d, r)
        # infinity only for a value that rounds above the largest finite double
        if e == 2046 and sig + (1 << (52 - mb)) >= (1 << 53):
            return None
        return "finite %d decoded as infinity" % d
    rsig, re2 = _val(r)
    a = sig << e
    b = rsig << re2
    if abs(a - b) << mb > a:
        return "relative error of %d -> %d exceeds 2^-%d" % (d, r, mb)
    if err is not None and Fraction(abs(a - b)) > err * a:
        return "relative error of %d -> %d exceeds the requested %s" % (d, r, float(err))
    return None


def _common(args, c, ds):
    if "fault" in c:
        return "fault=" + c["fault"]
    dec = L(c["dec"])
    if len(dec) != len(ds):
        return "decoded %d values from %d" % (len(dec), len(ds))
    return None


def L(s):
    return [int(x) for x in s[1:].split(",")] if len(s) > 1 else []


def o_rt_C07(args, c):
    prec, mode, ds = int(args[0]), int(args[1]), L(args[2])
    if prec > 3 or mode > 2:
        return None                      # not a declared precision / mode: no statement
    m = _common(args, c, ds)
    if m:
        return m
    for d, r in zip(ds, L(c["dec"])):
        m = _check_elem(d, r, MB[prec])
        if m:
            return "precision %d mode %d: %s" % (prec, mode, m)
    return None


def _frac_of_bits(b):
    sig, e = _val(b)
    return Fraction(sig) * Fraction(2) ** (e - 1075)


def o_auto_C07(args, c):
    eb, mode, ds = int(args[0]), int(args[1]), L(args[2])
    if mode > 2 or (eb >> 63) or ((eb >> 52) & 0x7FF) == 0x7FF or eb == 0 or eb >= ONE:
        return None                      # the statement is for requested errors in (0, 1)
    m = _common(args, c, ds)
    if m:
        return m
    prec = int(c["prec"])
    if prec not in MB:
        return "selected precision %d" % prec
    err = _frac_of_bits(eb)
    for d, r in zip(ds, L(c["dec"])):
        m = _check_elem(d, r, MB[prec], err)
        if m:
            return "requested error %s selected %d: %s" % (float(err), prec, m)
    return None


def o_bound(args, c):
    """C03: the encoder stayed inside the advertised MaxEncodedSize (the buffer is exactly that)"""
    if "fault" in c:
        return "fault=" + c["fault"]
    if int(c["len"]) > int(c["max"]):
        return "returned length %s exceeds varintFloatMaxEncodedSize %s" % (c["len"], c["max"])
    if c["guard"] != "ok":
        return "wrote outside the %s advertised bytes (%s)" % (c["max"], c["guard"])
    if "pmax" in c and int(c["len"]) > int(c["pmax"]):
        return "returned length %s exceeds MaxEncodedSize of the selected precision %s" % (c["len"], c["pmax"])
    return None


def _walk(enc, count):
    """independent walk of the stream layout: number of bytes the format occupies"""
    if count == 0:
        return 0
    mb, mode = enc[2], enc[3]
    nb = (count + 7) // 8
    flags = [(enc[4 + i // 8] >> (i % 8)) & 1 for i in range(count)]
    p = 4 + 2 * nb
    normal = flags.count(0)
    if mode == 1:
        if normal:
            p += 1 + enc[p] + normal
    else:
        for _ in range(normal):
            p += 1 + enc[p]
    if normal:
        p += (normal * mb + 7) // 8
    return p + 8 * (count - normal)


def o_meta(args, c):
    """C16: returned length = bytes written = bytes the layout occupies = bytes the decoder walks"""
    if "fault" in c:
        return "fault=" + c["fault"]
    ds = L(args[2])
    ln = int(c["len"])
    if c["frame"] != "ok":
        return "bytes after the returned length %d were written" % ln
    if c["guard"] != "ok":
        return "guard " + c["guard"]
    enc = bytes.fromhex(c["enc"][1:])
    if len(enc) != ln:
        return "returned length %d beyond the buffer" % ln
    try:
        w = _walk(enc, len(ds))
    except IndexError:
        return "stream layout runs past the returned length %d" % ln
    if w != ln:
        return "returned length %d but the stream occupies %d bytes" % (ln, w)
    if int(c["dlen"]) != ln:
        return "encoder returned %d, decoder consumed %s" % (ln, c["dlen"])
    return None


def o_size(args, c):
    count, prec = int(args[0]), int(args[1])
    if count >= 1 << 58:
        return None
    mb = MB.get(prec, 52)
    want = 0 if count == 0 else 4 + 2 * ((count + 7) // 8) + 17 * count + (mb * count + 7) // 8
    if int(c["max"]) != want:
        return "MaxEncodedSize(%d,%d) = %s, header formula gives %d" % (count, prec, c["max"], want)
    return None


# ---- generators for C03 / C16 -----------------------------------------------------------

def generate_C03(rng, tier):
    precs, modes = (0, 1, 2, 3), (0, 1, 2)
    worst = []
    for n in list(range(1, 18)) + [63, 64, 65, 255, 256, 257]:
        worst.append([rng.choice(SPECIALS) for _ in range(n)])                              # 8 bytes each
        worst.append([mk(i & 1, 1 if i & 1 else 2046, F52) for i in range(n)])             # widest exponents / deltas
        worst.append([mk(0, 2046, F52)] * n)                                                # carry to infinity
        worst.append([mk(0, 1, rng.getrandbits(52)) for _ in range(n)])
        worst.append([rand_double(rng) for _ in range(n)])
    for arr in worst:
        for p in precs:
            for m in modes:
                yield "float_rt %d %d %s" % (p, m, lst(arr))
    yield "float_rt 0 0 L"
    for i, arr in enumerate(worst[::4]):
        for e in (bits_of(1e-12), bits_of(1e-5), bits_of(0.01), bits_of(0.5), 0, INF | 1):
            yield "float_auto %d %d %s" % (e, i % 3, lst(arr))
    for _ in range(300 if tier == "quick" else 10000):
        arr = [rand_double(rng) for _ in range(rng.randint(1, 40))]
        yield "float_rt %d %d %s" % (rng.choice(precs), rng.choice(modes), lst(arr))
    for n in (700, 2000) if tier == "quick" else (700, 2000, 5000, 8000):
        yield "float_rt %d %d %s" % (rng.choice(precs), rng.choice(modes), lst([rand_double(rng) for _ in range(n)]))
    for count in sorted(set(boundary_values()) | set(scraped_literals(FILES))):
        if count < 1 << 60:
            for p in (0, 1, 2, 3, 4):
                yield "float_size %d %d" % (count, p)


def generate_C16(rng, tier):
    precs, modes = (0, 1, 2, 3), (0, 1, 2)
    for arr in arrays(rng, tier):
        for p in precs:
            for m in modes:
                yield "float_rt %d %d %s" % (p, m, lst(arr))
    for _ in range(400 if tier == "quick" else 10000):
        arr = [rand_double(rng) for _ in range(rng.randint(0, 30))]
        yield "float_rt %d %d %s" % (rng.choice(precs), rng.choice(modes), lst(arr))
    for _ in range(100 if tier == "quick" else 3000):
        e = mk(0, rng.randint(960, 1023), rng.getrandbits(52))
        yield "float_auto %d %d %s" % (e, rng.randrange(3), lst([rand_double(rng) for _ in range(rng.randint(0, 12))]))


def classify(case, m):
    t = case.split()
    api = t[0]
    if api in ("float_rt", "float_auto"):
        ds = L(t[3])
        if not ds:
            return "trivial"
        ns = sum(1 for d in ds if not is_special(d))
        kind = "allspecial" if ns == 0 else "allnormal" if ns == len(ds) else "mixed"
        enc = m.get("enc", "x")
        hdr = "p%sm%s" % (int(enc[1:3], 16), int(enc[7:9], 16)) if len(enc) >= 9 else "p?m?"
        fb = "-fallback" if api == "float_rt" and len(enc) >= 9 and t[2] == "1" and enc[7:9] == "00" else ""
        return "%s-%s-%s%s" % (api[6:], hdr, kind, fb)
    if api == "float_dec":
        return "dec-fault" if "fault" in m else ("trivial" if t[1] == "0" else "dec-ok")
    return api[6:]


def search(rng, divergent_cases):
    """every element of a divergent array alone and in pairs, in every precision x mode; then a fresh batch"""
    for c in divergent_cases[:20]:
        t = c.split()
        if t[0] in ("float_rt", "float_auto"):
            ds = L(t[3])[:64]
            for i, d in enumerate(ds):
                for p in (0, 1, 2, 3):
                    for m in (0, 1, 2):
                        yield "float_rt %d %d %s" % (p, m, lst([d]))
                        if i + 1 < len(ds):
                            yield "float_rt %d %d %s" % (p, m, lst([d, ds[i + 1]]))
            if t[0] == "float_auto":
                for de in (-1, 0, 1):
                    yield "float_auto %d %s %s" % ((int(t[1]) + de) & U64, t[2], t[3])
    r2 = random.Random(rng.getrandbits(32))
    yield from generate_C07(r2, "quick")
    yield from generate_C03(r2, "quick")


TRUSTED = ["IEEE-754 binary64 layout of `double` and the hardware `<` on doubles (modelled on bit patterns as fl_dlt)",
           "ldexp(1.0, -k) is the exact power of two (glibc)",
           "C07_float_rel_error_real only: Flocq 4 (B2R, b64_of_bits) and the stdlib real-number axioms "
           "(ClassicalDedekindReals.sig_forall_dec, sig_not_dec, functional_extensionality_dep, Classical_Prop.classic); "
           "the integer statements C07_float_* are closed under the global context"]
ASSUME = ["count < 2^58 (no size_t wrap in varintFloatMaxEncodedSize; the size_mul_overflow guards of the C need count >= 2^61)",
          "malloc succeeds (failure paths are C18)",
          "precision in {FULL,HIGH,MEDIUM,LOW}, mode in {INDEPENDENT,COMMON_EXPONENT,DELTA_EXPONENT} for the accuracy statements"]

SRC_TRUSTED = ["gen/c2coq.py + CSem.v for the *_src theorems (C-to-Gallina translator, clang 14 typed AST -> "
               "coq/gen/Src_leaf_float.v via gen/c2coq_leaf.py: truncateMantissa / expandMantissa regenerated from the "
               "current source on every run; subset and assumptions in the translator's docstring); the renderings are "
               "tied to the compiled C by the translator, not by proof"]

PARTS = {
    "C07": dict(coq_props=["Properties_C07_float", "Properties_C07_float_real", "Properties_C07_float_src"], files=FILES,
                rule=RULE_C07, generate=generate_C07,
                oracles={"float_rt": o_rt_C07, "float_auto": o_auto_C07}, classify=classify, search=search,
                assumptions=ASSUME, trusted_base=TRUSTED + SRC_TRUSTED, configs_quick=["pinned", "O0"]),
    "C03": dict(coq_props=["Properties_C03_float"], files=FILES, rule=RULE_C03, generate=generate_C03,
                oracles={"float_rt": o_bound, "float_auto": o_bound, "float_size": o_size}, classify=classify,
                search=search, assumptions=ASSUME, trusted_base=TRUSTED, configs_quick=["pinned", "O0"]),
    "C16": dict(coq_props=["Properties_C16_float"], files=FILES, rule=RULE_C16, generate=generate_C16,
                oracles={"float_rt": o_meta, "float_auto": o_meta}, classify=classify, search=search,
                assumptions=ASSUME, trusted_base=TRUSTED, configs_quick=["pinned", "O0"]),
}
