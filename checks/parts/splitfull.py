"""SplitFull / SplitFullNoZero (header-only macro families) — C01 and C04."""
import os
import re
from vlib import *  # noqa

HDR_SF = "src/varintSplitFull.h"
HDR_NZ = "src/varintSplitFullNoZero.h"
FILES = [HDR_SF, HDR_NZ, "src/varintExternal.h", "src/varintExternal.c", "src/varint.h", "README.md"]
SCRAPE = [HDR_SF, HDR_NZ, "src/varint.h"]

RULE_C01 = ("sf_rt/sfnz_rt x align and sf_rev/sfnz_rev x: x from both sides (+-2) of every level boundary of the "
            "two layouts, of every power of two / 256, every integer literal of the two headers and varint.h, at all "
            "8 alignments, plus random values of every bit length; NoZero never gets 0; non-trivial = encoding "
            "longer than one byte")
RULE_C04 = ("the C01 lines compared byte for byte with a Python reference encoder; *_mono adjacent pairs at every "
            "boundary and random ordered pairs; splitfull_max/emax family k against the README table, the header "
            "layout comment and the STORAGE_k constants; *_lenvar; *_dec / *_rdec on arbitrary byte strings (all 256 "
            "type bytes, mutated and truncated encodings); non-trivial = more than one byte involved")


# ------------------------------------------------------------ reference

def _consts(nz):
    m6 = 64 if nz else 63
    m14 = m6 + (1 << 14) - 1
    m22 = m14 + (1 << 22) - 1
    return m6, m14, m22


def ref_put(x, nz):
    """independently written encoder: the layout comment, read literally"""
    m6, m14, m22 = _consts(nz)
    if x <= m6:
        return bytes([x - 1 if nz else x])
    if x <= m14:
        v = x - m6
        return bytes([0x40 | (v >> 8), v & 0xff])
    if x <= m22:
        v = x - m14
        return bytes([0x80 | (v >> 16), (v >> 8) & 0xff, v & 0xff])
    v = x - m22
    w = max(2, (v.bit_length() + 7) // 8)
    return bytes([0xc0 | w]) + v.to_bytes(w, "little")


def ref_put_rev(x, nz):
    """reversed layout in memory order: embedded levels byte-reversed, external
    levels little-endian payload then the type byte"""
    b = ref_put(x, nz)
    if b[0] & 0xc0 != 0xc0:
        return b[::-1]
    return b[1:] + b[:1]


def level_bounds(nz):
    m6, m14, m22 = _consts(nz)
    s = [0, 1, m6, m14, m22, m22 + 255, m22 + 256]
    for k in range(1, 9):
        s.append(m22 + (1 << (8 * k)) - 1)
        s.append((1 << (8 * k)) - 1)
    s.append(U64)
    return s


def _pool(nz):
    vals = set(boundary_values()) | set(scraped_literals(SCRAPE))
    for nzz in (False, True):
        for b in level_bounds(nzz):
            for d in (-2, -1, 0, 1, 2):
                vals.add(b + d)
    lo = 1 if nz else 0
    return sorted(v for v in vals if lo <= v <= U64)


def _rand(rng, nz):
    v = rand_u64(rng)
    return max(v, 1) if nz else v


# ------------------------------------------------------------ generators

def generate_C01(rng, tier):
    n_rand = 2500 if tier == "quick" else 60000
    for pfx, nz in (("sf", False), ("sfnz", True)):
        pool = _pool(nz)
        for i, v in enumerate(pool):
            aligns = range(8) if (tier != "quick" or v in level_bounds(nz)) else ((i % 8), ((i * 3 + 1) % 8))
            for a in aligns:
                yield "%s_rt %d %d" % (pfx, v, a)
            yield "%s_rev %d" % (pfx, v)
        for _ in range(n_rand):
            yield "%s_rt %d %d" % (pfx, _rand(rng, nz), rng.randint(0, 7))
        for _ in range(n_rand):
            yield "%s_rev %d" % (pfx, _rand(rng, nz))
        # dense sweep over the never-shrink window and the first external level
        m6, m14, m22 = _consts(nz)
        for v in range(m22 - 3, m22 + 260):
            yield "%s_rt %d %d" % (pfx, v, v % 8)
            yield "%s_rev %d" % (pfx, v)


def _malformed(rng, tier, nz):
    n = 1500 if tier == "quick" else 40000
    # every type byte with a random tail, exact length / one short / longer
    for b0 in range(256):
        tail = bytes(rng.getrandbits(8) for _ in range(16))
        need = 1 + ((b0 & 0x0f) if b0 & 0xc0 == 0xc0 else b0 >> 6)
        for ln in {1, max(1, need - 1), need, need + 1, 17}:
            yield bytes([b0]) + tail[:ln - 1]
    # every 2-byte string of the unused row and its neighbours
    for q in (0, 1, 127, 254, 255):
        for b0 in (0xc1, 0xd1, 0xe1, 0xf1, 0xc2):
            yield bytes([b0, q, 0])
    # valid encodings, mutated or truncated
    for _ in range(n):
        x = _rand(rng, nz)
        b = bytearray(ref_put(x, nz))
        r = rng.random()
        if r < 0.3:
            i = rng.randrange(len(b))
            b[i] ^= 1 << rng.randrange(8)
        elif r < 0.5:
            b = b[:rng.randint(1, len(b))]
        elif r < 0.7:
            b[0] = (b[0] & 0xcf) | (rng.randrange(4) << 4) if b[0] & 0xc0 == 0xc0 else b[0]
        elif r < 0.85:
            b = bytearray(rng.getrandbits(8) for _ in range(rng.randint(1, 12)))
        yield bytes(b)
    # non-minimal payloads: wider external level than needed, incl. wrap-around
    for w in range(1, 9):
        for v in (0, 1, 255, 256, (1 << (8 * w)) - 1, (1 << (8 * w)) - 4210749, (1 << (8 * w)) - 4210751):
            if 0 <= v < (1 << (8 * w)):
                yield bytes([0xc0 | w]) + v.to_bytes(w, "little")


def generate_C04(rng, tier):
    yield from generate_C01(rng, tier)
    n_rand = 2000 if tier == "quick" else 50000
    for fam in ("sf", "sfnz"):
        for k in range(1, 10):
            yield "splitfull_max %s %d" % (fam, k)
        yield "splitfull_emax %s" % fam
    for pfx, nz in (("sf", False), ("sfnz", True)):
        pool = _pool(nz)
        for v in pool:
            if v + 1 <= U64:
                yield "%s_mono %d %d" % (pfx, v, v + 1)
        for _ in range(n_rand):
            a, b = rng.choice(pool), rng.choice(pool)
            yield "%s_mono %d %d" % (pfx, min(a, b), max(a, b))
        for _ in range(n_rand):
            a, b = _rand(rng, nz), _rand(rng, nz)
            yield "%s_mono %d %d" % (pfx, min(a, b), max(a, b))
        # LengthVAR_ alone (argument = value minus MAX_22)
        for k in range(0, 9):
            for d in (-2, -1, 0, 1, 2):
                v = (1 << (8 * k)) + d
                if 0 <= v <= U64:
                    yield "%s_lenvar %d" % (pfx, v)
        for _ in range(200):
            yield "%s_lenvar %d" % (pfx, rand_u64(rng))
        for b in _malformed(rng, tier, nz):
            yield "%s_dec %s" % (pfx, hexs(b))
        for b in _malformed(rng, tier, nz):
            # reversed reader: the type byte is the last one
            yield "%s_rdec %s" % (pfx, hexs(b[1:] + b[:1]))


# ------------------------------------------------------------ direct oracles

def _fault(c):
    return ("fault=" + c["fault"]) if "fault" in c else None


def _o_rt_c01(nz):
    def o(args, c):
        x = int(args[0])
        if nz and x == 0:
            return None                      # outside the documented domain
        f = _fault(c)
        if f:
            return f
        w = int(c["w"])
        if "get" in c:
            return "decoder undefined on the encoder's own output (%s)" % c["get"]
        if int(c["getv"]) != x:
            return "decoded %s, encoded %d" % (c["getv"], x)
        if not (w == int(c["len"]) == int(c["getlen"]) == int(c["getlenq"]) == int(c["getw"])):
            return "lengths disagree: put %d Length_ %s GetLen_ %s GetLenQuick_ %s Get_ %s" % (
                w, c["len"], c["getlen"], c["getlenq"], c["getw"])
        if not 1 <= w <= 9:
            return "length %d outside 1..9" % w
        if (len(c["put"]) - 1) // 2 != w:
            return "driver reported %d bytes for width %d" % ((len(c["put"]) - 1) // 2, w)
        if c["frame"] != "ok" or c["guard"] != "ok":
            return "bytes outside the %d encoded bytes modified (frame=%s guard=%s)" % (w, c["frame"], c["guard"])
        return None
    return o


def _o_rev_c01(nz):
    def o(args, c):
        x = int(args[0])
        if nz and x == 0:
            return None
        f = _fault(c)
        if f:
            return f
        if "get" in c:
            return "reversed decoder undefined on the encoder's own output (%s)" % c["get"]
        if int(c["getv"]) != x:
            return "reversed decode %s, encoded %d" % (c["getv"], x)
        wr, wf = int(c["wr"]), int(c["wf"])
        if not (wr == wf == int(c["len"]) == int(c["getw"])):
            return "lengths disagree: PutReversed %d PutForward %d Length_ %s ReversedGet_ %s" % (
                wr, wf, c["len"], c["getw"])
        if not 1 <= wr <= 9:
            return "length %d outside 1..9" % wr
        if c["guardr"] != "ok" or c["guardf"] != "ok" or c["framef"] != "ok":
            return "bytes outside the %d encoded bytes modified (guardr=%s guardf=%s framef=%s)" % (
                wr, c["guardr"], c["guardf"], c["framef"])
        if c["putr"] != c["putf"]:
            return "PutReversed and PutForward leave different bytes in memory"
        if int(c["off"]) != wr - 1:
            return "dst offset %s for length %d" % (c["off"], wr)
        return None
    return o


def _o_rt_c04(nz):
    def o(args, c):
        x = int(args[0])
        if nz and x == 0:
            return None
        f = _fault(c)
        if f:
            return f
        ref = ref_put(x, nz)
        if c["put"] != hexs(ref):
            return "bytes %s, documented format gives %s" % (c["put"], hexs(ref))
        if int(c["len"]) != len(ref):
            return "Length_ %s, format needs %d" % (c["len"], len(ref))
        return None
    return o


def _o_rev_c04(nz):
    def o(args, c):
        x = int(args[0])
        if nz and x == 0:
            return None
        f = _fault(c)
        if f:
            return f
        ref = ref_put_rev(x, nz)
        for k in ("putr", "putf"):
            if c[k] != hexs(ref):
                return "%s %s, documented reversed format gives %s" % (k, c[k], hexs(ref))
        return None
    return o


def _both(a, b):
    return lambda args, c: a(args, c) or b(args, c)


def _o_mono(nz):
    def o(args, c):
        a, b = int(args[0]), int(args[1])
        if nz and (a == 0 or b == 0):
            return None
        f = _fault(c)
        if f:
            return f
        la, lb = int(c["la"]), int(c["lb"])
        if a <= b and la > lb:
            return "length decreases: %d takes %d bytes, %d takes %d" % (a, la, b, lb)
        if int(c["wa"]) != la or int(c["wb"]) != lb:
            return "Put_ and Length_ disagree"
        return None
    return o


def _o_lenvar(args, c):
    v = int(args[0])
    want = 1 + max(2, (v.bit_length() + 7) // 8, 1)
    if int(c["len"]) != want:
        return "LengthVAR_(%d) = %s, never-shrink rule gives %d" % (v, c["len"], want)
    return None


def _o_dec(nz, rev):
    def o(args, c):
        f = _fault(c)
        if f:
            return f
        if "getv" not in c:
            return None                      # empty / undefined width field / truncated input
        b = bytes.fromhex(args[0][1:])
        t = b[-1] if rev else b[0]
        gw, v = int(c["getw"]), int(c["getv"])
        if gw != int(c["getlen"]):
            return "Get_ width %d, GetLen_ %s" % (gw, c["getlen"])
        if not rev and int(c["getlenq"]) != gw:
            return "GetLenQuick_ %s, Get_ width %d" % (c["getlenq"], gw)
        if rev:
            return None
        m22 = _consts(nz)[2]
        lenv = int(c["lenv"])
        if t & 0xcf == 0xc1:
            # the row the encoder never uses: the documented never-shrink window
            if not (m22 <= v <= m22 + 255 and lenv == 3):
                return "unused-row bytes decode to %d (Length_ %d): outside the documented window" % (v, lenv)
            return None
        if nz and v == 0:
            return None                      # wrap-around to the unrepresentable 0
        if lenv > gw:
            return "value %d decodes from %d bytes but the encoder uses %d" % (v, gw, lenv)
        return None
    return o


def _readme_rows():
    """{(family, kind): [cells]} kind in overview|first|second; cells int or None"""
    p = os.path.join(REPO, "README.md")
    out = {}
    if not os.path.exists(p):
        return out
    for line in open(p, errors="replace"):
        cells = [x.strip() for x in line.strip().strip("|").split("|")]
        if len(cells) < 6:
            continue
        fam = {"Split Full": "sf", "Split Full No Zero": "sfnz"}.get(cells[0])
        if not fam:
            continue
        kind = {"first byte": "overview", "first": "first", "second": "second"}.get(cells[1])
        if not kind:
            continue
        vals = []
        for x in cells[2:6]:
            x = x.replace(",", "")
            vals.append(int(x) if x.isdigit() else None)
        out[(fam, kind)] = vals
    return out


def _header_maxima(nz):
    """[(bytes, first|second, value)] from the Data Layout comment"""
    p = os.path.join(REPO, HDR_NZ if nz else HDR_SF)
    res = []
    if not os.path.exists(p):
        return res
    txt = open(p, errors="replace").read()
    m = re.search(r"Data Layout \*/(.*?)Currently unused", txt, re.S)
    if not m:
        return res
    kind, k, skip, want = "first", None, False, False
    for line in m.group(1).split("\n"):
        if "second type" in line:
            kind = "second"
        mm = re.match(r"\s*\*\s*(\d) bytes?:", line)
        if mm:
            k, skip, want = int(mm.group(1)), False, False
            continue
        if "NOT USED" in line:
            skip = True
        if "less than or equal to" in line:
            want = True
            continue
        mm = re.search(r"=\s*(\d+)\b", line)
        if mm and want and not skip and k:
            res.append((k, kind, int(mm.group(1))))
            want = False
    return res


def _o_max(args, c):
    fam, k = args[0], int(args[1])
    nz = fam == "sfnz"
    if c.get("max") == "none":
        return "no value fits in %d bytes" % k
    mx = int(c["max"])
    if c.get("tight") != "1":
        return "length does not step from %d to %d right after %d" % (k, k + 1, mx)
    if "const" in c and int(c["const"]) != mx:
        return "VARINT_SPLIT_FULL%s_STORAGE_%d = %s but values up to %d take %d bytes" % (
            "_NO_ZERO" if nz else "", k, c["const"], mx, k)
    rows = _readme_rows()
    ov = rows.get((fam, "overview"))
    if ov and k <= 4 and ov[k - 1] is not None and ov[k - 1] != mx:
        return "README storage table says %d byte max %d, code gives %d" % (k, ov[k - 1], mx)
    lv = [rows.get((fam, "first")), rows.get((fam, "second"))]
    if k <= 4 and all(lv):
        cells = [r[k - 1] for r in lv if r[k - 1] is not None]
        if cells and max(cells) != mx:
            return "README level table says %d byte max %d, code gives %d" % (k, max(cells), mx)
    hm = [v for (kk, _, v) in _header_maxima(nz) if kk == k]
    if hm and max(hm) != mx:
        return "header layout comment says %d byte max %d, code gives %d" % (k, max(hm), mx)
    return None


def _o_emax(args, c):
    fam = args[0]
    nz = fam == "sfnz"
    e = int(c["emax"])
    if c.get("tight") != "1":
        return "embedded levels do not end at %d" % e
    first = _readme_rows().get((fam, "first"))
    if first and first[2] is not None and first[2] != e:
        return "README level table says first-level 3 byte max %d, code gives %d" % (first[2], e)
    hm = [v for (kk, kind, v) in _header_maxima(nz) if kk == 3 and kind == "first"]
    if hm and hm[0] != e:
        return "header layout comment says embedded 3 byte max %d, code gives %d" % (hm[0], e)
    return None


ORACLES_C01 = {
    "sf_rt": _o_rt_c01(False), "sfnz_rt": _o_rt_c01(True),
    "sf_rev": _o_rev_c01(False), "sfnz_rev": _o_rev_c01(True),
}
ORACLES_C04 = {
    "sf_rt": _both(_o_rt_c01(False), _o_rt_c04(False)), "sfnz_rt": _both(_o_rt_c01(True), _o_rt_c04(True)),
    "sf_rev": _both(_o_rev_c01(False), _o_rev_c04(False)), "sfnz_rev": _both(_o_rev_c01(True), _o_rev_c04(True)),
    "sf_mono": _o_mono(False), "sfnz_mono": _o_mono(True),
    "sf_lenvar": _o_lenvar, "sfnz_lenvar": _o_lenvar,
    "sf_dec": _o_dec(False, False), "sfnz_dec": _o_dec(True, False),
    "sf_rdec": _o_dec(False, True), "sfnz_rdec": _o_dec(True, True),
    "splitfull_max": _o_max, "splitfull_emax": _o_emax,
}


# ------------------------------------------------------------ classes / search

def classify(case, m):
    api = case.split(" ", 1)[0]
    if not (api.startswith("sf_") or api.startswith("sfnz_") or api.startswith("splitfull_")):
        return None
    fam, _, op = api.partition("_")
    if op == "rt":
        w = m.get("w", "0")
        return "trivial" if w == "1" else "%s-len%s" % (fam, w)
    if op == "rev":
        w = m.get("wr", "0")
        return "trivial" if w == "1" else "%s-rev-len%s" % (fam, w)
    if op == "mono":
        return "%s-mono-%s" % (fam, "step" if m.get("la") != m.get("lb") else "flat")
    if op in ("dec", "rdec"):
        if "getv" in m:
            return "trivial" if m.get("getw") == "1" else "%s-%s-ok" % (fam, op)
        return "%s-%s-%s" % (fam, op, m.get("get", "?"))
    if op == "lenvar":
        return "%s-lenvar" % fam
    return "table"


def search(rng, divergent_cases):
    for c in divergent_cases:
        t = c.split()
        api = t[0]
        if api.endswith(("_rt", "_rev", "_lenvar")):
            x = int(t[1])
            for d in range(-4, 5):
                if 0 <= x + d <= U64:
                    if api.endswith("_rt"):
                        for a in range(8):
                            yield "%s %d %d" % (api, x + d, a)
                    else:
                        yield "%s %d" % (api, x + d)
        elif api.endswith("_mono"):
            a, b = int(t[1]), int(t[2])
            for da in range(-2, 3):
                for db in range(-2, 3):
                    if 0 <= a + da <= b + db <= U64:
                        yield "%s %d %d" % (api, a + da, b + db)
    r2 = random.Random(rng.getrandbits(32))
    yield from generate_C04(r2, "thorough")


ASSUME = ["little-endian host (endianIsLittle() true), default build (VARINT_SPLIT_FULL[_NO_ZERO]_USE_MAXIMUM_RANGE "
          "not defined)",
          "SplitFullNoZero is only required to handle x >= 1 (0 has no encoding by design)",
          "decoders are handed at least GetLen_ bytes (the macros take no length); a width field of 0 or 9..15 in "
          "the type byte is undefined behaviour in varintExternalGet and is not executed on the C side"]
TRUSTED = ["checks/parts/splitfull.py reference encoder and README / header-comment parsers"]

PARTS = {
    "C01": dict(coq_props=["Properties_C01_splitfull"], files=FILES, rule=RULE_C01, generate=generate_C01,
                oracles=ORACLES_C01, classify=classify, search=search, assumptions=ASSUME,
                trusted_base=TRUSTED, configs_quick=["pinned", "O0"]),
    "C04": dict(coq_props=["Properties_C04_splitfull"], files=FILES, rule=RULE_C04, generate=generate_C04,
                oracles=ORACLES_C04, classify=classify, search=search, assumptions=ASSUME,
                trusted_base=TRUSTED, configs_quick=["pinned", "O0"]),
}
