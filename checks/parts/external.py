"""external — varintExternal.{c,h}, varintExternalBigEndian.{c,h}, the add macro of varint.h.
Contributes to C01 (round trip / lengths / frame / signed helpers), C04 (byte-exact minimal
little-/big-endian slice, length monotone) and C12 (in-place add)."""
from vlib import *  # noqa

FILES = ["src/varintExternal.c", "src/varintExternal.h", "src/varintExternalBigEndian.c",
         "src/varintExternalBigEndian.h", "src/varint.h"]
I64MIN, I64MAX = -(1 << 63), (1 << 63) - 1


# ------------------------------------------------------------------ reference (independent of the model)

def ref_width(x):
    """least k >= 1 with x < 256^k"""
    k = 1
    while x >= (1 << (8 * k)):
        k += 1
    return k


def ref_le(x, w):
    return "x" + (x % (1 << (8 * w))).to_bytes(w, "little").hex()


def ref_be(x, w):
    return "x" + (x % (1 << (8 * w))).to_bytes(w, "big").hex()


def to_s64(u):
    return u - (1 << 64) if u >= (1 << 63) else u


def _pool():
    s = set(boundary_values()) | set(scraped_literals(FILES))
    for k in range(1, 9):
        for d in (-2, -1, 0, 1, 2):
            s.add((1 << (8 * k)) + d)
            s.add((1 << (8 * k - 1)) + d)
    return sorted(v for v in s if 0 <= v <= U64)


# ------------------------------------------------------------------ C01

def generate_C01(rng, tier):
    n_rand = 1500 if tier == "quick" else 40000
    pool = _pool()
    # every pool value: encoder + all readers, at every alignment for the byte boundaries
    for i, v in enumerate(pool):
        yield "ext_rt %d %d" % (v, i % 8)
        yield "extbe_rt %d %d" % (v, (i + 3) % 8)
    for k in range(0, 9):
        for d in (-1, 0, 1):
            v = (1 << (8 * k)) + d
            if 0 <= v <= U64:
                for al in range(8):
                    yield "ext_rt %d %d" % (v, al)
                    yield "extbe_rt %d %d" % (v, al)
    # fixed width: every width 1..8 (legal ones round-trip, shorter ones truncate)
    for i, v in enumerate(pool):
        if i % 3 == 0 or ref_width(v) != ref_width(max(v - 3, 0)) or ref_width(v) != ref_width(min(v + 3, U64)):
            for w in range(1, 9):
                yield "ext_fixed %d %d %d" % (v, w, (i + w) % 8)
                yield "extbe_fixed %d %d %d" % (v, w, (i + 2 * w) % 8)
    for _ in range(n_rand):
        v = rand_u64(rng)
        yield "ext_rt %d %d" % (v, rng.randint(0, 7))
        yield "extbe_rt %d %d" % (v, rng.randint(0, 7))
        w = rng.randint(1, 8)
        yield "ext_fixed %d %d %d" % (v, w, rng.randint(0, 7))
        yield "extbe_fixed %d %d %d" % (v, w, rng.randint(0, 7))
        w = rng.randint(ref_width(v), 8)
        yield "ext_fixed %d %d %d" % (v, w, rng.randint(0, 7))
        yield "extbe_fixed %d %d %d" % (v, w, rng.randint(0, 7))
    # malformed / arbitrary stored bytes for the readers (all-ones, high bits, random)
    for w in range(1, 9):
        for pat in (0x00, 0x7f, 0x80, 0xff):
            yield "ext_getraw %s %d" % (hexs([pat] * w), w)
            yield "ext_getraw %s %d" % (hexs([pat] * 8), w)
        yield "ext_getraw %s %d" % (hexs([0] * (w - 1) + [0x80]), w)
        yield "ext_getraw %s %d" % (hexs([0x80] + [0] * (w - 1)), w)
    for _ in range(n_rand):
        n = rng.randint(1, 8)
        bs = [rng.choice([0, 1, 0x7f, 0x80, 0xff, rng.randint(0, 255), rng.randint(0, 255)]) for _ in range(n)]
        yield "ext_getraw %s %d" % (hexs(bs), rng.randint(1, n))
    # signed helpers
    for w in (3, 5, 6, 7):
        k = 8 * w - 1
        lim = (1 << 31) if w == 3 else (1 << 63)
        vals = set()
        for base in (0, 1 << k, -(1 << k), 1 << (k + 1), -(1 << (k + 1)), lim - 1, -lim, 1 << (k - 1), -(1 << (k - 1)),
                     1 << 23, -(1 << 23), 1 << 31, -(1 << 31), 1 << 39, 1 << 47, 1 << 55, -(1 << 39), -(1 << 47), -(1 << 55)):
            for d in (-2, -1, 0, 1, 2):
                vals.add(base + d)
        for v in sorted(vals):
            if -lim <= v < lim:
                yield "ext_signed %d %d" % (v, w)
                yield "ext_restore %d %d" % (v, w)
        for _ in range(n_rand // 4):
            b = rng.randint(1, k)
            v = rng.getrandbits(b) * rng.choice([1, -1])
            yield "ext_signed %d %d" % (v, w)
            v = rng.getrandbits(rng.randint(1, 31 if w == 3 else 63)) * rng.choice([1, -1])
            yield "ext_signed %d %d" % (v, w)
            yield "ext_restore %d %d" % (v, w)


def _fault(c):
    return ("fault=" + c["fault"]) if "fault" in c else None


def o_rt_C01(be):
    def o(args, c):
        x = int(args[0])
        if _fault(c):
            return _fault(c)
        w = int(c["w"])
        if not (1 <= w <= 8):
            return "encoder returned width %d outside 1..8" % w
        if c["frame"] != "ok" or c["guard"] != "ok":
            return "encoder modified bytes outside the %d it reported (frame=%s guard=%s)" % (w, c["frame"], c["guard"])
        if len(c["put"]) != 1 + 2 * w:
            return "shown bytes do not match width"
        readers = ["get", "getq"] if be else ["get", "getq", "getqm", "getqmrv"]
        for k in readers:
            if int(c[k]) != x:
                return "%s returned %s for stored %d" % (k, c[k], x)
        lens = ["uenc"] if be else ["len", "uenc"]
        for k in lens:
            if int(c[k]) != w:
                return "%s=%s but encoder returned %d" % (k, c[k], w)
        if not be and c["senc"] != "na" and int(c["senc"]) != w:
            return "senc=%s but encoder returned %d" % (c["senc"], w)
        return None
    return o


def o_fixed_C01(be):
    def o(args, c):
        x, w = int(args[0]), int(args[1])
        if _fault(c):
            return _fault(c)
        if c["put"] == "none":
            return None
        for g in (["guard", "guardq"] if be else ["guard", "guardq", "guardqm"]):
            if c[g] != "ok":
                return "fixed-width writer of width %d wrote outside its %d bytes (%s=%s)" % (w, w, g, c[g])
        for k in (["putq"] if be else ["putq", "putqm"]):
            if c[k] != c["put"]:
                return "%s bytes %s differ from the function's %s" % (k, c[k], c["put"])
        want = x if w >= ref_width(x) else x % (1 << (8 * w))
        for k in (["get", "getq"] if be else ["get", "getq", "getqm", "getqmrv"]):
            if int(c[k]) != want:
                return "%s returned %s, expected %d (value %d at width %d)" % (k, c[k], want, x, w)
        return None
    return o


def o_getraw(args, c):
    if _fault(c):
        return _fault(c)
    if c.get("get") == "none":
        return None
    b = bytes.fromhex(args[0][1:])[:int(args[1])]
    le, be = int.from_bytes(b, "little"), int.from_bytes(b, "big")
    for k in ("get", "getq", "getqm", "getqmrv"):
        if int(c[k]) != le:
            return "%s=%s for bytes %s (little-endian value %d)" % (k, c[k], b.hex(), le)
    for k in ("beget", "begetq"):
        if int(c[k]) != be:
            return "%s=%s for bytes %s (big-endian value %d)" % (k, c[k], b.hex(), be)
    return None


def o_signed(args, c):
    v, w = int(args[0]), int(args[1])
    if _fault(c):
        return _fault(c)
    if c.get("prep") in ("na", "ub", "none"):
        return None
    k = 8 * w - 1
    if -(1 << k) < v < (1 << k):
        p = int(c["prep"])
        if not (0 <= p < (1 << (8 * w))):
            return "prepared value %d does not fit %d bytes" % (p, w)
        if c["guard"] != "ok":
            return "guard=" + c["guard"]
        if int(c["got"]) != p:
            return "stored %d, loaded %s" % (p, c["got"])
        if c["rest"] == "ub" or int(c["rest"]) != v:
            return "restore gave %s for original %d (width %d)" % (c["rest"], v, w)
    return None


def o_restore(args, c):
    return _fault(c)


def classify(case, m):
    t = case.split()
    api = t[0]
    if api in ("ext_rt", "extbe_rt", "ext_mono"):
        x = int(t[1])
        return "trivial" if x < 256 and api != "ext_mono" else "%s-w%d" % (api, ref_width(x))
    if api in ("ext_fixed", "extbe_fixed"):
        x, w = int(t[1]), int(t[2])
        if w < ref_width(x):
            return api + "-truncating"
        return api + ("-exact" if w == ref_width(x) else "-wider")
    if api == "ext_getraw":
        return "getraw-w" + t[2]
    if api in ("ext_signed", "ext_restore"):
        v, w = int(t[1]), int(t[2])
        if m.get("prep") in ("na", "ub", "none") or m.get("rest") in ("na", "none"):
            return "trivial"
        k = 8 * w - 1
        if api == "ext_restore":
            return "restore-any"
        return ("signed%d-neg" % w if v < 0 else "signed%d-pos" % w) if -(1 << k) < v < (1 << k) else "signed%d-outside" % w
    if api == "ext_add":
        return _classify_add(t, m)
    return None


def search(rng, divergent):
    for c in divergent:
        t = c.split()
        if t[0] in ("ext_rt", "extbe_rt"):
            x = int(t[1])
            for d in range(-3, 4):
                if 0 <= x + d <= U64:
                    for al in range(8):
                        yield "%s %d %d" % (t[0], x + d, al)
        elif t[0] in ("ext_fixed", "extbe_fixed"):
            x = int(t[1])
            for d in range(-2, 3):
                if 0 <= x + d <= U64:
                    for w in range(1, 9):
                        yield "%s %d %d %s" % (t[0], x + d, w, t[3])
        elif t[0] == "ext_add":
            b = bytes.fromhex(t[1][1:])
            w, add = int(t[2]), int(t[3])
            for d in range(-3, 4):
                if I64MIN <= add + d <= I64MAX:
                    for f in (0, 1):
                        yield "ext_add %s %d %d %d" % (t[1], w, add + d, f)
        elif t[0] in ("ext_signed", "ext_restore"):
            v = int(t[1])
            for d in range(-3, 4):
                yield "%s %d %s" % (t[0], v + d, t[2])
    r2 = random.Random(rng.getrandbits(32))
    yield from generate_C01(r2, "thorough")
    yield from generate_C04(r2, "thorough")
    yield from generate_C12(r2, "thorough")


# ------------------------------------------------------------------ C04

def generate_C04(rng, tier):
    n_rand = 2000 if tier == "quick" else 50000
    pool = _pool()
    for i, v in enumerate(pool):
        yield "ext_rt %d %d" % (v, i % 8)
        yield "extbe_rt %d %d" % (v, i % 8)
        if v + 1 <= U64:
            yield "ext_mono %d %d" % (v, v + 1)
    for k in range(1, 9):
        b = 1 << (8 * k)
        for v in (b - 1, b):
            if v <= U64:
                for w in range(1, 9):
                    yield "ext_fixed %d %d %d" % (v, w, k % 8)
                    yield "extbe_fixed %d %d %d" % (v, w, k % 8)
    for _ in range(n_rand):
        v = rand_u64(rng)
        yield "ext_rt %d %d" % (v, rng.randint(0, 7))
        yield "extbe_rt %d %d" % (v, rng.randint(0, 7))
        a, b = sorted((rand_u64(rng), rng.choice(pool)))
        yield "ext_mono %d %d" % (a, b)
        w = rng.randint(1, 8)
        yield "ext_fixed %d %d %d" % (v, w, rng.randint(0, 7))
        yield "extbe_fixed %d %d %d" % (v, w, rng.randint(0, 7))


def o_rt_C04(be):
    def o(args, c):
        x = int(args[0])
        if _fault(c):
            return _fault(c)
        w = ref_width(x)
        want = ref_be(x, w) if be else ref_le(x, w)
        if int(c["w"]) != w:
            return "width %s, the minimal %s-endian slice of %d has %d bytes" % (c["w"], "big" if be else "little", x, w)
        if c["put"] != want:
            return "bytes %s, reference %s" % (c["put"], want)
        return None
    return o


def o_fixed_C04(be):
    def o(args, c):
        x, w = int(args[0]), int(args[1])
        if _fault(c):
            return _fault(c)
        if c["put"] == "none" or w < ref_width(x):
            return None        # truncating widths are not encodings of x
        want = ref_be(x, w) if be else ref_le(x, w)
        for k in (["put", "putq"] if be else ["put", "putq", "putqm"]):
            if c[k] != want:
                return "%s bytes %s, reference %s" % (k, c[k], want)
        return None
    return o


def o_mono(args, c):
    a, b = int(args[0]), int(args[1])
    if _fault(c):
        return _fault(c)
    for ka, kb in (("wa", "wb"), ("bwa", "bwb")):
        wa, wb = int(c[ka]), int(c[kb])
        if a <= b and wa > wb:
            return "length decreases: %d -> %d bytes, %d -> %d bytes" % (a, wa, b, wb)
        if b <= a and wb > wa:
            return "length decreases: %d -> %d bytes, %d -> %d bytes" % (b, wb, a, wa)
        if wa != ref_width(a) or wb != ref_width(b):
            return "not the shortest length: %s=%d %s=%d" % (ka, wa, kb, wb)
    return None


# ------------------------------------------------------------------ C12

def _add_case(val, w, add, force, extra):
    b = list((val % (1 << (8 * w))).to_bytes(w, "little")) + extra
    return "ext_add %s %d %d %d" % (hexs(b), w, add, force)


def generate_C12(rng, tier):
    n_rand = 3000 if tier == "quick" else 60000
    edges = [0, 1, 2]
    for k in range(1, 9):
        for d in (-2, -1, 0, 1):
            edges.append((1 << (8 * k)) + d)
    edges += [(1 << 63) - 2, (1 << 63) - 1, 1 << 63, (1 << 63) + 1]
    edges = sorted(set(e for e in edges if 0 <= e <= U64))
    # stored value x target sum, both at width edges, every slot width that can hold the value
    for old in edges:
        for tgt in edges:
            add = to_s64(tgt) - to_s64(old)
            if not (I64MIN <= add <= I64MAX):
                continue
            for w in range(ref_width(old), 9):
                if w > ref_width(old) + 1 and w != 8:
                    continue
                for force in (0, 1):
                    yield _add_case(old, w, add, force, [])
    # overflow edges of the signed sum
    for old in (0, 1, 255, (1 << 63) - 1, (1 << 63) - 2, 1 << 63, (1 << 63) + 1, U64, U64 - 1, (1 << 62)):
        for add in (I64MAX, I64MAX - 1, I64MIN, I64MIN + 1, 1, -1, 2, -2, 1 << 62, -(1 << 62)):
            for force in (0, 1):
                yield _add_case(old, 8, add, force, [])
                if ref_width(old) < 8:
                    yield _add_case(old, ref_width(old), add, force, [0xEE] * 2)
    for _ in range(n_rand):
        w = rng.randint(1, 8)
        old = rand_u64(rng) % (1 << (8 * w))
        r = rng.random()
        if r < 0.35:      # land near a width edge
            tgt = rng.choice(edges) + rng.randint(-2, 2)
            add = to_s64(tgt & U64) - to_s64(old)
        elif r < 0.6:
            add = rng.randint(-300, 300)
        elif r < 0.8:
            add = rng.getrandbits(rng.randint(1, 63)) * rng.choice([1, -1])
        else:
            add = rng.choice([I64MAX, I64MIN, I64MAX - rng.randint(0, 300), I64MIN + rng.randint(0, 300)])
        if not (I64MIN <= add <= I64MAX):
            add = rng.randint(-5, 5)
        extra = [rng.randint(0, 255) for _ in range(rng.choice([0, 0, 1, 3]))]
        yield _add_case(old, w, add, rng.randint(0, 1), extra)


def _add_expect(args):
    b = bytes.fromhex(args[0][1:])
    w, add, force = int(args[1]), int(args[2]), int(args[3])
    old = to_s64(int.from_bytes(b[:w], "little"))
    s = old + add
    return b, w, add, force, old, s


def o_add(args, c):
    if _fault(c):
        return _fault(c)
    if c.get("w") == "none":
        return None
    b, w, add, force, old, s = _add_expect(args)
    r = int(c["w"])
    buf = bytes.fromhex(c["buf"][1:])
    if c["guard"] != "ok":
        return "wrote outside the allocation (guard=%s)" % c["guard"]
    if not (I64MIN <= s <= I64MAX):
        if r != 0:
            return "signed sum %d + %d overflows but width %d was returned" % (old, add, r)
        if buf != b or c["frame"] != "ok":
            return "overflow reported but the bytes changed: %s -> %s" % (b.hex(), buf.hex())
        return None
    u = s % (1 << 64)
    n = ref_width(u)
    if r == 0:
        return "failure (width 0) reported but %d + %d = %d fits int64" % (old, add, s)
    if not force:
        if n > w:
            if buf != b or c["frame"] != "ok":
                return "no-grow: sum needs %d > %d bytes but the buffer changed: %s -> %s" % (n, w, b.hex(), buf.hex())
            if r != n:
                return "no-grow: sum needs %d bytes, returned %d" % (n, r)
            return None
        if buf[w:] != b[w:] or c["frame"] != "ok":
            return "no-grow modified bytes beyond the current width %d: %s -> %s" % (w, b.hex(), buf.hex())
    else:
        if r > 8:
            return "grow form returned %d > 8" % r
    if r != n:
        return "returned width %d, the stored sum %d needs %d" % (r, u, n)
    if c["frame"] != "ok":
        return "bytes after the shown region changed"
    if int.from_bytes(buf[:r], "little") != u or int(c["now"]) != u:
        return "stored value is %d (now=%s), expected %d + %d = %d" % (int.from_bytes(buf[:r], "little"), c["now"], old, add, u)
    if buf[max(r, 0):len(b)] != b[r:]:
        return "bytes beyond the new width %d changed: %s -> %s" % (r, b.hex(), buf.hex())
    return None


def _classify_add(t, m):
    if m.get("w") == "none":
        return "trivial"
    b, w, add, force, old, s = _add_expect(t[1:])
    if not (I64MIN <= s <= I64MAX):
        return "add-overflow"
    n = ref_width(s % (1 << 64))
    if n > w:
        return "add-grow" if force else "add-grow-refused"
    if n < w:
        return "add-shrink"
    return "trivial" if add == 0 else "add-same-width"


ASSUME = ["little-endian host (endianIsLittle() true); widths 1..8 here; the __uint128_t Big entry points (widths 1..16) are the extbig part",
          "quick macros instantiated with a uint64_t value / uint64_t result",
          "widths outside the C switch (0, >8) are undefined behaviour / assert and are not exercised",
          "the minimum int32_t/int64_t is not passed to varintPrepareSigned_ (its negation is undefined behaviour)"]

PARTS = {
    "C01": dict(coq_props=["Properties_C01_external"], files=FILES,
                rule=("external LE/BE: every value of the boundary pool (2^k, 2^(7k), 256^k +-2, every integer literal of the "
                      "module's files +-2) at 8 buffer alignments, each fixed width 1..8 (legal and truncating), random "
                      "bit-lengths, arbitrary stored bytes for all readers, signed helpers around +-2^(8w-1); "
                      "non-trivial = value needs more than one byte / width differs from 1"),
                generate=generate_C01,
                oracles={"ext_rt": o_rt_C01(False), "extbe_rt": o_rt_C01(True),
                         "ext_fixed": o_fixed_C01(False), "extbe_fixed": o_fixed_C01(True),
                         "ext_getraw": o_getraw, "ext_signed": o_signed, "ext_restore": o_restore},
                classify=classify, search=search, assumptions=ASSUME, configs_quick=["pinned", "O0"]),
    "C04": dict(coq_props=["Properties_C04_external"], files=FILES,
                rule=("external LE/BE bytes against int.to_bytes(minimal width) for the boundary pool, adjacent pairs "
                      "(v, v+1) across every 256^k, random pairs, fixed widths >= minimal; non-trivial = more than one byte"),
                generate=generate_C04,
                oracles={"ext_rt": o_rt_C04(False), "extbe_rt": o_rt_C04(True),
                         "ext_fixed": o_fixed_C04(False), "extbe_fixed": o_fixed_C04(True), "ext_mono": o_mono},
                classify=classify, search=search, assumptions=ASSUME, configs_quick=["pinned", "O0"]),
    "C12": dict(coq_props=["Properties_C12_external"], files=FILES,
                rule=("(stored value, slot width, amount, grow?) with stored value and target sum on both sides of every "
                      "256^k and of 2^63, int64 overflow edges, shrinking sums, extra bytes after the slot; "
                      "non-trivial = amount != 0 or width changes or overflow"),
                generate=generate_C12, oracles={"ext_add": o_add},
                classify=classify, search=search, assumptions=ASSUME, configs_quick=["pinned", "O0", "clang"]),
}
