"""Adaptive container (src/varintAdaptive.{c,h}) — contributions to
C06 (lossless whatever is selected / forced), C03 (writes stay inside
varintAdaptiveMaxSize), C13 (Decode stores at most maxCount elements),
C16 (meta of Encode / Decode / ReadMeta / GetEncodingType tell the truth)."""
from vlib import *  # noqa

FILES = ["src/varintAdaptive.c", "src/varintAdaptive.h"]
DELTA, FOR, PFOR, DICT, BITMAP, TAGGED, GROUP = range(7)
NAMES = ["DELTA", "FOR", "PFOR", "DICT", "BITMAP", "TAGGED", "GROUP"]
FILL = 0x5A5A5A5A5A5A5A5A   # the driver's output pre-fill: never used as a value

RULE = ("one generator per branch of varintAdaptiveSelectEncoding (count 0/1, DICT by repetition, BITMAP, DELTA by "
        "relative and by absolute delta incl. descending input, PFOR, FOR, TAGGED), each at several lengths and value "
        "magnitudes incl. >= 2^63; the edges of every comparison of the tree (unique ratio around 0.15, density around "
        "0.05, outlier ratio around 0.05, avgDelta around 1000 and min/10, range around 100*count, count 9999/10000, "
        "max 65535/65536); wrap-around of the delta sum and of range*95; arrays above 10000 elements (stride sampler; "
        "periodic arrays whose period equals the sampling step, misleading it both ways); every forced encoding on "
        "every such array; capacities 0..count; thorough adds arrays whose encoding exceeds 2^20 bytes; "
        "non-trivial = at least two elements")


# ---------------------------------------------------------------- value formulas shared with the drivers

def gen_values(kind, n, a, b, c):
    M = U64
    out = []
    for i in range(n):
        if kind == 0:
            x = (a + i * b) & M
        elif kind == 1:
            x = b if (a and i % a == 0) else (c + i * 1000003) & M
        elif kind == 2:
            x = (((((i * 6364136223846793005 + 1442695040888963407) & M) >> 11) % (a or 1)) + b) & M
        elif kind == 3:
            x = ((i % (a or 1)) * b + c) & M
        elif kind == 4:
            x = (b + i - (1 if (a and i % a == 1) else 0)) & M
        else:
            x = 0
        out.append(x)
    return out


def _val(v):
    v &= U64
    return v if v != FILL else v - 1


# ---------------------------------------------------------------- arrays aimed at each branch

def a_dict(rng, n, big=False):
    """few distinct values, shuffled: uniqueRatio < 0.15"""
    k = max(1, (n * rng.choice([1, 5, 10, 14])) // 100)
    pool = [(_val(rand_u64(rng)) if big else rng.randint(0, 100000)) for _ in range(k)]
    return [rng.choice(pool) for _ in range(n)]


def a_bitmap(rng, n, density=None):
    """strictly increasing below 65536, count / range > 0.05"""
    n = max(2, min(n, 9999))
    d = density or rng.choice([0.06, 0.1, 0.5, 1.0])
    span = min(65535, max(n - 1, int((n - 1) / d)))
    lo = rng.randint(0, 65535 - span)
    vs = sorted(rng.sample(range(lo, lo + span + 1), n))
    vs[0], vs[-1] = lo, lo + span
    return sorted(set(vs))


def a_delta_rel(rng, n, desc=False):
    """sorted, min > 0, 1000 <= avgDelta < min / 10"""
    step = rng.choice([1000, 5000, 123457])
    base = step * 10 * n + rng.randint(step * 10 + 1, 1 << 40)
    vs = [base]
    for _ in range(n - 1):
        vs.append(vs[-1] + rng.randint(step, 2 * step))
    return list(reversed(vs)) if desc else vs


def a_delta_abs(rng, n, desc=False, base=None):
    """sorted (with repeats), avgDelta < 1000, min may be 0"""
    base = rng.choice([0, 0, 7, 70000, 1 << 33, (1 << 63) + 5]) if base is None else base
    vs = [base]
    for _ in range(n - 1):
        vs.append(min(U64, vs[-1] + rng.choice([0, 1, 1, 2, 50, 900])))
    return list(reversed(vs)) if desc else vs


def a_pfor(rng, n, big=False):
    """unsorted cluster + fewer than 5% values in the top 5% of the range"""
    base = (1 << 62) if big else rng.choice([0, 1000, 1 << 20, 1 << 40])
    width = rng.choice([100, 60000, 1 << 24, 1 << 33])
    vs = [base + rng.randint(0, width) for _ in range(n)]
    k = max(1, n // 40)
    for p in rng.sample(range(n), min(k, n)):
        vs[p] = base + width * 100 + rng.randint(0, width)
    if vs == sorted(vs) or vs == sorted(vs, reverse=True):
        vs[0], vs[-1] = vs[-1], vs[0]
    return vs


def a_for(rng, n):
    """unsorted, two equal clusters at the ends of a range below 100 * count"""
    span = rng.randint(max(2, n), max(3, 100 * n - 1))
    lo = rng.choice([0, 5, 1 << 32, (1 << 63) + 11])
    vs = [lo + (rng.randint(0, span // 20) if rng.random() < 0.5 else span - rng.randint(0, span // 50)) for _ in range(n)]
    vs[0], vs[1] = lo + span, lo
    if n >= 3:
        vs[2] = lo + span
    return vs


def a_tagged(rng, n):
    """unsorted, wide, many outliers"""
    vs = [_val(rand_u64(rng)) for _ in range(n)]
    for p in range(0, n, 3):
        vs[p] = _val(U64 - rng.randint(0, 1000))
    if n >= 3:
        vs[1] = 0
        vs[2] = _val(U64)
    return vs


def a_wrap(rng, n):
    """alternating extremes: the delta sum and range * 95 wrap around"""
    hi = rng.choice([U64, U64 - 1, (1 << 63) + 1, (1 << 64) // 95 + 1, (1 << 64) // 95])
    vs = [(hi if i % 2 else rng.choice([0, 1, 2])) for i in range(n)]
    return [_val(v) for v in vs]


BRANCH_GENS = [
    ("dict", lambda r, n: a_dict(r, n)), ("dictbig", lambda r, n: a_dict(r, n, True)),
    ("bitmap", lambda r, n: a_bitmap(r, n)),
    ("deltarel", lambda r, n: a_delta_rel(r, n)), ("deltarel-desc", lambda r, n: a_delta_rel(r, n, True)),
    ("deltaabs", lambda r, n: a_delta_abs(r, n)), ("deltaabs-desc", lambda r, n: a_delta_abs(r, n, True)),
    ("pfor", lambda r, n: a_pfor(r, n)), ("pforbig", lambda r, n: a_pfor(r, n, True)),
    ("for", lambda r, n: a_for(r, n)), ("tagged", lambda r, n: a_tagged(r, n)), ("wrap", lambda r, n: a_wrap(r, n)),
]
LENGTHS = [2, 3, 7, 20, 21, 22, 100, 241, 300]


def edge_arrays(rng):
    """arrays placed on both sides of each comparison of the decision tree"""
    out = []
    # unique ratio around 0.15: k distinct of n
    for n, ks in ((20, (2, 3, 4)), (100, (14, 15, 16)), (200, (29, 30, 31)), (1000, (149, 150, 151))):
        for k in ks:
            vs = [(i % k) * 1000003 + 9 for i in range(n)]
            rng.shuffle(vs)
            out.append(vs)
    # density around 0.05: count / range
    for n, spans in ((50, (998, 999, 1000, 1001)), (10, (180, 199, 200, 201)), (2, (39, 40, 41)), (3000, (59999, 60000, 60001)),
                     (9999, (65534, 65535)), (2, (1, 2))):
        for sp in spans:
            if sp > 65535 or sp < n - 1:
                continue
            vs = sorted(set([0, sp] + rng.sample(range(1, sp), min(n - 2, sp - 1)))) if sp > 1 else [0, sp]
            while len(vs) < n:
                vs = sorted(set(vs + [rng.randint(0, sp)]))
            out.append(vs)
            out.append([v + (65535 - sp) for v in vs])
    # count 9999 / 10000 / 10001 ascending distinct small values; max 65535 / 65536
    for n in (9999, 10000, 10001):
        out.append(list(range(5, 5 + n)))
        out.append(list(range(5 + n, 5, -1)))
    out.append(list(range(65536 - 300, 65536)))
    out.append(list(range(65537 - 300, 65537)))
    # sorted with one repeated value (not distinct): no BITMAP
    out.append([1, 2, 2, 3, 4, 5, 6, 7, 8, 9])
    out.append(list(range(0, 40)) + [39])
    # the same at every size below the BITMAP element limit: ascending, dense, < 65536, exactly one
    # value repeated once, at a position that is / is not a multiple of 10 (an estimated distinct
    # count must not be taken for "no duplicates")
    for n in (60, 300, 1100, 2500, 4000, 7000, 9998):
        for k in (rng.randrange(10, n - 10, 10), rng.randrange(10, n - 10, 10) + rng.randint(1, 9)):
            vs = [3 + 5 * i for i in range(n)]
            vs[k] = vs[k - 1]
            out.append(vs)
    # avgDelta around 1000, and around min / 10
    for d in (999, 1000, 1001):
        out.append([i * d for i in range(30)])
        out.append([5 + i * d for i in range(30, 0, -1)])
    for mn in (99990, 100000, 100010, 100011):
        out.append([mn + i * 10000 for i in range(25)])
        out.append([mn + i * 10000 for i in range(24, -1, -1)])
    # outlier ratio around 0.05: k of n in the top 5% of the range (unsorted)
    for n, ks in ((100, (4, 5, 6)), (40, (1, 2, 3)), (21, (1, 2)), (20, (1,)), (1000, (49, 50, 51))):
        for k in ks:
            vs = [100 + (i * 37) % 800 for i in range(n - k - 1)] + [100] + [1000000 - i for i in range(k)]
            vs[0], vs[-1] = vs[-1], vs[0]
            out.append(vs)
    # range around 100 * count with many outliers (FOR / TAGGED)
    for n in (10, 100):
        for sp in (100 * n - 1, 100 * n, 100 * n + 1):
            vs = [(sp if i % 2 else 0) for i in range(n)]
            vs[0] = sp
            out.append(vs)
    # two elements
    out += [[0, U64], [U64, 0], [5, 5], [0, 1], [1, 0], [U64 - 1, U64], [70000, 70001], [65535, 65536], [10, 20000], [20000, 10],
            [1 << 63, (1 << 63) + 999], [(1 << 63) + 1000, 1 << 63]]
    # constant arrays (range 0)
    out += [[7] * 5, [0] * 30, [U64] * 12, [1 << 63] * 3, [65535] * 8]
    return out


def sampled_cases(rng, tier, huge=False):
    """arrays above 10000 elements as (kind, n, a, b, c) for the *g apis"""
    big = (1 << 60)
    cs = [
        (1, 20000, 10, 7, big),            # period = step: sampler sees one value, 90% are distinct (F09)
        (1, 10001, 10, 7, big), (1, 10009, 10, 7, big), (1, 10010, 10, 0, 1 << 63),
        (1, 12345, 12, 5, 1000),           # step 12345/1234 = 10, period 12: sampler is not aligned
        (3, 20000, 10, 1, 5),              # sawtooth period 10: sample constant, 10 distinct values (true DICT)
        (3, 20000, 7, 1000, 0), (3, 15000, 3000, 17, 1), (3, 30011, 10, 0, 9),
        (0, 12000, 100, 1, 0),             # ascending distinct below 65536, count >= 10000: no BITMAP
        (0, 12000, 1 << 40, 3, 0), (0, 10500, U64, U64, 0),       # descending from 2^64-1 by 1
        (0, 11000, 0, 1 << 50, 0),         # sorted, huge steps
        (2, 15000, 1000, 0, 0), (2, 15000, 50000, 1 << 62, 0), (2, 20000, 1 << 63, 5, 0), (2, 12000, 40, 7, 0),
        (2, 100000 if tier != "quick" else 30000, 1 << 20, 0, 0),
        # ascending NON-strict below 65536, duplicates only where the stride sampler does not look
        # (v[k*step+1] == v[k*step]): estimated uniqueness = count, dense, sorted -- only `count < 10000`
        # keeps BITMAP away; and the strictly increasing twins
        (4, 10001, 10, 0, 0), (0, 10001, 0, 1, 0), (4, 20000, 10, 100, 0), (0, 20000, 100, 1, 0),
        (4, 30011, 10, 7, 0), (4, 65536, 10, 0, 0), (0, 65536, 0, 1, 0), (4, 10010, 10, 55000, 0),
        (4, 12345, 10, 0, 0), (4, 65530, 10, 5, 0),
    ]
    cs += [(1, 100000, 10, 7, big)]        # DICT encoding above 2^20 bytes (F20): 1110010 bytes
    if tier != "quick":
        cs += [(3, 1100000, 200, 1, 0),    # 1.1 M values below 200: DICT 1.1 MB
               (2, 150000, U64, 0, 0),     # random 64-bit: TAGGED 1.3 MB
               (0, 200000, 1 << 62, (1 << 40) + 1, 0)]
        if huge:
            # more than 2^20 distinct values: DICT refuses, TAGGED fallback (10 minutes of model time)
            cs += [(1, 1200000, 10, 7, big)]
    return cs


def _rt(vs):
    return "adaptive_rt " + lst(vs)


def _with(e, vs):
    return "adaptive_with %d %s" % (e, lst(vs))


def two_call_cases(rng, tier):
    """one meta object, two encodes of equal length: the second must not inherit anything"""
    reps = 2 if tier == "quick" else 20
    for _ in range(reps):
        for n in (2, 3, 20, 100):
            # both FOR-shaped; the second with a smaller minimum / a wider range / a narrower range
            a = a_for(rng, n)
            b = [v // 3 for v in a_for(rng, n)]
            c = [min(U64, v * 50 + 1) for v in a_for(rng, n)]
            wide = [min(U64, (1 << 40) + v * 65537) for v in a]
            for x, y in ((a, b), (b, a), (a, c), (c, a), (wide, a), (a, wide), (a, a)):
                yield "adaptive_rt2 %s %s" % (lst(x), lst(y))
                yield "adaptive_with2 %d %s %s" % (FOR, lst(x), lst(y))
                yield "adaptive_with2 %d %s %s" % (PFOR, lst(x), lst(y))
            # every pair of branches, same length
            gs = rng.sample(BRANCH_GENS, 4)
            for (n1, g1) in gs:
                for (n2, g2) in gs:
                    x, y = g1(rng, n), g2(rng, n)
                    if len(x) != len(y):
                        continue
                    yield "adaptive_rt2 %s %s" % (lst(x), lst(y))
            x, y = a_tagged(rng, n), a_pfor(rng, n)
            for e in (DELTA, FOR, PFOR, DICT, TAGGED):
                yield "adaptive_with2 %d %s %s" % (e, lst(x), lst(y))
    yield "adaptive_with2 %d %s %s" % (FOR, lst([64 + i for i in range(20)]), lst([1000000 + i for i in range(20)]))
    yield "adaptive_with2 %d %s %s" % (FOR, lst([1000000 + i for i in range(20)]), lst([64 + i for i in range(20)]))


def arrays(rng, tier, reps):
    yield []
    for v in (0, 5, 65535, 65536, 1 << 63, U64):
        yield [v]
    for vs in edge_arrays(rng):
        yield vs
    for _ in range(reps):
        for name, g in BRANCH_GENS:
            for n in LENGTHS:
                yield g(rng, n)
    lits = [v for v in scraped_literals(FILES) if v != FILL]
    yield lits
    yield sorted(lits)
    yield sorted(lits, reverse=True)
    for _ in range(10 * reps):
        k = rng.randint(2, 40)
        yield [rng.choice(lits) for _ in range(k)]
    bv = [v for v in boundary_values() if v != FILL]
    for _ in range(10 * reps):
        k = rng.randint(2, 60)
        vs = [rng.choice(bv) for _ in range(k)]
        yield vs if rng.random() < 0.5 else sorted(vs)
    # a few mid-size arrays of each branch (exact unique count just below the sampler)
    for name, g in BRANCH_GENS:
        yield g(rng, rng.choice([2289, 5000, 9999]))


def generate_C06(rng, tier):
    reps = 1 if tier == "quick" else 12
    for vs in arrays(rng, tier, reps):
        yield _rt(vs)
    for c in sampled_cases(rng, tier, huge=True):
        yield "adaptive_rtg %d %d %d %d %d" % c
    # forced encodings: every encoding on arrays of every branch
    for name, g in BRANCH_GENS:
        for n in (2, 9, 50, 260):
            vs = g(rng, n)
            for e in (DELTA, FOR, PFOR, DICT, BITMAP, TAGGED, GROUP, 7, 255):
                yield _with(e, vs)
    for vs in ([], [0], [U64], [65535], [65536], [3, 3], [4, 3], [0, 65535], list(range(4090, 4100)), list(range(0, 9000, 2)),
               list(range(60000, 65536)), list(range(0, 65536, 13))):
        for e in range(0, 7):
            yield _with(e, vs)
    for c in sampled_cases(rng, tier)[:6 if tier == "quick" else 40]:
        for e in (DELTA, FOR, PFOR, DICT, TAGGED):
            if c[1] <= 30011:
                yield "adaptive_withg %d %d %d %d %d %d" % ((e,) + c)
    yield from two_call_cases(rng, tier)
    # full bitmaps: 4095 / 4096 / 4097 members (array -> bitmap container) and all 65536
    for n in (4095, 4096, 4097, 10000):
        yield "adaptive_withg %d 0 %d 3 1 0" % (BITMAP, n)
    yield "adaptive_withg %d 0 65536 0 1 0" % BITMAP
    yield from ratio_cases(rng, tier)


def ratio_cases(rng, tier):
    n = 400 if tier == "quick" else 20000
    pts = [0, 1, 2, 3, 20, (1 << 24) - 1, 1 << 24, (1 << 24) + 1, (1 << 24) + 2, (1 << 24) + 3, (1 << 25) + 2, (1 << 25) + 6,
           (1 << 53) + 1, (1 << 63) - 1, 1 << 63, (1 << 63) + (1 << 39), (1 << 63) + (1 << 39) + 1, U64 - (1 << 39), U64 - (1 << 40), U64]
    for a in pts:
        for b in pts:
            yield "adaptive_ratio %d %d" % (a, b)
    for _ in range(n):
        b = rng.choice([rng.randint(1, 100000), rand_u64(rng) or 1])
        t = rng.choice([0.15, 0.05])
        a = max(0, b * int(t * 100) // 100 + rng.randint(-2, 2))
        yield "adaptive_ratio %d %d" % (a, b)
        yield "adaptive_ratio %d %d" % (b, min(U64, max(1, int(b / t) + rng.randint(-2, 2))))
    for _ in range(n):
        yield "adaptive_ratio %d %d" % (rand_u64(rng), rand_u64(rng) or 1)
    # halfway cases of the 24-bit rounding (ties to even) at every magnitude
    for k in range(24, 64):
        for m in (0, 1, 2, 3, (1 << 23) - 1):
            a = ((1 << 23) + m) << (k - 23)
            for d in (-1, 0, 1):
                v = a + (1 << (k - 24)) + d
                if 0 < v <= U64:
                    yield "adaptive_ratio %d %d" % (v, rng.choice([1, 3, 7, 1 << 20]))
                    yield "adaptive_ratio %d %d" % (rng.choice([1, 3, 1000003]), v)


def generate_C03(rng, tier):
    # worst cases of the bound: short arrays under every forced encoding, PFOR with every value an exception,
    # DICT with every value distinct and 9 bytes wide, the sampler misled
    for vs in ([U64], [0, U64], [U64, 0, U64], [1 << 63, U64], [(1 << 56) - 1] * 4 + [0], [U64] * 7 + [0]):
        for e in range(0, 7):
            yield _with(e, vs)
    for n in (5, 21, 100, 241, 1000, 2300):
        k = (1 << 56) - 1
        vs = [0] + [k] * (n - 2) + [U64]
        vs[n // 2] = 3
        yield _rt(vs)
        for e in (PFOR, FOR, DICT, TAGGED, DELTA):
            yield _with(e, vs)
        yield _with(PFOR, [0] + [U64] * (n - 1))
        yield _with(DICT, [_val(U64 - i * 3) for i in range(n)])
        yield _with(FOR, [0, U64] + [_val(rand_u64(rng)) for _ in range(n - 2)])
        # auto-selected PFOR whose 80% are equal to the marker of the percentile width
        uniq = [(i * 7919 + 1) % k for i in range(n)]
        vs = [uniq[i] if i % 5 == 0 else k for i in range(n)]
        vs[0], vs[-1], vs[3 % n] = 0, U64, 5
        yield _rt(vs)
    for c in sampled_cases(rng, tier):
        yield "adaptive_rtg %d %d %d %d %d" % c
    for vs in arrays(rng, tier, 1 if tier == "quick" else 6):
        yield _rt(vs)
    for name, g in BRANCH_GENS:
        for n in (2, 30, 250):
            vs = g(rng, n)
            for e in range(0, 7):
                yield _with(e, vs)
    for n in (4096, 4097, 65536):
        yield "adaptive_withg %d 0 %d 0 1 0" % (BITMAP, n)


def _caps(rng, n):
    if n <= 12:
        return list(range(0, n + 1))
    return sorted(set([0, 1, 2, n // 2, n - 2, n - 1, n, rng.randint(3, n - 3)]))


def in_domain(e, vs):
    if e == BITMAP:
        return all(v < 65536 for v in vs) and all(a < b for a, b in zip(vs, vs[1:]))
    if e == FOR:
        return len(vs) >= 1
    return True


def generate_C13(rng, tier):
    reps = 1 if tier == "quick" else 10
    for _ in range(reps):
        for name, g in BRANCH_GENS:
            for n in (2, 5, 12, 40, 150):
                vs = g(rng, n)
                for e in (DELTA, FOR, PFOR, DICT, BITMAP, TAGGED):
                    if not in_domain(e, vs):
                        continue
                    for cap in _caps(rng, len(vs)):
                        yield "adaptive_dec_cap %d %d %s" % (e, cap, lst(vs))
    # the F10 / F11 shapes: 40 elements, capacity 2
    yield "adaptive_dec_cap %d 2 %s" % (PFOR, lst(list(range(1000, 1040))))
    yield "adaptive_dec_cap %d 2 %s" % (BITMAP, lst(list(range(21, 61))))
    for vs in ([7], [0, 1], list(range(100, 5000, 3)), list(range(0, 65536, 11))):
        for e in (DELTA, FOR, PFOR, DICT, BITMAP, TAGGED):
            for cap in _caps(rng, len(vs)):
                yield "adaptive_dec_cap %d %d %s" % (e, cap, lst(vs))


def generate_C16(rng, tier):
    for vs in arrays(rng, tier, 1 if tier == "quick" else 8):
        yield _rt(vs)
    for c in sampled_cases(rng, tier)[:8 if tier == "quick" else 40]:
        yield "adaptive_rtg %d %d %d %d %d" % c
    for name, g in BRANCH_GENS:
        for n in (2, 21, 100, 300, 2400):
            vs = g(rng, n)
            for e in range(0, 6):
                if in_domain(e, vs):
                    yield _with(e, vs)
    # PFOR with many exceptions of every index width (ReadMeta's size walk)
    for n in (10, 241, 242, 2288, 2289, 5000):
        k = (1 << 24) - 1
        yield _with(PFOR, [0] + [k if i % 3 else i for i in range(1, n - 1)] + [U64])


# ---------------------------------------------------------------- direct oracles (C output only)

def _values_of(api, args):
    if api in ("adaptive_rt",):
        return L_(args[0])
    if api == "adaptive_rt2":
        return L_(args[1])
    if api == "adaptive_with2":
        return L_(args[2])
    if api == "adaptive_with":
        return L_(args[1])
    if api == "adaptive_rtg":
        return gen_values(*[int(x) for x in args[:5]])
    if api == "adaptive_withg":
        return gen_values(*[int(x) for x in args[1:6]])
    if api == "adaptive_dec_cap":
        return L_(args[2])
    return []


def L_(s):
    return [int(x) for x in s[1:].split(",")] if len(s) > 1 else []


def _count(api, args):
    if api == "adaptive_rt":
        return len(L_(args[0]))
    if api == "adaptive_rt2":
        return len(L_(args[1]))
    if api == "adaptive_with2":
        return len(L_(args[2]))
    if api == "adaptive_with":
        return len(L_(args[1]))
    if api == "adaptive_rtg":
        return int(args[1])
    if api == "adaptive_withg":
        return int(args[2])
    return 0


def _forced(api, args):
    return int(args[0]) if api in ("adaptive_with", "adaptive_withg", "adaptive_with2") else None


def mk_oracle(api, fn):
    return lambda args, c: fn(api, args, c)


def o_C06(api, args, c):
    if "skip" in c:
        return None
    if "fault" in c:
        return "fault=%s while encoding/decoding" % c["fault"]
    if c.get("b2b") == "diff":
        return ("the encoding of the second array differs when the call directly follows an encode of another array "
                "of the same length (result depends on the previous call's dead stack frame)")
    n = _count(api, args)
    e = _forced(api, args)
    if n < 1:
        return None
    w = int(c["n"])
    if e is None:
        # automatic selection: every array is in the domain
        if w == 0:
            return "varintAdaptiveEncode failed (returned 0) on an array of %d values" % n
        hdr, sel = int(c["hdr"]), int(c["sel"])
        if not (hdr == int(c["m_type"]) == int(c["get"])):
            return "first byte %d, reported encodingType %s, GetEncodingType %s disagree" % (hdr, c["m_type"], c["get"])
        if hdr != sel:
            # the one documented deviation: DICT selected for more than 2^20 distinct values -> TAGGED
            if not (sel == DICT and hdr == TAGGED and len(set(_values_of(api, args))) > (1 << 20)):
                return "first byte %d is not the selected encoding %d" % (hdr, sel)
        if c.get("rt") != "ok" or int(c["dn"]) != n:
            return "decode(encode(xs), count) != xs under %s: dn=%s first difference at %s" % (
                NAMES[hdr] if hdr < 7 else hdr, c.get("dn"), c.get("at"))
        return None
    if e > TAGGED:
        return None        # not one of the six encodings: correspondence only
    if e == BITMAP:
        vs = _values_of(api, args)
        if not in_domain(BITMAP, vs):
            return None
    if w == 0:
        if e == DICT and len(set(_values_of(api, args))) > (1 << 20):
            return None    # documented limit of the dictionary format: failure is reported
        return "EncodeWith(%s) failed (returned 0) on an array in its domain" % NAMES[e]
    if int(c["hdr"]) != e or int(c["m_type"]) != e:
        return "forced %s but first byte %s / meta %s" % (NAMES[e], c["hdr"], c["m_type"])
    if c.get("rt") != "ok" or int(c["dn"]) != n:
        return "forced %s: decode(encode(xs), count) != xs: dn=%s first difference at %s" % (NAMES[e], c.get("dn"), c.get("at"))
    return None


def o_C03(api, args, c):
    if "skip" in c:
        return None
    if "fault" in c:
        return "fault=%s" % c["fault"]
    w, mx = int(c["n"]), int(c["max"])
    if c["guard"] != "ok":
        return "encoder wrote outside the %d bytes promised by varintAdaptiveMaxSize (guard %s, returned %d)" % (mx, c["guard"], w)
    if w > mx:
        return "encoder returned %d > varintAdaptiveMaxSize = %d" % (w, mx)
    if w > 0 and c["frame"] != "ok":
        return "bytes modified after the returned length %d" % w
    return None


def o_C13(api, args, c):
    if "skip" in c or "dn" not in c:
        return None if "fault" not in c else "fault=%s" % c["fault"]
    e, cap = int(args[0]), int(args[1])
    vs = L_(args[2])
    if c["guard"] != "ok":
        return "Decode(maxCount=%d) wrote outside the %d output elements (guard %s)" % (cap, cap, c["guard"])
    dn = int(c["dn"])
    if dn > cap:
        return "Decode returned %d > maxCount %d" % (dn, cap)
    if int(c["touched"]) > cap:
        return "stored to %s elements, capacity %d" % (c["touched"], cap)
    if e <= TAGGED and in_domain(e, vs) and cap <= len(vs):
        if dn != 0 and c["prefix"] != "ok":
            return "returned %d values that are not a prefix of the input: %s" % (dn, str(c.get("got"))[:100])
    return None


def o_C16(api, args, c):
    if "skip" in c:
        return None
    if "fault" in c:
        return "fault=%s" % c["fault"]
    n = _count(api, args)
    e = _forced(api, args)
    w = int(c["n"])
    if n < 1 or w == 0:
        return None
    if e is not None and e > TAGGED:
        return None
    hdr = int(c["hdr"])
    if e == BITMAP and not in_domain(BITMAP, _values_of(api, args)):
        return None
    if int(c["m_type"]) != hdr or int(c["get"]) != hdr or int(c["rm_type"]) != hdr or int(c["d_type"]) != hdr:
        return "encodingType: first byte %d, Encode meta %s, GetEncodingType %s, ReadMeta %s, Decode meta %s" % (
            hdr, c["m_type"], c["get"], c["rm_type"], c["d_type"])
    if int(c["m_count"]) != n:
        return "meta.originalCount %s != %d values encoded" % (c["m_count"], n)
    if int(c["m_size"]) != w:
        return "meta.encodedSize %s != returned length %d" % (c["m_size"], w)
    if "enchash" not in c and len(c["enc"]) - 1 != 2 * w:
        return "returned length %d but %d bytes written" % (w, (len(c["enc"]) - 1) // 2)
    if c["frame"] != "ok":
        return "bytes written after the reported size"
    if int(c["dn"]) != n or int(c["d_count"]) != int(c["dn"]):
        return "Decode returned %s, its meta says %s, %d were encoded" % (c["dn"], c["d_count"], n)
    if hdr in (FOR, PFOR):
        if int(c["rm_count"]) != n:
            return "ReadMeta originalCount %s != %d" % (c["rm_count"], n)
        if int(c["rm_size"]) != w:
            return "ReadMeta encodedSize %s != %d bytes written" % (c["rm_size"], w)
    else:
        # documented "unknown" for DELTA / DICT / BITMAP / TAGGED
        if int(c["rm_count"]) != 0 or int(c["rm_size"]) != 1:
            return "ReadMeta (%s) reports count %s size %s; the header documents 0 / 1 (unknown) for this encoding" % (
                NAMES[hdr] if hdr < 7 else hdr, c["rm_count"], c["rm_size"])
    if hdr == FOR and "fm_count" in c:
        vs = _values_of(api, args)
        if int(c["fm_count"]) != n or int(c["fm_min"]) != min(vs) or int(c["fm_max"]) != max(vs) or int(c["fm_size"]) != w - 1:
            return "forMeta (count %s min %s max %s size %s) does not describe the data" % (
                c["fm_count"], c["fm_min"], c["fm_max"], c["fm_size"])
    if hdr == PFOR and "pm_count" in c:
        vs = _values_of(api, args)
        if int(c["pm_count"]) != n or int(c["pm_min"]) != min(vs):
            return "pforMeta (count %s min %s) does not describe the data" % (c["pm_count"], c["pm_min"])
    return None


def o_ratio(args, c):
    """the float helper against exact rational arithmetic (independent of model and of the C)"""
    if "skip" in c:
        return None
    from fractions import Fraction
    a, b = int(args[0]), int(args[1])

    def rnd(fr):
        if fr == 0:
            return Fraction(0)
        e = 0
        while fr >= (1 << 24):
            fr /= 2
            e += 1
        while fr < (1 << 23):
            fr *= 2
            e -= 1
        k = fr.numerator // fr.denominator
        r = fr - k
        if r > Fraction(1, 2) or (r == Fraction(1, 2) and k % 2 == 1):
            k += 1
        return Fraction(k) * (Fraction(2) ** e)

    def bits(fr):
        if fr == 0:
            return 0
        e = 0
        m = fr
        while m >= (1 << 24):
            m /= 2
            e += 1
        while m < (1 << 23):
            m *= 2
            e -= 1
        return ((e + 150) << 23) + int(m) - (1 << 23)
    q = rnd(rnd(Fraction(a)) / rnd(Fraction(b)))
    if int(c["q"]) != bits(q):
        return "(float)%d/(float)%d has bits %s, exact rounding gives %d" % (a, b, c["q"], bits(q))
    f015, f005 = Fraction(10066330, 1 << 26), Fraction(13421773, 1 << 28)
    want = (int(q < f015), int(q > f005), int(q < f005))
    got = (int(c["lt015"]), int(c["gt005"]), int(c["lt005"]))
    if want != got:
        return "threshold tests %s, exact arithmetic gives %s" % (got, want)
    return None


def _oracles(fn, apis):
    d = {a: mk_oracle(a, fn) for a in apis}
    d["adaptive_ratio"] = o_ratio
    return d


ENC_APIS = ("adaptive_rt", "adaptive_rtg", "adaptive_with", "adaptive_withg", "adaptive_rt2", "adaptive_with2")


def classify(case, m):
    t = case.split(" ")
    api = t[0]
    if not api.startswith("adaptive_"):
        return None
    if api == "adaptive_ratio":
        return "ratio" if "q" in m else "trivial"
    if "skip" in m or "n" not in m:
        return "trivial"
    if api in ("adaptive_rt", "adaptive_rtg", "adaptive_rt2"):
        n = int(m.get("cnt", 0))
        if n < 2:
            return "trivial"
        nb = "n<=20" if n <= 20 else "n<=10000" if n <= 10000 else "sampled"
        return "%s-%s-%s%s" % ("auto2" if api == "adaptive_rt2" else "auto", NAMES[int(m["hdr"])] if int(m["hdr"]) < 7 else m["hdr"], nb,
                                 "" if m.get("sel") == m.get("hdr") else "-fallback")
    if api in ("adaptive_with", "adaptive_withg", "adaptive_with2"):
        return "forced-%s-%s" % (t[1], "rt" if m.get("rt") == "ok" else "lossy" if "rt" in m else "fail")
    if api == "adaptive_dec_cap":
        return "cap-e%s-%s" % (t[1], "zero" if m.get("dn") == "0" else "some")
    return "other"


def search(rng, divergent_cases):
    for c in divergent_cases[:20]:
        t = c.split(" ")
        if t[0] in ("adaptive_rt", "adaptive_with"):
            vs = L_(t[-1])
            for e in range(0, 6):
                yield _with(e, vs)
            yield _rt(vs)
            for k in range(1, min(len(vs), 10)):
                yield _rt(vs[:k])
                yield _rt(vs[-k:])
    r2 = random.Random(rng.getrandbits(32))
    for vs in arrays(r2, "quick", 2):
        yield _rt(vs)
        for e in range(0, 6):
            if in_domain(e, vs) and len(vs) <= 400:
                yield _with(e, vs)


ASSUME = ["1 <= count < 2^32 (varintAdaptiveEncodeWith casts the count to uint32_t for PFOR); malloc succeeds "
          "(allocation failure is C18's subject)",
          "the two hand-written exchange sorts of varintAdaptiveCountUnique return the sorted permutation "
          "(modelled like qsort; compared on every generated array)",
          "x86-64 SSE binary32 arithmetic (FLT_EVAL_METHOD 0): (float)a / (float)b is two correctly rounded "
          "conversions and one correctly rounded division; checked against exact rational arithmetic by adaptive_ratio"]

PARTS = {
    "C06": dict(coq_props=["Properties_C06_adaptive", "Properties_C06_adaptive_float"], files=FILES, rule=RULE,
                generate=generate_C06,
                oracles=_oracles(o_C06, ENC_APIS), classify=classify, search=search, assumptions=ASSUME,
                trusted_base=["C06_adaptive_float_* only: Flocq 4.1 (binary_normalize, Bdiv, Bcompare, b32_of_bits, "
                              "B2R, round) as the definition of IEEE-754 binary32, and the stdlib real-number axioms "
                              "(ClassicalDedekindReals.sig_forall_dec, sig_not_dec, functional_extensionality_dep, "
                              "Classical_Prop.classic); the other C06_adaptive_* statements are closed under the "
                              "global context"],
                configs_quick=["pinned", "O0"]),
    "C03": dict(coq_props=["Properties_C03_adaptive", "Properties_C03_adaptive_src"], files=FILES, rule=RULE,
                generate=generate_C03,
                oracles=_oracles(o_C03, ENC_APIS), classify=classify, search=search, assumptions=ASSUME,
                trusted_base=["gen/c2coq.py + CSem.v for the *_src theorems (C-to-Gallina translator, clang 14 typed AST "
                              "-> coq/gen/Src_leaf_adaptive.v via gen/c2coq_leaf.py: varintAdaptiveMaxSize and "
                              "size_mul_overflow regenerated from the current source on every run; subset and assumptions "
                              "in the translator's docstring); the renderings are tied to the compiled C by the "
                              "translator, not by proof"],
                configs_quick=["pinned", "O0"]),
    "C13": dict(coq_props=["Properties_C13_adaptive"], files=FILES, rule=RULE, generate=generate_C13,
                oracles={"adaptive_dec_cap": mk_oracle("adaptive_dec_cap", o_C13)}, classify=classify, search=search,
                assumptions=ASSUME, configs_quick=["pinned", "O0"]),
    "C16": dict(coq_props=["Properties_C16_adaptive"], files=FILES, rule=RULE, generate=generate_C16,
                oracles=_oracles(o_C16, ENC_APIS), classify=classify, search=search, assumptions=ASSUME,
                configs_quick=["pinned", "O0"]),
}
