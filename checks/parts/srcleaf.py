"""src_leaf_* — the leaf functions of the array-codec modules, REAL C against the Gallina functions that
gen/c2coq.py regenerates from the current sources through gen/c2coq_leaf.py (coq/gen/Src_leaf_*.v, proved equal to
the hand models in coq/theories/LeafSrc*.v).  The proofs are about the regenerated functions; these cases test the
translator + CSem.v on them (a divergence = translator bug, or a source change the renderings do not follow), and the
direct oracles restate each function's documented value in Python on the C output alone.

Every argument stays inside the function's C domain (no undefined behaviour, no access outside the object, asserts of
the debug build respected): values >= 1 for floorLog2 / GammaBits, shifts <= 63 for the mantissa helpers, byte
objects that contain every byte the function reads.  C side: harness/c/drv_srcleaf.c (+ optional units
opt_srcleaf_*.c for the `static` functions); model side: harness/ml/drv_srcleaf.ml (extracted srcrun_*,
coq/theories/LeafSrcRun.v)."""
from vlib import *  # noqa

M64 = 1 << 64
S63 = 1 << 63


def _u64_pool(rng, n):
    """boundaries of every comparison (powers of two and of 256 +-2), all-ones, random bit lengths"""
    s = set(boundary_values())
    for k in range(0, 65):
        for d in (-2, -1, 0, 1, 2):
            s.add((1 << k) + d)
    for k in range(1, 9):
        for d in (-2, -1, 0, 1, 2):
            s.add((1 << (8 * k)) + d)
    out = sorted(v for v in s if 0 <= v <= U64)
    for _ in range(n):
        out.append(rng.getrandbits(rng.randint(1, 64)))
    return out


# ------------------------------------------------------------------ C02: zigzag

def generate_C02(rng, tier):
    k = 1 if tier == "quick" else 20
    for v in _u64_pool(rng, 200 * k):
        yield "src_leaf_unzigzag %d" % v
        for n in (v, -v, v - S63, S63 - 1 - v):
            if -S63 <= n < S63:
                yield "src_leaf_zigzag %d" % n


def o_zigzag(args, c):
    n = int(args[0])
    want = ((n << 1) ^ (n >> 63)) & U64
    return None if c.get("ret") == str(want) else "zigzag(%d) should be %d" % (n, want)


def o_unzigzag(args, c):
    z = int(args[0])
    want = (z >> 1) ^ -(z & 1)
    return None if c.get("ret") == str(want) else "unzigzag(%d) should be %d" % (z, want)


# ------------------------------------------------------------------ C16: group, FOR width, BP128 bits, PFOR marker

def _group_widths(b, count):
    return [[1, 2, 4, 8][(b[1 + i // 4] >> (2 * (i % 4))) & 3] for i in range(count)]


def _group_obj(rng, count, extra):
    """count byte + the whole width bitmap (when the count is accepted) + `extra` arbitrary bytes"""
    bm = (count * 2 + 7) // 8 if 1 <= count <= 64 else 0
    return [count] + [rng.randint(0, 255) for _ in range(bm + extra)]


def generate_C16(rng, tier):
    k = 1 if tier == "quick" else 20
    for fc in range(256):
        yield "src_leaf_group_bmsize %d" % fc
        yield "src_leaf_group_wdec %d" % fc
    for w in list(range(0, 20)) + [255, 256, 65535, 65536, (1 << 31) - 1, 1 << 31, (1 << 32) - 1] + \
            [rng.getrandbits(rng.randint(1, 32)) for _ in range(100 * k)]:
        yield "src_leaf_group_wenc %d" % w
    counts = list(range(0, 70)) + [127, 128, 200, 254, 255]
    for count in counts:
        for _ in range(3 * k):
            b = _group_obj(rng, count, rng.choice([0, 0, 1, 5]))
            yield "src_leaf_group_size %s" % hexs(b)
            # accepted indices need their bitmap byte inside the object; refused ones (>= count) read nothing more
            idx = {0, 1, 3, 4, 63, 64, 255, rng.randint(0, 255), rng.randint(0, 255)}
            if count:
                idx |= {count - 1, count, min(count + 1, 255), rng.randrange(count)}
            for i in sorted(idx):
                if i < count and 1 + i // 4 >= len(b):
                    continue
                yield "src_leaf_group_fieldw %s %d" % (hexs(b), i)
    # counts above 64 are accepted by GetFieldWidth (it has no upper limit): object long enough for the index
    for count in (65, 100, 255):
        for i in (0, 64, count - 1):
            b = [count] + [rng.randint(0, 255) for _ in range(1 + i // 4)]
            yield "src_leaf_group_fieldw %s %d" % (hexs(b), i)
    pool = _u64_pool(rng, 200 * k)
    for v in pool:
        yield "src_leaf_forwidth %d" % v
        yield "src_leaf_bits64 %d" % v
        if v < (1 << 32):
            yield "src_leaf_bits32 %d" % v
    for kk in range(0, 33):
        for d in (-1, 0, 1):
            v = (1 << kk) + d
            if 0 <= v < (1 << 32):
                yield "src_leaf_bits32 %d" % v
    for w in list(range(0, 20)) + [255, 256, (1 << 29) - 1, 1 << 29, (1 << 29) + 1, 1 << 31, (1 << 32) - 1] + \
            [rng.getrandbits(rng.randint(1, 32)) for _ in range(100 * k)]:
        yield "src_leaf_marker %d" % w


def _ret(c, want, what):
    return None if c.get("ret") == str(want) else "%s should be %d, got %s" % (what, want, c.get("ret"))


def o_bmsize(args, c):
    return _ret(c, (int(args[0]) * 2 + 7) // 8, "bitmap size")


def o_wdec(args, c):
    return _ret(c, [1, 2, 4, 8][int(args[0]) & 3], "decoded width")


def o_wenc(args, c):
    return _ret(c, {1: 0, 2: 1, 3: 2, 4: 2}.get(int(args[0]), 3), "width code")


def o_fieldw(args, c):
    b, i = list(bytes.fromhex(args[0][1:])), int(args[1])
    want = 0 if b[0] == 0 or i >= b[0] else [1, 2, 4, 8][(b[1 + i // 4] >> (2 * (i % 4))) & 3]
    return _ret(c, want, "field width")


def o_gsize(args, c):
    b = list(bytes.fromhex(args[0][1:]))
    count = b[0]
    want = 0 if count == 0 or count > 64 else 1 + (count * 2 + 7) // 8 + sum(_group_widths(b, count))
    return _ret(c, want, "group size")


def o_forwidth(args, c):
    return _ret(c, max(1, (int(args[0]).bit_length() + 7) // 8), "byte width")


def o_bits(args, c):
    return _ret(c, int(args[0]).bit_length(), "bit length")


def o_marker(args, c):
    w = int(args[0])
    return _ret(c, U64 if w >= 8 else (1 << (8 * w)) - 1, "marker")


# ------------------------------------------------------------------ C03: Elias MaxBytes, adaptive MaxSize, size_mul_overflow

def generate_C03(rng, tier):
    k = 1 if tier == "quick" else 20
    pool = _u64_pool(rng, 150 * k) + list(range(0, 40))
    # counts where count*127 / count*76 / count*22 cross 2^64 (size_t wrap) and the rounding +7
    for mul in (127, 76, 22):
        for q in (1, 2, 3):
            for d in range(-2, 3):
                pool.append((q * M64) // mul + d)
    for n in sorted(set(v for v in pool if 0 <= v <= U64)):
        yield "src_leaf_maxbytes g %d" % n
        yield "src_leaf_maxbytes d %d" % n
        yield "src_leaf_adpmax %d" % n
    small = [0, 1, 2, 3, 7, 8, 9, 255, 256]
    for a in small:
        for b in small + [U64, U64 - 1, M64 // 8 - 1, M64 // 8, M64 // 8 + 1]:
            yield "src_leaf_mulovf %d %d" % (a, b)
            yield "src_leaf_mulovf %d %d" % (b, a)
    for _ in range(300 * k):
        a = rng.getrandbits(rng.randint(1, 64))
        # b around the overflow threshold of a, or of any size
        if a and rng.random() < 0.6:
            b = max(0, min(U64, M64 // a + rng.randint(-2, 2)))
        else:
            b = rng.getrandbits(rng.randint(1, 64))
        yield "src_leaf_mulovf %d %d" % (a, b)


def o_maxbytes(args, c):
    mul = 127 if args[0] == "g" else 76
    n = int(args[1])
    return _ret(c, (((n * mul) % M64 + 7) % M64) // 8, "MaxBytes")


def o_adpmax(args, c):
    return _ret(c, (21 + int(args[0]) * 22) % M64, "MaxSize")


def o_mulovf(args, c):
    a, b = int(args[0]), int(args[1])
    if c.get("ret") != str(int(a * b >= M64)) or c.get("r") != str((a * b) % M64):
        return "size_mul_overflow(%d,%d) should report %d and store %d" % (a, b, int(a * b >= M64), (a * b) % M64)
    return None


# ------------------------------------------------------------------ C04: floorLog2, GammaBits (values >= 1)

def generate_C04(rng, tier):
    k = 1 if tier == "quick" else 20
    for v in _u64_pool(rng, 300 * k):
        if v >= 1:
            yield "src_leaf_floorlog2 %d" % v
            yield "src_leaf_gammabits %d" % v


def o_floorlog2(args, c):
    return _ret(c, int(args[0]).bit_length() - 1, "floor(log2)")


def o_gammabits(args, c):
    return _ret(c, 2 * (int(args[0]).bit_length() - 1) + 1, "gamma bits")


# ------------------------------------------------------------------ C07: truncateMantissa / expandMantissa (shift <= 63)

def generate_C07(rng, tier):
    k = 1 if tier == "quick" else 20
    # as the codec calls them: 53-bit significands to / from 23, 10, 4 (and every other) kept bits
    sigs = [1 << 52, (1 << 53) - 1, (1 << 52) + 1, 9007199254290629]
    for mb in range(1, 53):
        s = 53 - mb
        half = 1 << (s - 1)
        ms = sigs + [(1 << 52) + half, (1 << 52) + half - 1, (1 << 52) + half + 1, (1 << 53) - half, (1 << 53) - half - 1]
        ms += [(1 << 52) | rng.getrandbits(52) for _ in range(2 * k)]
        for m in ms:
            yield "src_leaf_trunc %d 53 %d" % (m, mb)
        for t in [0, 1, (1 << mb) - 1, 1 << mb, 1 << (mb - 1)] + [rng.getrandbits(mb) for _ in range(2 * k)]:
            yield "src_leaf_expand %d %d 53" % (t, mb)
    # the whole domain: any uint64 mantissa, any uint8 widths with a shift of at most 63 (or none)
    for _ in range(400 * k):
        m = rng.choice([0, 1, U64, U64 - 1, S63, S63 - 1]) if rng.random() < 0.2 else rng.getrandbits(rng.randint(1, 64))
        f = rng.randint(0, 255)
        if rng.random() < 0.75:
            t = rng.randint(max(0, f - 63), 255)     # f - t <= 63, or t >= f
        else:
            t = rng.choice([max(0, f - 63), max(0, f - 62), max(0, f - 1), f, min(255, f + 1), 255])
        yield "src_leaf_trunc %d %d %d" % (m, f, t)
        yield "src_leaf_expand %d %d %d" % (m, t, f)   # to - from = f - t <= 63, or from >= to


def o_trunc(args, c):
    m, f, t = int(args[0]), int(args[1]), int(args[2])
    want = m if t >= f else ((m + (1 << (f - t - 1))) % M64) >> (f - t)
    return _ret(c, want, "truncateMantissa")


def o_expand(args, c):
    m, f, t = int(args[0]), int(args[1]), int(args[2])
    want = m if f >= t else (m << (t - f)) % M64
    return _ret(c, want, "expandMantissa")


# ------------------------------------------------------------------ C08: bitmap bit helpers (byte value/8 inside the object)

def generate_C08(rng, tier):
    k = 1 if tier == "quick" else 10
    objs = []
    for n in (1, 2, 3, 8, 31, 32, 33):
        for fill in ("zero", "ones", "rand"):
            objs.append([0] * n if fill == "zero" else [255] * n if fill == "ones" else [rng.randint(0, 255) for _ in range(n)])
    for b in objs:
        vs = set(range(0, min(8 * len(b), 24))) | {8 * len(b) - 1, 8 * len(b) - 8}
        vs |= {rng.randrange(8 * len(b)) for _ in range(4 * k)}
        for v in sorted(v for v in vs if 0 <= v < 8 * len(b)):
            for op in ("set", "clear", "contains"):
                yield "src_leaf_bm %s %s %d" % (op, hexs(b), v)
    # the full 8192-byte container, values on both sides of every byte and of 2^k
    full = [rng.randint(0, 255) for _ in range(8192)]
    hx = hexs(full)
    vs = {0, 1, 7, 8, 9, 255, 256, 257, 4095, 4096, 32767, 32768, 65527, 65528, 65534, 65535}
    vs |= {rng.randrange(65536) for _ in range(10 * k)}
    for v in sorted(vs):
        for op in ("set", "clear", "contains"):
            yield "src_leaf_bm %s %s %d" % (op, hx, v)


def o_bm(args, c):
    op, b, v = args[0], list(bytes.fromhex(args[1][1:])), int(args[2])
    was = (b[v // 8] >> (v % 8)) & 1
    if op == "contains":
        return _ret(c, was, "contains")
    if op == "set":
        b[v // 8] |= 1 << (v % 8)
        want = 1 - was
    else:
        b[v // 8] &= ~(1 << (v % 8)) & 255
        want = was
    if c.get("ret") != str(want) or c.get("buf") != hexs(b):
        return "bitmap %s(%d): changed=%d expected, byte %d should become %02x" % (op, v, want, v // 8, b[v // 8])
    return None


# ------------------------------------------------------------------ parts

def classify(case, m):
    t = case.split()
    if not t[0].startswith("src_leaf_"):
        return None
    if t[0] == "src_leaf_bm" or t[0] == "src_leaf_maxbytes":
        return "%s-%s" % (t[0][4:], t[1])
    return t[0][4:]


def search(rng, divergent):
    return iter(())


TRUSTED = ["gen/c2coq.py + CSem.v for the *_src theorems: src_leaf_* cases execute the regenerated functions "
           "(coq/gen/Src_leaf_*.v, extracted through LeafSrcRun.v) against the real C on inputs inside each function's C "
           "domain — a test of the translator on these functions, not a proof; `static` C functions are reached "
           "through a second private compilation of their file (harness/c/opt_srcleaf_*.c)"]


def _part(props, gen, oracles, files, rule):
    return dict(coq_props=props, files=files, rule=rule, generate=gen, oracles=oracles, classify=classify,
                search=search, trusted_base=TRUSTED, configs_quick=["pinned", "O0"],
                assumptions=["src_leaf_*: arguments inside the C domain of each leaf function (no undefined shift, byte "
                             "objects containing every byte read, values >= 1 where the debug build asserts it)"])


PARTS = {
    "C02": _part(["Properties_C02_dfg_src"], generate_C02, {"src_leaf_zigzag": o_zigzag, "src_leaf_unzigzag": o_unzigzag},
                 ["src/varintDelta.h"],
                 "src_leaf_zigzag/unzigzag: every power of two and of 256 +-2, both signs, INT64_MIN/MAX, random bit lengths"),
    "C16": _part(["Properties_C16_dfg_src", "Properties_C16_bp128_src", "Properties_C16_pfor_src"], generate_C16,
                 {"src_leaf_group_bmsize": o_bmsize, "src_leaf_group_wdec": o_wdec, "src_leaf_group_wenc": o_wenc,
                  "src_leaf_group_fieldw": o_fieldw, "src_leaf_group_size": o_gsize, "src_leaf_forwidth": o_forwidth,
                  "src_leaf_bits32": o_bits, "src_leaf_bits64": o_bits, "src_leaf_marker": o_marker},
                 ["src/varintGroup.c", "src/varintGroup.h", "src/varintFOR.c", "src/varintBP128.h", "src/varintPFOR.c"],
                 "src_leaf_group_*: all 256 field counts / codes, widths 0..19 and 32-bit extremes, headers with every count "
                 "0..69 and refused ones over random bitmaps, field indices at count-1/count/count+1; forwidth/bits32/bits64: "
                 "powers of two and of 256 +-2 and random bit lengths; marker: widths 0..19 and 32-bit extremes (w*8 wraps)"),
    "C03": _part(["Properties_C03_elias_src", "Properties_C03_adaptive_src"], generate_C03,
                 {"src_leaf_maxbytes": o_maxbytes, "src_leaf_adpmax": o_adpmax, "src_leaf_mulovf": o_mulovf},
                 ["src/varintElias.h", "src/varintAdaptive.h", "src/varintAdaptive.c"],
                 "src_leaf_maxbytes/adpmax: counts 0..39, powers of two +-2, counts where count*127 / *76 / *22 wraps size_t; "
                 "mulovf: zero operands, pairs on both sides of a*b = 2^64, random"),
    "C04": _part(["Properties_C04_elias_src"], generate_C04,
                 {"src_leaf_floorlog2": o_floorlog2, "src_leaf_gammabits": o_gammabits}, ["src/varintElias.c"],
                 "src_leaf_floorlog2/gammabits: every 2^k-1, 2^k, 2^k+1 (k = 0..64), random bit lengths, values >= 1"),
    "C07": _part(["Properties_C07_float_src"], generate_C07, {"src_leaf_trunc": o_trunc, "src_leaf_expand": o_expand},
                 ["src/varintFloat.c"],
                 "src_leaf_trunc/expand: 53-bit significands at every kept width 1..52 (ties, carries, extremes), then any "
                 "uint64 mantissa with any uint8 widths whose shift is at most 63"),
    "C08": _part(["Properties_C08_bitmap_src"], generate_C08, {"src_leaf_bm": o_bm}, ["src/varintBitmap.c"],
                 "src_leaf_bm set/clear/contains: every bit of the first bytes and the last bits of all-zero / all-one / "
                 "random objects of 1..33 bytes, and values around every byte and power-of-two boundary in a full 8192-byte "
                 "container"),
}
