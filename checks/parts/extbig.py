"""extbig — the __uint128_t entry points of varintExternal.c
(varintExternalPutFixedWidthBig / varintBigExternalGet, widths 1..16).
Contributes to C01 (round trip, exact width, truncation) and C04 (bytes = little-endian slice)."""
from vlib import *  # noqa

FILES = ["src/varintExternal.c", "src/varintExternal.h"]
U128 = (1 << 128) - 1


def _case(v, w, align):
    return "extbig %d %d %d %d" % (v >> 64, v & U64, w, align)


def _pool(rng):
    s = set()
    for k in range(1, 17):
        for d in (-2, -1, 0, 1, 2):
            s.add((1 << (8 * k)) + d)
            s.add((1 << (8 * k - 1)) + d)
    for v in boundary_values():
        s.add(v)
        s.add(v << 64)
        s.add((v << 64) | rng.getrandbits(64))
    s.add(int.from_bytes(bytes(range(1, 17)), "little"))
    s.add(int.from_bytes(bytes(range(0xF0, 0x100)), "little"))
    return sorted(v for v in s if 0 <= v <= U128)


def generate(rng, tier):
    pool = _pool(rng)
    n = 1500 if tier == "quick" else 30000
    # every width for distinguished byte patterns (each byte different: a transposed or
    # dropped byte shows), every alignment
    pat = int.from_bytes(bytes(range(0x11, 0x21)), "little")
    for w in range(0, 18):
        for al in range(8):
            yield _case(pat, w, al)
            yield _case(U128, w, al)
    for v in pool:
        k = max(1, (v.bit_length() + 7) // 8)
        for w in sorted(set([k, min(16, k + 1), max(1, k - 1), 16, 9, 8])):
            yield _case(v, w, rng.randint(0, 7))
    for _ in range(n):
        v = rng.getrandbits(rng.randint(1, 128))
        yield _case(v, rng.randint(1, 16), rng.randint(0, 7))
    for _ in range(n // 3):
        w = rng.randint(1, 16)
        b = bytes(rng.getrandbits(8) for _ in range(w))
        yield "extbig_get x%s %d" % (b.hex(), w)


def o_big(args, c):
    hi, lo, w = int(args[0]), int(args[1]), int(args[2])
    v = (hi << 64) | lo
    if "fault" in c:
        return "fault=" + c["fault"]
    if not 1 <= w <= 16:
        return None
    if c.get("guard") != "ok":
        return "write outside the %d destination bytes" % w
    want = "x" + (v % (1 << (8 * w))).to_bytes(w, "little").hex()
    if c["put"] != want:
        return "bytes %s are not the little-endian %d-byte slice %s" % (c["put"], w, want)
    got = (int(c["ghi"]) << 64) | int(c["glo"])
    if got != v % (1 << (8 * w)):
        return "read back %d, stored %d (mod 256^%d)" % (got, v, w)
    if w <= 8:
        if int(c["g64"]) != got:
            return "64-bit reader gives %s on the same bytes" % c["g64"]
        if c["put64"] != c["put"]:
            return "64-bit writer gives %s, 128-bit writer %s" % (c["put64"], c["put"])
    return None


def o_get(args, c):
    b, w = bytes.fromhex(args[0][1:]), int(args[1])
    if "fault" in c:
        return "fault=" + c["fault"]
    if c.get("get") == "none":
        return None
    got = (int(c["ghi"]) << 64) | int(c["glo"])
    if got != int.from_bytes(b[:w], "little"):
        return "reader returned %d for bytes %s" % (got, b[:w].hex())
    return None


def classify(case, m):
    t = case.split()
    if t[0] == "extbig":
        v = (int(t[1]) << 64) | int(t[2])
        w = int(t[3])
        k = max(1, (v.bit_length() + 7) // 8)
        return "big-w%d-%s" % (w, "fits" if k <= w else "trunc")
    return "big-get-w%s" % t[2]


RULE = ("128-bit external entry points: distinguished byte patterns and all-ones at every width 0..17 and alignment, "
        "values 2^(8k) +- 2 / 2^(8k-1) +- 2 for k = 1..16 at their own, adjacent and extreme widths, random bit-lengths "
        "1..128 at random widths, arbitrary stored bytes for the reader; destination of exactly w bytes ending at an "
        "inaccessible page; non-trivial = width > 8 or value truncated")

ASSUME = ["little-endian host; widths outside 1..16 hit assert/__builtin_unreachable in C and are not executed"]

PARTS = {
    "C01": dict(coq_props=["Properties_C01_external_big"], files=FILES, rule=RULE, generate=generate,
                oracles={"extbig": o_big, "extbig_get": o_get}, classify=classify, assumptions=ASSUME,
                configs_quick=["pinned", "O0"]),
}
