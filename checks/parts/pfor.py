"""PFOR (src/varintPFOR.{c,h}) — contributions to C02 (lossless, random access),
C03 (writes stay inside varintPFORSize), C16 (metadata / ReadMeta tell the truth)."""
from vlib import *  # noqa

FILES = ["src/varintPFOR.c", "src/varintPFOR.h"]
THRESHOLDS = [90, 95, 99]
# other thresholds: degenerate percentiles and 32-bit wrap of count * threshold
ODD_THRESHOLDS = [0, 1, 50, 100, 101, 255, 42949673, 2147483648, 4294967295]
LENGTHS = [1, 2, 3, 9, 10, 11, 19, 20, 21, 99, 100, 101, 127, 128, 129, 239, 240, 241, 242, 300]
MINS = [0, 1, 239, 240, 241, 2287, 2288, 67823, 67824, (1 << 24) - 1, 1 << 24, (1 << 32) - 1, 1 << 32,
        1 << 40, 1 << 48, (1 << 56) - 1, 1 << 56, 1 << 63]

RULE = ("arrays built from (length, minimum, regular offset width 1..8, number/position/magnitude of outliers, "
        "offsets equal to the all-ones marker) for thresholds 90/95/99 and degenerate/wrapping thresholds; lengths "
        "around percentile rounding (10,100,101), tagged index widths (240/241, 2287/2288) and 5000; values from "
        "every integer literal of varintPFOR.{c,h}; non-trivial = at least one element")


# ---------------------------------------------------------------- reference helpers (generator / oracle side)

def t_put(x):
    """tagged varint bytes (format of varintTagged.c)"""
    if x <= 240:
        return [x]
    if x <= 2287:
        y = x - 240
        return [y // 256 + 241, y % 256]
    if x <= 67823:
        y = x - 2288
        return [249, y // 256, y % 256]
    k = max(3, (x.bit_length() + 7) // 8)
    return [247 + k] + list(x.to_bytes(k, "big"))


def t_get(b, pos):
    """(value, new pos) or None when the bytes are not there"""
    if pos >= len(b):
        return None
    a = b[pos]
    if a <= 240:
        return a, pos + 1
    if a <= 248:
        if pos + 2 > len(b):
            return None
        return 240 + 256 * (a - 241) + b[pos + 1], pos + 2
    if a == 249:
        if pos + 3 > len(b):
            return None
        return 2288 + 256 * b[pos + 1] + b[pos + 2], pos + 3
    k = a - 247
    if pos + 1 + k > len(b):
        return None
    return int.from_bytes(bytes(b[pos + 1:pos + 1 + k]), "big"), pos + 1 + k


def ref_encode(xs, thr):
    """python rendering of the (repaired) encoder, used only to build decoder inputs"""
    n = len(xs)
    if n == 0:
        return [0, 0, 0, 0]
    s = sorted(xs)
    ti = ((n * thr) & 0xFFFFFFFF) // 100
    if ti >= n:
        ti = n - 1
    mn, tv = s[0], s[ti]
    rng_ = tv - mn
    w = max(1, (rng_.bit_length() + 7) // 8)
    marker = (1 << (8 * w)) - 1
    out = t_put(mn) + [w] + t_put(n)
    exc = []
    for i, v in enumerate(xs):
        if v > tv or v - mn == marker:
            out += list(marker.to_bytes(w, "little"))
            exc.append((i, v))
        else:
            out += list((v - mn).to_bytes(w, "little"))
    out += t_put(len(exc))
    for i, v in exc:
        out += t_put(i) + t_put(v)
    return out


def parse_stream(b):
    """independent structural parse of an encoding: dict or an error string"""
    r = t_get(b, 0)
    if r is None:
        return "truncated min"
    mn, p = r
    if p >= len(b):
        return "truncated width"
    w = b[p]
    p += 1
    r = t_get(b, p)
    if r is None:
        return "truncated count"
    cnt, p = r
    hdr = p
    if p + cnt * w > len(b):
        return "truncated values"
    slots = [int.from_bytes(bytes(b[p + i * w:p + (i + 1) * w]), "little") for i in range(cnt)]
    p += cnt * w
    r = t_get(b, p)
    if r is None:
        return "truncated exception count"
    ec, p = r
    ex = []
    for _ in range(ec):
        r = t_get(b, p)
        if r is None:
            return "truncated exception index"
        i, p = r
        r = t_get(b, p)
        if r is None:
            return "truncated exception value"
        v, p = r
        ex.append((i, v))
    return dict(min=mn, width=w, count=cnt, hdr=hdr, slots=slots, ec=ec, ex=ex, end=p)


# ---------------------------------------------------------------- generators

def _regular(rng, n, mn, w, kind):
    """n values in [mn, mn + hi] where hi needs exactly w bytes"""
    top = (1 << (8 * w)) - 1
    if kind == "marker":      # range equals the marker: collision candidates
        hi = top
    elif kind == "below":
        hi = top - 1
    elif kind == "low":       # smallest range of this width
        hi = 1 << (8 * (w - 1)) if w > 1 else 0
    else:
        hi = rng.randint(1 << (8 * (w - 1)) if w > 1 else 0, top)
    hi = min(hi, U64 - mn)
    vs = [mn + rng.randint(0, hi) for _ in range(n)]
    # make the extremes present
    if n >= 1:
        vs[rng.randrange(n)] = mn
    if n >= 2:
        k = max(1, n // 8) if kind == "marker" else 1
        for _ in range(k):
            vs[rng.randrange(n)] = mn + hi
        if mn not in vs:
            vs[0] = mn
    return vs, hi


def _with_outliers(rng, vs, hi, mn, count, where, mag):
    n = len(vs)
    if count <= 0 or n == 0:
        return vs
    count = min(count, n)
    if where == "first":
        pos = list(range(count))
    elif where == "last":
        pos = list(range(n - count, n))
    elif where == "ends":
        pos = [0, n - 1][:count] + rng.sample(range(n), max(0, count - 2))
    else:
        pos = rng.sample(range(n), count)
    for p in pos:
        if mag == "just":
            v = mn + hi + 1 + rng.randint(0, 2)
        elif mag == "max":
            v = U64
        elif mag == "big":
            v = (1 << 60) + rng.randint(0, 1 << 20)
        else:
            v = rand_u64(rng)
        vs[p] = min(max(v, mn), U64)
    return vs


def _case(thr, vs):
    return "pfor_enc %d %s" % (thr, lst(vs))


def _structured(rng, tier, lengths, n_rand):
    # every length x threshold on a plain array with ~3% outliers
    for n in lengths:
        for thr in THRESHOLDS:
            w = rng.randint(1, 8)
            mn = rng.choice(MINS)
            vs, hi = _regular(rng, n, mn, w, rng.choice(["rand", "below", "marker", "low"]))
            vs = _with_outliers(rng, vs, hi, mn, rng.choice([0, 1, n // 30, n // 30 + 1]), rng.choice(["rand", "first", "last", "ends"]),
                                rng.choice(["just", "max", "big", "rand"]))
            yield _case(thr, vs)
    # every width x range kind x outlier pattern
    for w in range(1, 9):
        for kind in ("marker", "below", "low", "rand"):
            for (cnt, where, mag) in ((0, "rand", "just"), (1, "first", "max"), (1, "last", "just"), (3, "ends", "big"),
                                      (12, "rand", "rand"), (40, "rand", "max")):
                n = rng.choice([20, 100, 101, 130, 260])
                mn = rng.choice(MINS)
                thr = rng.choice(THRESHOLDS)
                vs, hi = _regular(rng, n, mn, w, kind)
                yield _case(thr, _with_outliers(rng, vs, hi, mn, cnt, where, mag))
    # marker collisions per width: {min, min+marker} pairs and arrays where the percentile lands on min+marker
    for w in range(1, 9):
        top = (1 << (8 * w)) - 1
        for mn in (0, 1, 240, 1 << 32):
            if mn + top > U64:
                continue
            for thr in THRESHOLDS:
                yield _case(thr, [mn, mn + top])
            yield _case(95, [mn + top, mn, mn + top])
            yield _case(90, [mn] * 5 + [mn + top] * 5 + [mn + top - 1] * 3 + [U64])
            yield _case(99, [mn + (top if i % 7 == 0 else i % 200 if w > 1 else i % 200) for i in range(150)] + [mn])
    # degenerate and wrapping thresholds
    for thr in ODD_THRESHOLDS:
        for n in (1, 2, 10, 100, 101):
            w = rng.randint(1, 8)
            mn = rng.choice(MINS)
            vs, hi = _regular(rng, n, mn, w, "rand")
            yield _case(thr, _with_outliers(rng, vs, hi, mn, rng.choice([0, 1, 3]), "rand", "rand"))
    # all equal, single element, sorted, reverse sorted, all max
    for thr in THRESHOLDS:
        yield _case(thr, [U64])
        yield _case(thr, [0])
        yield _case(thr, [U64] * 7)
        yield _case(thr, [5] * 100)
        yield _case(thr, list(range(1000, 1100)))
        yield _case(thr, list(range(1100, 1000, -1)))
        yield _case(thr, [0, U64])
        yield _case(thr, [U64, 0] * 20)
    # values from the literals of the sources
    lits = scraped_literals(FILES)
    for thr in THRESHOLDS:
        yield _case(thr, lits)
        yield _case(thr, list(reversed(lits)))
    for _ in range(20):
        k = rng.randint(1, len(lits))
        yield _case(rng.choice(THRESHOLDS), [rng.choice(lits) for _ in range(k)])
    bv = boundary_values()
    for _ in range(20):
        k = rng.randint(1, 120)
        yield _case(rng.choice(THRESHOLDS), [rng.choice(bv) for _ in range(k)])
    # random
    for _ in range(n_rand):
        n = rng.choice([1, 2, 3, 5, 10, 33, 100, 101, 150, 241, 300])
        w = rng.randint(1, 8)
        mn = rng.choice(MINS) if rng.random() < 0.5 else rand_u64(rng) >> 1
        vs, hi = _regular(rng, n, mn, w, rng.choice(["rand", "below", "marker", "low"]))
        cnt = rng.choice([0, 0, 1, 2, n // 25, n // 10, n // 3])
        thr = rng.choice(THRESHOLDS + THRESHOLDS + ODD_THRESHOLDS)
        yield _case(thr, _with_outliers(rng, vs, hi, mn, cnt, rng.choice(["rand", "first", "last", "ends"]),
                                        rng.choice(["just", "max", "big", "rand"])))


def _long(rng, tier):
    """exception indices needing 2 and 3 tagged bytes, counts needing 3 bytes, 5000 elements"""
    specs = [(300, "last", 14, "big"), (2300, "last", 30, "max"), (2300, "rand", 60, "rand"), (2289, "ends", 2, "max"),
             (5000, "rand", 120, "big"), (5000, "last", 200, "max"), (5000, "first", 0, "just")]
    if tier != "quick":
        specs += [(4095, "rand", 100, "rand"), (4096, "last", 150, "max"), (4097, "rand", 0, "just"),
                  (65535, "rand", 1500, "big"), (65536, "last", 3000, "max"), (67900, "last", 3000, "max")]
    for (n, where, cnt, mag) in specs:
        for thr in THRESHOLDS:
            # the extracted model recurses over the encoded byte list (Coq's app/length are not tail
            # recursive in OCaml): keep encodings below ~300 KB so the default 8 MB stack suffices
            w = rng.randint(1, 8) if n < 40000 else rng.randint(1, 4)
            if n >= 40000:
                cnt = min(cnt, n // 200)   # fewer outliers than 1%: the percentile stays regular
            mn = rng.choice(MINS)
            vs, hi = _regular(rng, n, mn, w, rng.choice(["rand", "marker"]))
            yield _case(thr, _with_outliers(rng, vs, hi, mn, cnt, where, mag))


def _worst_size(rng, tier):
    """C03: everything at its widest: 9-byte minimum, 8-byte slots, late outliers of 9 tagged bytes"""
    for thr in THRESHOLDS:
        # F08 shape: 300 values, the last 15 are >= 2^60
        yield _case(thr, list(range(285)) + [(1 << 60) + i for i in range(15)])
        # minimum needing 9 tagged bytes, slots of 1 byte, outliers = UINT64_MAX at the end
        yield _case(thr, [(1 << 63) + (i % 200) for i in range(400)] + [U64] * 12)
        # 8-byte slots (range = 2^64-1), no outlier possible
        yield _case(thr, [0, U64] + [rand_u64(rng) for _ in range(60)])
        # 7-byte slots, outliers wide, indices >= 241
        yield _case(thr, [rng.getrandbits(56) for _ in range(260)] + [U64 - i for i in range(9)])
        # count needing 2 tagged bytes exactly at the boundary, outlier at the last index
        for n in (240, 241, 242):
            yield _case(thr, [7] * (n - 1) + [U64])
    n = 2400
    yield _case(95, [3] * (n - 50) + [U64] * 50)
    yield _case(90, [1 << 63] * (n - 100) + [U64 - i for i in range(100)])


def _malformed(rng, tier):
    """hand-made streams for the decoder: valid encodings, then structural edits"""
    n_base = 40 if tier == "quick" else 400
    for _ in range(n_base):
        n = rng.choice([1, 2, 5, 10, 30, 60])
        w = rng.randint(1, 8)
        mn = rng.choice(MINS)
        vs, hi = _regular(rng, n, mn, w, rng.choice(["rand", "marker"]))
        vs = _with_outliers(rng, vs, hi, mn, rng.choice([0, 1, 3]), "rand", rng.choice(["just", "max", "rand"]))
        b = ref_encode(vs, rng.choice(THRESHOLDS))
        mode = rng.randint(0, 1)
        yield "pfor_dec %s %d %d" % (hexs(b), 64, mode)
        ps = parse_stream(b)
        if isinstance(ps, str):
            continue
        # truncations (over-read expected)
        for cut in sorted(set([0, 1, ps["hdr"] - 1, ps["hdr"], ps["hdr"] + 1, len(b) - 1, rng.randrange(len(b))])):
            if 0 <= cut < len(b):
                yield "pfor_dec %s %d %d" % (hexs(b[:cut]), 64, mode)
        body_end = ps["hdr"] + ps["count"] * ps["width"]
        marker = (1 << (8 * ps["width"])) - 1
        # a marker slot without an exception entry; exception count smaller than the list
        if ps["count"] >= 1:
            i = rng.randrange(ps["count"])
            b2 = list(b)
            b2[ps["hdr"] + i * ps["width"]:ps["hdr"] + (i + 1) * ps["width"]] = list(marker.to_bytes(ps["width"], "little"))
            yield "pfor_dec %s %d %d" % (hexs(b2), 64, mode)
        # rewritten exception sections: index out of range, duplicates (last one wins in Decode, first in GetAt),
        # indices of regular slots, a count larger than the entries present (runs off the end)
        ex = list(ps["ex"])
        extra = [(ps["count"], 111), (ps["count"] + 1000, 222), (0, 333), (0, 444), (U64, 555),
                 (rng.randrange(max(1, ps["count"])), rand_u64(rng))]
        rng.shuffle(extra)
        ex2 = ex + extra[:rng.randint(1, 4)]
        rng.shuffle(ex2)
        yield "pfor_dec %s %d %d" % (hexs(b[:body_end] + t_put(len(ex2)) + sum((t_put(i) + t_put(v) for i, v in ex2), [])), 64, mode)
        yield "pfor_dec %s %d %d" % (hexs(b[:body_end] + t_put(max(0, len(ex2) - 1)) + sum((t_put(i) + t_put(v) for i, v in ex2), [])), 64, mode)
        yield "pfor_dec %s %d %d" % (hexs(b[:body_end] + t_put(len(ex2) + 2) + sum((t_put(i) + t_put(v) for i, v in ex2), [])), 64, mode)
        yield "pfor_dec %s %d %d" % (hexs(b[:body_end] + t_put((1 << 32) + len(ex2)) + sum((t_put(i) + t_put(v) for i, v in ex2), [])), 64, mode)
        # trailing garbage after a valid stream is never read
        yield "pfor_dec %s %d %d" % (hexs(b + [rng.randrange(256) for _ in range(5)]), 64, mode)
        # header edits: count larger / smaller than the slots present, other widths, count above 2^32
        hdr_min = t_put(ps["min"])
        for (w2, c2) in ((ps["width"], ps["count"] + 1), (ps["width"], max(0, ps["count"] - 1)), (rng.randint(0, 9), ps["count"]),
                         (ps["width"], (1 << 32) + ps["count"]), (0, 0), (200, 0), (ps["width"], 100)):
            yield "pfor_dec %s %d %d" % (hexs(hdr_min + [w2] + t_put(c2) + b[ps["hdr"]:]), 64, mode)
    # plain byte soup
    for _ in range(n_base):
        k = rng.randint(0, 40)
        yield "pfor_dec %s %d %d" % (hexs([rng.choice([0, 1, 2, 3, 8, 241, 249, 250, 255, rng.randrange(256)]) for _ in range(k)]), 64, rng.randint(0, 1))


def generate_C02(rng, tier):
    yield from _structured(rng, tier, LENGTHS, 150 if tier == "quick" else 3000)
    yield from _long(rng, tier)
    yield from _malformed(rng, tier)


def generate_C03(rng, tier):
    yield from _worst_size(rng, tier)
    yield from _structured(rng, tier, [1, 2, 10, 100, 101, 240, 241, 300], 100 if tier == "quick" else 3000)
    yield from _long(rng, tier)


def generate_C16(rng, tier):
    yield from _structured(rng, tier, LENGTHS, 100 if tier == "quick" else 3000)
    yield from _worst_size(rng, tier)
    yield from _long(rng, tier)


# ---------------------------------------------------------------- direct oracles (C output only)

def _xs(args):
    return [int(x) for x in args[1][1:].split(",")] if len(args[1]) > 1 else []


def o_enc_C02(args, c):
    xs = _xs(args)
    if "fault" in c:
        return "fault=%s while encoding/decoding an accepted array" % c["fault"]
    if not xs:
        return None
    for k in ("d1", "d2"):
        if c.get(k) != "ok" or int(c[k + "n"]) != len(xs):
            return "decode (%s) of the encoder's output is not the input: n=%s %s" % (k, c.get(k + "n"), str(c.get(k))[:120])
    for k in ("ga", "garm"):
        if c.get(k) != "ok":
            return "random access (%s) differs from the input: %s" % (k, str(c.get(k))[:120])
    return None


def o_enc_C03(args, c):
    if "fault" in c:
        return "fault=%s" % c["fault"]
    n, size = int(c["n"]), int(c["size"])
    if c["guard"] != "ok":
        return "encoder wrote outside the %d bytes promised by varintPFORSize (guard %s)" % (size, c["guard"])
    if n > size:
        return "encoder returned %d > varintPFORSize %d" % (n, size)
    if int(c["ct_exc"]) == 0 and n != size:
        return "no exceptions but varintPFORSize %d != %d written" % (size, n)
    return None


def o_enc_C16(args, c):
    xs = _xs(args)
    if "fault" in c:
        return "fault=%s" % c["fault"]
    if not xs:
        return None
    n = int(c["n"])
    if int(c["m_count"]) != len(xs):
        return "meta.count %s != %d elements" % (c["m_count"], len(xs))
    if int(c["m_min"]) != min(xs):
        return "meta.min %s != minimum %d" % (c["m_min"], min(xs))
    for f in ("min", "marker", "tv", "width", "count", "exc", "thr"):
        if c["ct_" + f] != c["m_" + f]:
            return "ComputeThreshold and Encode disagree on %s: %s vs %s" % (f, c["ct_" + f], c["m_" + f])
    for f in ("min", "marker", "width", "count", "exc"):
        if c["rm_" + f] != c["m_" + f]:
            return "ReadMeta %s=%s but the encoder reported %s" % (f, c["rm_" + f], c["m_" + f])
    if int(c["d1n"]) != len(xs) or int(c["d1count"]) != len(xs) or int(c["d2n"]) != len(xs):
        return "decoder reports %s/%s elements, %d were encoded" % (c["d1n"], c["d2n"], len(xs))
    if c["d1exc"] != c["m_exc"] or c["d2exc"] != c["m_exc"]:
        return "decoder exception count %s/%s != encoder's %s" % (c["d1exc"], c["d2exc"], c["m_exc"])
    if c["size"] != c["size2"]:
        return "varintPFORSize differs before/after encoding"
    enc = c.get("enc", "")
    if "enchash" in c:
        return None
    b = list(bytes.fromhex(enc[1:]))
    if len(b) != n:
        return None if n > len(b) and c.get("guard") != "ok" else "returned size %d but %d bytes shown" % (n, len(b))
    ps = parse_stream(b)
    if isinstance(ps, str):
        return "encoding does not parse: " + ps
    if ps["end"] != n:
        return "returned size %d but the stream is %d bytes" % (n, ps["end"])
    if ps["min"] != int(c["m_min"]) or ps["width"] != int(c["m_width"]) or ps["count"] != int(c["m_count"]):
        return "header (min,width,count)=(%d,%d,%d) differs from meta" % (ps["min"], ps["width"], ps["count"])
    if ps["hdr"] != int(c["rm_h"]):
        return "ReadMeta consumed %s header bytes, header is %d" % (c["rm_h"], ps["hdr"])
    marker = int(c["m_marker"])
    nmark = sum(1 for s in ps["slots"] if s == marker)
    if not (nmark == ps["ec"] == len(ps["ex"]) == int(c["m_exc"])):
        return "exceptionCount %s but %d marker slots / %d stored exceptions" % (c["m_exc"], nmark, ps["ec"])
    w = int(c["m_width"])
    tv, mn = int(c["m_tv"]), int(c["m_min"])
    if not (1 <= w <= 8 and tv - mn < (1 << (8 * w)) and (w == 1 or tv - mn >= (1 << (8 * (w - 1))))):
        return "width %d is not the byte width of thresholdValue - min = %d" % (w, tv - mn)
    if marker != (1 << (8 * w)) - 1:
        return "marker %d is not all-ones of width %d" % (marker, w)
    return None


def o_dec(args, c):
    return None   # correspondence only: no property statement about hand-made streams


def classify(case, m):
    t = case.split(" ", 2)
    if t[0] == "pfor_dec":
        if "fault" in m:
            return "stream-overread"
        if "skip" in m:
            return "trivial"
        return "stream-mode" + t[2].split()[-1]
    if t[0] != "pfor_enc":
        return None
    if "m_count" not in m or int(m["m_count"]) == 0:
        return "trivial"
    n, e = int(m["m_count"]), int(m["m_exc"])
    eb = "0" if e == 0 else "1" if e == 1 else "few" if e * 20 <= n else "many"
    nb = "n<=2" if n <= 2 else "n<241" if n < 241 else "n<2288" if n < 2288 else "n>=2288"
    return "w%s-exc%s-%s" % (m["m_width"], eb, nb)


def search(rng, divergent_cases):
    for c in divergent_cases[:20]:
        t = c.split()
        if t[0] != "pfor_enc":
            continue
        xs = [int(x) for x in t[2][1:].split(",")] if len(t[2]) > 1 else []
        for thr in THRESHOLDS:
            yield _case(thr, xs)
        for k in range(1, min(len(xs), 12)):
            yield _case(int(t[1]), xs[:k])
            yield _case(int(t[1]), xs[-k:])
        for _ in range(20):
            ys = list(xs)
            if ys:
                ys[rng.randrange(len(ys))] = rand_u64(rng)
            yield _case(int(t[1]), ys)
    r2 = random.Random(rng.getrandbits(32))
    yield from _structured(r2, "thorough", LENGTHS, 500)
    yield from _worst_size(r2, "thorough")


ASSUME = ["1 <= count < 2^32 (count is a uint32_t parameter)",
          "qsort returns the sorted permutation; malloc succeeds (allocation failure is C18's subject)",
          "destination of varintPFORSize(meta) bytes with meta from varintPFORComputeThreshold on the same input"]

PARTS = {
    "C02": dict(coq_props=["Properties_C02_pfor"], files=FILES, rule=RULE, generate=generate_C02,
                oracles={"pfor_enc": o_enc_C02, "pfor_dec": o_dec}, classify=classify, search=search,
                assumptions=ASSUME, configs_quick=["pinned", "O0"]),
    "C03": dict(coq_props=["Properties_C03_pfor"], files=FILES, rule=RULE, generate=generate_C03,
                oracles={"pfor_enc": o_enc_C03}, classify=classify, search=search,
                assumptions=ASSUME, configs_quick=["pinned", "O0"]),
    "C16": dict(coq_props=["Properties_C16_pfor", "Properties_C16_pfor_src"], files=FILES, rule=RULE,
                generate=generate_C16, oracles={"pfor_enc": o_enc_C16}, classify=classify, search=search,
                assumptions=ASSUME, configs_quick=["pinned", "O0"],
                trusted_base=["gen/c2coq.py + CSem.v for the *_src theorems (C-to-Gallina translator, clang 14 typed AST "
                              "-> coq/gen/Src_leaf_pfor.v via gen/c2coq_leaf.py: varintPFORCalculateMarker regenerated from "
                              "the current source on every run; subset and assumptions in the translator's docstring); "
                              "the rendering is tied to the compiled C by the translator, not by proof"]),
}
