"""bitdim — C11 (varintBitstream.h) and C10 (varintDimension.{c,h})."""
from vlib import *  # noqa

# ============================================================ C11 bitstream

FILES_C11 = ["src/varintBitstream.h"]
RULE_C11 = ("bs_setget: for each instantiation (VBITS,VBITSVAL) in {8,16,32,64}x64 and {8,16,32}x same: EVERY "
            "(bit offset mod W, width 1..W) pair, with slot index 0..2, values {0, 2^n-1, 2^(n-1), alternating, random}, "
            "prior contents {zeros, ones, random}; the stream ends exactly at the last slot overlapping the range (the next "
            "slot is an inaccessible page) in 3 of 4 cases; literals of the header as offsets/widths; "
            "bs_signed: every width 1..64 with +-(2^(n-1)-1), +-1, 0, random representable and the first "
            "unrepresentable values; non-trivial = every bs_setget case, and bs_signed cases with a negative value")

INSTS = [(8, 64), (16, 64), (32, 64), (64, 64), (8, 8), (16, 16), (32, 32)]


def _prior(rng, nbytes, mode):
    if mode == 0:
        return [0] * nbytes
    if mode == 1:
        return [255] * nbytes
    return [rng.getrandbits(8) for _ in range(nbytes)]


def _val(rng, n, mode):
    full = (1 << n) - 1
    if mode == 0:
        return 0
    if mode == 1:
        return full
    if mode == 2:
        return 1 << (n - 1)
    if mode == 3:
        return 0x5555555555555555 & full
    if mode == 4:
        return 1
    return rng.getrandbits(n)


def _bs_case(rng, W, V, q, r, n, vmode, pmode, extra):
    off = q * W + r
    nwords = (off + n - 1) // W + 1 + extra
    prior = _prior(rng, nwords * (W // 8), pmode)
    return "bs_setget %d %d %d %d %d %s" % (W, V, off, n, _val(rng, n, vmode), hexs(prior))


def generate_C11(rng, tier):
    reps = 2 if tier == "quick" else 12
    lits = [v for v in scraped_literals(FILES_C11) if v <= 200]
    for (W, V) in INSTS:
        for r in range(W):
            for n in range(1, W + 1):
                for k in range(reps):
                    yield _bs_case(rng, W, V, rng.choice([0, 0, 1, 2]), r, n,
                                   rng.randint(0, 7), (k + rng.randint(0, 1)) % 3 if k else 2,
                                   0 if rng.random() < 0.75 else rng.randint(1, 2))
        # slot-boundary neighbourhood with all three prior modes and extreme values
        for r in sorted(set([0, 1, W // 2 - 1, W // 2, W - 2, W - 1])):
            for n in sorted(set([1, 2, W - r - 1, W - r, W - r + 1, W - 1, W])):
                if 1 <= n <= W:
                    for pm in (0, 1, 2):
                        for vm in (0, 1, 2):
                            yield _bs_case(rng, W, V, 1, r, n, vm, pm, 0)
        for off in lits:
            for n in lits:
                if 1 <= n <= W:
                    yield _bs_case(rng, W, V, 0, off % W, n, 5, 2, 0)
                    yield "bs_setget %d %d %d %d %d %s" % (
                        W, V, off, n, _val(rng, n, 5), hexs(_prior(rng, ((off + n - 1) // W + 1) * (W // 8), 2)))
    # signed helpers
    for n in range(1, 65):
        lim = (1 << (n - 1)) - 1          # largest magnitude representable
        vals = set([0, 1, -1, lim, -lim, lim // 2, -(lim // 2)])
        for _ in range(4 if tier == "quick" else 40):
            if lim > 0:
                vals.add(rng.randint(-lim, lim))
                vals.add(-rng.randint(1, lim))
        # first values outside (never the int64 minimum: -(val) is undefined there)
        if n < 64:
            vals.add(lim + 1)
            vals.add(-(lim + 1))
        for v in sorted(vals):
            if abs(v) <= lim or n < 64:
                yield "bs_signed %d %d %d" % (n, v, rng.randint(0, 192 - n))


def _bits_msb(words, W):
    out = []
    for w in words:
        for k in range(W - 1, -1, -1):
            out.append((w >> k) & 1)
    return out


def o_bs_setget(args, c):
    W, V, off, n, v = (int(x) for x in args[:5])
    prior = bytes.fromhex(args[5][1:])
    wb = W // 8
    nwords = len(prior) // wb
    if not (1 <= n <= W and W <= V and (off + n - 1) // W < nwords and v < (1 << n)):
        return None                     # outside the property's domain
    if "fault" in c:
        return "fault=%s: a slot not overlapping [off, off+n) was accessed" % c["fault"]
    if "error" in c:
        return "driver error " + c["error"]
    if int(c["get"]) != v:
        return "read after write returned %s, wrote %d" % (c["get"], v)
    mem = bytes.fromhex(c["mem"][1:])
    if len(mem) != len(prior):
        return "stream length changed"
    pw = [int.from_bytes(prior[i * wb:(i + 1) * wb], "little") for i in range(nwords)]
    mw = [int.from_bytes(mem[i * wb:(i + 1) * wb], "little") for i in range(nwords)]
    pb, mb = _bits_msb(pw, W), _bits_msb(mw, W)
    for i in range(len(pb)):
        if not (off <= i < off + n) and pb[i] != mb[i]:
            return "bit %d outside [%d,%d) changed" % (i, off, off + n)
    if c.get("lo") != "ok":
        return "words in front of the stream were modified"
    return None


def o_bs_signed(args, c):
    n, v = int(args[0]), int(args[1])
    lim = (1 << (n - 1)) - 1
    if abs(v) > lim:
        return None                     # not representable in n bits (sign + magnitude)
    if "fault" in c:
        return "fault=" + c["fault"]
    for k in ("rest", "rests", "via"):
        if k not in c:
            return "missing %s (prepared value does not fit %d bits?)" % (k, n)
        if int(c[k]) != v:
            return "%s=%s, stored %d in %d bits" % (k, c[k], v, n)
    if int(c["prep"]) >> n:
        return "prepared value %s exceeds %d bits" % (c["prep"], n)
    return None


def classify_C11(case, m):
    t = case.split()
    if t[0] == "bs_setget":
        W, off, n = int(t[1]), int(t[3]), int(t[4])
        return "W%s-%s" % (t[1], "two-slot" if off % W + n > W else "one-slot")
    if t[0] == "bs_signed":
        n, v = int(t[1]), int(t[2])
        if abs(v) > (1 << (n - 1)) - 1:
            return "signed-outside"
        return "signed-neg" if v < 0 else "trivial"
    return None


def search_C11(rng, divergent):
    for cse in divergent:
        t = cse.split()
        if t[0] == "bs_setget":
            W, V, off, n = int(t[1]), int(t[2]), int(t[3]), int(t[4])
            for do in (-1, 0, 1):
                for dn in (-1, 0, 1):
                    if off + do >= 0 and 1 <= n + dn <= W:
                        for vm in (0, 1, 5):
                            for pm in (0, 1, 2):
                                yield _bs_case(rng, W, V, (off + do) // W, (off + do) % W, n + dn, vm, pm, 0)
    yield from generate_C11(random.Random(rng.getrandbits(32)), "quick")


# ============================================================ C10 dimension

FILES_C10 = ["src/varintDimension.c", "src/varintDimension.h"]
RULE_C10 = ("dim_pack: pairs around every 4-bit level boundary 2^(4k) (k=1..8), mixed levels, random bit lengths, scraped "
            "literals, unsupported pairs >= 2^32; dim_pair: all 9x8 (row width 0-8, column width 1-8) combinations with the "
            "minimum, maximum and random counts of each width, every buffer alignment; dim_cell: op sequences (1-8 "
            "writes, repeated cells, row 0, last row, last column) on matrices of every entry kind (unsigned 1-8 bytes, "
            "float, double, half, bit) - small full matrices, vectors (0 rows), wide headers (column counts up to 2^64-1 "
            "with only the leading cells allocated), tall headers (row counts up to 2^64-1), a few hundred-by-hundred "
            "matrices; the buffer is exactly header + allocated cells inside canaries; non-trivial = all but "
            "dim_pack pairs below 16")

KINDS = ["u1", "u2", "u3", "u4", "u5", "u6", "u7", "u8", "f", "d", "h", "b"]


def _kw(kind):
    return {"f": 4, "d": 8, "h": 2, "b": 0}.get(kind) or int(kind[1])


def _wmin(w):
    return 0 if w == 0 else (1 if w == 1 else 1 << (8 * (w - 1)))


def _wmax(w):
    return 0 if w == 0 else (1 << (8 * w)) - 1


def _count_of_width(rng, w, mode):
    if w == 0:
        return 0
    if mode == 0:
        return _wmin(w)
    if mode == 1:
        return _wmax(w)
    return rng.randint(_wmin(w), _wmax(w))


def _half_pattern(rng):
    while True:
        h = rng.choice([0, 0x8000, 0x3c00, 0xbc00, 0x7bff, 0xfbff, 0x0001, 0x8001, 0x03ff, 0x0400, 0x7c00, 0xfc00,
                        rng.getrandbits(16), rng.getrandbits(16)])
        if not ((h >> 10) & 31 == 31 and (h & 1023)):    # no NaN: the conversion quiets payloads
            return h


def _cell_value(rng, kind):
    if kind == "b":
        return rng.choice([0, 1, 1, 2, 2])
    if kind == "h":
        return _half_pattern(rng)
    bits = 8 * _kw(kind)
    return rng.choice([0, (1 << bits) - 1, 1 << (bits - 1), rng.getrandbits(bits), rng.getrandbits(bits),
                       0x0102030405060708 & ((1 << bits) - 1)])


def _cell_case(rng, rows, cols, kind, nalloc, nops=None, seed=None):
    """ops land inside the first nalloc cells (linear index row*cols+col)"""
    nops = nops or rng.randint(1, 8)
    seed = rng.randint(0, 4000) if seed is None else seed
    maxrow = 0 if rows == 0 else min(rows - 1, (nalloc - 1) // cols)
    ops = []
    cells = []
    for i in range(nops):
        if cells and rng.random() < 0.35:
            r, c = rng.choice(cells)                     # repeated cell
        else:
            r = rng.choice([0, maxrow, rng.randint(0, maxrow)])
            lastc = min(cols, nalloc - r * cols) - 1
            if lastc < 0:
                r, lastc = 0, min(cols, nalloc) - 1
            c = rng.choice([0, lastc, rng.randint(0, lastc)])
        cells.append((r, c))
        ops += [r, c, _cell_value(rng, kind)]
    return "dim_cell %d %d %s %d %d %s" % (rows, cols, kind, nalloc, seed, lst(ops))


def generate_C10(rng, tier):
    q = tier == "quick"
    # ---- pack
    pool = set()
    for k in range(0, 10):
        for d in (-2, -1, 0, 1, 2):
            v = (1 << (4 * k)) + d
            if 0 <= v <= U64:
                pool.add(v)
    pool |= set(v for v in scraped_literals(FILES_C10) if v < (1 << 34))
    pool |= set([0, 1, 15, 16, (1 << 32) - 1, 1 << 32, (1 << 32) + 1, U64, 1 << 63])
    pool = sorted(pool)
    for a in pool:
        yield "dim_pack %d %d" % (a, a)
        yield "dim_pack %d 0" % a
        yield "dim_pack 0 %d" % a
    for _ in range(1500 if q else 30000):
        yield "dim_pack %d %d" % (rng.choice(pool), rng.choice(pool))
    for _ in range(1000 if q else 30000):
        yield "dim_pack %d %d" % (rng.getrandbits(rng.randint(0, 33)), rng.getrandbits(rng.randint(0, 33)))
    # ---- pair headers: all 72 width combinations
    for wr in range(0, 9):
        for wc in range(1, 9):
            for mr in range(3):
                for mc in range(3):
                    yield "dim_pair %d %d %d" % (_count_of_width(rng, wr, mr), _count_of_width(rng, wc, mc),
                                                 rng.randint(0, 15))
    for v in pool:
        if v >= 1:
            yield "dim_pair %d %d %d" % (rng.choice(pool), v, rng.randint(0, 15))
    for _ in range(500 if q else 20000):
        yield "dim_pair %d %d %d" % (rand_u64(rng), max(1, rand_u64(rng)), rng.randint(0, 15))
    # ---- cells
    for kind in KINDS:
        # the ledger witness for SetBit(false) / a plain overwrite
        yield "dim_cell 4 4 %s 16 2 %s" % (kind, lst([1, 1, 1, 1, 1, 0]))
        # small full matrices
        for _ in range(40 if q else 600):
            rows, cols = rng.randint(1, 9), rng.randint(1, 9)
            yield _cell_case(rng, rows, cols, kind, rows * cols)
        # vectors (0 rows)
        for _ in range(10 if q else 100):
            cols = rng.randint(1, 70)
            yield _cell_case(rng, 0, cols, kind, cols)
        # every width combination once per kind, leading cells only
        for wr in range(0, 9):
            for wc in range(1, 9):
                if q and rng.random() < 0.5:
                    continue
                rows = _count_of_width(rng, wr, rng.randint(0, 2))
                cols = _count_of_width(rng, wc, rng.randint(0, 2))
                nalloc = rng.randint(65, 200)
                # keep rows*cols representable where the cells are real
                yield _cell_case(rng, rows, cols, kind, min(nalloc, max(rows, 1) * cols))
        # medium matrices
        for _ in range(1 if q else 3):
            rows, cols = rng.randint(100, 300), rng.randint(60, 300)
            yield _cell_case(rng, rows, cols, kind, min(rows * cols, 3000 if q else 20000))
    # bit-specific sequences: set/clear/toggle chains on one cell and neighbours in one byte
    for _ in range(60 if q else 1000):
        rows, cols = rng.randint(1, 6), rng.randint(1, 12)
        r, c = rng.randint(0, rows - 1), rng.randint(0, cols - 1)
        ops = []
        for _ in range(rng.randint(2, 8)):
            if rng.random() < 0.3:
                r2, c2 = rng.randint(0, rows - 1), rng.randint(0, cols - 1)
            else:
                r2, c2 = r, c
            ops += [r2, c2, rng.choice([0, 1, 2])]
        yield "dim_cell %d %d b %d %d %s" % (rows, cols, rows * cols, rng.choice([0, 1, 7, 99]), lst(ops))


def _ilist(s):
    return [int(x) for x in s[1:].split(",")] if len(s) > 1 else []


def _need(x):
    return 0 if x == 0 else max(1, (x.bit_length() + 7) // 8)


def o_dim_pack(args, c):
    r, col = int(args[0]), int(args[1])
    if "fault" in c:
        return "fault=" + c["fault"]
    if r < (1 << 32) and col < (1 << 32):
        if c.get("ok") != "1":
            return "supported pair rejected"
        for k, want in (("ur", r), ("uc", col), ("mr", r), ("mc", col)):
            if int(c[k]) != want:
                return "unpack %s=%s, packed (%d,%d)" % (k, c[k], r, col)
    elif c.get("ok") == "1":
        # a pair the 8 levels cannot hold must not be reported as packed
        if int(c["ur"]) != r or int(c["uc"]) != col:
            return "pack returned true but unpack gives (%s,%s) for (%d,%d)" % (c["ur"], c["uc"], r, col)
    return None


def o_dim_pair(args, c):
    rows, cols = int(args[0]), int(args[1])
    if cols == 0:
        return None
    if "fault" in c:
        return "fault=" + c["fault"]
    if int(c["dr"]) != rows or int(c["dc"]) != cols:
        return "header decodes to (%s,%s), encoded (%d,%d)" % (c["dr"], c["dc"], rows, cols)
    wr, wc, ln = int(c["wr"]), int(c["wc"]), int(c["len"])
    if ln != wr + wc:
        return "announced length %d != %d + %d" % (ln, wr, wc)
    if (len(c["hdr"]) - 1) // 2 != ln or c["frame"] != "ok" or c["guard"] != "ok":
        return "header does not occupy exactly the announced %d bytes (frame=%s guard=%s)" % (ln, c["frame"], c["guard"])
    if wr != _need(rows) or wc != _need(cols):
        return "widths (%d,%d) for counts (%d,%d)" % (wr, wc, rows, cols)
    if c["dim"] != c["dim0"]:
        return "Encode and Dimension disagree"
    return None


def o_dim_cell(args, c):
    kind = args[2]
    ops = _ilist(args[5])
    if "fault" in c:
        return "fault=" + c["fault"]
    if "error" in c:
        return None if c["error"] == "no-f16c" else "driver error"
    pre, ret, gets, fin = _ilist(c["pre"]), _ilist(c["ret"]), _ilist(c["gets"]), _ilist(c["final"])
    n = len(ops) // 3
    cur = {}
    for i in range(n):
        r, col, v = ops[3 * i:3 * i + 3]
        if (r, col) in cur and pre[i] != cur[(r, col)]:
            return "op %d: cell (%d,%d) read %d before the write, last written %d" % (i, r, col, pre[i], cur[(r, col)])
        if kind == "b" and v == 2:
            if ret[i] != pre[i]:
                return "op %d: toggle returned %d, previous value %d" % (i, ret[i], pre[i])
            want = 1 - pre[i]
        else:
            want = v
        if gets[i] != want:
            return "op %d: cell (%d,%d) reads %d after writing %d" % (i, r, col, gets[i], want)
        cur[(r, col)] = want
    for i in range(n):
        r, col = ops[3 * i], ops[3 * i + 1]
        if fin[i] != cur[(r, col)]:
            return "cell (%d,%d) finally reads %d, last written %d" % (r, col, fin[i], cur[(r, col)])
    if c["oth"] != "0":
        return "%s reads of other cells changed across a write" % c["oth"]
    if c["hchg"] != "0":
        return "header bytes changed by a cell write"
    if c["guard"] != "ok":
        return "write outside the matrix buffer (%s)" % c["guard"]
    return None


def classify_C10(case, m):
    t = case.split()
    if t[0] == "dim_pack":
        a, b = int(t[1]), int(t[2])
        if max(a, b) < 16:
            return "trivial"
        return "pack-level%s" % m.get("dim", "-unsupported")
    if t[0] == "dim_pair":
        return "pair-%s_%s" % (m.get("wr", "?"), m.get("wc", "?"))
    if t[0] == "dim_cell":
        return "cell-%s" % t[3]
    return None


def search_C10(rng, divergent):
    for cse in divergent:
        t = cse.split()
        if t[0] == "dim_pack":
            a, b = int(t[1]), int(t[2])
            for da in (-1, 0, 1):
                for db in (-1, 0, 1):
                    if 0 <= a + da <= U64 and 0 <= b + db <= U64:
                        yield "dim_pack %d %d" % (a + da, b + db)
        elif t[0] == "dim_pair":
            a, b = int(t[1]), int(t[2])
            for da in (-1, 0, 1):
                for db in (-1, 0, 1):
                    if 0 <= a + da <= U64 and 1 <= b + db <= U64:
                        yield "dim_pair %d %d %s" % (a + da, b + db, t[3])
        elif t[0] == "dim_cell":
            rows, cols, kind, nalloc = int(t[1]), int(t[2]), t[3], int(t[4])
            for _ in range(10):
                yield _cell_case(rng, rows, cols, kind, nalloc)
    yield from generate_C10(random.Random(rng.getrandbits(32)), "quick")


PARTS = {
    "C11": dict(coq_props=["Properties_C11_bitdim"], files=FILES_C11, rule=RULE_C11, generate=generate_C11,
                oracles={"bs_setget": o_bs_setget, "bs_signed": o_bs_signed}, classify=classify_C11,
                search=search_C11,
                assumptions=["1 <= bitsPerValue <= bits of vbits <= bits of vbitsVal <= 64 (outside: undefined shifts "
                             "or more than two slots)", "value < 2^bitsPerValue (the header's assert)",
                             "signed helpers: sign + magnitude, |v| <= 2^(n-1)-1, called for negative values only"],
                trusted_base=["integer promotion of sub-int vbitsVal types is modelled as V-bit arithmetic "
                              "(truncation commutes with <<,>>,&,|,~); checked by the 8/8,16/16,32/32 instantiations"],
                configs_quick=["pinned", "O0", "native"]),
    "C10": dict(coq_props=["Properties_C10_bitdim"], files=FILES_C10, rule=RULE_C10, generate=generate_C10,
                oracles={"dim_pack": o_dim_pack, "dim_pair": o_dim_pair, "dim_cell": o_dim_cell},
                classify=classify_C10, search=search_C10,
                assumptions=["cols >= 1 (a zero column count makes PAIR_PAIR wrap and Encode reach "
                             "__builtin_unreachable)", "the matrix (header + rows*cols*width bytes) fits the buffer "
                             "and 2^64", "entry value < 2^(8*width)"],
                trusted_base=["float<->half conversion is the F16C instruction (not modelled; half cells compared as "
                              "16-bit patterns for non-NaN values)",
                              "varintDimensionPairDecode (static) and the half accessors are exercised through a private "
                              "second compilation of varintDimension.c (harness/c/drv_bitdim_priv.c)",
                              "varintExternalPutFixedWidth/Get modelled as little-endian byte strings"],
                configs_quick=["pinned", "O0", "native"]),
}
