"""oom — C18: a failed allocation is reported, never a crash, leak or silent corruption.

Coq: Properties_C18_oom (allocation-oracle monad `aprog`, interpreter `arun_plan`
for arbitrary failure plans, one allocation skeleton per allocating API mirroring
the C sources site by site; `*_alloc_safe` theorems for ALL plans).
C: the `oom` build (malloc/calloc/realloc/free wrapped at link time) and the
driver's --oom mode: every case runs once without faults (counting the
allocations n of the bracketed library call) and once per k = 1..n with the k-th
allocation failing.  harness/c/drv_oom.c classifies every outcome (ret / rt /
leak / obj); the model driver prints the skeleton's prediction for the same case
and plan; lines must be identical and the direct oracle below must hold on the
C line.
"""
import re
from vlib import *  # noqa

FILES = ["src/varintDict.c", "src/varintPFOR.c", "src/varintFloat.c", "src/varintAdaptive.c",
         "src/varintBitmap.c", "src/varintBitmap.h"]


# ---- bitmap set scripts (see drv_oom.c)
def ADD_RANGE(a, b):
    return (1 << 32) | (a << 16) | b


def REMOVE(v):
    return (1 << 33) | v


def REMOVE_RANGE(a, b):
    return (1 << 34) | (a << 16) | b


def STRIDE(step, a, b):
    return (step << 36) | (1 << 35) | (a << 16) | b


def RUN(start, length):
    return (1 << 60) | (start << 16) | length


ONE = 0x3FF0000000000000


def float_pool(rng):
    normals = [ONE, ONE + 5, 0x400921FB54442D18, 0xC05EDD2F1A9FBE77, 0x7FEFFFFFFFFFFFFF, 0x0010000000000000,
               0x3FB999999999999A, 0x41D0000000000000]
    specials = [0, 1 << 63, 0x7FF0000000000000, 0xFFF0000000000000, 0x7FF8000000000001, 1, 0x000FFFFFFFFFFFFF]
    return normals, specials


def gen_cases(rng, tier):
    big = tier != "quick"
    out = []
    a = out.append

    # ------------------------------------------------------------ dictionary
    a("oom_dict_create")
    smalls = [[7], [5, 3, 5, 9], list(range(16)), [rng.getrandbits(60) for _ in range(10)] * 3]
    larges = [list(range(17)), list(range(40)) * 2, [rng.getrandbits(64) for _ in range(300)],
              [rng.randrange(1000) for _ in range(2000)]]
    for v in smalls + larges:
        a("oom_dict_build L %s" % lst(v))
        for api in ("encode", "size", "stats", "ratio", "decode", "decode_into"):
            a("oom_dict_%s %s" % (api, lst(v)))
    # Build on a dictionary that already grew / did not grow
    a("oom_dict_build %s %s" % (lst(range(100)), lst(range(40))))
    a("oom_dict_build %s %s" % (lst(range(20)), lst(range(200))))
    a("oom_dict_build %s %s" % (lst(range(20)), lst(range(100, 120))))
    a("oom_dict_build %s %s" % (lst([1, 2, 3]), lst(range(17))))
    for _ in range(6 if not big else 40):
        p = [rng.randrange(60) for _ in range(rng.randrange(0, 80))]
        v = [rng.randrange(rng.choice([8, 30, 400])) for _ in range(rng.randrange(1, 120))]
        a("oom_dict_build %s %s" % (lst(p), lst(v)))
        a("oom_dict_encode %s" % lst(v))

    # ------------------------------------------------------------------ PFOR
    pf = [[5], [1, 2, 3, 4, 5, 6, 7, 8, 9, 10], list(range(100)) + [10 ** 12] * 3, [0, 255],
          [rng.randrange(1000) for _ in range(200)] + [rng.getrandbits(63) for _ in range(9)],
          [7] * 50, [0, 65535] + [3] * 30]
    for v in pf:
        for thr in (90, 95, 99):
            a("oom_pfor_threshold %s %d" % (lst(v), thr))
            a("oom_pfor_encode %s %d" % (lst(v), thr))
    for _ in range(6 if not big else 40):
        n = rng.randrange(1, 150)
        v = [rng.randrange(500) if rng.random() < 0.93 else rand_u64(rng) for _ in range(n)]
        a("oom_pfor_encode %s %d" % (lst(v), rng.choice([90, 95, 99])))

    # ----------------------------------------------------------------- float
    normals, specials = float_pool(rng)
    shapes = [normals, specials, normals[:3] + specials[:3], [normals[0]], [specials[2]],
              [rng.choice(normals + specials) for _ in range(40)]]
    for prec in range(4):
        for mode in range(3):
            for sh in (shapes if big else [shapes[(prec + mode) % len(shapes)], shapes[(prec * 3 + mode + 1) % len(shapes)], specials]):
                a("oom_float_encode %s %d %d" % (lst(sh), prec, mode))
                a("oom_float_decode %s %d %d" % (lst(sh), prec, mode))

    for errbits in (0x3E112E0BE826D695, 0x3F50624DD2F1A9FC, 0x3FA999999999999A, 0x3FD0000000000000):   # 1e-9 1e-3 0.05 0.25
        a("oom_float_encode_auto %s %d %d" % (lst(shapes[2]), errbits, errbits % 3))

    # -------------------------------------------------------------- adaptive
    uq = [[9], [1, 2], [4, 4], [1, 2, 2, 3], [1, 2, 4, 3], list(range(300)), [rng.randrange(20) for _ in range(200)],
          list(range(10001, 22002)), [5] * 10500]
    for v in uq:
        a("oom_adp_unique %s" % lst(v))
        a("oom_adp_analyze %s" % lst(v))
    asc = sorted(rng.sample(range(65536), 50))
    enc_inputs = {
        0: [list(range(1000, 1100)), [rng.getrandbits(40) for _ in range(30)], []],
        1: [[rng.randrange(1000, 1200) for _ in range(80)], []],
        2: [list(range(10, 60)) + [100000], [rng.randrange(100) for _ in range(64)], [3], []],
        3: [[1, 2, 3] * 30, list(range(40)) * 3, [rng.getrandbits(50) for _ in range(120)], [8], []],
        4: [asc, list(range(16)), list(range(17)), list(range(0, 50000, 10)), list(range(3, 4200)), [65535], []],
        5: [[rng.getrandbits(64) for _ in range(20)], []],
        6: [[1, 2, 3]],
    }
    for t, ins in enc_inputs.items():
        for v in ins:
            a("oom_adp_encode_with %s %d" % (lst(v), t))
            if t < 6 and v:
                a("oom_adp_decode %s %d" % (lst(v), t))
    return out


def adaptive_auto_inputs(rng, tier):
    """inputs for varintAdaptiveEncode aimed at each selection (the selection itself is probed on the C side)"""
    ins = [
        [5], [],
        [1, 2, 3] * 40,                                   # DICT
        [rng.randrange(12) for _ in range(300)],          # DICT
        list(range(100, 160)),                            # BITMAP (dense sorted small)
        sorted(rng.sample(range(3000), 600)),             # BITMAP with growth
        list(range(2 ** 40, 2 ** 40 + 90)),               # DELTA
        [10 ** 6 + rng.randrange(50) for _ in range(100)] + [10 ** 9],   # PFOR / FOR
        [rng.randrange(10 ** 6, 10 ** 6 + 3000) for _ in range(100)],    # FOR
        [rng.getrandbits(64) for _ in range(40)],         # TAGGED
        [rng.randrange(40) for _ in range(60)] + [10 ** 15],
        list(range(0, 9000, 2)),                          # BITMAP crossing 4096
    ]
    if tier != "quick":
        for _ in range(30):
            n = rng.randrange(2, 200)
            ins.append([rng.randrange(rng.choice([5, 300, 70000, 2 ** 50])) for _ in range(n)])
    return ins


def gen_bitmap(rng, tier):
    big = tier != "quick"
    out = []
    a = out.append
    a("oom_bm_create")
    S = {
        "empty": [],
        "arr3": [1, 2, 3],
        "arr16": list(range(100, 116)),
        "arr17": list(range(100, 117)),
        "arr32": [STRIDE(3, 0, 96)],
        "arr4095": [STRIDE(2, 0, 8190)],
        "arr4096": [STRIDE(2, 0, 8192)],
        "bits4097": [STRIDE(2, 0, 8194)],
        "bits5000": [STRIDE(1, 0, 5000)],
        "bits_sparse": [STRIDE(7, 3, 60000)],
        "runs5000": [ADD_RANGE(0, 5000)],
        "runs4097": [RUN(10, 4097)],
        "runs4096": [RUN(10, 4096)],
        "runs_small": [RUN(10, 100), RUN(500, 20)],
        "runs_then": [ADD_RANGE(100, 6000), 7],
        "shrunk": [STRIDE(1, 0, 4200), REMOVE_RANGE(0, 300)],
    }
    for name, s in S.items():
        a("oom_bm_clone %s" % lst(s))
        a("oom_bm_encode %s" % lst(s))
        a("oom_bm_decode %s" % lst(s))
        a("oom_bm_to_array %s" % lst(s))
    # Add: absent / present on every container shape, growth steps, the 4096 conversion
    for name, probes in [("empty", [5]), ("arr3", [2, 9]), ("arr16", [99, 105]), ("arr17", [5]), ("arr32", [1, 3]),
                         ("arr4095", [1]), ("arr4096", [1, 2]), ("bits4097", [1, 2]), ("runs5000", [17, 9999]),
                         ("runs4097", [9, 50]), ("runs_small", [50, 300]), ("runs4096", [5, 11]), ("shrunk", [5, 400])]:
        for v in probes:
            a("oom_bm_add %s %d" % (lst(S[name]), v))
            a("oom_bm_remove %s %d" % (lst(S[name]), v))
    a("oom_bm_remove %s 8192" % lst(S["bits4097"]))       # 4097 -> 4096: stays a bitmap
    a("oom_bm_remove %s 0" % lst(S["arr4096"] + [1]))     # bitmap 4097 -> 4096
    a("oom_bm_remove %s 0" % lst([STRIDE(2, 0, 8192), 1, REMOVE(1)]))
    # AddMany
    a("oom_bm_add_many %s %s" % (lst(S["arr3"]), lst(range(100, 140))))
    a("oom_bm_add_many %s %s" % (lst(S["arr3"]), lst([2, 3, 2, 50, 50, 1])))
    a("oom_bm_add_many %s %s" % (lst(S["arr4095"]), lst([1, 3, 5, 7])))
    a("oom_bm_add_many %s %s" % (lst(S["runs_small"]), lst([11, 12, 700, 701])))
    a("oom_bm_add_many %s %s" % (lst(S["runs5000"]), lst([11, 12, 7000])))
    a("oom_bm_add_many %s L" % lst(S["arr3"]))
    a("oom_bm_add_many L %s" % lst(rng.sample(range(65536), 300)))
    # AddRange
    a("oom_bm_add_range L7 100 6000")
    a("oom_bm_add_range L 100 6000")
    a("oom_bm_add_range L 100 4196")
    a("oom_bm_add_range L 100 4197")
    a("oom_bm_add_range L 100 200")
    a("oom_bm_add_range L 200 100")
    a("oom_bm_add_range %s 90 130" % lst(S["arr17"]))
    a("oom_bm_add_range %s 5 600" % lst(S["runs_small"]))
    a("oom_bm_add_range %s 4990 5100" % lst(S["runs5000"]))
    a("oom_bm_add_range %s 8000 9000" % lst(S["arr4095"]))
    a("oom_bm_add_range %s 0 5000" % lst([5, REMOVE(5)]))
    a("oom_bm_add_range %s 0 5000" % lst([STRIDE(1, 0, 4200), REMOVE_RANGE(0, 4200)]))
    # RemoveRange
    a("oom_bm_remove_range %s 10 2000" % lst(S["runs5000"]))
    a("oom_bm_remove_range %s 10 2000" % lst(S["bits5000"]))
    a("oom_bm_remove_range %s 0 40" % lst(S["bits4097"]))
    a("oom_bm_remove_range %s 5 60" % lst(S["runs_small"]))
    a("oom_bm_remove_range %s 5 60" % lst([RUN(10, 4100)]))
    a("oom_bm_remove_range %s 0 9" % lst(S["runs_small"]))
    a("oom_bm_remove_range %s 100 110" % lst(S["arr17"]))
    a("oom_bm_remove_range %s 0 100" % lst(S["empty"]))
    # set algebra
    pairs = [("arr3", "arr16"), ("arr16", "arr17"), ("arr32", "arr4095"), ("bits5000", "bits_sparse"),
             ("arr4096", "bits4097"), ("runs_small", "runs5000"), ("runs5000", "bits5000"), ("empty", "arr17"),
             ("arr17", "empty"), ("bits_sparse", "arr32")]
    pool = {"x": [STRIDE(2, 0, 200)], "y": [STRIDE(3, 0, 300)], "z": [STRIDE(1, 0, 5000)], "w": [STRIDE(3, 0, 30000)]}
    for op in ("and", "or", "xor", "andnot"):
        a("oom_bm_%s %s %s" % (op, lst(pool["x"]), lst(pool["y"])))
        a("oom_bm_%s %s %s" % (op, lst(pool["z"]), lst(pool["w"])))
        for (p, q) in (pairs if big else pairs[:7]):
            a("oom_bm_%s %s %s" % (op, lst(S[p]), lst(S[q])))
    for _ in range(4 if not big else 40):
        s1 = [STRIDE(rng.randrange(1, 9), rng.randrange(100), rng.randrange(200, 30000))] + rng.sample(range(65536), 5)
        s2 = [STRIDE(rng.randrange(1, 9), rng.randrange(100), rng.randrange(200, 30000))] + rng.sample(range(65536), 5)
        a("oom_bm_%s %s %s" % (rng.choice(["and", "or", "xor", "andnot"]), lst(s1), lst(s2)))
        a("oom_bm_add_many %s %s" % (lst(s1), lst(rng.sample(range(65536), 40))))
        lo = rng.randrange(60000)
        a("oom_bm_add_range %s %d %d" % (lst(s1), lo, lo + rng.randrange(1, 600)))
        a("oom_bm_remove_range %s %d %d" % (lst(s2), lo % 200, lo % 200 + rng.randrange(1, 600)))
    return out


APIS = ["oom_dict_create", "oom_dict_build", "oom_dict_encode", "oom_dict_size", "oom_dict_stats", "oom_dict_ratio",
        "oom_float_encode_auto", "oom_dict_decode",
        "oom_dict_decode_into", "oom_pfor_threshold", "oom_pfor_encode", "oom_float_encode", "oom_float_decode",
        "oom_adp_unique", "oom_adp_analyze", "oom_adp_encode_with", "oom_adp_encode", "oom_adp_decode",
        "oom_bm_create", "oom_bm_clone", "oom_bm_add", "oom_bm_remove", "oom_bm_add_many", "oom_bm_add_range",
        "oom_bm_remove_range", "oom_bm_and", "oom_bm_or", "oom_bm_xor", "oom_bm_andnot", "oom_bm_encode",
        "oom_bm_decode", "oom_bm_to_array"]
OBJ_APIS = {"oom_dict_build", "oom_bm_clone", "oom_bm_add", "oom_bm_remove", "oom_bm_add_many", "oom_bm_add_range",
            "oom_bm_remove_range", "oom_bm_and", "oom_bm_or", "oom_bm_xor", "oom_bm_andnot", "oom_bm_encode",
            "oom_bm_to_array"}


def make_oracle(api):
    def o(args, c):
        """the statement of C18 on one C output line"""
        plan = args[-1] if args and args[-1].startswith("@oom=") else "no failure"
        if "fault" in c:
            return "crash (%s) with allocation plan %s" % (c["fault"], plan)
        if c.get("facts", "ok") != "ok":
            return "harness facts about the input do not hold (selection probe stale)"
        if c.get("ret") not in ("ok", "fail"):
            return "no classified outcome on the line"
        if c.get("ret") == "ok" and c.get("rt") != "ok":
            return "success reported but the result is wrong/incomplete (plan %s)" % plan
        if c.get("leak") != "0":
            return "%s block(s) leaked (plan %s)" % (c.get("leak"), plan)
        if api in OBJ_APIS and c.get("obj") != "ok":
            return "object inconsistent or unusable after the call (plan %s)" % plan
        return None
    return o


ORACLES = {api: make_oracle(api) for api in APIS}


def custom(ctx):
    rng = ctx.rng
    b = ctx.build("oom")
    cases = gen_cases(rng, ctx.tier) + gen_bitmap(rng, ctx.tier)
    failures = []
    # facts for varintAdaptiveEncode: selected encoding with / without the analysis allocation
    auto = adaptive_auto_inputs(rng, ctx.tier)
    probes = ["oom_adp_probe %s" % lst(v) for v in auto]
    rc, pout, perr = ctx.run_c(b, probes)
    for v, line in zip(auto, pout):
        kv = parse_out(line)[1]
        if "sel" in kv and "self" in kv:
            cases.append("oom_adp_encode %s %s %s" % (lst(v), kv["sel"], kv["self"]))
        else:
            failures.append(("oom", "oom_adp_probe %s" % lst(v), "selection probe gave no answer: %s" % line[-200:], line))
    seen = set()
    cases = [c for c in cases if not (c in seen or seen.add(c))]
    # corpus of past failures
    corpus = os.path.join(VERIF, "harness", "corpus", "C18.txt")
    if os.path.exists(corpus):
        for line in open(corpus):
            line = line.strip()
            if line and not line.startswith("#") and line not in seen:
                seen.add(line)
                cases.insert(0, line)

    rc, cout, cerr = ctx.run_c(b, cases, args=["--oom"])
    info = {"cases": len(cases), "runs": len(cout)}
    if rc != 0 or not cout:
        failures.append(("oom", cases[0], "the --oom run of the driver died (rc=%s): %s" % (rc, cerr[-300:]), ""))
        info.update(evaluations=0, failures=failures)
        return info
    expanded = [parse_out(line)[0] for line in cout]
    # every case must appear (base line) followed by its @oom=k lines
    base = [e for e in expanded if not e.split(" ")[-1].startswith("@oom=")]
    if base != cases:
        failures.append(("oom", cases[min(len(base), len(cases) - 1)], "driver output does not follow the case list", ""))
    rcm, mout, merr = ctx.run_model(expanded)
    if rcm != 0 or len(mout) != len(expanded):
        raise RuntimeError("model driver failed on the oom cases rc=%s lines=%d/%d: %s" % (rcm, len(mout), len(expanded), merr[-1000:]))
    per_api, div, plans, sites = {}, 0, 0, {}
    flagged = set()
    for case, co, mo in zip(expanded, cout, mout):
        api, _, rest = case.partition(" ")
        args = rest.split()
        kv = parse_out(co)[1]
        per_api[api] = per_api.get(api, 0) + 1
        is_plan = bool(args) and args[-1].startswith("@oom=")
        plans += is_plan
        if not is_plan:
            sites[kv.get("nalloc", "?")] = sites.get(kv.get("nalloc", "?"), 0) + 1
        msg = ORACLES[api](args, kv) if api in ORACLES else "unknown api"
        if msg:
            failures.append(("oom", case, msg, co))
            flagged.add(case)
        if co != mo:
            div += 1
            if case not in flagged and div <= 20:
                failures.append(("oom", case, "allocation skeleton and code disagree: model predicts `%s`, C gives `%s`"
                                 % (mo.partition(" ->")[2].strip(), co.partition(" ->")[2].strip()), co))
    # thorough: the same fault plans under AddressSanitizer + UBSan (invalid/double free,
    # use after free, overflow on a recovery path); lines must equal the plain oom run
    if ctx.tier == "thorough":
        try:
            ba, d = build_c_driver("oom", "-O1 -fsanitize=address,undefined -fno-omit-frame-pointer")
            ctx.check.tmpdirs.append(d)
            rca, aout, aerr = ctx.run_c(ba, cases, args=["--oom"], env={
                "ASAN_OPTIONS": "detect_leaks=0:abort_on_error=1:handle_segv=0:handle_abort=0:allocator_may_return_null=1",
                "UBSAN_OPTIONS": "print_stacktrace=0:halt_on_error=0"})
            nbad = 0
            if len(aout) != len(cout):
                failures.append(("oom+asan", cases[0], "sanitised --oom run produced %d lines, plain run %d (rc=%s) %s"
                                 % (len(aout), len(cout), rca, aerr[-300:]), ""))
            for ca, co in zip(aout, cout):
                if ca != co:
                    nbad += 1
                    if nbad <= 5:
                        failures.append(("oom+asan", parse_out(co)[0], "under AddressSanitizer the call behaves differently: `%s` %s"
                                         % (ca.partition(" ->")[2].strip(), re.findall(r"ERROR: AddressSanitizer: [^\n]*", aerr)[:2]), ca))
            info["asan_lines_differing"] = nbad
            info["asan_reports"] = len(re.findall(r"ERROR: AddressSanitizer", aerr))
            info["ubsan_reports"] = sorted(set(re.findall(r"runtime error: [^\n]*", aerr)))[:5]
        except RuntimeError as e:
            info["asan"] = "sanitised oom build failed: %s" % str(e)[-200:]
    info["per_api"] = per_api
    info["fault_plans_run"] = plans
    info["allocations_per_call_histogram"] = sites
    info["divergences"] = div
    info["distinct_nontrivial"] = sum(1 for c, co in zip(expanded, cout) if parse_out(co)[1].get("nalloc", "0") != "0")
    info["sample"] = next((co for co in cout if "@oom=2" in co), cout[0])
    info["evaluations"] = len(cout) + len(probes)
    info["failures"] = failures
    return info


PARTS = {
    "C18": dict(coq_props=["Properties_C18_oom", "Properties_C18_sites"], files=FILES, custom=custom, oracles=ORACLES,
                configs_quick=["oom"], configs_thorough=["oom"],
                rule="fault enumeration on the C side + proof on the skeleton side: every allocating API of "
                     "dict/PFOR/float/adaptive/bitmap is run on several input shapes per allocation site (small/large "
                     "dictionaries, with/without exceptions, normal/special floats, every adaptive encoding, bitmap "
                     "containers around 16/32/.../4096 members, ranges above 4096, run containers); each case once "
                     "without faults and once per k with the k-th allocation of the call failing; the C line "
                     "(nalloc/ret/rt/leak/obj) must equal the line predicted by the Coq allocation skeleton and satisfy "
                     "the statement of C18 directly; thorough tier repeats all plans under ASan+UBSan; "
                     "non-trivial = runs in which the call allocates",
                assumptions=[
                    "C side: single-failure plans only (k-th allocation fails), enumerated for the generated inputs; "
                    "the Coq theorems cover every plan (any subset of allocations failing) of the skeletons",
                    "the skeletons abstract the data path: OkCorrect at a leaf means 'no requested element was dropped "
                    "and every obtained block is released or owned by the caller'; that the data path itself is right "
                    "is C02/C06/C07/C08, and is re-checked on the C side by decoding/comparing every successful result",
                    "consistency of long-lived objects after a failure is observed on the C side (members between "
                    "before and target, cardinality, retry completes), not proved",
                    "varintAdaptiveCountUnique/Analyze document their result as approximate: the out-of-memory "
                    "fallback `count` is classified as the failure indication unless it is the exact answer; "
                    "varintPFORComputeThreshold's failure indication is zeroed metadata (count 0 for non-empty input)",
                    "allocations made inside libc (qsort's scratch buffer) are not intercepted by --wrap",
                    "inputs with more than 10000 values for CountUnique are all-distinct or all-equal (the sampled "
                    "estimate is not modelled)",
                ],
                trusted_base=["GNU ld --wrap interposition of malloc/calloc/realloc/free; harness/c/core.c allocation counter"]),
}
