"""bp128 — varintBP128.{c,h}: contributions to C02 (lossless), C03 (size bound),
C13 (decoder capacity), C16 (metadata / GetCount)."""
from vlib import *  # noqa

FILES = ["src/varintBP128.c", "src/varintBP128.h"]
U32 = (1 << 32) - 1

# ------------------------------------------------------------------ arrays


def _lengths(tier):
    ls = [1, 2, 3, 126, 127, 128, 129, 130, 255, 256, 257, 258, 384, 385, 1000]
    if tier == "thorough":
        ls += [240, 241, 2287, 2288, 4095, 4096, 4097, 65535, 65536, 65537]
    return ls


def _vals(rng, n, w, pattern):
    """n values of at most w bits"""
    top = (1 << w) - 1 if w else 0
    if pattern == "zero" or w == 0:
        return [0] * n
    if pattern == "ones":
        return [top] * n
    if pattern == "edge":       # exactly w bits everywhere: 2^(w-1) or 2^w-1
        return [rng.choice((1 << (w - 1), top)) for _ in range(n)]
    if pattern == "onebig":     # one w-bit value among tiny ones, position random
        v = [rng.randint(0, 1) for _ in range(n)]
        v[rng.randrange(n)] = top if rng.random() < 0.5 else (1 << (w - 1))
        return v
    if pattern == "lastbig":    # the wide value is the last one (tail of a partial block)
        v = [rng.randint(0, 3) for _ in range(n)]
        v[-1] = top
        return v
    if pattern == "blockwise":  # a different width in every block
        v = []
        while len(v) < n:
            ww = rng.randint(0, w)
            v += [rng.getrandbits(ww) if ww else 0 for _ in range(min(128, n - len(v)))]
        return v
    return [rng.getrandbits(w) for _ in range(n)]


PATTERNS = ["rand", "zero", "ones", "edge", "onebig", "lastbig", "blockwise"]


def _sorted_from(rng, n, first, gapw, limit):
    """non-decreasing, starts at `first`, gaps of at most gapw bits, equal neighbours common, stays <= limit"""
    v = [first]
    for _ in range(n - 1):
        r = rng.random()
        g = 0 if r < 0.25 else (rng.getrandbits(gapw) if gapw else 0)
        if r > 0.97 and gapw:
            g = (1 << gapw) - 1
        nxt = v[-1] + g
        v.append(nxt if nxt <= limit else v[-1])
    return v


def _arrays32(rng, tier, few=False):
    lens = _lengths(tier)
    widths = list(range(0, 33))
    for n in lens:
        ws = widths if n <= 130 else rng.sample(widths, 6) + [0, 1, 31, 32]
        if few:
            ws = rng.sample(widths, 3) + [32]
        if n > 5000:
            ws = [rng.choice(widths), 32]
        for w in ws:
            pats = PATTERNS if (n <= 130 and not few) else [rng.choice(PATTERNS)]
            for p in pats:
                yield _vals(rng, n, w, p)


def _arrays64(rng, tier, few=False):
    lens = _lengths(tier)
    widths = list(range(0, 65))
    for n in lens:
        ws = widths if n <= 129 else rng.sample(widths, 6) + [0, 1, 33, 63, 64]
        if few:
            ws = rng.sample(widths, 3) + [64]
        if n > 5000:
            ws = [rng.choice(widths), 64]
        for w in ws:
            pats = rng.sample(PATTERNS, 3) if (n <= 129 and not few) else [rng.choice(PATTERNS)]
            for p in pats:
                yield _vals(rng, n, w, p)


def _tagged_firsts(limit):
    """first values on both sides of every tagged length boundary"""
    s = []
    for b in (0, 240, 241, 2287, 2288, 67823, 67824, (1 << 24) - 1, 1 << 24, (1 << 32) - 1, 1 << 32,
              (1 << 40) - 1, 1 << 40, (1 << 48) - 1, 1 << 48, (1 << 56) - 1, 1 << 56, (1 << 63), U64 - 1, U64):
        if b <= limit:
            s.append(b)
    return s


def _sorted32(rng, tier, few=False):
    lens = _lengths(tier)
    for n in lens:
        gws = list(range(0, 33)) if n <= 130 and not few else rng.sample(range(0, 33), 3) + [0]
        for gw in gws:
            first = rng.choice(_tagged_firsts(U32)) if rng.random() < 0.7 else rng.getrandbits(32)
            # a gap of gw bits must fit below 2^32 at least once
            if gw == 32:
                first = 0
            elif first + (1 << gw) > U32:
                first = rng.randint(0, U32 - (1 << gw))
            yield _sorted_from(rng, n, first, gw, U32)


def _sorted64(rng, tier, few=False):
    lens = _lengths(tier)
    for n in lens:
        gws = list(range(0, 65)) if n <= 129 and not few else rng.sample(range(0, 65), 3) + [0, 64]
        for gw in gws:
            first = rng.choice(_tagged_firsts(U64)) if rng.random() < 0.7 else rand_u64(rng)
            if gw == 64:
                first = 0
            elif first + (1 << gw) > U64:
                first = rng.randint(0, U64 - (1 << gw))
            yield _sorted_from(rng, n, first, gw, U64)


def _f06_worst():
    """the worst cases of the size bound: 9-byte first value / widest blocks"""
    yield "bp64 " + lst([U64])
    yield "bpd64 " + lst([1 << 56, (1 << 56) + (1 << 63)])
    for n in (1, 2, 127, 128, 129, 255, 256, 257):
        yield "bp64 " + lst([U64] * n)
        yield "bp32 " + lst([U32] * n)
        # sorted, 9-byte first value, then 64-bit wide deltas are impossible for all, so one wide delta per block
        v = [1 << 56] * n
        if n >= 2:
            v[1:] = [(1 << 56) + (1 << 63)] * (n - 1)
        yield "bpd64 " + lst(v)
        # unsorted: every delta 64 bits wide (wraps); the bound must still hold (C03 is for all inputs)
        yield "bpd64 " + lst([U64 if i % 2 == 0 else 0 for i in range(n)])
        yield "bpd32 " + lst([U32 if i % 2 == 0 else 0 for i in range(n)])
        yield "bpd32 " + lst([1 << 24] + [U32] * (n - 1))


def _literal_arrays(rng):
    """arrays built from the integer literals of the sources"""
    lits = scraped_literals(FILES)
    l32 = [v for v in lits if v <= U32]
    for n in (1, 5, 128, 129):
        yield "bp64 " + lst([rng.choice(lits) for _ in range(n)])
        yield "bp32 " + lst([rng.choice(l32) for _ in range(n)])
        yield "bpd64 " + lst(sorted(rng.choice(lits) for _ in range(n)))
        yield "bpd32 " + lst(sorted(rng.choice(l32) for _ in range(n)))
    for v in lits:
        yield "bp_bits %d" % v
        if v < (1 << 40):
            yield "bp_maxbytes %d" % v


# ------------------------------------------------------------------ raw (non-encoder) streams


def _tagged(x):
    """python transcription of the tagged format, for building streams only"""
    if x <= 240:
        return [x]
    if x <= 2287:
        y = x - 240
        return [y // 256 + 241, y % 256]
    if x <= 67823:
        y = x - 2288
        return [249, y // 256, y % 256]
    k = max(3, (x.bit_length() + 7) // 8)
    return [247 + k] + list(x.to_bytes(k, "big"))


def _raw_stream(rng, maxw, partial_ends):
    """blocks with arbitrary (non-minimal) widths <= maxw, partial blocks with any count byte (0..255),
    partial blocks possibly in the middle; every announced payload is present, followed by zero padding"""
    out = []
    avail = 0
    nblocks = rng.randint(0, 4)
    for _ in range(nblocks):
        w = rng.choice([0, 1, rng.randint(0, maxw), maxw])
        if rng.random() < 0.4:
            cnt = rng.choice([0, 1, 127, 128, 200, 255, rng.randint(0, 255)])
            out += [0x80 | w, cnt] + [rng.getrandbits(8) for _ in range((cnt * w + 7) // 8)]
            avail += cnt
            if partial_ends:
                break
        else:
            out += [w] + [rng.getrandbits(8) for _ in range(16 * w)]
            avail += 128
    cap = rng.choice([0, 1, avail, avail + 1, avail + 128, rng.randint(0, avail + 300)])
    out += [0] * (cap // 128 + 3)
    return out, cap


def _raw_cases(rng, n):
    for _ in range(n):
        s, cap = _raw_stream(rng, 32, True)
        yield "bp_raw32 %s %d" % (hexs(s), cap)
        s, cap = _raw_stream(rng, 32, True)
        first = rng.choice([0, 240, 241, 70000, U32, U32 + 1, U64, rand_u64(rng)])
        yield "bp_rawd32 %s %d" % (hexs(_tagged(first) + s), cap + 1)
        s, cap = _raw_stream(rng, 64, False)
        cnt = rng.choice([0, 1, cap, cap + 1, max(cap - 1, 0), rand_u64(rng)])
        yield "bp_raw64 %s %d" % (hexs(_tagged(cnt) + s), cap)
        s, cap = _raw_stream(rng, 64, True)
        yield "bp_rawd64 %s %d" % (hexs(_tagged(rand_u64(rng)) + s), cap + 1)


# ------------------------------------------------------------------ generators


def generate_C02(rng, tier):
    few = tier == "quick"
    yield from _f06_worst()
    yield from _literal_arrays(rng)
    for v in _arrays32(rng, tier):
        yield "bp32 " + lst(v)
    for v in _arrays64(rng, tier):
        yield "bp64 " + lst(v)
    for v in _sorted32(rng, tier):
        yield "bpd32 " + lst(v)
    for v in _sorted64(rng, tier):
        yield "bpd64 " + lst(v)
    # unsorted input to the delta forms (outside the property: correspondence only)
    for v in _arrays32(rng, "quick", few=True):
        yield "bpd32 " + lst(v)
    for v in _arrays64(rng, "quick", few=True):
        yield "bpd64 " + lst(v)
    # single blocks
    for w in range(0, 33):
        for p in PATTERNS[:6]:
            yield "bp_blk32 " + lst(_vals(rng, 128, w, p))
        prev = rng.choice([0, 1, U32, rng.getrandbits(32)])
        yield "bp_dblk32 %d %s" % (prev, lst(_vals(rng, 128, w, "rand")))
        first = rng.randint(0, U32 >> 1)
        yield "bp_dblk32 %d %s" % (first, lst(_sorted_from(rng, 128, first, min(w, 24), U32)))
    yield from _raw_cases(rng, 150 if few else 3000)


def _enc_only(line):
    """rt line `bp64 L..` -> encode-only line `bp64_cap L..` (no capacity argument: nothing is decoded, so a
    fault can only come from the encoder)"""
    t = line.split(" ")
    return t[0] + "_cap " + t[1] if t[0] in RT_APIS else line


def generate_C03(rng, tier):
    for line in _generate_C03(rng, tier):
        yield line
        if line.split(" ")[0] in RT_APIS:
            yield _enc_only(line)


def _generate_C03(rng, tier):
    few = tier == "quick"
    yield from _f06_worst()
    yield from _literal_arrays(rng)
    for n in list(range(0, 400)) + [1000, 4095, 4096, 4097, 65535, 65536, 65537, 1 << 20, (1 << 32) + 129]:
        yield "bp_maxbytes %d" % n
    yield "bp32 L"
    yield "bpd32 L"
    yield "bp64 L"
    yield "bpd64 L"
    # widest values in every position class
    for v in _arrays32(rng, tier, few=few):
        yield "bp32 " + lst(v)
        if rng.random() < 0.5:
            yield "bpd32 " + lst(v)
    for v in _arrays64(rng, tier, few=few):
        yield "bp64 " + lst(v)
        if rng.random() < 0.5:
            yield "bpd64 " + lst(v)
    for v in _sorted32(rng, tier, few=few):
        yield "bpd32 " + lst(v)
    for v in _sorted64(rng, tier, few=few):
        yield "bpd64 " + lst(v)
    for w in (0, 1, 31, 32):
        yield "bp_blk32 " + lst(_vals(rng, 128, w, "ones"))
        yield "bp_dblk32 %d %s" % (U32, lst(_vals(rng, 128, w, "edge")))
    if tier == "thorough":
        # counts whose tagged form needs 3 and 4 bytes
        for n in (67823, 67824, 70000):
            yield "bp64 " + lst([U64] * n)


def _caps(rng, n, all_small):
    s = {0, 1, 2, 126, 127, 128, 129, 130, 255, 256, 257, 258, n - 129, n - 128, n - 127, n - 2, n - 1, n}
    s = {c for c in s if 0 <= c <= n}
    if all_small and n <= 140:
        s |= set(range(0, n + 1))
    else:
        s |= {rng.randint(0, n) for _ in range(4)}
    return sorted(s)


def generate_C13(rng, tier):
    few = tier == "quick"
    lens = [1, 2, 3, 127, 128, 129, 130, 256, 257, 300] + ([1000, 4097] if not few else [])
    for n in lens:
        for rep in range(2 if few else 6):
            w32, w64 = rng.randint(0, 32), rng.randint(0, 64)
            a32 = _vals(rng, n, w32, rng.choice(PATTERNS))
            a64 = _vals(rng, n, w64, rng.choice(PATTERNS))
            s32 = _sorted_from(rng, n, rng.choice([0, 241, 70000, 1 << 24]), rng.randint(0, 20), U32)
            s64 = _sorted_from(rng, n, rng.choice([0, 241, 1 << 40, 1 << 56]), rng.randint(0, 50), U64)
            for cap in _caps(rng, n, rep == 0):
                yield "bp32_cap %s %d" % (lst(a32), cap)
                yield "bp64_cap %s %d" % (lst(a64), cap)
                yield "bpd32_cap %s %d" % (lst(s32), cap)
                yield "bpd64_cap %s %d" % (lst(s64), cap)
    yield from _raw_cases(rng, 100 if few else 3000)


def generate_C16(rng, tier):
    few = tier == "quick"
    yield from _f06_worst()
    for v in _arrays32(rng, tier, few=few):
        yield "bp32 " + lst(v)
    for v in _arrays64(rng, tier, few=few):
        yield "bp64 " + lst(v)
    for v in _sorted32(rng, tier, few=few):
        yield "bpd32 " + lst(v)
    for v in _sorted64(rng, tier, few=few):
        yield "bpd64 " + lst(v)
    # every length 1..300 once per codec: blockCount / lastBlockSize at each residue
    for n in range(1, 300 if few else 700):
        w = rng.randint(0, 32)
        yield "bp32 " + lst(_vals(rng, n, w, "rand"))
        yield "bp64 " + lst(_vals(rng, n, 2 * w, "rand"))
        yield "bpd32 " + lst(_sorted_from(rng, n, rng.getrandbits(20), rng.randint(0, 20), U32))
        yield "bpd64 " + lst(_sorted_from(rng, n, rng.getrandbits(40), rng.randint(0, 50), U64))
    yield "bp32 L"
    yield "bpd32 L"
    yield "bp64 L"
    yield "bpd64 L"


# ------------------------------------------------------------------ direct oracles


def _L(s):
    return [int(x) for x in s[1:].split(",")] if len(s) > 1 else []


def _nondecreasing(v):
    return all(v[i] <= v[i + 1] for i in range(len(v) - 1))


def _is_delta(api):
    return api.startswith("bpd")


def _mk_rt(api):
    def o(args, c):
        """C02: decoding the encoder's bytes (only those: guard page) with the original count yields the input"""
        if "fault" in c:
            return "fault=" + c["fault"] + " (encoder overflow or decoder read past the encoder's bytes)"
        v = _L(args[0])
        if not v:
            return None
        if _is_delta(api) and not _nondecreasing(v):
            return None  # outside the property (delta forms: non-decreasing input)
        if "dn" not in c:
            return "no decode (encoder returned more than its bound?)"
        if int(c["dn"]) != len(v):
            return "decoded %s values, expected %d" % (c["dn"], len(v))
        if c["dec"] != "ok":
            return "decoded values differ from the input"
        return None
    return o


def o_blk(args, c):
    if "fault" in c:
        return "fault=" + c["fault"]
    if "skip" in c:
        return None
    if c["dec"] != "ok":
        return "block decode differs from the input"
    if c["used"] != c["n"]:
        return "block decoder consumed %s bytes, encoder wrote %s" % (c["used"], c["n"])
    return None


def _bound_py(count):
    return 9 + (count // 128) * 1025 + ((2 + (count % 128) * 8) if count % 128 else 0)


def _mk_bound(api):
    def o(args, c):
        """C03: writes only inside the first MaxBytes(count) bytes, returned length <= bound"""
        if "fault" in c:
            # only the encode-only form attributes a crash to the encoder
            return ("fault=" + c["fault"] + " in the encoder") if (api in CAP_APIS and len(args) == 1) else None
        if int(c["n"]) > int(c["bound"]):
            return "encoder returned %s > varintBP128MaxBytes = %s" % (c["n"], c["bound"])
        if c["guard"] != "ok":
            return "write outside the %s advertised bytes (guard=%s)" % (c["bound"], c["guard"])
        return None
    return o


def o_blk_bound(args, c):
    if "fault" in c:
        return "fault=" + c["fault"]
    if "skip" in c:
        return None
    if int(c["n"]) > 1025 or c["guard"] != "ok":
        return "block encoder exceeded VARINT_BP128_MAX_BLOCK_BYTES (n=%s guard=%s)" % (c["n"], c["guard"])
    return None


def _mk_cap(api):
    def o(args, c):
        """C13: at most cap elements modified; a correct prefix (or 0) is returned"""
        if "fault" in c:
            return "fault=" + c["fault"]
        v = _L(args[0])
        if len(args) < 2 or not v or "dn" not in c:
            return None
        cap = int(args[1])
        dn = int(c["dn"])
        if dn > cap:
            return "decoder returned %d > capacity %d" % (dn, cap)
        if c["oguard"] != "ok" or c["oframe"] != "ok":
            return "decoder wrote beyond what it reported / beyond capacity %d (frame=%s guard=%s)" % (
                cap, c["oframe"], c["oguard"])
        if _is_delta(api) and not _nondecreasing(v):
            return None
        if c["dec"] != "ok":
            return "returned %d values that are not a prefix of the encoded array" % dn
        return None
    return o


def o_raw(args, c):
    """C13 on arbitrary streams: only the capacity part (the stream is not an encoder output)"""
    if "fault" in c:
        return None  # an over-read on a non-encoder stream is not a C13 matter (the correspondence reports it)
    cap = int(args[1])
    if int(c["dn"]) > cap or c["oguard"] != "ok" or c["oframe"] != "ok":
        return "decoder exceeded capacity %d (dn=%s frame=%s guard=%s)" % (cap, c["dn"], c["oframe"], c["oguard"])
    return None


def _mk_meta(api):
    def o(args, c):
        """C16: meta fields and GetCount equal the real quantities"""
        if "fault" in c:
            return "fault=" + c["fault"]
        v = _L(args[0])
        n = len(v)
        got = {k: int(c[k]) for k in ("mcount", "mblocks", "mbytes", "mlast", "mwidth")}
        if n == 0:
            if any(got.values()) or int(c["n"]) != 0:
                return "empty input: meta not zeroed / bytes written: %r" % (got,)
            return None
        if got["mcount"] != n:
            return "meta.count %d != %d" % (got["mcount"], n)
        if got["mbytes"] != int(c["n"]):
            return "meta.encodedBytes %d != bytes written %s" % (got["mbytes"], c["n"])
        if _is_delta(api):
            packed = n - 1
            if api == "bpd32":
                seq = [(v[i] - v[i - 1]) & U32 for i in range(1, n)]
            else:
                seq = [(v[i] - v[i - 1]) & U64 for i in range(1, n)]
        else:
            packed, seq = n, v
        blocks = (packed + 127) // 128
        if got["mblocks"] != blocks:
            return "meta.blockCount %d != %d blocks in the stream" % (got["mblocks"], blocks)
        if blocks > 0 and got["mlast"] != packed - 128 * (blocks - 1):
            return "meta.lastBlockSize %d != %d" % (got["mlast"], packed - 128 * (blocks - 1))
        width = max(seq).bit_length() if seq else 0
        if got["mwidth"] != width:
            return "meta.maxBitWidth %d != %d" % (got["mwidth"], width)
        if "dn" in c and int(c["dn"]) != got["mcount"] and (not _is_delta(api) or _nondecreasing(v)):
            return "meta.count %d but decoding yields %s elements" % (got["mcount"], c["dn"])
        if api == "bp64" and int(c.get("getcount", -1)) != n:
            # varintBP128GetCount is documented for the Encode64 layout only
            return "varintBP128GetCount %s != %d" % (c.get("getcount"), n)
        return None
    return o


RT_APIS = ("bp32", "bpd32", "bp64", "bpd64")
CAP_APIS = ("bp32_cap", "bpd32_cap", "bp64_cap", "bpd64_cap")
RAW_APIS = ("bp_raw32", "bp_rawd32", "bp_raw64", "bp_rawd64")

ORACLES_C02 = {a: _mk_rt(a) for a in RT_APIS}
ORACLES_C02.update({"bp_blk32": o_blk, "bp_dblk32": o_blk})
ORACLES_C03 = {a: _mk_bound(a) for a in RT_APIS + CAP_APIS}
ORACLES_C03.update({"bp_blk32": o_blk_bound, "bp_dblk32": o_blk_bound})
ORACLES_C13 = {a: _mk_cap(a) for a in CAP_APIS}
ORACLES_C13.update({a: o_raw for a in RAW_APIS})
ORACLES_C16 = {a: _mk_meta(a) for a in RT_APIS}


# ------------------------------------------------------------------ classification


def classify(case, m):
    t = case.split(" ")
    api = t[0]
    if api in RT_APIS or api in CAP_APIS:
        n = t[1].count(",") + 1 if len(t[1]) > 1 else 0
        if n == 0:
            return "trivial"
        k = "n<128" if n < 128 else "n=128k" if n % 128 == 0 else "n=128k+1" if n % 128 == 1 else "n>128"
        w = m.get("mwidth")
        if api in CAP_APIS and len(t) < 3:
            return "%s/%s/enc-only" % (api, k)
        if api in CAP_APIS:
            cap = int(t[2])
            return "%s/%s/%s" % (api, k, "cap=n" if cap == n else "cap=0" if cap == 0 else
                                 "cap%128=0" if cap % 128 == 0 else "cap<n")
        wc = "w?" if w is None else "w0" if w == "0" else "wmax" if w in ("32", "64") and (
            (w == "32") == (api in ("bp32", "bpd32"))) else "w>32" if int(w) > 32 else "w<=32"
        return "%s/%s/%s" % (api, k, wc)
    if api in ("bp_blk32", "bp_dblk32"):
        n = m.get("n", "?")
        return api + ("/w0" if n == "1" else "/w32" if n == "513" else "/w1-31")
    if api in RAW_APIS:
        return api
    if api == "bp_maxbytes":
        return "maxbytes" if int(t[1]) > 0 else "trivial"
    if api == "bp_bits":
        return "bits"
    return None


def search(rng, divergent_cases):
    """neighbourhood of divergent cases (shorter prefixes, cap +-1) + a fresh batch of every generator"""
    for c in divergent_cases[:20]:
        t = c.split()
        if t[0] in RT_APIS or t[0] in CAP_APIS:
            v = _L(t[1])
            for k in (1, 2, 127, 128, 129, len(v) - 1):
                if 0 < k < len(v):
                    yield " ".join([t[0], lst(v[:k])] + t[2:])
            if t[0] in CAP_APIS and len(t) > 2:
                for d in (-1, 1):
                    if 0 <= int(t[2]) + d <= len(v):
                        yield "%s %s %d" % (t[0], t[1], int(t[2]) + d)
    r2 = random.Random(rng.getrandbits(32))
    yield from generate_C02(r2, "quick")
    yield from generate_C03(r2, "quick")
    yield from generate_C13(r2, "quick")
    yield from generate_C16(r2, "quick")


ASSUME = ["element counts are < 2^61 (the arrays exist in a 64-bit address space), so no size_t index/size "
          "computation in varintBP128.c wraps; the model computes them in unbounded N",
          "the 32-bit block API is called with pointers to 128 values, as its header documents",
          "NEON code paths are not buildable on this host and are outside the model; the AVX2 max of "
          "varintBP128MaxBitWidth32 is exercised by the `native` configuration in the thorough tier"]
CFG_T = ["pinned", "O0", "asan", "native"]

PARTS = {
    "C02": dict(coq_props=["Properties_C02_bp128"], files=FILES, generate=generate_C02, oracles=ORACLES_C02,
                classify=classify, search=search, assumptions=ASSUME,
                rule="bp128: arrays of every width 0..32 / 0..64 (all-zero, all-ones, exact-width, one wide value in a "
                     "block of small ones, wide value last, per-block widths) at lengths 1..3, 126..130, 255..258, 384/385, "
                     "1000 (thorough: 240/241, 2287/2288, 4095..4097, 65535..65537); delta forms on non-decreasing arrays with "
                     "equal neighbours and first values on both sides of every tagged length (9-byte first value), plus "
                     "unsorted arrays (correspondence only); single 128-value blocks of every width; literal-scraped values; "
                     "decoders on non-encoder streams (non-minimal widths, partial blocks with any count byte). "
                     "non-trivial = at least one element",
                configs_quick=["pinned", "O0", "native"], configs_thorough=CFG_T),
    "C03": dict(coq_props=["Properties_C03_bp128"], files=FILES, generate=generate_C03,
                oracles=ORACLES_C03,
                classify=classify, search=search, assumptions=ASSUME,
                rule="bp128: destination of exactly varintBP128MaxBytes(count) bytes inside canaries; worst cases: "
                     "UINT64_MAX/UINT32_MAX blocks, 9-byte first value followed by 64-bit deltas (sorted and wrapping), "
                     "every width x length class, count 0, the bound itself for counts 0..399 and large counts",
                configs_quick=["pinned", "O0", "native"], configs_thorough=CFG_T),
    "C13": dict(coq_props=["Properties_C13_bp128"], files=FILES, generate=generate_C13, oracles=ORACLES_C13,
                classify=classify, search=search, assumptions=ASSUME,
                rule="bp128: valid encodings of lengths 1..3, 127..130, 256, 257, 300 decoded with every capacity 0..count "
                     "(all capacities for the short ones, block boundaries +-1 and random ones otherwise) into an output "
                     "array of exactly `cap` elements inside canaries; arbitrary block streams with capacities around the "
                     "announced counts",
                configs_quick=["pinned", "O0", "native"], configs_thorough=CFG_T),
    # Properties_C16_bp128_hdr_src: varintBP128GetCount regenerated from the current source (gen/c2coq_hdr.py ->
    # coq/gen/Src_hdr_bp128.v), proved equal to the hand model in HdrSrcBP128.v
    "C16": dict(coq_props=["Properties_C16_bp128", "Properties_C16_bp128_src", "Properties_C16_bp128_hdr_src"], files=FILES, generate=generate_C16,
                oracles=ORACLES_C16, classify=classify, search=search, assumptions=ASSUME,
                trusted_base=["gen/c2coq.py + CSem.v for the *_src theorems (C-to-Gallina translator, clang 14 typed AST "
                              "-> coq/gen/Src_leaf_bp128.v via gen/c2coq_leaf.py: varintBP128BitsNeeded32/64 regenerated "
                              "from the current source on every run; subset and assumptions in the translator's "
                              "docstring); the renderings are tied to the compiled C by the translator, not by proof"],
                rule="bp128: meta (count, blockCount, encodedBytes, lastBlockSize, maxBitWidth) of the four encoders and "
                     "varintBP128GetCount (Encode64 layout) for every length 1..299 and the C02 array families; the meta "
                     "struct is pre-filled with 0xEE so an unwritten field shows",
                configs_quick=["pinned", "O0", "native"], configs_thorough=CFG_T),
}
