"""C05 — tagged varints sort bytewise in numeric order."""
from vlib import *  # noqa

FILES = ["src/varintTagged.c", "src/varintTagged.h"]
RULE = ("pairs (a,b) and short tuples: both sides of every tagged length boundary, values from every integer "
        "literal in varintTagged.{c,h} (+-2), pairs differing in exactly one payload byte, random bit-lengths; "
        "non-trivial = the two encodings share their first byte or differ in length (the comparison is decided "
        "past byte 0 or across a length boundary)")


def _pool(rng):
    vals = set(boundary_values()) | set(scraped_literals(FILES))
    return sorted(vals)


def generate(rng, tier):
    n_rand = 3000 if tier == "quick" else 60000
    pool = _pool(rng)
    # adjacent pairs at every boundary
    for v in pool:
        if v + 1 <= U64:
            yield "tagged_cmp %d %d" % (v, v + 1)
            yield "tagged_cmp %d %d" % (v + 1, v)
        yield "tagged_cmp %d %d" % (v, v)
    # pool x pool sample
    for _ in range(n_rand):
        a, b = rng.choice(pool), rng.choice(pool)
        yield "tagged_cmp %d %d" % (a, b)
    # pairs differing in one payload byte
    for _ in range(n_rand):
        a = rand_u64(rng)
        k = rng.randint(0, 7)
        b = a ^ (rng.randint(1, 255) << (8 * k))
        yield "tagged_cmp %d %d" % (a, b & U64)
    for _ in range(n_rand):
        yield "tagged_cmp %d %d" % (rand_u64(rng), rand_u64(rng))
    # tuples
    for _ in range(n_rand // 2):
        n = rng.randint(0, 4)
        xs = [rng.choice(pool) if rng.random() < 0.6 else rand_u64(rng) for _ in range(n)]
        ys = list(xs)
        r = rng.random()
        if r < 0.3 and ys:
            i = rng.randrange(len(ys))
            ys[i] = rng.choice(pool)
        elif r < 0.5:
            ys = ys[:rng.randint(0, len(ys))]
        elif r < 0.7:
            ys = ys + [rng.choice(pool)]
        elif r < 0.9 and ys:
            i = rng.randrange(len(ys))
            ys[i] = (ys[i] + rng.choice([-1, 1])) & U64
        yield "tagged_tuple_cmp %s %s" % (lst(xs), lst(ys))


def _sgn(a, b):
    return (a > b) - (a < b)


def o_cmp(args, c):
    a, b = int(args[0]), int(args[1])
    if "fault" in c:
        return "fault=" + c["fault"]
    if int(c["cmp"]) != _sgn(a, b):
        return "memcmp sign %s but numeric order %d" % (c["cmp"], _sgn(a, b))
    if a == b and c["ea"] != c["eb"]:
        return "equal values, different bytes"
    return None


def o_tuple(args, c):
    xs = [int(x) for x in args[0][1:].split(",")] if len(args[0]) > 1 else []
    ys = [int(x) for x in args[1][1:].split(",")] if len(args[1]) > 1 else []
    if "fault" in c:
        return "fault=" + c["fault"]
    if int(c["cmp"]) != _sgn(xs, ys):
        return "memcmp sign %s of concatenated keys but tuple order %d" % (c["cmp"], _sgn(xs, ys))
    return None


ORACLES_C05 = {"tagged_cmp": o_cmp, "tagged_tuple_cmp": o_tuple}


def classify(case, m):
    api = case.split(" ", 1)[0]
    if api == "tagged_cmp":
        ea, eb = m.get("ea", ""), m.get("eb", "")
        if ea[:3] == eb[:3] or len(ea) != len(eb):
            return "len%d-vs-len%d" % ((len(ea) - 1) // 2, (len(eb) - 1) // 2)
        return "trivial"
    return "tuple"


def search(rng, divergent_cases):
    """neighbourhood of divergent cases + fresh batch"""
    for c in divergent_cases:
        t = c.split()
        if t[0] == "tagged_cmp":
            a, b = int(t[1]), int(t[2])
            for da in range(-3, 4):
                for db in range(-3, 4):
                    if 0 <= a + da <= U64 and 0 <= b + db <= U64:
                        yield "tagged_cmp %d %d" % (a + da, b + db)
    r2 = random.Random(rng.getrandbits(32))
    yield from generate(r2, "thorough")


PARTS = {
    "C05": dict(coq_props=["Properties_C05"], files=FILES, rule=RULE, generate=generate,
                oracles=ORACLES_C05, classify=classify, search=search,
                assumptions=["memcmp over min(len) then length, as C callers compare keys"],
                configs_quick=["pinned", "O0"]),
}
