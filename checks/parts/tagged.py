"""C05 — tagged varints sort bytewise in numeric order."""
from vlib import *  # noqa

FILES = ["src/varintTagged.c", "src/varintTagged.h"]
RULE = ("pairs (a,b) and short tuples: both sides of every tagged length boundary, values from every integer "
        "literal in varintTagged.{c,h} (+-2), pairs differing in exactly one payload byte, random bit-lengths; "
        "non-trivial = the two encodings share their first byte or differ in length (the comparison is decided "
        "past byte 0 or across a length boundary)")


def _pool(rng):
    vals = set(boundary_values()) | set(scraped_literals(FILES))
    return sorted(vals)


def generate(rng, tier):
    n_rand = 3000 if tier == "quick" else 60000
    pool = _pool(rng)
    # adjacent pairs at every boundary
    for v in pool:
        if v + 1 <= U64:
            yield "tagged_cmp %d %d" % (v, v + 1)
            yield "tagged_cmp %d %d" % (v + 1, v)
        yield "tagged_cmp %d %d" % (v, v)
    # pool x pool sample
    for _ in range(n_rand):
        a, b = rng.choice(pool), rng.choice(pool)
        yield "tagged_cmp %d %d" % (a, b)
    # pairs differing in one payload byte
    for _ in range(n_rand):
        a = rand_u64(rng)
        k = rng.randint(0, 7)
        b = a ^ (rng.randint(1, 255) << (8 * k))
        yield "tagged_cmp %d %d" % (a, b & U64)
    for _ in range(n_rand):
        yield "tagged_cmp %d %d" % (rand_u64(rng), rand_u64(rng))
    # tuples
    for _ in range(n_rand // 2):
        n = rng.randint(0, 4)
        xs = [rng.choice(pool) if rng.random() < 0.6 else rand_u64(rng) for _ in range(n)]
        ys = list(xs)
        r = rng.random()
        if r < 0.3 and ys:
            i = rng.randrange(len(ys))
            ys[i] = rng.choice(pool)
        elif r < 0.5:
            ys = ys[:rng.randint(0, len(ys))]
        elif r < 0.7:
            ys = ys + [rng.choice(pool)]
        elif r < 0.9 and ys:
            i = rng.randrange(len(ys))
            ys[i] = (ys[i] + rng.choice([-1, 1])) & U64
        yield "tagged_tuple_cmp %s %s" % (lst(xs), lst(ys))
    # the key of one value as written by every writer of the family (32-bit writer, fixed-width
    # writer and Quick macro at the natural width, in-place add from another stored value)
    # against Put64 keys of neighbours: a, b near each other on both sides of every boundary;
    # a0 (the value the slot held before the add) of every other width
    def near(v):
        return min(U64, max(0, v + rng.choice([-2, -1, 0, 0, 1, 2])))
    for _ in range(n_rand):
        a = rng.choice(pool) if rng.random() < 0.7 else rng.getrandbits(rng.randint(1, 64))
        a = near(a)
        b = near(a) if rng.random() < 0.6 else rng.choice(pool)
        a0 = rng.choice(pool) if rng.random() < 0.8 else rng.getrandbits(rng.randint(1, 63))
        yield "tagged_keys %d %d %d" % (a, a0, b)
    for k in list(range(8, 65, 8)) + [23, 24, 31, 32, 33]:
        for a in ((1 << k) - 1, 1 << (k - 1), (1 << (k - 1)) + 1):
            for a0 in (0, 100, 70000, 1 << 24, 1 << 40, (1 << 63) - 1):
                yield "tagged_keys %d %d %d" % (a & U64, a0, (a + 1) & U64)


def _sgn(a, b):
    return (a > b) - (a < b)


def o_cmp(args, c):
    a, b = int(args[0]), int(args[1])
    if "fault" in c:
        return "fault=" + c["fault"]
    if int(c["cmp"]) != _sgn(a, b):
        return "memcmp sign %s but numeric order %d" % (c["cmp"], _sgn(a, b))
    if a == b and c["ea"] != c["eb"]:
        return "equal values, different bytes"
    return None


def o_tuple(args, c):
    xs = [int(x) for x in args[0][1:].split(",")] if len(args[0]) > 1 else []
    ys = [int(x) for x in args[1][1:].split(",")] if len(args[1]) > 1 else []
    if "fault" in c:
        return "fault=" + c["fault"]
    if int(c["cmp"]) != _sgn(xs, ys):
        return "memcmp sign %s of concatenated keys but tuple order %d" % (c["cmp"], _sgn(xs, ys))
    if c.get("rev") != "same":
        return "the key's bytes depend on the order in which its fields are written (a field's encoder wrote outside its own bytes)"
    return None


def o_keys(args, c):
    a, b = int(args[0]), int(args[2])
    if "fault" in c:
        return "fault=" + c["fault"]
    want = _sgn(a, b)
    ref = " ".join("%02x" % x for x in ref_put(a))
    for w in ("64", "32", "fix", "q", "add"):
        if "k" + w not in c:
            continue
        if int(c["c" + w]) != want:
            return "key of %d written by writer '%s' (%s) compares %s with the Put64 key of %d, numeric order %d" % (a, w, c["k" + w], c["c" + w], b, want)
        if _hexnorm(c["k" + w]) != _hexnorm(ref):
            return "writer '%s' wrote %s for %d, Put64's canonical key is %s: equal values, different bytes" % (w, c["k" + w], a, ref)
    return None


def _hexnorm(h):
    return h.replace(" ", "").replace("x", "").lower()


ORACLES_C05 = {"tagged_cmp": o_cmp, "tagged_tuple_cmp": o_tuple, "tagged_keys": o_keys}


def classify(case, m):
    api = case.split(" ", 1)[0]
    if api == "tagged_cmp":
        ea, eb = m.get("ea", ""), m.get("eb", "")
        if ea[:3] == eb[:3] or len(ea) != len(eb):
            return "len%d-vs-len%d" % ((len(ea) - 1) // 2, (len(eb) - 1) // 2)
        return "trivial"
    if api == "tagged_keys":
        return "writers-len%d" % ((len(_hexnorm(m.get("k64", ""))) // 2))
    return "tuple"


def search(rng, divergent_cases):
    """neighbourhood of divergent cases + fresh batch"""
    for c in divergent_cases:
        t = c.split()
        if t[0] == "tagged_cmp":
            a, b = int(t[1]), int(t[2])
            for da in range(-3, 4):
                for db in range(-3, 4):
                    if 0 <= a + da <= U64 and 0 <= b + db <= U64:
                        yield "tagged_cmp %d %d" % (a + da, b + db)
    r2 = random.Random(rng.getrandbits(32))
    yield from generate(r2, "thorough")



# ---------------------------------------------------------------- reference (independent of the model)

def ref_put(x):
    if x <= 240:
        return [x]
    if x <= 2287:
        return [241 + (x - 240) // 256, (x - 240) % 256]
    if x <= 67823:
        return [249, (x - 2288) // 256, (x - 2288) % 256]
    k = max(3, (x.bit_length() + 7) // 8)
    return [247 + k] + list(x.to_bytes(k, "big"))


def ref_len_first(a0):
    return 1 if a0 <= 240 else 2 if a0 <= 248 else a0 - 246


def ref_get(bs):
    """(width, value) of a complete tagged varint at bs[0:], or (0, None) when bs is too short"""
    if not bs:
        return 0, None
    n = ref_len_first(bs[0])
    if len(bs) < n:
        return 0, None
    a = bs
    if n == 1:
        return 1, a[0]
    if n == 2:
        return 2, 240 + 256 * (a[0] - 241) + a[1]
    if n == 3:
        return 3, 2288 + 256 * a[1] + a[2]
    return n, int.from_bytes(bytes(a[1:n]), "big")


def _both(a, b):
    yield from a
    yield from b


def _values(rng, n_rand):
    vals = list(_pool(rng))
    for _ in range(n_rand):
        vals.append(rand_u64(rng))
    return vals


# ---------------------------------------------------------------- C01 / C04

def generate_rt(rng, tier):
    n = 2500 if tier == "quick" else 60000
    for v in _values(rng, n):
        yield "tagged_rt %d %d" % (v, rng.randint(0, 15))
    pool = _pool(rng)
    for v in pool:
        for w in range(0, 11):
            yield "tagged_fixed %d %d %d" % (v, w, rng.randint(0, 15))
    for _ in range(n):
        yield "tagged_fixed %d %d %d" % (rand_u64(rng), rng.randint(1, 9), rng.randint(0, 15))


def _legal_fixed(x, w):
    return (w == 1 and x <= 240) or (w == 2 and 240 <= x <= 2287) or (w == 3 and 2288 <= x <= 67823) or \
        (4 <= w <= 9 and x < 256 ** (w - 1))


def o_rt(args, c):
    x = int(args[0])
    if "fault" in c:
        return "fault=" + c["fault"]
    w = int(c["w"])
    if not 1 <= w <= 9:
        return "encoder returned width %d outside 1..9" % w
    for k in ("getw", "get64w", "len", "lenq", "getlen", "getlenq"):
        if int(c[k]) != w:
            return "%s=%s differs from encoder's byte count %d" % (k, c[k], w)
    for k in ("getv", "get64v", "getrv", "getq"):
        if int(c[k]) != x:
            return "%s=%s, value was %d" % (k, c[k], x)
    if c["frame"] != "ok" or c["guard"] != "ok":
        return "encoder modified bytes outside its %d bytes (frame=%s guard=%s)" % (w, c["frame"], c["guard"])
    if x <= 0xFFFFFFFF:
        if c["put32"] != c["put"] or int(c["w32"]) != w or c["frame32"] != "ok":
            return "32-bit encoder disagrees: %s vs %s" % (c["put32"], c["put"])
        if int(c["get32w"]) != w or int(c["get32v"]) != x:
            return "32-bit decoder returned (%s,%s)" % (c["get32w"], c["get32v"])
    return None


def o_rt_c04(args, c):
    x = int(args[0])
    if "fault" in c:
        return "fault=" + c["fault"]
    if c["put"] != hexs(ref_put(x)):
        return "bytes %s differ from the documented format %s" % (c["put"], hexs(ref_put(x)))
    if x <= 0xFFFFFFFF and c.get("put32") != hexs(ref_put(x)):
        return "32-bit writer's bytes %s differ from the documented format %s" % (c.get("put32"), hexs(ref_put(x)))
    return None


def o_fixed(args, c):
    x, w = int(args[0]), int(args[1])
    if "fault" in c:
        return "fault=" + c["fault"]
    if c.get("guard") != "ok" or c.get("guardq") != "ok":
        return "write outside the buffer"
    if not _legal_fixed(x, w):
        return None
    if int(c["w"]) != w:
        return "fixed-width writer returned %s for legal width %d" % (c["w"], w)
    if c["frame"] != "ok" or c["frameq"] != "ok":
        return "fixed-width writer modified bytes beyond width %d" % w
    if c["putq"] != c["put"]:
        return "quick macro bytes %s differ from function bytes %s" % (c["putq"], c["put"])
    if int(c["getw"]) != w or int(c["getv"]) != x:
        return "decode of fixed-width bytes gave (%s,%s), expected (%d,%d)" % (c["getw"], c["getv"], w, x)
    return None


def classify_rt(case, m):
    t = case.split()
    if t[0] == "tagged_rt":
        return "rt-len%s" % m.get("w")
    if t[0] == "tagged_fixed":
        return "fixed-w%s-%s" % (t[2], "legal" if _legal_fixed(int(t[1]), int(t[2])) else "illegal")
    return None


def search_rt(rng, divergent):
    for c in divergent:
        t = c.split()
        if t[0] in ("tagged_rt", "tagged_fixed"):
            x = int(t[1])
            for d in range(-4, 5):
                if 0 <= x + d <= U64:
                    yield " ".join([t[0], str(x + d)] + t[2:])
    yield from generate_rt(random.Random(rng.getrandbits(32)), "thorough")


def generate_c04(rng, tier):
    n = 2500 if tier == "quick" else 60000
    pool = _pool(rng)
    for v in pool:
        yield "tagged_rt %d 0" % v
    for _ in range(n):
        yield "tagged_rt %d 0" % rand_u64(rng)


def o_len_mono_pairs(args, c):
    return None


# ---------------------------------------------------------------- exact-size destinations (all scalar put functions)

def _ext_need(x):
    return max(1, (x.bit_length() + 7) // 8)


def _chained_need(x):
    return 9 if x >= (1 << 56) else max(1, (x.bit_length() + 6) // 7)


def generate_frame(rng, tier):
    """every scalar encoder writing into a destination of exactly the bytes it needs,
    flush against an inaccessible page (drv_frame.c)"""
    n = 600 if tier == "quick" else 20000
    vals = list(_pool(rng)) + [rand_u64(rng) for _ in range(n)]
    for x in vals:
        yield "frame_put tagged %d %d" % (x, len(ref_put(x)))
        yield "frame_put ext %d %d" % (x, _ext_need(x))
        yield "frame_put extbe %d %d" % (x, _ext_need(x))
        yield "frame_put chained %d %d" % (x, _chained_need(x))
        yield "frame_put csimple %d %d" % (x, _chained_need(x))
        for w in range(_ext_need(x), 9):
            if w == _ext_need(x) or rng.random() < 0.3:
                yield "frame_put ext_fixed %d %d" % (x, w)
                yield "frame_put extbe_fixed %d %d" % (x, w)
        for w in range(1, 10):
            if _legal_fixed(x, w) and (w == len(ref_put(x)) or rng.random() < 0.3):
                yield "frame_put tagged_fixed %d %d" % (x, w)


def o_frame(args, c):
    fam, x, w = args[0], int(args[1]), int(args[2])
    if "fault" in c:
        return "%s encoder accessed memory beyond the %d bytes of its encoding (fault=%s)" % (fam, w, c["fault"])
    if int(c["w"]) != w:
        return "%s encoder reported %s bytes for a value/width that needs %d" % (fam, c["w"], w)
    return None


def classify_frame(case, m):
    t = case.split()
    if t[0] == "frame_put":
        return "frame-%s-w%s" % (t[1], t[3])
    return None


# ---------------------------------------------------------------- C12

def _to_s64(v):
    return v - (1 << 64) if v >= (1 << 63) else v


def generate_add(rng, tier):
    n = 3000 if tier == "quick" else 50000
    pool = _pool(rng)
    edges = [0, 1, -1, 2, -2, 240, -240, 241, 2287, 2288, -2288, 67823, 67824, (1 << 63) - 1, -(1 << 63),
             (1 << 62), -(1 << 62), 255, 256, -256, 65535, 65536, (1 << 32), -(1 << 32)]

    def one(v, add, force):
        bs = ref_put(v)
        return "tagged_add %s %d %d" % (hexs(bs), add, force)
    for v in pool:
        for add in (1, -1, 2, -2):
            yield one(v, add, 0)
            yield one(v, add, 1)
    for _ in range(n):
        v = rng.choice(pool) if rng.random() < 0.5 else rand_u64(rng)
        r = rng.random()
        if r < 0.35:
            add = rng.choice(edges)
        elif r < 0.6:
            # land near a boundary
            t = rng.choice(pool)
            add = t - _to_s64(v)
        elif r < 0.8:
            add = (1 << 63) - 1 - _to_s64(v) + rng.randint(-2, 2)   # around the positive overflow edge
        else:
            add = _to_s64(rand_u64(rng))
        add = max(-(1 << 63), min((1 << 63) - 1, add))
        yield one(v, add, rng.randint(0, 1))


def o_add(args, c):
    bs = list(bytes.fromhex(args[0][1:]))
    add, force = int(args[1]), int(args[2])
    if "fault" in c:
        return "fault=" + c["fault"]
    cur, old = ref_get(bs)
    s = _to_s64(old) + add
    w = int(c["w"])
    buf = list(bytes.fromhex(c["buf"][1:]))
    if c["guard"] != "ok":
        return "write outside the buffer"
    if not -(1 << 63) <= s <= (1 << 63) - 1:
        if w != 0:
            return "signed overflow but returned width %d" % w
        if buf[:cur] != bs[:cur] or c["frame"] != "ok":
            return "signed overflow but bytes changed"
        return None
    nv = s & U64
    enc = ref_put(nv)
    if w != len(enc):
        return "returned width %d, the sum %d needs %d" % (w, nv, len(enc))
    if not force and len(enc) > cur:
        if buf[:cur] != bs[:cur] or c["frame"] != "ok":
            return "no-grow add modified the buffer although the sum needs %d > %d bytes" % (len(enc), cur)
        return None
    if buf[:len(enc)] != enc:
        return "stored bytes %s are not the encoding of old+amount = %d" % (c["buf"], nv)
    if c["frame"] != "ok":
        return "bytes beyond max(old,new) width modified"
    if len(enc) < cur and buf[len(enc):cur] != bs[len(enc):cur]:
        return "bytes beyond the new width were modified"
    return None


def classify_add(case, m):
    t = case.split()
    if t[0] != "tagged_add":
        return None
    bs = list(bytes.fromhex(t[1][1:]))
    cur, old = ref_get(bs)
    s = _to_s64(old) + int(t[2])
    if not -(1 << 63) <= s <= (1 << 63) - 1:
        return "overflow"
    n = len(ref_put(s & U64))
    return "%s-%s" % ("grow" if t[3] == "1" else "nogrow", "wider" if n > cur else "narrower" if n < cur else "same")


# ---------------------------------------------------------------- C14

def generate_getn(rng, tier):
    n = 3000 if tier == "quick" else 50000
    pool = _pool(rng)
    # every truncation of valid encodings
    for v in pool:
        bs = ref_put(v)
        for k in range(0, len(bs) + 1):
            yield "tagged_getn %s %d" % (hexs(bs[:k]), k)
    for a0 in range(236, 256):
        for k in range(0, 11):
            bs = [a0] + [rng.randint(0, 255) for _ in range(9)]
            yield "tagged_getn %s %d" % (hexs(bs[:k]), k)
    for _ in range(n):
        L = rng.randint(0, 12)
        bs = [rng.choice([rng.randint(0, 255), rng.randint(240, 255)])] + [rng.randint(0, 255) for _ in range(L)]
        k = rng.randint(-1, len(bs))
        yield "tagged_getn %s %d" % (hexs(bs[:max(k, 0)]), k)


def o_getn(args, c):
    bs = list(bytes.fromhex(args[0][1:]))
    n = int(args[1])
    if "fault" in c:
        return "read at or beyond the declared size (fault=%s)" % c["fault"]
    give = bs[:max(0, min(n, len(bs)))]
    w, v = ref_get(give)
    if int(c["w"]) != w:
        return "returned width %s, expected %d for %d available bytes" % (c["w"], w, len(give))
    if w and int(c["v"]) != v:
        return "value %s, expected %d" % (c["v"], v)
    return None


def classify_getn(case, m):
    t = case.split()
    if t[0] != "tagged_getn":
        return None
    return "short" if m.get("w") == "0" else "complete-len%s" % m.get("w")


# ---------------------------------------------------------------- the regenerated functions (gen/c2coq.py)
# src_tagged_* cases run the REAL C on one side and, on the model side, the Gallina functions that
# gen/c2coq.py regenerated from the current src/varintTagged.c (coq/gen/Src_tagged.v): this validates the
# translator itself (a test, not a proof).  Only admissible inputs (the buffers the C needs) are generated;
# destinations are exact-size and printed whole.  The oracles below state the property on the C output.

SRC_TRUSTED = ["gen/c2coq.py (C-to-Gallina translator: clang 14 typed AST -> coq/gen/Src_tagged.v; supported subset and "
               "assumptions in its docstring) and coq/theories/CSem.v (meaning of the c_* operations, LP64, two's "
               "complement, gcc's implementation-defined choices); validated per run only by executing the generated "
               "functions against the C (src_tagged_* cases)"]
SRC_ASSUME = ["Properties_*_src.v are about src_<f>, the rendering of the CURRENT source text regenerated on every run; "
              "that rendering is tied to the compiled C by the translator + CSem.v (trusted), not by proof; byte lists "
              "stand for the objects the pointer arguments point to (a buffer shorter than the C needs is outside the "
              "theorems' hypotheses)"]


def _rbuf(rng, n):
    return [rng.randint(0, 255) for _ in range(n)]


def _fixed_bytes(x, w):
    if w == 1:
        return [x]
    if w == 2:
        return [241 + (x - 240) // 256, (x - 240) % 256]
    if w == 3:
        return [249, (x - 2288) // 256, (x - 2288) % 256]
    return [246 + w] + list(x.to_bytes(w - 1, "big"))


def generate_src_put(rng, tier):
    n = 400 if tier == "quick" else 20000
    pool = _pool(rng)
    vals = pool + [rand_u64(rng) for _ in range(n)]
    for x in vals:
        need = len(ref_put(x))
        L = need if rng.random() < 0.5 else rng.randint(need, 12)
        yield "src_tagged_put %d %s" % (x, hexs(_rbuf(rng, L)))
        yield "src_tagged_len %d" % x
        yield "src_tagged_lenq %d" % x
        if x <= 0xFFFFFFFF and rng.random() < 0.5:
            yield "src_tagged_put32 %d %s" % (x, hexs(_rbuf(rng, rng.randint(need, 10))))
    for x in rng.sample(pool, min(len(pool), 150 if tier == "quick" else len(pool))) + [rand_u64(rng) for _ in range(n // 4)]:
        for w in range(0, 11):
            L = w if (1 <= w <= 9 and rng.random() < 0.5) else rng.randint(9, 12)
            yield "src_tagged_fixed %d %d %s" % (x, w, hexs(_rbuf(rng, L)))
            yield "src_tagged_fixedq %d %d %s" % (x, w, hexs(_rbuf(rng, L)))


def generate_src_get(rng, tier):
    n = 600 if tier == "quick" else 20000
    pool = _pool(rng)
    for v in pool:
        bs = ref_put(v)
        init = rand_u64(rng)
        yield "src_tagged_getlen %s" % hexs(bs[:1] + _rbuf(rng, rng.randint(0, 2)))
        # every truncation, n = what is there (the C is told the truth)
        for k in range(0, len(bs) + 1):
            yield "src_tagged_get %s %d %d" % (hexs(bs[:k]), k, init)
        # complete varint in an exact-size buffer, any n (the reader must not go beyond the varint)
        yield "src_tagged_get %s %d %d" % (hexs(bs), rng.choice([len(bs), 9, 10, 2147483647, -1, 0, -2147483648]), init)
        yield "src_tagged_get64 %s %d" % (hexs(bs), init)
        yield "src_tagged_get32 %s %d" % (hexs(bs), init & 0xFFFFFFFF)
        yield "src_tagged_getrv %s" % hexs(bs)
        yield "src_tagged_getq %s" % hexs(bs)
        yield "src_tagged_getlenq %s" % hexs(bs[:1])
    for _ in range(n):
        a0 = rng.choice([rng.randint(0, 255), rng.randint(238, 255)])
        need = ref_len_first(a0)
        bs = [a0] + _rbuf(rng, need - 1 + rng.randint(0, 3))
        k = rng.randint(0, len(bs))
        yield "src_tagged_get %s %d %d" % (hexs(bs[:k]), rng.choice([k, k, rng.randint(-2, k)]), rand_u64(rng))
        yield "src_tagged_get64 %s %d" % (hexs(bs), rand_u64(rng))


def generate_src_add(rng, tier):
    n = 400 if tier == "quick" else 10000
    pool = _pool(rng)
    for _ in range(n):
        v = rng.choice(pool) if rng.random() < 0.6 else rand_u64(rng)
        add = rng.choice([1, -1, 240, -240, 2288, -2288, 65536, (1 << 32), -(1 << 32), (1 << 63) - 1, -(1 << 63)]) \
            if rng.random() < 0.5 else (rng.choice(pool) - _to_s64(v))
        add = max(-(1 << 63), min((1 << 63) - 1, add))
        bs = ref_put(v)
        yield "src_tagged_add %s %d %d" % (hexs(bs + _rbuf(rng, 9 - len(bs) + rng.randint(0, 2))), add, rng.randint(0, 1))


def _src_out(c):
    if "fault" in c:
        return None, "fault=%s (access outside the exact-size buffer)" % c["fault"]
    if c.get("buf") in ("lo", "hi"):
        return None, "write outside the destination (%s)" % c["buf"]
    return (list(bytes.fromhex(c["buf"][1:])) if "buf" in c else None), None


def o_src_put(args, c):
    x, buf = int(args[0]), list(bytes.fromhex(args[1][1:]))
    out, err = _src_out(c)
    if err:
        return err
    enc = ref_put(x)
    if int(c["ret"]) != len(enc) or out[:len(enc)] != enc:
        return "wrote %s (returned %s), the documented encoding of %d is %s" % (c["buf"], c["ret"], x, hexs(enc))
    if out[len(enc):] != buf[len(enc):]:
        return "bytes beyond the %d bytes of the encoding were modified" % len(enc)
    return None


def o_src_fixed(args, c):
    x, w, buf = int(args[0]), int(args[1]), list(bytes.fromhex(args[2][1:]))
    out, err = _src_out(c)
    if err:
        return err
    if not _legal_fixed(x, w):
        return None
    enc = _fixed_bytes(x, w)
    if int(c["ret"]) != w or out[:w] != enc:
        return "fixed-width writer wrote %s (returned %s), expected %s" % (c["buf"], c["ret"], hexs(enc))
    if out[w:] != buf[w:]:
        return "bytes beyond width %d were modified" % w
    return None


def o_src_fixedq(args, c):
    x, w, buf = int(args[0]), int(args[1]), list(bytes.fromhex(args[2][1:]))
    out, err = _src_out(c)
    if err:
        return err
    if not _legal_fixed(x, w):
        return None
    if out[:w] != _fixed_bytes(x, w) or out[w:] != buf[w:]:
        return "fixed-width macro wrote %s, expected %s then the old bytes" % (c["buf"], hexs(_fixed_bytes(x, w)))
    return None


def o_src_len(args, c):
    x = int(args[0])
    return None if int(c.get("ret", -1)) == len(ref_put(x)) else "length %s, the encoding of %d has %d bytes" % (c.get("ret"), x, len(ref_put(x)))


def o_src_getlen(args, c):
    bs = list(bytes.fromhex(args[0][1:]))
    if "fault" in c:
        return "fault=" + c["fault"]
    return None if int(c["ret"]) == ref_len_first(bs[0]) else "length %s read from first byte %d" % (c["ret"], bs[0])


def _o_src_get(bs, n, init, c, mask=U64):
    if "fault" in c:
        return "read at or beyond the declared size (fault=%s)" % c["fault"]
    w, v = ref_get(bs[:max(0, min(n, len(bs)))])
    if int(c["ret"]) != w:
        return "returned width %s, expected %d" % (c["ret"], w)
    want = (v & mask) if w else init
    if "v" in c and int(c["v"]) != want:
        return "stored value %s, expected %d" % (c["v"], want)
    return None


def o_src_get(args, c):
    return _o_src_get(list(bytes.fromhex(args[0][1:])), int(args[1]), int(args[2]), c)


def o_src_get64(args, c):
    return _o_src_get(list(bytes.fromhex(args[0][1:])), 9, int(args[1]), c)


def o_src_get32(args, c):
    bs = list(bytes.fromhex(args[0][1:]))
    w, v = ref_get(bs[:9])
    # varintTaggedGetVarint32 stores (uint32_t)iRes unconditionally (iRes = 0 when nothing was decoded)
    return _o_src_get(bs, 9, 0, c, 0xFFFFFFFF)


def o_src_getrv(args, c):
    bs = list(bytes.fromhex(args[0][1:]))
    if "fault" in c:
        return "fault=" + c["fault"]
    w, v = ref_get(bs[:9])
    return None if int(c["ret"]) == (v if w else 0) else "returned %s, expected %s" % (c["ret"], v if w else 0)


def o_src_none(args, c):
    return ("fault=" + c["fault"]) if "fault" in c else None


SRC_ORACLES_PUT = {"src_tagged_put": o_src_put, "src_tagged_put32": o_src_put, "src_tagged_fixed": o_src_fixed,
                   "src_tagged_len": o_src_len, "src_tagged_lenq": o_src_len, "src_tagged_fixedq": o_src_fixedq}
SRC_ORACLES_GET = {"src_tagged_getlen": o_src_getlen, "src_tagged_get": o_src_get, "src_tagged_get64": o_src_get64,
                   "src_tagged_get32": o_src_get32, "src_tagged_getrv": o_src_getrv, "src_tagged_getq": o_src_getrv,
                   "src_tagged_getlenq": o_src_getlen}


def classify_src(case, m):
    api = case.split(" ", 1)[0]
    return ("src-%s-ret%s" % (api[11:], m.get("ret"))) if api.startswith("src_tagged_") else None


def search_src(rng, divergent):
    yield from generate_src_put(random.Random(rng.getrandbits(32)), "thorough")


def _chain(*gens):
    def g(rng, tier):
        for f in gens:
            yield from f(random.Random(rng.getrandbits(48)), tier)
    return g


def _first(*fs):
    def f(case, m):
        for h in fs:
            r = h(case, m)
            if r is not None:
                return r
        return None
    return f


def _searches(*fs):
    def f(rng, divergent):
        for h in fs:
            yield from h(random.Random(rng.getrandbits(48)), divergent)
    return f


PARTS = {
    "C01": dict(coq_props=["Properties_C01_tagged", "Properties_C01_tagged_src", "Properties_C01_tagged_quick_src"],
                files=FILES,
                generate=_chain(generate_rt, generate_frame, generate_src_put, generate_src_get),
                rule="tagged: every boundary/literal value +-2 and random bit-lengths through put/get/len/getlen and all "
                     "quick/32-bit forms at random alignments; fixed-width writer for widths 0..10 on the pool; "
                     "non-trivial = classes rt-len2..9 and legal fixed widths",
                oracles=dict({"tagged_rt": o_rt, "tagged_fixed": o_fixed, "frame_put": o_frame},
                             **SRC_ORACLES_PUT, **SRC_ORACLES_GET),
                classify=_first(classify_frame, classify_rt, classify_src), search=_searches(search_rt, search_src),
                trusted_base=SRC_TRUSTED, assumptions=SRC_ASSUME,
                configs_quick=["pinned", "O0"]),
    "C04": dict(coq_props=["Properties_C04_tagged", "Properties_C04_readme", "Properties_C04_tagged_src"], files=FILES,
                generate=_chain(generate_c04, generate_src_put),
                rule="tagged: encoder bytes vs an independent Python reference of the documented sqlite4 format; "
                     "src_tagged_*: the same through the functions regenerated from the current source",
                oracles=dict({"tagged_rt": o_rt_c04}, **SRC_ORACLES_PUT), classify=_first(classify_rt, classify_src),
                search=_searches(search_rt, search_src), trusted_base=SRC_TRUSTED, assumptions=SRC_ASSUME),
    "C12": dict(coq_props=["Properties_C12_tagged", "Properties_C12_tagged_src"], files=FILES + ["src/varint.h"],
                trusted_base=SRC_TRUSTED, assumptions=SRC_ASSUME,
                generate=_chain(generate_add, generate_src_add),
                rule="tagged add: (stored value, amount, grow?) with sums crossing every width boundary both ways and "
                     "the int64 overflow edges; non-trivial = every class except 'nogrow-same'",
                oracles={"tagged_add": o_add, "src_tagged_add": o_src_none},
                classify=_first(classify_add, classify_src),
                configs_quick=["pinned", "O0", "clang"]),
    "C14": dict(coq_props=["Properties_C14_tagged", "Properties_C14_tagged_src"], files=FILES,
                generate=_chain(generate_getn, generate_src_get),
                rule="bounded tagged reader: every truncation of valid encodings and random bytes in an exact-size "
                     "buffer ending at an inaccessible page; src_tagged_*: the same through the regenerated functions",
                oracles=dict({"tagged_getn": o_getn}, **SRC_ORACLES_GET), classify=_first(classify_getn, classify_src),
                trusted_base=SRC_TRUSTED, assumptions=SRC_ASSUME),
    "C05": dict(coq_props=["Properties_C05", "Properties_C05_src"], files=FILES, rule=RULE,
                generate=_chain(generate, generate_src_put),
                oracles=dict(ORACLES_C05, **SRC_ORACLES_PUT), classify=_first(classify, classify_src), search=search,
                minimise=["tagged_tuple_cmp"], trusted_base=SRC_TRUSTED,
                assumptions=["memcmp over min(len) then length, as C callers compare keys"] + SRC_ASSUME,
                configs_quick=["pinned", "O0"]),
}
