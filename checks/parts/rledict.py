"""rledict — run-length codec (varintRLE) and dictionary codec (varintDict):
contributions to C02 (lossless), C03 (advertised sizes), C13 (output capacity),
C14 (declared input length), C16 (metadata / accessors).

Case formats (harness/c/drv_rledict.c):
  rle_enc  SEGS hdr        encode (hdr=1: with count header) into exactly MaxSize bytes and
                           into exactly the predicted size; decode from exactly the bytes
                           written; GetAt / GetCount / GetRunCount; Analyze
  rle_cap  SEGS hdr cap    decode a valid encoding into exactly cap elements
  rle_rc   HEX             varintRLEGetRunCount on an exact-size guard-paged input
  dict_enc SEGS            encode into exactly EncodedSize bytes; both decoders; Build/Find/
                           Lookup; stats
  dict_with SEGS SEGS      dictionary built from the first array encodes the second
  dict_cap SEGS cap        DecodeInto of a valid encoding with maxValues = cap
  dict_dec HEX cap         both decoders on arbitrary bytes (exact-size guard-paged input)
SEGS = L c1,s1,d1,c2,s2,d2,... : c1 values s1, s1+d1, ... (mod 2^64), then c2 values ...
"""
import os
import resource

from vlib import *  # noqa

# The extracted model is not tail recursive; arrays of 10^6 elements (thorough
# tier, > 2^20 distinct values) need more than the default 8 MiB stack in the
# OCaml model driver.  Child processes of bin/check inherit this soft limit.
try:
    _s, _h = resource.getrlimit(resource.RLIMIT_STACK)
    if _s != resource.RLIM_INFINITY and (_h == resource.RLIM_INFINITY or _h > _s):
        resource.setrlimit(resource.RLIMIT_STACK, (_h, _h))
except Exception:  # pragma: no cover
    pass
# a larger minor heap keeps the OCaml runtime from rescanning a deep stack at every minor GC
os.environ.setdefault("OCAMLRUNPARAM", "s=32M")

FILES = ["src/varintRLE.c", "src/varintRLE.h", "src/varintDict.c", "src/varintDict.h"]
DICT_MAX = 1 << 20

TAGV = [0, 1, 2, 239, 240, 241, 2286, 2287, 2288, 2289, 67822, 67823, 67824, (1 << 24) - 1, 1 << 24,
        (1 << 32) - 1, 1 << 32, (1 << 40) - 1, 1 << 40, (1 << 48) - 1, 1 << 48, (1 << 56) - 1, 1 << 56,
        (1 << 63), U64 - 1, U64]


# ------------------------------------------------------------------ helpers

def tput(x):
    """bytes of varintTaggedPut64 (used to build valid / hostile streams)"""
    if x <= 240:
        return [x]
    if x <= 2287:
        y = x - 240
        return [y // 256 + 241, y % 256]
    if x <= 67823:
        y = x - 2288
        return [249, y // 256, y % 256]
    nb = max(3, (x.bit_length() + 7) // 8)
    return [247 + nb] + [(x >> (8 * (nb - 1 - i))) & 255 for i in range(nb)]


def tlen(x):
    return len(tput(x))


def segs(tr):
    return "L" + ",".join("%d,%d,%d" % (c, s & U64, d & U64) for (c, s, d) in tr)


def expand(arg):
    t = [int(x) for x in arg[1:].split(",")] if len(arg) > 1 else []
    out = []
    for j in range(0, len(t) - 2, 3):
        c, s, d = t[j], t[j + 1], t[j + 2]
        if d == 0:
            out.extend([s] * c)
        else:
            out.extend((s + k * d) & U64 for k in range(c))
    return out


def seg_count(arg):
    t = [int(x) for x in arg[1:].split(",")] if len(arg) > 1 else []
    return sum(t[0::3])


def max_runs(vals):
    """maximal runs [(len, value)]"""
    r = []
    for v in vals:
        if r and r[-1][1] == v:
            r[-1][0] += 1
        else:
            r.append([1, v])
    return r


def rle_bytes(vals, hdr):
    b = []
    if hdr:
        b += tput(len(vals))
    for (l, v) in max_runs(vals):
        b += tput(l) + tput(v)
    return b


def ext_width(x):
    w = 1
    while x >> 8:
        x >>= 8
        w += 1
    return w


def dict_bytes(vals):
    d = sorted(set(vals))
    w = ext_width(len(d) - 1) if d else 1
    pos = {v: i for i, v in enumerate(d)}
    b = tput(len(d))
    for v in d:
        b += tput(v)
    b += tput(len(vals))
    for v in vals:
        i = pos[v]
        b += [(i >> (8 * k)) & 255 for k in range(w)]
    return b


def pool():
    return sorted(set(TAGV) | set(v for v in scraped_literals(FILES)))


# ------------------------------------------------------------------ array generators

def rle_arrays(rng, tier, nr=None):
    """segment lists aimed at run-length / tagged-length boundaries"""
    P = pool()
    runlens = [1, 2, 3, 239, 240, 241, 242, 2287, 2288, 2289]
    lens = [1, 2, 3, 127, 128, 129, 240, 241, 2287, 2288, 4095, 4096, 4097]
    if tier != "quick":
        runlens += [65535, 65536, 65537, 67823, 67824]
        lens += [65535, 65536]
    yield []
    for v in P:
        yield [(1, v, 0)]
    for L in runlens:
        for v in rng.sample(P, 6) + [0, U64]:
            yield [(L, v, 0)]
            yield [(L, v, 0), (1, (v + 1) & U64, 0)]
            yield [(1, (v - 1) & U64, 0), (L, v, 0)]
            if L > 1:
                yield [(L - 1, v, 0), (1, v, 0)]          # adjacent equal segments merge
                yield [(L, v, 0), (L, (v + 1) & U64, 0), (L, v, 0)]
    for n in lens:
        yield [(n, rng.choice(P), 1)]                      # all distinct
        yield [(n, U64 - 5, 1)]                            # wraps through 0
        yield [(n, (1 << 56) + rng.getrandbits(50), (1 << 57) + 12345)]  # all 9-byte values
        yield [(n, 0, 0)]
        yield [(n // 2, 7, 0), (n - n // 2, 7, 1)]
    for k in (1, 50, 120, 121):
        yield [(1, 0, 0), (1, 1, 0)] * k                   # alternating
    if nr is None:
        nr = 400 if tier == "quick" else 2500
    for _ in range(nr):
        alpha = [rng.choice(P) if rng.random() < 0.7 else rand_u64(rng) for _ in range(rng.randint(1, 4))]
        tr = []
        for _ in range(rng.randint(1, 12)):
            L = rng.choice([1, 1, 1, 2, 3, 5, 17, 240, 241]) if rng.random() < 0.9 else rng.choice(runlens)
            tr.append((L, rng.choice(alpha), 0))
        yield tr


def dict_arrays(rng, tier, nr=None, huge=False):
    P = pool()
    dsizes = [1, 2, 3, 255, 256, 257]
    big = [65535, 65536, 65537]
    yield []
    for v in P:
        yield [(1, v, 0)]
        yield [(3, v, 0)]
    for D in dsizes:
        for s in (0, 240, U64 - D + 1 if D > 1 else U64, rng.choice(P), (1 << 56) + 11):
            yield [(D, s, 1)]
            yield [(D, (s + D - 1) & U64, U64)]                       # descending input
            yield [(D, s, 1), (D // 2 + 1, s, 1)]                      # repeats
            yield [(D // 2 + 1, (s + D // 2) & U64, 1), (D, s, 1)]
        yield [(D, rng.getrandbits(64), 0x9E3779B97F4A7C15)]           # scattered values
        yield [(D, 5, 3), (7, 5 + 3 * (D - 1), 0), (2, 5, 0)]
    for D in big:
        yield [(D, 1000, 1), (3, 1000 + D - 1, 0), (2, 1000, 0)]
        if tier != "quick":
            yield [(D, (999 + D) & U64, U64)]
            yield [(D, rng.getrandbits(64), 0x9E3779B97F4A7C15)]
    if tier != "quick" and huge:
        # F05: the decoders' limit of 2^20 entries
        yield [(DICT_MAX, 0, 1), (2, 5, 0)]
        yield [(DICT_MAX + 1, 0, 1)]
    if nr is None:
        nr = 400 if tier == "quick" else 2500
    for _ in range(nr):
        alpha = [rng.choice(P) if rng.random() < 0.6 else rand_u64(rng) for _ in range(rng.randint(1, 9))]
        tr = []
        for _ in range(rng.randint(1, 14)):
            tr.append((rng.choice([1, 1, 2, 3, 9]), rng.choice(alpha), 0))
        yield tr


def with_pairs(rng, tier):
    P = pool()
    for D in (1, 2, 255, 256, 257, 300):
        yield [(D, 10, 2)], [(D, 10, 2)]
        yield [(D, 10, 2)], [(1, 10 + 2 * (D - 1), 0), (4, 10, 0)]
        yield [(D, 10, 2)], [(2, 10, 0), (1, 11, 0), (1, 10, 0)]       # 11 is missing
        yield [(D, 10, 2)], [(1, 8, 0)]                                # first value missing
        yield [(D, 10, 2)], []
    yield [], [(1, 1, 0)]
    for _ in range(150 if tier == "quick" else 2000):
        alpha = [rng.choice(P) for _ in range(rng.randint(1, 8))]
        dtr = [(1, a, 0) for a in alpha]
        use = alpha + ([rand_u64(rng)] if rng.random() < 0.3 else [])
        vtr = [(rng.choice([1, 2, 5]), rng.choice(use), 0) for _ in range(rng.randint(1, 10))]
        yield dtr, vtr


# ------------------------------------------------------------------ case generators

def generate_enc(rng, tier, huge=False):
    """C02 / C03 share the encoder cases (the 2^20 / 2^20+1-distinct-value arrays of the thorough
    tier, which take minutes in the extracted model, are run for C02 only)"""
    for tr in rle_arrays(rng, tier):
        yield "rle_enc %s 0" % segs(tr)
        yield "rle_enc %s 1" % segs(tr)
    for tr in dict_arrays(rng, tier, huge=huge):
        yield "dict_enc %s" % segs(tr)
    for (a, b) in with_pairs(rng, tier):
        yield "dict_with %s %s" % (segs(a), segs(b))


def generate_C02(rng, tier):
    yield from generate_enc(rng, tier, huge=True)


def generate_C16(rng, tier):
    for tr in rle_arrays(rng, tier):
        yield "rle_enc %s 0" % segs(tr)
        yield "rle_enc %s 1" % segs(tr)


def generate_C13(rng, tier):
    quick = tier == "quick"
    for tr in rle_arrays(rng, tier, 120 if quick else 700):
        n = sum(c for (c, _, _) in tr)
        if n <= 12:
            caps = list(range(0, n + 1))
        else:
            cuts = set([0, 1, n - 1, n])
            acc = 0
            for (c, _, _) in tr[:(2 if quick else 6)]:
                acc += c
                cuts.update([acc - 1, acc, acc + 1])
            caps = sorted(x for x in cuts if 0 <= x <= n)
        for cap in caps:
            yield "rle_cap %s 0 %d" % (segs(tr), cap)
            yield "rle_cap %s 1 %d" % (segs(tr), cap)
    # hostile run streams for varintRLEDecode: run lengths near 2^64 (wrapping sums), declared
    # total >= cap so that the decoder stops inside the given bytes
    for (runs, cap) in [([(5, 7), (U64 - 2, 9)], 8), ([(U64, 1)], 3), ([(1, 4), (U64, 5)], 2),
                        ([(3, 1), ((1 << 63), 2), ((1 << 63), 3)], 10), ([(2, 8), (U64 - 1, 9)], 2),
                        ([(7, 7), (U64 - 6, 1)], 7), ([(7, 7), (U64 - 6, 1)], 8), ([((1 << 64) - 8, 3)], 8)]:
        yield "rle_hostile %s %d" % (hexs(sum((tput(l) + tput(v) for (l, v) in runs), [])), cap)
    for _ in range(40 if quick else 400):
        cap = rng.randint(1, 12)
        runs, tot = [], 0
        while tot < cap:
            l = rng.choice([1, 2, 3, U64, U64 - rng.randint(0, 12), (1 << 63) + rng.randint(0, 3), 1 << 32])
            runs.append((l, rng.choice([0, 1, 300, U64])))
            tot += l
        yield "rle_hostile %s %d" % (hexs(sum((tput(l) + tput(v) for (l, v) in runs), [])), cap)
    # stitched with-header streams: the count header says k, the runs that follow hold more
    # (or far more) than k values — "whatever count the encoded data declares"
    # (added by main after seeded change C13-5)
    for _ in range(60 if quick else 600):
        k = rng.choice([1, 2, 3, 4, 7, 8, 100, 300])
        runs, tot = [], 0
        while tot < k + rng.choice([1, 5, 600, 3000]):
            l = rng.choice([1, 2, 3, 5, 250, 600, 3000])
            runs.append((l, rng.choice([0, 1, 7, 300, U64])))
            tot += l
        body = sum((tput(l) + tput(v) for (l, v) in runs), [])
        for cap in sorted(set([k, k + 1, k + 8])):
            yield "rle_hostile_hdr %s %d" % (hexs(tput(k) + body), cap)
    for tr in dict_arrays(rng, tier, 120 if quick else 700):
        n = sum(c for (c, _, _) in tr)
        if n > 5000:
            if quick and tr[0][0] != 65536:
                continue
            caps = [n - 1, n] if quick else [0, 1, n - 1, n]
        elif n <= 10:
            caps = list(range(0, n + 1))
        else:
            caps = sorted(set([0, 1, n // 2, n - 1, n]))
        for cap in caps:
            yield "dict_cap %s %d" % (segs(tr), cap)


def _small_arrays(rng, k):
    P = pool()
    for _ in range(k):
        alpha = [rng.choice(P) if rng.random() < 0.7 else rand_u64(rng) for _ in range(rng.randint(1, 5))]
        yield [rng.choice(alpha) for _ in range(rng.randint(1, 9))]


def generate_C14(rng, tier):
    k = 60 if tier == "quick" else 600
    P = pool()
    # --- run counter: every truncation of valid encodings
    fixed = [[U64], [0], [1, 1, 2, 2, 2, 3, 4, 4], [U64] * 300, [240] * 241 + [241] * 2288, [5] * 70000]
    for vals in fixed + list(_small_arrays(rng, k)):
        b = rle_bytes(vals, False)
        for n in range(0, len(b) + 1):
            yield "rle_rc %s" % hexs(b[:n])
        for _ in range(3):
            m = list(b)
            m[rng.randrange(len(m))] = rng.choice([0, 255, 248, 249, rng.randrange(256)])
            yield "rle_rc %s" % hexs(m)
    for ln in list(range(0, 24)) + [64, 200]:
        for _ in range(6 if tier == "quick" else 60):
            yield "rle_rc %s" % hexs([rng.randrange(256) if rng.random() < 0.7 else rng.choice([0, 1, 255, 249, 241]) for _ in range(ln)])
    yield "rle_rc %s" % hexs([255] * 40)
    yield "rle_rc %s" % hexs([1, 255] + [255] * 8 + [0, 5, 1, 1])     # zero-length run in the middle
    # --- dictionary decoders: every truncation of valid encodings
    dfixed = [[U64], [0], [30, 10, 20, 10, 30, 30], list(range(257)) + [3, 4], [U64 - i for i in range(5)] * 3]
    for vals in dfixed + list(_small_arrays(rng, k)):
        b = dict_bytes(vals)
        cnt = len(vals)
        for n in range(0, len(b) + 1):
            yield "dict_dec %s %d" % (hexs(b[:n]), cnt)
        yield "dict_dec %s %d" % (hexs(b), cnt - 1)
        yield "dict_dec %s %d" % (hexs(b), 0)
        yield "dict_dec %s %d" % (hexs(b + [0, 0]), cnt + 3)
        for _ in range(4):
            m = list(b)
            m[rng.randrange(len(m))] = rng.choice([0, 255, 1, rng.randrange(256)])
            yield "dict_dec %s %d" % (hexs(m), cnt)
    # crafted headers
    ent257 = sum((tput(i % 200) for i in range(257)), [])
    crafted = [
        [255], [249], [250, 1], [255] * 9, [255] * 8,
        tput(DICT_MAX + 1) + [0] * 8, tput(DICT_MAX) + [0] * 5, tput(DICT_MAX) + tput(7),
        tput(1 << 40) + [1, 2, 3], tput(U64) + [0] * 4,
        tput(0) + tput(0), tput(0) + tput(1) + [0], tput(0) + tput(0) + [9, 9],
        tput(1) + tput(7) + tput(3) + [0, 0, 0], tput(1) + tput(7) + tput(3) + [0, 0],
        tput(1) + tput(7) + tput(3) + [0, 1, 0], tput(2) + tput(7) + tput(9) + tput(4) + [0, 1, 2, 0],
        tput(257) + ent257 + tput(1 << 63) + [0, 0, 1, 0],          # count * 2 wraps to 0
        tput(257) + ent257 + tput((1 << 63) + 1) + [0, 0, 1, 0],    # count * 2 wraps to 2
        tput(257) + ent257 + tput(U64) + [0, 0, 1, 0],
        tput(257) + ent257 + tput(2) + [0, 0, 0, 1],
        tput(257) + ent257 + tput(2) + [0, 0, 1, 1],                # index 257 out of range
        tput(257) + ent257 + tput(3) + [0, 0, 1, 0],                # one index short
        tput(1) + tput(U64) + tput(U64) + [0] * 3,
        tput(3) + tput(1) + tput(2),
    ]
    for b in crafted:
        for cap in (0, 1, 4, 1 << 62, U64):
            if cap > 4096:
                continue
            yield "dict_dec %s %d" % (hexs(b), cap)
    for ln in list(range(0, 20)) + [40, 100]:
        for _ in range(8 if tier == "quick" else 80):
            b = [rng.randrange(256) for _ in range(ln)]
            if b and rng.random() < 0.7:
                b[0] = rng.randrange(0, 6)                           # plausible dictionary size
            yield "dict_dec %s %d" % (hexs(b), rng.choice([0, 1, 3, 8, 300]))


# ------------------------------------------------------------------ direct oracles (C output only)

def _fault(c):
    if "fault" in c:
        return "fault=" + c["fault"] + " (crash or access outside the given buffers)"
    return None


def _overflow(c):
    if "overflow" in c:
        return "encoder wrote %s bytes into a buffer of varintRLEMaxSize(count)=%s bytes" % (c.get("n"), c.get("max"))
    return None


def o_rle_enc_C02(args, c):
    if _fault(c) or _overflow(c):
        return _fault(c) or _overflow(c)
    count = seg_count(args[0])
    if int(c["dn"]) != count:
        return "decoding the encoder's output with the original count returned %s elements, expected %d" % (c["dn"], count)
    if c["rt"] != "ok":
        return "decoded sequence differs from the original: rt=" + c["rt"]
    if args[1] == "0" and c["at"] != "ok":
        return "GetAt differs from the original element: at=" + c["at"]
    if c["dguard"] != "ok":
        return "decoder wrote outside its output array"
    return None


def o_dict_enc_C02(args, c):
    if _fault(c):
        return _fault(c)
    if int(c["n"]) == 0:
        return None                       # the encoder refused the array
    if c.get("dec") != "ok" or c.get("rt") != "ok":
        return "varintDictDecode does not return the original: dec=%s rt=%s" % (c.get("dec"), c.get("rt"))
    if int(c["oc"]) != seg_count(args[-1]):
        return "varintDictDecode count %s" % c["oc"]
    if c.get("rt2") != "ok" or c.get("dguard") != "ok":
        return "varintDictDecodeInto does not return the original: di=%s rt2=%s" % (c.get("di"), c.get("rt2"))
    return None


def o_rle_enc_C03(args, c):
    if _fault(c) or _overflow(c):
        return _fault(c) or _overflow(c)
    count = seg_count(args[0])
    n, mx, size = int(c["n"]), int(c["max"]), int(c["size"])
    if c["guard"] != "ok":
        return "encoder wrote outside a buffer of varintRLEMaxSize(count)=%d bytes" % mx
    if n > mx:
        return "returned length %d exceeds varintRLEMaxSize(%d)=%d" % (n, count, mx)
    exact = size + (tlen(count) if args[1] != "0" else 0)
    if n != exact:
        return "varintRLESize predicts %d bytes, encoder wrote %d" % (exact, n)
    if c["guard2"] != "ok" or int(c["n2"]) != exact:
        return "encoder overflowed a buffer of exactly the predicted size"
    return None


def o_dict_enc_C03(args, c):
    if _fault(c):
        return _fault(c)
    n, size = int(c["n"]), int(c["size"])
    if c["guard"] != "ok":
        return "encoder wrote outside a buffer of varintDictEncodedSize=%d bytes" % size
    if n > size:
        return "returned length %d exceeds the predicted size %d" % (n, size)
    if n != 0 and n != size:
        return "varintDictEncodedSize is documented exact: predicted %d, wrote %d" % (size, n)
    return None


def o_dict_with_C03(args, c):
    if _fault(c):
        return _fault(c)
    if c.get("build") != "0":
        return None
    n, size = int(c["n"]), int(c["size"])
    if c["guard"] != "ok":
        return "encoder wrote outside a buffer of varintDictEncodedSizeWithDict=%d bytes" % size
    if n > size or (n != 0 and n != size):
        return "predicted %d, wrote %d" % (size, n)
    return None


def o_dict_with_C02(args, c):
    if c.get("build") != "0":
        return _fault(c)
    return o_dict_enc_C02(args, c)


def o_rle_cap(args, c):
    if _fault(c):
        return _fault(c)
    count, hdr, cap = seg_count(args[0]), args[1] != "0", int(args[2])
    ret = int(c["ret"])
    if c["guard"] != "ok" or int(c["touched"]) > cap:
        return "decoder modified output beyond capacity %d" % cap
    if ret > cap:
        return "returned %d > capacity %d" % (ret, cap)
    if c["out"] != "ok":
        return "returned elements are not a prefix of the original: " + c["out"]
    if hdr and cap < count and ret != 0:
        return "header format documents 0 when the capacity is below the stored count; returned %d" % ret
    if cap == count and ret != count:
        return "capacity equals the count but %d elements were returned" % ret
    return None


def o_rle_hostile(args, c):
    if _fault(c):
        return _fault(c)
    cap = int(args[1])
    if c["guard"] != "ok" or int(c["touched"]) > cap or int(c["ret"]) > cap:
        return "varintRLEDecode wrote/returned beyond capacity %d: ret=%s guard=%s" % (cap, c["ret"], c["guard"])
    return None


def o_rle_hostile_hdr(args, c):
    if _fault(c):
        return _fault(c)
    cap = int(args[1])
    if c["guard"] != "ok" or int(c["touched"]) > cap or int(c["ret"]) > cap:
        return "varintRLEDecodeWithHeader wrote/returned beyond capacity %d: ret=%s guard=%s" % (cap, c["ret"], c["guard"])
    return None


def o_dict_cap(args, c):
    if _fault(c):
        return _fault(c)
    count, cap = seg_count(args[0]), int(args[1])
    ret = int(c["ret"])
    if c["guard"] != "ok" or int(c["touched"]) > cap:
        return "decoder modified output beyond capacity %d" % cap
    if ret > cap or c["out"] != "ok":
        return "returned %d with capacity %d, out=%s" % (ret, cap, c["out"])
    if cap < count and ret != 0:
        return "DecodeInto documents 0 when count > maxValues; returned %d" % ret
    if cap == count and int(c["n"]) > 0 and ret != count:
        return "capacity equals the count but %d elements were returned" % ret
    return None


def o_rle_rc(args, c):
    if _fault(c):
        return _fault(c)
    n = (len(args[0]) - 1) // 2
    if int(c["rc"]) > n:
        return "%s runs reported for %d bytes (every counted run occupies at least one byte)" % (c["rc"], n)
    return None


def o_dict_dec(args, c):
    if _fault(c):
        return _fault(c)
    n, cap = (len(args[0]) - 1) // 2, int(args[1])
    if c["guard"] != "ok" or int(c["touched"]) > cap or int(c["di"]) > cap:
        return "DecodeInto wrote/returned beyond capacity %d" % cap
    if c["dec"] == "ok" and int(c["oc"]) > n:
        return "Decode returned %s elements from %d bytes (one index takes at least a byte)" % (c["oc"], n)
    return None


def o_rle_enc_C16(args, c):
    if _fault(c) or _overflow(c):
        return _fault(c) or _overflow(c)
    vals = expand(args[0])
    count, hdr = len(vals), args[1] != "0"
    runs = len(max_runs(vals))
    m = [int(x) for x in c["meta"][1:].split(",")]
    am = [int(x) for x in c["ameta"][1:].split(",")]
    n = int(c["n"])
    if m[0] != count or am[0] != count:
        return "meta.count %d / %d, real count %d" % (m[0], am[0], count)
    if m[1] != runs or am[1] != runs:
        return "meta.runCount %d / %d, maximal runs %d" % (m[1], am[1], runs)
    if m[2] != n:
        return "meta.encodedSize %d, bytes written %d" % (m[2], n)
    body = n - (tlen(count) if hdr else 0)
    if am[2] != body or int(c["size"]) != body:
        return "Analyze/Size report %d / %s, run bytes written %d" % (am[2], c["size"], body)
    if int(c["dn"]) != count:
        return "reported count %d, decoding yields %s elements" % (count, c["dn"])
    if int(c["rc"]) != runs:
        return "GetRunCount %s, maximal runs %d" % (c["rc"], runs)
    if hdr and int(c["getcount"]) != count:
        return "GetCount %s, real count %d" % (c["getcount"], count)
    return None


# ------------------------------------------------------------------ classification / search

def classify(case, m):
    t = case.split()
    api = t[0]
    if api in ("rle_enc", "rle_cap"):
        n = seg_count(t[1])
        if n == 0:
            return "trivial"
        vals = expand(t[1]) if n <= 70000 else None
        r = max_runs(vals) if vals is not None else []
        ml = max((x[0] for x in r), default=0)
        return "%s-h%s-runs%s-maxlen%d" % (api, t[2], "1" if len(r) == 1 else "2-9" if len(r) < 10 else "10+", tlen(ml))
    if api in ("dict_enc", "dict_cap"):
        n = seg_count(t[1])
        if n == 0:
            return "trivial"
        return "%s-w%s" % (api, m.get("dw", "?")) if api == "dict_enc" else "dict_cap"
    if api == "dict_with":
        return "dict_with-" + ("miss" if m.get("n") == "0" else "ok")
    if api in ("rle_hostile", "rle_hostile_hdr"):
        return api
    if api == "rle_rc":
        return "rle_rc-%s" % ("empty" if t[1] == "x" else "runs" if m.get("rc", "0") != "0" else "norun")
    if api == "dict_dec":
        return "dict_dec-%s-%s" % (m.get("dec", "?"), "part" if m.get("touched", "0") != "0" and m.get("di") == "0" else m.get("di", "?") != "0")
    return None


def search(rng, divergent):
    """neighbourhood of divergent cases (counts +-1, other format) + a fresh larger batch"""
    for c in divergent:
        t = c.split()
        if t[0] in ("rle_enc", "rle_cap", "dict_enc", "dict_cap") and len(t[1]) > 1:
            tr = [int(x) for x in t[1][1:].split(",")]
            for j in range(0, len(tr) - 2, 3):
                for d in (-1, 1):
                    q = list(tr)
                    q[j] = max(0, q[j] + d)
                    yield " ".join([t[0], "L" + ",".join(map(str, q))] + t[2:])
    r2 = random.Random(rng.getrandbits(32))
    yield from generate_enc(r2, "quick")
    yield from generate_C13(r2, "quick")
    yield from generate_C14(r2, "quick")


TRUST = ["qsort/malloc/memcpy of libc behave as specified (qsort = the sorted permutation); malloc(0) returns non-NULL (glibc)",
         "Coq.Sorting.Mergesort and Coq.FSets.FMapPositive of the standard library (used by the executable model)"]
ASSUME = ["no size_t counter of the encoders wraps: 18*count < 2^64 (the destination buffer exists in memory)",
          "arrays of fewer than 2^32 elements for the dictionary codec (uint32_t unique counter)",
          "varintRLEDecodeWithHeader / varintRLEGetAt / varintRLEGetCount take no input length: their inputs are "
          "outputs of the RLE encoders (C02/C13/C16); varintRLEDecode is also covered on hostile run streams "
          "whose declared lengths reach the capacity"]

RULE_ENC = ("arrays given as segment lists: run lengths and array lengths on both sides of 240/241, 2287/2288, "
            "127..129, 4095..4097 (thorough: 65535/65536, 67823/67824), values from every tagged-length boundary and "
            "every integer literal in the four source files, adjacent equal segments (run merging), all-distinct, "
            "wrapping and 9-byte-value arrays, dictionaries of 1,2,255,256,257,65535,65536,65537 distinct values in "
            "ascending, descending and scattered order (thorough: 2^20 and 2^20+1), shared dictionaries with and "
            "without missing values, random small-alphabet arrays; non-trivial = count >= 1")

# ---------------------------------------------------------------- the regenerated RLE decoders (gen/c2coq.py)
# src_rle_* cases run the real C on one side and, on the model side, the Gallina functions that gen/c2coq.py
# regenerated from the current src/varintRLE.c (coq/gen/Src_rle.v; they call the regenerated tagged functions of
# Src_tagged.v): a test of the translator, on admissible inputs and small arrays only.

def generate_src_rle(rng, tier):
    k = 40 if tier == "quick" else 400
    fixed = [[U64], [0], [1, 1, 2, 2, 2, 3, 4, 4], [7] * 300, [240] * 241 + [241] * 5, [U64, U64, 0, 0, 1 << 63]]
    for vals in fixed + list(_small_arrays(rng, k)):
        b, bh = rle_bytes(vals, False), rle_bytes(vals, True)
        n = len(vals)
        caps = list(range(0, n + 1)) if n <= 12 else sorted(set([0, 1, n // 2, n - 1, n]))
        for cap in caps:
            yield "src_rle_dec %s %d 0" % (hexs(b), cap)
        for cap in caps + [n + 1, n + 7]:
            yield "src_rle_dec %s %d 1" % (hexs(bh), cap)
        for i in sorted(set([0, n // 2, n - 1])):
            yield "src_rle_at %s %d" % (hexs(b), i)
        yield "src_rle_count %s" % hexs(bh)
        yield "src_rle_run %s" % hexs(b)
        if n <= 320:
            for hdr in (0, 1):
                need = len(bh if hdr else b)
                for wm in (0, 1):
                    L = need if rng.random() < 0.5 else need + rng.randint(0, 5)
                    yield "src_rle_enc %s %d %d %s" % (lst(vals), hdr, wm, hexs([rng.randrange(256) for _ in range(L)]))
            yield "src_rle_size %s" % lst(vals)
        for m in range(0, min(len(b), 40) + 1):
            yield "src_rle_rc %s" % hexs(b[:m])
    for ln in range(0, 24):
        for _ in range(4 if tier == "quick" else 40):
            yield "src_rle_rc %s" % hexs([rng.randrange(256) if rng.random() < 0.7 else rng.choice([0, 1, 255, 249, 241]) for _ in range(ln)])


def _unrle(bs, hdr):
    """values of a valid encoding built by rle_bytes"""
    def tget(i):
        a = bs[i]
        n = 1 if a <= 240 else 2 if a <= 248 else a - 246
        if n == 1:
            return a, i + 1
        if n == 2:
            return 240 + 256 * (a - 241) + bs[i + 1], i + 2
        if n == 3:
            return 2288 + 256 * bs[i + 1] + bs[i + 2], i + 3
        return int.from_bytes(bytes(bs[i + 1:i + n]), "big"), i + n
    i, out = 0, []
    if hdr:
        _, i = tget(0)
    while i < len(bs):
        l, i = tget(i)
        v, i = tget(i)
        out += [v] * l
    return out


def o_src_rle_dec(args, c):
    bs, cap, hdr = list(bytes.fromhex(args[0][1:])), int(args[1]), int(args[2])
    if "fault" in c:
        return "fault=%s (read beyond the encoding)" % c["fault"]
    if c.get("vals") == "overrun":
        return "decoder wrote outside the %d elements of the output array" % cap
    vals = _unrle(bs, hdr)
    want = min(cap, len(vals)) if not hdr else (len(vals) if len(vals) <= cap else 0)
    got = [int(x) for x in c["vals"][1:].split(",")] if len(c["vals"]) > 1 else []
    if int(c["ret"]) != want or got[:want] != vals[:want] or any(x != 7777 for x in got[want:]):
        return "decoded %s elements %s, expected %d elements of %s then untouched cells" % (c["ret"], c["vals"][:80], want, vals[:8])
    return None


def o_src_rle_at(args, c):
    bs, i = list(bytes.fromhex(args[0][1:])), int(args[1])
    if "fault" in c:
        return "fault=" + c["fault"]
    vals = _unrle(bs, 0)
    return None if int(c["ret"]) == vals[i] else "element %d is %d, got %s" % (i, vals[i], c["ret"])


def o_src_rle_any(args, c):
    return ("fault=" + c["fault"]) if "fault" in c else None


def o_src_rle_enc(args, c):
    vals = [int(x) for x in args[0][1:].split(",")] if len(args[0]) > 1 else []
    hdr, buf = int(args[1]), list(bytes.fromhex(args[3][1:]))
    if "fault" in c:
        return "fault=%s (access outside the exact-size destination)" % c["fault"]
    if c.get("buf") in ("lo", "hi"):
        return "write outside the destination (%s)" % c["buf"]
    enc, out = rle_bytes(vals, bool(hdr)), list(bytes.fromhex(c["buf"][1:]))
    if int(c["ret"]) != len(enc) or out[:len(enc)] != enc or out[len(enc):] != buf[len(enc):]:
        return "wrote %s (returned %s), expected %s then the old bytes" % (c["buf"][:60], c["ret"], hexs(enc)[:60])
    return None


SRC_RLE_ORACLES = {"src_rle_enc": o_src_rle_enc, "src_rle_size": o_src_rle_any, "src_rle_dec": o_src_rle_dec, "src_rle_at": o_src_rle_at, "src_rle_count": o_src_rle_any,
                   "src_rle_run": o_src_rle_any, "src_rle_rc": o_src_rle_any}
SRC_RLE_TRUSTED = ["gen/c2coq.py (C-to-Gallina translator: clang 14 typed AST -> coq/gen/Src_rle.v, calling coq/gen/Src_tagged.v) "
                   "and coq/theories/CSem.v; validated per run only by executing the generated functions against the C "
                   "(src_rle_* cases, small arrays)"]


def _with_src(gen, only=None):
    def g(rng, tier):
        yield from gen(rng, tier)
        for c in generate_src_rle(random.Random(rng.getrandbits(48)), tier):
            if only is None or c.split(" ", 1)[0] in only:
                yield c
    return g


def _classify_src(case, m):
    api = case.split(" ", 1)[0]
    if api.startswith("src_rle_"):
        return "%s-ret%s" % (api, m.get("ret"))
    return classify(case, m)


PARTS = {
    "C02": dict(coq_props=["Properties_C02_rledict", "Properties_C02_rle_src"], files=FILES, rule=RULE_ENC,
                generate=_with_src(generate_C02, ("src_rle_enc", "src_rle_size", "src_rle_dec")),
                oracles=dict({"rle_enc": o_rle_enc_C02, "dict_enc": o_dict_enc_C02, "dict_with": o_dict_with_C02},
                             **SRC_RLE_ORACLES),
                classify=_classify_src, search=search, assumptions=ASSUME, trusted_base=TRUST + SRC_RLE_TRUSTED,
                configs_quick=["pinned", "O0"]),
    "C03": dict(coq_props=["Properties_C03_rledict"], files=FILES, rule=RULE_ENC, generate=generate_enc,
                oracles={"rle_enc": o_rle_enc_C03, "dict_enc": o_dict_enc_C03, "dict_with": o_dict_with_C03},
                classify=classify, search=search, assumptions=ASSUME, trusted_base=TRUST,
                configs_quick=["pinned", "O0"]),
    "C13": dict(coq_props=["Properties_C13_rledict", "Properties_C13_rle_src"], files=FILES,
                rule="valid encodings of the C02 arrays x capacities 0..count (all capacities for short arrays; 0, 1, "
                     "run boundaries +-1, count-1, count for long ones), output array of exactly cap elements inside "
                     "canaries; hostile run streams with lengths near 2^64 for varintRLEDecode; non-trivial = count >= 1",
                generate=_with_src(generate_C13, ("src_rle_dec", "src_rle_at", "src_rle_run", "src_rle_count")),
                oracles=dict({"rle_cap": o_rle_cap, "dict_cap": o_dict_cap, "rle_hostile": o_rle_hostile,
                              "rle_hostile_hdr": o_rle_hostile_hdr}, **SRC_RLE_ORACLES),
                classify=_classify_src, search=search, assumptions=ASSUME, trusted_base=TRUST + SRC_RLE_TRUSTED,
                configs_quick=["pinned", "O0"]),
    "C14": dict(coq_props=["Properties_C14_rledict", "Properties_C14_rle_src"], files=FILES,
                rule="exact-size guard-paged inputs: every truncation of valid RLE / dictionary encodings, single-byte "
                     "mutations, crafted headers (dictionary size above the limit, counts whose product with the index "
                     "width wraps, out-of-range indices, zero-length runs), random bytes of length 0..200; "
                     "non-trivial = non-empty input",
                generate=_with_src(generate_C14, ("src_rle_rc",)),
                oracles=dict({"rle_rc": o_rle_rc, "dict_dec": o_dict_dec}, **SRC_RLE_ORACLES),
                classify=_classify_src, search=search, assumptions=ASSUME[:1], trusted_base=TRUST + SRC_RLE_TRUSTED,
                configs_quick=["pinned", "O0"]),
    "C16": dict(coq_props=["Properties_C16_rledict"], files=FILES, rule=RULE_ENC, generate=generate_C16,
                oracles={"rle_enc": o_rle_enc_C16}, classify=classify, search=search,
                assumptions=ASSUME, trusted_base=TRUST, configs_quick=["pinned", "O0"]),
}
