"""chained / chained-simple scalar varints: their share of C01 (round trip,
agreeing bounded lengths, frame) and C04 (byte-exact format, canonical,
length-monotone)."""
from vlib import *  # noqa

FILES = ["src/varintChained.c", "src/varintChained.h",
         "src/varintChainedSimple.c", "src/varintChainedSimple.h"]
U32 = (1 << 32) - 1

RULE_C01 = ("chained_rt/csimple_rt x align: every 2^k and 2^(7k) boundary (+-2) and every integer literal of "
            "varintChained*.{c,h} (+-2) at all 8 alignments, random values of uniformly chosen bit length; "
            "chained32_rt/csimple32_rt: the same restricted to 32 bits; non-trivial = encoding longer than one byte")
RULE_C04 = ("byte-for-byte comparison with a reference encoder written in Python on the same value pool; "
            "*_mono: all adjacent pairs (v,v+1) at every length boundary plus random ordered pairs; *_dec: "
            "self-delimiting byte strings including non-minimal ones (leading 0x80 groups), all-0x80 / all-0xff "
            "runs of every length and one-bit perturbations of valid encodings; non-trivial = more than one byte")


# ---------------------------------------------------------------- reference (independent of the C and of the model)

def ref_len(x):
    k = max(1, (x.bit_length() + 6) // 7)
    return min(k, 9)


def ref_chained(x):
    if x >> 56:
        out = [x & 0xFF]
        x >>= 8
        for _ in range(8):
            out.append(0x80 | (x & 0x7F))
            x >>= 7
        return list(reversed(out))
    groups = []
    while True:
        groups.append(x & 0x7F)
        x >>= 7
        if not x:
            break
    groups.reverse()
    return [g | 0x80 for g in groups[:-1]] + [groups[-1]]


def ref_csimple(x):
    out = []
    while x >= 128 and len(out) < 8:
        out.append((x & 0x7F) | 0x80)
        x >>= 7
    out.append(x)
    return out


def ref_chained_decode(bs):
    """(width, value) of the first chained varint in bs, None when bs ends early"""
    v = 0
    for i in range(9):
        if i >= len(bs):
            return None
        b = bs[i]
        if i == 8:
            return 9, (v << 8) | b
        if b < 128:
            return i + 1, (v << 7) | b
        v = (v << 7) | (b & 0x7F)


def ref_csimple_decode(bs):
    v = 0
    for i in range(9):
        if i >= len(bs):
            return None
        b = bs[i]
        if i == 8 or b < 128:
            return i + 1, (v | (b << (7 * i))) & U64
        v |= (b & 0x7F) << (7 * i)


def unhex(s):
    return list(bytes.fromhex(s[1:]))


# ---------------------------------------------------------------- generators

def _pool():
    vals = set(boundary_values()) | set(scraped_literals(FILES))
    for k in range(1, 10):
        for d in (-1, 0, 1):
            vals.add((1 << (7 * k)) + d)
            vals.add((0x55 << (7 * k)) & U64)
    return sorted(v for v in vals if 0 <= v <= U64)


def _rand_n(tier, quick, thorough):
    return quick if tier == "quick" else thorough


def generate_C01(rng, tier):
    pool = _pool()
    n_rand = _rand_n(tier, 2500, 60000)
    for v in pool:
        for al in range(8):
            yield "chained_rt %d %d" % (v, al)
            yield "csimple_rt %d %d" % (v, al)
        if v <= U32:
            yield "chained32_rt %d" % v
            yield "csimple32_rt %d" % v
    for _ in range(n_rand):
        v = rand_u64(rng)
        yield "chained_rt %d %d" % (v, rng.randint(0, 15))
        v = rand_u64(rng)
        yield "csimple_rt %d %d" % (v, rng.randint(0, 15))
    for _ in range(n_rand):
        v = rand_u64(rng) & U32
        yield "chained32_rt %d" % v
        v = rng.getrandbits(rng.randint(1, 32))
        yield "csimple32_rt %d" % v


def _malformed(rng, n):
    """self-delimiting byte strings, exact size (the guard page follows)"""
    for k in range(1, 10):
        # all-0x80 / all-0xff continuation runs ended by 00 / 7f (9th byte free)
        for fill in (0x80, 0xFF, 0x81):
            for last in ((0x00, 0x7F, 0x01) if k < 9 else (0x00, 0x7F, 0x80, 0xFF)):
                yield [fill] * (k - 1) + [last]
    for _ in range(n):
        k = rng.randint(1, 9)
        body = [rng.randint(0x80, 0xFF) for _ in range(k - 1)]
        r = rng.random()
        if r < 0.3 and body:                    # non-minimal: empty leading groups
            for i in range(rng.randint(1, len(body))):
                body[i] = 0x80
        last = rng.randint(0, 0x7F) if k < 9 else rng.randint(0, 0xFF)
        yield body + [last]
    for _ in range(n // 2):                      # valid encodings with one payload bit flipped
        x = rand_u64(rng)
        for ref in (ref_chained, ref_csimple):
            bs = ref(x)
            i = rng.randrange(len(bs))
            bit = rng.randint(0, 6) if i < len(bs) - 1 or len(bs) < 9 else rng.randint(0, 7)
            bs = list(bs)
            bs[i] ^= 1 << bit
            yield bs


def generate_C04(rng, tier):
    pool = _pool()
    n_rand = _rand_n(tier, 2500, 60000)
    for v in pool:
        yield "chained_rt %d 0" % v
        yield "csimple_rt %d 0" % v
        if v <= U32:
            yield "chained32_rt %d" % v
            yield "csimple32_rt %d" % v
        if v + 1 <= U64:
            for api in ("chained_mono", "csimple_mono"):
                yield "%s %d %d" % (api, v, v + 1)
                yield "%s %d %d" % (api, v + 1, v)
    for _ in range(n_rand):
        yield "chained_rt %d %d" % (rand_u64(rng), rng.randint(0, 7))
        yield "csimple_rt %d %d" % (rand_u64(rng), rng.randint(0, 7))
        yield "csimple32_rt %d" % (rand_u64(rng) & U32)
    for _ in range(n_rand // 2):
        a, b = rand_u64(rng), rand_u64(rng)
        yield "chained_mono %d %d" % (a, b)
        yield "csimple_mono %d %d" % (a, rng.choice(pool))
    for bs in _malformed(rng, n_rand // 2):
        yield "chained_dec %s" % hexs(bs)
        yield "csimple_dec %s" % hexs(bs)


# ---------------------------------------------------------------- direct oracles (C output only)

def _rt_c01(args, c, bits32):
    if "fault" in c:
        return "fault=" + c["fault"]
    x = int(args[0])
    w, getw, ln = int(c["w"]), int(c["getw"]), int(c["len"])
    put = unhex(c["put"])
    if not (1 <= w <= 9):
        return "encoder returned width %d outside 1..9" % w
    if len(put) != w:
        return "driver printed %d bytes for width %d" % (len(put), w)
    if c["frame"] != "ok" or c["guard"] != "ok":
        return "encoder wrote outside its %d bytes (frame=%s guard=%s)" % (w, c["frame"], c["guard"])
    if getw != w:
        return "decoder width %d != encoder width %d" % (getw, w)
    if ln != w:
        return "predicted length %d != encoder width %d" % (ln, w)
    if int(c["getv"]) != x:
        return "decoded %s, encoded %d" % (c["getv"], x)
    return None


def o_chained_rt(args, c):
    m = _rt_c01(args, c, False)
    if m:
        return m
    x = int(args[0])
    if x <= U32 and (int(c["m32w"]) != int(c["w"]) or int(c["m32v"]) != x):
        return "32-bit macro reader gave (%s,%s) for %d" % (c["m32w"], c["m32v"], x)
    return None


def o_chained32_rt(args, c):
    m = _rt_c01(args, c, True)
    if m:
        return m
    if "fnw" in c and (c["fnw"] != c["w"] or int(c["fnv"]) != int(args[0])):
        return "varintChainedGetVarint32 gave (%s,%s)" % (c["fnw"], c["fnv"])
    return None


def o_csimple_rt(args, c):
    m = _rt_c01(args, c, False)
    if m:
        return m
    x = int(args[0])
    if x <= U32 and (int(c["d32w"]) != int(c["w"]) or int(c["d32v"]) != x):
        return "Decode32 gave (%s,%s) for %d" % (c["d32w"], c["d32v"], x)
    return None


def o_csimple32_rt(args, c):
    m = _rt_c01(args, c, True)
    if m:
        return m
    if c["fbw"] != c["w"] or int(c["fbv"]) != int(args[0]):
        return "Decode32Fallback gave (%s,%s)" % (c["fbw"], c["fbv"])
    return None


ORACLES_C01 = {"chained_rt": o_chained_rt, "chained32_rt": o_chained32_rt,
               "csimple_rt": o_csimple_rt, "csimple32_rt": o_csimple32_rt}


def _exact(ref):
    def o(args, c):
        if "fault" in c:
            return "fault=" + c["fault"]
        x = int(args[0])
        want = ref(x)
        if unhex(c["put"]) != want:
            return "bytes %s, format requires %s" % (c["put"], hexs(want))
        if int(c["len"]) != ref_len(x):
            return "length %s, format requires %d" % (c["len"], ref_len(x))
        if "put64" in c and unhex(c["put64"]) != want:
            return "Encode64 bytes %s, format requires %s" % (c["put64"], hexs(want))
        return None
    return o


def _mono(ref):
    def o(args, c):
        if "fault" in c:
            return "fault=" + c["fault"]
        a, b = int(args[0]), int(args[1])
        la, lb = int(c["la"]), int(c["lb"])
        if la != len(unhex(c["ea"])) or lb != len(unhex(c["eb"])):
            return "length function disagrees with encoder"
        if (a <= b and la > lb) or (b <= a and lb > la):
            return "length not monotone: len(%d)=%d len(%d)=%d" % (a, la, b, lb)
        if unhex(c["ea"]) != ref(a) or unhex(c["eb"]) != ref(b):
            return "bytes differ from the format"
        if (a == b) != (c["ea"] == c["eb"]):
            return "encoding not injective / not functional"
        return None
    return o


def _dec(refdec, refenc):
    def o(args, c):
        if "fault" in c:
            return "fault=" + c["fault"]
        bs = unhex(args[0])
        want = refdec(bs)
        if want is None:
            return None                       # not self-delimiting: outside the property
        if (int(c["w"]), int(c["v"])) != want:
            return "decoded (%s,%s), format says %r" % (c["w"], c["v"], want)
        # shortest: no byte string denoting v is shorter than the encoder's output
        if int(c["len"]) > want[0]:
            return "encoder needs %s bytes for a value denoted by %d bytes" % (c["len"], want[0])
        if unhex(c["put"]) != refenc(want[1]):
            return "re-encoding differs from the format"
        return None
    return o


ORACLES_C04 = {"chained_rt": _exact(ref_chained), "chained32_rt": _exact(ref_chained),
               "csimple_rt": _exact(ref_csimple), "csimple32_rt": _exact(ref_csimple),
               "chained_mono": _mono(ref_chained), "csimple_mono": _mono(ref_csimple),
               "chained_dec": _dec(ref_chained_decode, ref_chained),
               "csimple_dec": _dec(ref_csimple_decode, ref_csimple)}


# ---------------------------------------------------------------- classification, search

def classify(case, m):
    api = case.split(" ", 1)[0]
    if not (api.startswith("chained") or api.startswith("csimple")):
        return None
    if api.endswith("_mono"):
        la, lb = m.get("la", "0"), m.get("lb", "0")
        if la == "1" and lb == "1":
            return "trivial"
        if la == lb:
            return "%s-same-len%s" % (api, la)
        if abs(int(la) - int(lb)) == 1:
            return "%s-boundary-%s|%s" % (api, min(la, lb), max(la, lb))
        return "%s-far" % api
    w = m.get("w", "0")
    if w == "1":
        return "trivial"
    return "%s-len%s" % (api, w)


def _search(gen):
    def search(rng, divergent_cases):
        for c in divergent_cases:
            t = c.split()
            if t[0].endswith("_rt"):
                x = int(t[1])
                for d in range(-4, 5):
                    if 0 <= x + d <= (U32 if "32" in t[0] else U64):
                        yield " ".join([t[0], str(x + d)] + t[2:])
            elif t[0].endswith("_mono"):
                a, b = int(t[1]), int(t[2])
                for da in range(-2, 3):
                    for db in range(-2, 3):
                        if 0 <= a + da <= U64 and 0 <= b + db <= U64:
                            yield "%s %d %d" % (t[0], a + da, b + db)
            elif t[0].endswith("_dec"):
                bs = unhex(t[1])
                for i in range(len(bs)):
                    for bit in range(8):
                        nb = list(bs)
                        nb[i] ^= 1 << bit
                        # keep it self-delimiting within its own size
                        r = (ref_chained_decode if t[0].startswith("chained") else ref_csimple_decode)(nb)
                        if r is not None and r[0] == len(nb):
                            yield "%s %s" % (t[0], hexs(nb))
        r2 = random.Random(rng.getrandbits(32))
        yield from gen(r2, "thorough")
    return search


# ---------------------------------------------------------------- the regenerated functions (gen/c2coq.py)
# src_csimple_* cases run the real C on one side and, on the model side, the Gallina functions that
# gen/c2coq.py regenerated from the current src/varintChainedSimple.c (coq/gen/Src_csimple.v, loops
# rendered with c_while and 64 iterations of fuel): a test of the translator, on admissible inputs only.

SRC_TRUSTED = ["gen/c2coq.py (C-to-Gallina translator: clang 14 typed AST -> coq/gen/Src_csimple.v, Src_chained.v; supported subset and "
               "assumptions in its docstring) and coq/theories/CSem.v; validated per run only by executing the generated "
               "functions against the C (src_csimple_* cases)"]
SRC_ASSUME = ["Properties_*_src.v are about src_<f>, the rendering of the CURRENT source text regenerated on every run "
              "(loops: for every fuel >= the stated bound); that rendering is tied to the compiled C by the translator + "
              "CSem.v (trusted), not by proof"]


def _rbuf(rng, n):
    return [rng.randint(0, 255) for _ in range(n)]


def generate_src(rng, tier):
    pool = _pool()
    n = _rand_n(tier, 600, 20000)
    for x in pool + [rand_u64(rng) for _ in range(n)]:
        enc = ref_csimple(x)
        L = len(enc) if rng.random() < 0.5 else rng.randint(len(enc), 12)
        yield "src_csimple_enc %d %s" % (x, hexs(_rbuf(rng, L)))
        yield "src_csimple_len %d" % x
        yield "src_csimple_dec %s %d" % (hexs(enc), rand_u64(rng))
        if x <= U32:
            yield "src_csimple_enc32 %d %s" % (x, hexs(_rbuf(rng, rng.randint(len(enc), 8))))
            yield "src_csimple_dec32 %s %d" % (hexs(enc), rand_u64(rng) & U32)
            yield "src_csimple_dec32f %s %d" % (hexs(enc), rand_u64(rng) & U32)
    for bs in _malformed(rng, n // 2):
        yield "src_csimple_dec %s %d" % (hexs(bs), rand_u64(rng))
        yield "src_csimple_dec32 %s %d" % (hexs(bs), rand_u64(rng) & U32)


def _o_src_enc(args, c):
    x, buf = int(args[0]), list(bytes.fromhex(args[1][1:]))
    if "fault" in c:
        return "fault=%s (access outside the exact-size buffer)" % c["fault"]
    if c.get("buf") in ("lo", "hi"):
        return "write outside the destination (%s)" % c["buf"]
    out, enc = list(bytes.fromhex(c["buf"][1:])), ref_csimple(x)
    if int(c["ret"]) != len(enc) or out[:len(enc)] != enc:
        return "wrote %s (returned %s), the reference encoding of %d is %s" % (c["buf"], c["ret"], x, hexs(enc))
    if out[len(enc):] != buf[len(enc):]:
        return "bytes beyond the %d bytes of the encoding were modified" % len(enc)
    return None


def _o_src_len(args, c):
    x = int(args[0])
    return None if int(c.get("ret", -1)) == ref_len(x) else "length %s, %d needs %d" % (c.get("ret"), x, ref_len(x))


def _o_src_dec(mask):
    def o(args, c):
        bs = list(bytes.fromhex(args[0][1:]))
        if "fault" in c:
            return "read beyond the varint (fault=%s)" % c["fault"]
        r = ref_csimple_decode(bs)
        if r is None:
            return None
        w, v = r
        if int(c["ret"]) != w or int(c["v"]) != (v & mask):
            return "decoded (%s,%s), the reference gives (%d,%d)" % (c["ret"], c["v"], w, v & mask)
        return None
    return o


SRC_ORACLES = {"src_csimple_enc": _o_src_enc, "src_csimple_enc32": _o_src_enc, "src_csimple_len": _o_src_len,
               "src_csimple_dec": _o_src_dec(U64), "src_csimple_dec32": _o_src_dec(U32),
               "src_csimple_dec32f": _o_src_dec(U32)}


def generate_src_chained(rng, tier):
    """the regenerated functions of src/varintChained.c (coq/gen/Src_chained.v) against the C"""
    pool = _pool()
    n = _rand_n(tier, 600, 20000)
    for x in pool + [rand_u64(rng) for _ in range(n)]:
        enc = ref_chained(x)
        L = len(enc) if rng.random() < 0.5 else rng.randint(len(enc), 12)
        yield "src_chained_put %d %s" % (x, hexs(_rbuf(rng, L)))
        yield "src_chained_len %d" % x
        yield "src_chained_get %s %d" % (hexs(enc), rand_u64(rng))
        yield "src_chained_get32 %s %d" % (hexs(enc), rand_u64(rng) & U32)
        if len(enc) >= 2:
            yield "src_chained_get32fn %s %d" % (hexs(enc), rand_u64(rng) & U32)
        if x <= U32:
            yield "src_chained_put32 %d %s" % (x, hexs(_rbuf(rng, rng.randint(len(enc), 10))))
    for bs in _malformed(rng, n // 2):
        yield "src_chained_get %s %d" % (hexs(bs), rand_u64(rng))
        yield "src_chained_get32 %s %d" % (hexs(bs), rand_u64(rng) & U32)


def _o_src_chput(args, c):
    x, buf = int(args[0]), list(bytes.fromhex(args[1][1:]))
    if "fault" in c:
        return "fault=%s (access outside the exact-size buffer)" % c["fault"]
    if c.get("buf") in ("lo", "hi"):
        return "write outside the destination (%s)" % c["buf"]
    out, enc = list(bytes.fromhex(c["buf"][1:])), ref_chained(x)
    if int(c["ret"]) != len(enc) or out[:len(enc)] != enc:
        return "wrote %s (returned %s), the reference encoding of %d is %s" % (c["buf"], c["ret"], x, hexs(enc))
    if out[len(enc):] != buf[len(enc):]:
        return "bytes beyond the %d bytes of the encoding were modified" % len(enc)
    return None


def _o_src_chget(sat):
    def o(args, c):
        bs = list(bytes.fromhex(args[0][1:]))
        if "fault" in c:
            return "read beyond the varint (fault=%s)" % c["fault"]
        r = ref_chained_decode(bs)
        if r is None:
            return None
        w, v = r
        want = v if not sat else (v if v <= U32 else U32)
        if int(c["ret"]) != w or int(c["v"]) != want:
            return "decoded (%s,%s), the reference gives (%d,%d)" % (c["ret"], c["v"], w, want)
        return None
    return o


SRC_ORACLES.update({"src_chained_put": _o_src_chput, "src_chained_put32": _o_src_chput, "src_chained_len": _o_src_len,
                    "src_chained_get": _o_src_chget(False), "src_chained_get32": _o_src_chget(True),
                    "src_chained_get32fn": _o_src_chget(True)})


def classify_src(case, m):
    api = case.split(" ", 1)[0]
    if api.startswith("src_csimple_") or api.startswith("src_chained_"):
        return "%s-ret%s" % (api, m.get("ret"))
    return None


def _gen_c01(rng, tier):
    yield from generate_C01(rng, tier)
    yield from generate_src(random.Random(rng.getrandbits(48)), tier)
    yield from generate_src_chained(random.Random(rng.getrandbits(48)), tier)


def _gen_c04(rng, tier):
    yield from generate_C04(rng, tier)
    for c in generate_src_chained(random.Random(rng.getrandbits(48)), tier):
        if c.startswith("src_chained_put ") or c.startswith("src_chained_len "):
            yield c


def _classify_c01(case, m):
    return classify_src(case, m) or classify(case, m)


PARTS = {
    "C01": dict(coq_props=["Properties_C01_chained", "Properties_C01_csimple_src", "Properties_C01_chained_src"],
                files=FILES, rule=RULE_C01,
                generate=_gen_c01,
                oracles=dict(ORACLES_C01, **SRC_ORACLES), classify=_classify_c01, search=_search(generate_C01),
                trusted_base=SRC_TRUSTED,
                assumptions=["32-bit entry points are the macros varintChained_getVarint32/putVarint32 "
                             "(varintChainedGetVarint32 is compiled without its 1-byte case and is only called "
                             "on encodings of 2 bytes and more)"] + SRC_ASSUME,
                configs_quick=["pinned", "O0"]),
    "C04": dict(coq_props=["Properties_C04_chained", "Properties_C04_chained_src"], files=FILES, rule=RULE_C04,
                generate=_gen_c04, oracles=dict(ORACLES_C04, **SRC_ORACLES), classify=_classify_c01,
                search=_search(generate_C04), trusted_base=SRC_TRUSTED,
                assumptions=["canonical = the encoder's output is the shortest byte string the decoder-spec maps "
                             "to the value (the decoders themselves accept non-minimal strings)"],
                configs_quick=["pinned", "O0"]),
}
