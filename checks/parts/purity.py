"""purity — C15: results depend only on the arguments.

The same cases (encoders/decoders of the array, adaptive, float, bitmap parts)
are run by the pinned C driver three times:
  A  in file order, no poisoning;
  B  in a shuffled order, stack poisoned with 0x5A.. before every call and
     glibc MALLOC_PERTURB_ = 0x5A (fresh and freed heap blocks filled);
  C  each case preceded by another case of the same API (same element
     count where possible), stack poison 0xC3.., MALLOC_PERTURB_ = 0xC3;
  D  dead stack filled with 64-bit words equal to the case's element count
     (adversarial residue for "already analysed this count?" shortcuts).
All four outputs must be identical line by line and equal to the model's
line (the model is a pure function).  Thorough tier: the plain run is repeated
under valgrind memcheck; any use of an uninitialised value is a violation.
"""
import re
from vlib import *  # noqa

SOURCES = ["C02", "C06", "C07", "C08", "C16", "C03", "C14"]


def custom(ctx):
    cases = []
    per = 500 if ctx.tier == "quick" else 5000
    for prop in SOURCES:
        try:
            cases += [c for c in ctx.cases_from(prop, limit=per) if c not in cases]
        except SystemExit:
            continue
    # histories inside one case: APIs the parts provide to run the same call twice
    # on different data with everything else equal (same count, same meta object)
    try:
        extra = [c for c in ctx.cases_from("C06") if c.split(" ", 1)[0] in ("adaptive_with2", "adaptive_rt2")]
        ctx.rng.shuffle(extra)
        cases += [c for c in extra[:400] if c not in cases]
    except SystemExit:
        pass
    if not cases:
        try:
            cases = ctx.cases_from("C01", limit=per)
        except SystemExit:
            cases = []
    info = {"cases": len(cases), "modes": []}
    failures = []
    b = ctx.build("pinned")
    rcA, A, _ = ctx.run_c(b, cases)
    rcB, B, _ = ctx.run_c(b, cases, args=["--shuffle", str(ctx.seed % 100000), "--poison", "0x5A"],
                          env={"MALLOC_PERTURB_": "90"})
    rcC, C, _ = ctx.run_c(b, cases, args=["--pred", str(ctx.seed % 100000 + 1), "--poison", "0xC3"],
                          env={"MALLOC_PERTURB_": "195"})
    rcD, D, _ = ctx.run_c(b, cases, args=["--poison-count"], env={"MALLOC_PERTURB_": "17"})
    rcM, M, _ = ctx.run_model(cases)
    evals = 4 * len(cases)
    for name, X in (("shuffled+poison(0x5A)", B), ("same-api-predecessor+poison(0xC3)", C),
                    ("dead stack filled with the case's element count", D)):
        n = 0
        if len(X) != len(A):
            failures.append(("pinned", cases[min(len(X), len(cases) - 1)], "driver died in mode %s" % name, ""))
            continue
        for c, a, x in zip(cases, A, X):
            if a != x:
                n += 1
                if n == 1:
                    failures.append(("pinned", c, "result depends on history/residue (%s): plain run gave %r, this mode gave %r" % (name, a[-200:], x[-200:]), x))
        info["modes"].append("%s: %d differing lines" % (name, n))
    # builds in which every uninitialised local starts as zero / as a 0xFE pattern
    for cfgname in ("initzero", "initpat"):
        try:
            bi = ctx.build(cfgname)
        except RuntimeError as e:
            info["modes"].append("%s build not possible: %s" % (cfgname, str(e)[-120:]))
            continue
        rcI, I, _ = ctx.run_c(bi, cases)
        evals += len(cases)
        n = 0
        for c, a, x in zip(cases, A, I):
            if a != x:
                n += 1
                if n == 1:
                    failures.append((cfgname, c, "result depends on the initial content of an uninitialised local variable "
                                     "(build with -ftrivial-auto-var-init differs from the plain build): plain %r, %s %r" % (a[-200:], cfgname, x[-200:]), x))
        info["modes"].append("%s vs plain: %d differing lines" % (cfgname, n))
    nm = 0
    for c, a, m in zip(cases, A, M):
        if a != m:
            nm += 1
            if nm == 1:
                failures.append(("pinned", c, "the implementation's result differs from the pure model's (a function of the "
                                 "arguments alone): C gave %r, model %r" % (a[-200:], m[-200:]), a))
    info["modes"].append("plain vs model: %d differing lines" % nm)
    if ctx.tier == "thorough":
        try:
            bv = ctx.build("vg")
            sub = cases[:3000]
            rc, out, err = ctx.run_c(bv, sub, wrapper=["valgrind", "-q", "--error-exitcode=0", "--track-origins=yes",
                                                       "--errors-for-leak-kinds=none", "--leak-check=no"], timeout=7000)
            evals += len(sub)
            un = re.findall(r"(Conditional jump or move depends on uninitialised value|Use of uninitialised value|contains uninitialised byte)[^\n]*(?:\n==\d+==\s+(?:at|by) [^\n]*){0,4}", err)
            info["valgrind_uninit_reports"] = len(un)
            if un:
                where = re.findall(r"(?:at|by) 0x[0-9A-F]+: (\w+)", err)[:6]
                p = ctx.save("C15-valgrind-%d.txt" % ctx.seed, err[:20000])
                failures.append(("vg", "valgrind %s" % p, "result computed from uninitialised memory: %d memcheck report(s) near %s" % (len(un), where), ""))
        except (RuntimeError, FileNotFoundError) as e:
            info["modes"].append("valgrind run not possible: %s" % str(e)[-200:])
    info["distinct_nontrivial"] = len(set(cases))
    info["sample"] = A[0] if A else None
    info["evaluations"] = evals
    info["failures"] = failures
    return info


PARTS = {
    "C15": dict(coq_props=["Properties_C15", "Properties_C15_src"],
                files=["src/varintAdaptive.c", "src/varintFOR.c", "src/varintPFOR.c", "src/varintFloat.c",
                       "src/varintDict.c", "src/varintBitmap.c", "src/varintRLE.c", "src/varintBP128.c"],
                rule="every encoder/decoder case of the array/adaptive/float/bitmap parts executed in three histories "
                     "(plain; shuffled with stack+heap poison; preceded by another call of the same API with other "
                     "poison); all outputs identical and equal to the pure model; thorough adds valgrind memcheck",
                custom=custom,
                assumptions=["PARTIAL: residue-independence of the C code is observed (poison patterns, histories, "
                             "memcheck), not proved; the list of histories is the one exercised per run"],
                trusted_base=["glibc MALLOC_PERTURB_, valgrind 3.19 (thorough)",
                              "Properties_C15_src.v: gen/c2coq.py + coq/theories/CSem.v (the rendering of src/varintTagged.c "
                              "about which 'never undefined, no global read' is proved)"]),
}
