"""conc — C17: stateless codecs are safe to call concurrently.

Coq: Properties_C17 (interleaving semantics: disjoint write sets => race-free
and sequentially equivalent under every schedule; no writable globals, with
gen/Globals.v regenerated from the object files) and Properties_C17_codecs (the
theorem instantiated for the scalar codecs and for array codecs with shared
read-only inputs: destination windows of the proven C01/C03/C13 size suffice)
and Properties_C17_codecs2 (the same for the group codec, PFOR, BP128, the float
codec and the adaptive container, and for the in-place accessors of packed
arrays and bitstreams: calls that share no storage slot / word never race; calls
on different elements of the same slot are shown to race).
C: the correspondence driver's --threads mode: every case of the stateless
codec parts is executed sequentially, then by 16 threads at once (each thread
runs every case, different starting offsets); every thread's output line must
equal the sequential line; the ThreadSanitizer build must report no data race.
"""
import re
from vlib import *  # noqa

SOURCES = ["C01", "C02", "C04", "C06", "C07", "C09", "C11"]


def shared_cases(rng, tier):
    """cases for harness/c/drv_conc.c: library calls on inputs shared by all threads"""
    out = []
    n = 60 if tier == "quick" else 400
    for _ in range(n):
        k = rng.choice([1, 2, 3, 16, 255, 256, 257, 1000])
        dvals = sorted(set(rand_u64(rng) if rng.random() < 0.5 else rng.randint(0, 5000) for _ in range(k)))
        vals = [rng.choice(dvals) for _ in range(rng.randint(1, 300))]
        out.append("conc_dict %s %s" % (lst(dvals), lst(vals)))
    for _ in range(n):
        m = rng.choice([1, 2, 50, 128, 129, 1024, 1500, 4000])
        r = rng.random()
        if r < 0.3:
            vals = [rng.randint(0, 65535) for _ in range(m)]
        elif r < 0.5:
            base = rng.getrandbits(40)
            vals = sorted(base + rng.randint(0, 100000) for _ in range(m))
        elif r < 0.7:
            pool = [rand_u64(rng) for _ in range(rng.randint(1, 20))]
            vals = [rng.choice(pool) for _ in range(m)]
        else:
            vals = [rand_u64(rng) for _ in range(m)]
        out.append("conc_enc %s" % lst(vals))
    for _ in range(n):
        def bset():
            r = rng.random()
            if r < 0.3:
                return [rng.randint(0, 65535) for _ in range(rng.randint(0, 200))]
            if r < 0.6:
                return [rng.randint(0, 65535) for _ in range(rng.randint(4000, 5000))]
            a = rng.randint(0, 60000)
            return [(1 << 32) | (a << 16) | min(65535, a + rng.randint(1, 6000))] + [rng.randint(0, 65535) for _ in range(20)]
        out.append("conc_bm %s %s %s" % (lst(bset()), lst(bset()), lst([rng.randint(0, 65535) for _ in range(50)])))
    return out


def custom(ctx):
    cases = shared_cases(ctx.rng, ctx.tier)
    per = 400 if ctx.tier == "quick" else 4000
    for prop in SOURCES:
        try:
            cs = ctx.cases_from(prop, limit=per)
        except SystemExit:
            continue
        cases += cs
    ctx.rng.shuffle(cases)
    info = {"threads": 16, "cases": len(cases), "runs": []}
    failures = []
    evals = 0
    # plain build: result equivalence on many cases
    b = ctx.build("pinned")
    # sequential pass over the shared-input cases: their self-checks (round trips of the
    # thread-private variants, rotated lookups) must hold when nothing runs concurrently
    conc_cases = [c for c in cases if c.startswith("conc_")]
    rc, out, err = ctx.run_c(b, conc_cases)
    evals += len(conc_cases)
    flags = {}
    for o in out:
        for k, v in re.findall(r" (p_\w+|rot_rt)=(\d+)", o):
            flags.setdefault(k, [0, 0])[int(v != "0")] += 1
        if re.search(r" (p_\w+|rot_rt)=0", o):
            failures.append(("pinned", o.split(" ->")[0], "self-check of a shared-input case fails sequentially: " + o[-200:], o))
            break
    info["self_checks"] = {k: {"fail": v[0], "ok": v[1]} for k, v in sorted(flags.items())}
    rounds = 2 if ctx.tier == "quick" else 6
    for r in range(rounds):
        rc, out, err = ctx.run_c(b, cases, args=["--threads", "16"])
        evals += len(cases) * 17
        line = out[0] if out else "(no output rc=%s)" % rc
        info["runs"].append("pinned: " + line)
        # encoders given a destination of exactly the bytes they report (drv_frame.c):
        # a fault there is a store outside the call's own output.  (Faults of decoders
        # fed hostile streams without a length are not this property's business.)
        fl = [o for o in out[1:] if o.startswith("FAULT frame_put ")]
        if fl:
            case = fl[0][6:].split(" ->")[0]
            failures.append(("pinned", case, "a call accessed memory outside the exact-size buffers it was given (%s): with "
                             "adjacent outputs owned by other threads this is a data race" % (fl[0][-40:] if fl else line), fl[0] if fl else line))
            break
        m = re.search(r"mismatches=(\d+)", line)
        if rc != 0 or not m or int(m.group(1)) != 0:
            p = ctx.save("C17-cases-%d.txt" % ctx.seed, "\n".join(cases) + "\n")
            failures.append(("pinned", "--threads 16 %s" % p, "a call returned a different result when run concurrently: %s %s" % (line, " | ".join(out[1:3])), line))
            break
    # TSan build: data races
    tcases = [c for c in cases if c.startswith("conc_")] + [c for c in cases if not c.startswith("conc_")][: (1500 if ctx.tier == "quick" else 12000)]
    try:
        bt = ctx.build("tsan")
        rc, out, err = ctx.run_c(bt, tcases, args=["--threads", "16"],
                                 env={"TSAN_OPTIONS": "halt_on_error=0 report_signal_unsafe=0 exitcode=0"})
        evals += len(tcases) * 17
        races = len(re.findall(r"WARNING: ThreadSanitizer: data race", err))
        info["runs"].append("tsan: %s races=%d" % (out[0] if out else "(no output)", races))
        info["tsan_races"] = races
        if races:
            p = ctx.save("C17-tsan-cases-%d.txt" % ctx.seed, "\n".join(tcases) + "\n")
            where = re.findall(r"#0 (\S+) [^\n]*", err)[:4]
            failures.append(("tsan", "--threads 16 %s" % p, "ThreadSanitizer: %d data race report(s) at %s" % (races, where), "races=%d" % races))
        m = re.search(r"mismatches=(\d+)", out[0] if out else "")
        if not m or int(m.group(1)) != 0:
            p = ctx.save("C17-tsan-cases-%d.txt" % ctx.seed, "\n".join(tcases) + "\n")
            failures.append(("tsan", "--threads 16 %s" % p, "result differs under concurrency (tsan build): %s" % (out[:2],), ""))
    except RuntimeError as e:
        info["runs"].append("tsan build failed: %s" % str(e)[-200:])
    info["distinct_nontrivial"] = len(set(cases))
    info["sample"] = cases[0] if cases else None
    info["evaluations"] = evals
    info["failures"] = failures
    return info


PARTS = {
    "C17": dict(coq_props=["Properties_C17", "Properties_C17_codecs", "Properties_C17_codecs2"],
                files=["src/varintTagged.c", "src/varintExternal.c", "src/varintChained.c", "src/varintFOR.c"],
                rule="every case of the stateless codec parts run sequentially and then by 16 threads concurrently "
                     "(each thread runs all cases, staggered; then all threads run each shared-input case at the same moment, 6 times, with thread-dependent lookup order and thread-private shifted copies of the data); outputs must equal the sequential ones; TSan build must "
                     "report no race; gen/Globals.v (writable symbols of all 17 library objects) must be []",
                custom=custom,
                assumptions=["threads are scheduled by the OS: the interleavings exercised are those that happen; "
                             "the Coq theorem covers all interleavings of the model",
                             "that a C call's writes stay inside its outputs comes from the footprint checks of C01/C03/C13 and TSan"],
                trusted_base=["ThreadSanitizer (clang 14) for race observation on the C side"]),
}
