"""src_hdr_* — the header accessors of the array codecs, REAL C against the Gallina functions that gen/c2coq.py
regenerates from the current sources through gen/c2coq_hdr.py (coq/gen/Src_hdr_for.v, Src_hdr_bp128.v; proved
equal to the hand models for every buffer that holds the bytes read: coq/theories/HdrSrcFOR.v, HdrSrcBP128.v;
C16 restated about them: Properties_C16_dfg_hdr_src.v, Properties_C16_bp128_hdr_src.v).

  src_hdr_for   xHEX [min count width]   varintFORGetMinValue / GetCount / GetOffsetWidth / ReadMetadata(all six fields)
  src_hdr_bp128 xHEX [count]             varintBP128GetCount

The proofs are about the regenerated functions; these cases test the translator + CSem.v on them (a divergence =
translator bug).  The direct oracles decode the header in Python from the bytes alone (README format of the tagged
varint) and compare every value the C printed; for a valid encoding the case also carries the minimum / count / width
the encoder was given (ignored by both drivers), which the oracle compares as well — so a C accessor that finds the
count without decoding the length of the minimum fails here on a concrete buffer.

Every buffer is at least 32 bytes long (a FOR header is at most 9 + 1 + 9 bytes), so no read leaves it."""
from vlib import *  # noqa

M64 = 1 << 64
MINLEN = 32


def nbytes(v):
    w = 1
    while v >> 8:
        v >>= 8
        w += 1
    return w


def tagged_len(x):
    if x <= 240:
        return 1
    if x <= 2287:
        return 2
    if x <= 67823:
        return 3
    return 1 + max(3, nbytes(x))


def tag(x, width=None):
    """tagged varint bytes (README format); width forces a longer, non-canonical form (4..9)"""
    if width is None:
        if x <= 240:
            return [x]
        if x <= 2287:
            return [(x - 240) // 256 + 241, (x - 240) % 256]
        if x <= 67823:
            return [249, (x - 2288) // 256, (x - 2288) % 256]
        width = tagged_len(x)
    k = width - 1
    return [247 + k] + list(x.to_bytes(k, "big"))


def untag(b):
    """(length, value) of the tagged varint at the head of b, as the README defines it"""
    a = b[0]
    if a <= 240:
        return 1, a
    if a <= 248:
        return 2, 240 + 256 * (a - 241) + b[1]
    if a == 249:
        return 3, 2288 + 256 * b[1] + b[2]
    k = a - 247
    return k + 1, int.from_bytes(bytes(b[1:1 + k]), "big")


# values on both sides of every tagged length boundary (1|2: 240/241, 2|3: 2287/2288, 3|4: 67823/67824,
# 4|5: 2^24, 5|6: 2^32, 6|7: 2^40, 7|8: 2^48, 8|9: 2^56) and the extremes
def tagged_boundaries():
    s = {0, 1, 2, 127, 128, 255, 256, U64, U64 - 1}
    for b in (240, 2287, 67823, (1 << 24) - 1, (1 << 32) - 1, (1 << 40) - 1, (1 << 48) - 1, (1 << 56) - 1):
        for d in (-1, 0, 1, 2):
            s.add(b + d)
    for a in range(241, 249):       # every two-byte tag, both ends of its range
        s.add(240 + 256 * (a - 241))
        s.add(240 + 256 * (a - 241) + 255)
    return sorted(v for v in s if 0 <= v <= U64)


def pad(rng, b):
    n = max(MINLEN - len(b), rng.choice([0, 0, 1, 7]))
    return b + [rng.randint(0, 255) for _ in range(n)]


def for_encoding(xs):
    """what varintFOREncode writes for xs (meta == NULL): (bytes, min, count, width)"""
    mn, mx = min(xs), max(xs)
    w = nbytes(mx - mn)
    body = []
    for x in xs:
        body += list((x - mn).to_bytes(w, "little"))
    return tag(mn) + [w] + tag(len(xs)) + body, mn, len(xs), w


def gen_for(rng, tier):
    k = 1 if tier == "quick" else 10
    B = tagged_boundaries()
    # 1. valid encodings of small arrays: every boundary minimum x every offset width that fits above it
    for mn in B:
        for w in range(1, 9):
            for _ in range(k):
                lo = 0 if w == 1 else 1 << (8 * (w - 1))
                hi = (1 << (8 * w)) - 1
                if mn + lo > U64:
                    continue
                rngmax = min(hi, U64 - mn)
                top = mn + rng.randint(lo, rngmax)
                n = rng.choice([1, 2, 3, 5]) if w > 1 or rng.random() < 0.8 else 1
                xs = [mn, top] + [rng.randint(mn, top) for _ in range(max(0, n - 2))]
                if n == 1:
                    xs = [mn]
                rng.shuffle(xs)
                enc, m, c, ww = for_encoding(xs)
                yield "src_hdr_for %s %d %d %d" % (hexs(pad(rng, enc)), m, c, ww)
    # 2. headers announcing counts on both sides of every tagged boundary (the accessors read the header only), after
    #    minima of every encoded length; canonical and over-long (non-canonical, 4..9 bytes) forms of both varints
    mins = [0, 240, 241, 2287, 2288, 67823, 67824, (1 << 24) - 1, 1 << 24, (1 << 32) - 1, 1 << 32, 1 << 40, 1 << 48,
            1 << 56, U64]
    for mn in mins:
        for cnt in B:
            w = rng.choice([1, 2, 3, 4, 5, 6, 7, 8, 0, 9, 255])
            yield "src_hdr_for %s %d %d %d" % (hexs(pad(rng, tag(mn) + [w] + tag(cnt))), mn, cnt, w)
    for _ in range(60 * k):
        mn, cnt = rng.choice(B), rng.choice(B)
        mw = rng.choice([None] + [x for x in range(4, 10) if x - 1 >= nbytes(mn)])
        cw = rng.choice([None] + [x for x in range(4, 10) if x - 1 >= nbytes(cnt)])
        w = rng.randint(0, 255)
        yield "src_hdr_for %s %d %d %d" % (hexs(pad(rng, tag(mn, mw) + [w] + tag(cnt, cw))), mn, cnt, w)
    # 3. arbitrary bytes: every first byte, and every byte value where the count varint starts
    for a in range(256):
        b = [a] + [rng.randint(0, 255) for _ in range(MINLEN - 1 + rng.choice([0, 3]))]
        yield "src_hdr_for %s" % hexs(b)
        b = [a] + [rng.randint(0, 255) for _ in range(MINLEN - 1)]
        ml = untag(b)[0]
        b[ml + 1] = rng.choice([240, 241, 248, 249, 250, 251, 252, 253, 254, 255])
        yield "src_hdr_for %s" % hexs(b)
    for c in range(256):
        for a in (0, 241, 249, 252, 255):
            b = [a] + [rng.randint(0, 255) for _ in range(MINLEN - 1)]
            b[untag(b)[0] + 1] = c
            yield "src_hdr_for %s" % hexs(b)
    for _ in range(300 * k):
        yield "src_hdr_for %s" % hexs([rng.randint(0, 255) for _ in range(rng.randint(MINLEN, MINLEN + 16))])
    yield "src_hdr_for %s" % hexs([255] * MINLEN)
    yield "src_hdr_for %s" % hexs([0] * MINLEN)


def gen_bp128(rng, tier):
    k = 1 if tier == "quick" else 10
    for cnt in tagged_boundaries():
        yield "src_hdr_bp128 %s %d" % (hexs(pad(rng, tag(cnt))), cnt)
        cw = rng.choice([x for x in range(4, 10) if x - 1 >= nbytes(cnt)])
        yield "src_hdr_bp128 %s %d" % (hexs(pad(rng, tag(cnt, cw))), cnt)
    for a in range(256):
        yield "src_hdr_bp128 %s" % hexs([a] + [rng.randint(0, 255) for _ in range(MINLEN - 1)])
    for _ in range(100 * k):
        yield "src_hdr_bp128 %s" % hexs([rng.randint(0, 255) for _ in range(rng.randint(MINLEN, MINLEN + 16))])


def generate_C16(rng, tier):
    yield from gen_for(rng, tier)
    yield from gen_bp128(rng, tier)


# ----------------------------------------------------------------- direct oracles (on the C output alone)

def o_for(args, c):
    if "fault" in c:
        return "fault %s on a buffer of %d bytes" % (c["fault"], (len(args[0]) - 1) // 2)
    b = list(bytes.fromhex(args[0][1:]))
    ml, mn = untag(b)
    w = b[ml]
    cl, cnt = untag(b[ml + 1:])
    if len(args) >= 4:
        emn, ecnt, ew = int(args[1]), int(args[2]), int(args[3])
        if (emn, ecnt, ew & 255) != (mn, cnt, w):
            return "case builder and header decoder disagree (%r vs %r)" % ((emn, ecnt, ew), (mn, cnt, w))
    if c.get("min") != str(mn):
        return "GetMinValue should be %d (tagged varint of %d bytes at offset 0), got %s" % (mn, ml, c.get("min"))
    if c.get("count") != str(cnt):
        return "GetCount should be %d (tagged varint of %d bytes at offset %d: after the %d-byte minimum and the width " \
               "byte), got %s" % (cnt, cl, ml + 1, ml, c.get("count"))
    if c.get("width") != str(w):
        return "GetOffsetWidth should be %d (byte at offset %d), got %s" % (w, ml, c.get("width"))
    want = "%d,%d,%d,%d,%d,%d" % (mn, mn, 0, cnt, (ml + 1 + cl + cnt * w) % M64, w)
    if c.get("meta") != want:
        return "ReadMetadata should fill min,max,range,count,encodedSize,offsetWidth = %s, got %s" % (want, c.get("meta"))
    return None


def o_bp128(args, c):
    if "fault" in c:
        return "fault %s on a buffer of %d bytes" % (c["fault"], (len(args[0]) - 1) // 2)
    b = list(bytes.fromhex(args[0][1:]))
    l, cnt = untag(b)
    if len(args) >= 2 and int(args[1]) != cnt:
        return "case builder and header decoder disagree (%s vs %d)" % (args[1], cnt)
    if c.get("count") != str(cnt):
        return "varintBP128GetCount should be %d (tagged varint of %d bytes), got %s" % (cnt, l, c.get("count"))
    return None


# ----------------------------------------------------------------- parts

def classify(case, m):
    t = case.split()
    if not t[0].startswith("src_hdr_"):
        return None
    b = list(bytes.fromhex(t[1][1:]))
    ml = untag(b)[0]
    if t[0] == "src_hdr_bp128":
        return "hdr_bp128-len%d" % ml
    cl = untag(b[ml + 1:])[0]
    return "hdr_for-min%d-count%d%s" % (ml, cl, "" if len(t) > 2 else "-raw")


def search(rng, divergent):
    """a fresh batch (other random paddings / arrays) of the same boundary-aimed families"""
    yield from generate_C16(rng, "quick")


TRUSTED = ["gen/c2coq.py + CSem.v for the *_hdr_src theorems: src_hdr_* cases execute the regenerated header accessors "
           "(coq/gen/Src_hdr_*.v via gen/c2coq_hdr.py, extracted through HdrSrcRun.v) against the real C on buffers that "
           "hold every byte read — a test of the translator on these functions, not a proof",
           "python re-statement of the tagged varint (README format) used by the stream builders and the direct oracles"]

PARTS = {
    "C16": dict(coq_props=["Properties_C16_dfg_hdr_src", "Properties_C16_bp128_hdr_src"],
                files=["src/varintFOR.c", "src/varintFOR.h", "src/varintBP128.c", "src/varintTagged.c"],
                rule="src_hdr_for: valid encodings of arrays of 1..5 values with minima on both sides of every tagged length "
                     "boundary (240/241, 2287/2288, 67823/67824, 2^24, 2^32, 2^40, 2^48, 2^56, 2^64-1) at every offset width "
                     "1..8; headers announcing counts on both sides of the same boundaries after minima of every encoded "
                     "length, canonical and over-long forms; arbitrary bytes with every first byte and every byte value at "
                     "the start of the count; src_hdr_bp128: counts on the same boundaries, every first byte, random; every "
                     "buffer >= 32 bytes",
                generate=generate_C16, oracles={"src_hdr_for": o_for, "src_hdr_bp128": o_bp128}, classify=classify,
                search=search, trusted_base=TRUSTED, configs_quick=["pinned", "O0"],
                assumptions=["src_hdr_*: the buffer holds every byte the accessor reads (>= 32 bytes; a FOR header is at "
                             "most 9 + 1 + 9 bytes)"]),
}
