"""Elias gamma/delta codes (src/varintElias.{c,h}): parts of C02 C03 C04 C13 C14 C16."""
from vlib import *  # noqa

FILES = ["src/varintElias.c", "src/varintElias.h"]

# ------------------------------------------------------------------ reference (independent of model and C)


def g_ref(x):
    """Elias gamma code of x >= 1 as a '0'/'1' string: floor(log2 x) zeros, then x in binary"""
    return "0" * (x.bit_length() - 1) + bin(x)[2:]


def d_ref(x):
    """Elias delta: gamma(bit length of x), then x in binary without its leading 1"""
    return g_ref(x.bit_length()) + bin(x)[3:]


def code_ref(kind, x):
    return g_ref(x) if kind == "g" else d_ref(x)


def pack_ref(bits):
    """MSB-first packing, zero padded"""
    bits = bits + "0" * (-len(bits) % 8)
    return bytes(int(bits[i:i + 8], 2) for i in range(0, len(bits), 8))


def max_ref(kind, n):
    return (n * (127 if kind == "g" else 76) + 7) // 8


BIG = 8192


def show_bytes(b):
    if len(b) <= BIG:
        return hexs(b)
    h = 7
    for x in b:
        h = (h * 31 + x) % 1000000007
    return "h%d:%s" % (h, hexs(b[:32])[1:])


def L(s):
    return [int(x) for x in s[1:].split(",")] if len(s) > 1 else []


# ------------------------------------------------------------------ value / array generators

def value_pool():
    s = {1, 2, 3, U64}
    for k in range(0, 64):
        for d in (-1, 0, 1):
            s.add((1 << k) + d)
    for v in scraped_literals(FILES):
        s.add(v)
    return sorted(v for v in s if 1 <= v <= U64)


def rand_val(rng):
    v = rand_u64(rng)
    return v if v >= 1 else 1


def geometric(rng):
    k = 1
    while rng.random() < 0.5 and k < 64:
        k += 1
    return rng.getrandbits(k) | (1 << (k - 1))


QUICK_LENS = [1, 2, 3, 4, 7, 8, 9, 15, 16, 17, 31, 33, 63, 64, 65, 127, 128, 129, 240, 241, 255, 256, 257, 300]
THOROUGH_LENS = [2287, 2288, 4095, 4096, 4097, 65535, 65536]


def arrays(rng, tier, reps=1):
    """value lists (all >= 1) aimed at the worst cases of both codes and at byte/bit alignment"""
    pool = value_pool()
    lens = list(QUICK_LENS) + (THOROUGH_LENS if tier == "thorough" else [])
    # every length 1..40 with small values (bit positions sweep every alignment)
    for n in range(0, 41):
        yield [geometric(rng) for _ in range(n)]
    # single boundary values and adjacent pairs
    for v in pool:
        yield [v]
    for _ in range(60 * reps):
        yield [rng.choice(pool) for _ in range(rng.randint(2, 12))]
    for n in lens:
        big = n > 300
        kinds = ["max", "geom", "mixed"] if big else ["max", "top", "ones", "geom", "mixed", "pool", "width"]
        for kind in kinds:
            if kind == "max":
                xs = [U64] * n
            elif kind == "top":
                xs = [rng.getrandbits(63) | (1 << 63) for _ in range(n)]
            elif kind == "ones":
                xs = [1] * n
            elif kind == "geom":
                xs = [geometric(rng) for _ in range(n)]
            elif kind == "mixed":
                xs = [rand_val(rng) for _ in range(n)]
            elif kind == "pool":
                xs = [rng.choice(pool) for _ in range(n)]
            else:
                k = rng.randint(1, 64)
                xs = [rng.getrandbits(k) | (1 << (k - 1)) for _ in range(n)]
            yield xs
    for _ in range(40 * reps):
        n = rng.randint(1, 300)
        k = rng.randint(1, 64)
        yield [max(1, rng.getrandbits(rng.randint(1, k))) for _ in range(n)]


def gen_enc(rng, tier):
    for xs in arrays(rng, tier, 1 if tier == "quick" else 6):
        for kind in "gd":
            yield "elias_enc %s %s %d" % (kind, lst(xs), rng.randint(0, 15))


def gen_val(rng, tier):
    for v in value_pool():
        yield "elias_val %d" % v
    for _ in range(1500 if tier == "quick" else 40000):
        yield "elias_val %d" % rand_val(rng)


def gen_bw(rng, tier):
    yield "elias_bw L L"
    for nb in range(0, 65):
        yield "elias_bw L%d L%d" % (U64, nb)
        yield "elias_bw L%d,1 L%d,1" % (rng.getrandbits(64), nb)
        yield "elias_bw L1,%d L1,%d" % ((1 << nb) - 1 if nb else 0, nb)
    for _ in range(400 if tier == "quick" else 8000):
        n = rng.randint(1, 12)
        nbs = [rng.choice([0, 1, 1, 2, 3, 7, 8, 9, 31, 32, 33, 63, 64, rng.randint(0, 64)]) for _ in range(n)]
        vs = [rng.getrandbits(64) if rng.random() < 0.5 else rng.getrandbits(max(nb, 1)) for nb in nbs]
        yield "elias_bw %s %s" % (lst(vs), lst(nbs))


def generate_C02(rng, tier):
    yield from gen_enc(rng, tier)
    yield from gen_val(rng, tier)


def generate_C03(rng, tier):
    # worst cases of the bounds first: x >= 2^63 takes 127 gamma bits / 76 delta bits
    for n in list(range(1, 20)) + [63, 64, 65, 127, 128, 129, 255, 256, 300]:
        for v in (U64, 1 << 63, (1 << 63) + 1, (1 << 63) - 1):
            for kind in "gd":
                yield "elias_enc %s %s %d" % (kind, lst([v] * n), rng.randint(0, 15))
    yield from gen_enc(rng, tier)


def generate_C04(rng, tier):
    yield from gen_val(rng, tier)
    yield from gen_bw(rng, tier)
    pool = value_pool()
    for i in range(len(pool) - 1):
        for kind in "gd":
            yield "elias_enc %s %s 0" % (kind, lst([pool[i], pool[i + 1]]))
    for xs in arrays(rng, "quick", 1):
        if len(xs) <= 130:
            for kind in "gd":
                yield "elias_enc %s %s %d" % (kind, lst(xs), rng.randint(0, 15))


def generate_C16(rng, tier):
    yield from gen_enc(rng, tier)
    pool = value_pool()
    yield "elias_ben L"
    for _ in range(300 if tier == "quick" else 5000):
        n = rng.randint(1, 40)
        r = rng.random()
        if r < 0.3:
            xs = [geometric(rng) for _ in range(n)]
        elif r < 0.5:
            xs = [rng.choice(pool) for _ in range(n)]
        elif r < 0.7:
            # around the break-even point: 64 bits per value
            k = rng.choice([30, 31, 32, 33, 34, 51, 52, 53, 54, 55, 56, 57, 58])
            xs = [rng.getrandbits(k) | (1 << (k - 1)) for _ in range(n)]
        else:
            xs = [rand_val(rng) for _ in range(n)]
        if rng.random() < 0.15:
            xs[rng.randrange(n)] = 0
        yield "elias_ben %s" % lst(xs)


def generate_C13(rng, tier):
    pool = value_pool()
    for n in list(range(0, 13)) + [63, 64, 65, 128, 300]:
        for rep in range(3 if n < 13 else 1):
            xs = [geometric(rng) if rng.random() < 0.6 else rng.choice(pool) for _ in range(n)]
            caps = range(0, n + 3) if n <= 12 else [0, 1, n // 2, n - 1, n, n + 1, n + 7]
            for cap in caps:
                for kind in "gd":
                    yield "elias_cap %s %s %d" % (kind, lst(xs), cap)
    # constant arrays: repeated codes that line up with byte boundaries (value 1 gives
    # all-ones bytes) — the shapes a run/byte fast path would special-case — at every
    # capacity around a byte's worth of values (added after seeded change C14-2)
    for v in (1, 2, 3, 4, 15, 16, 255, 256):
        for n in (8, 9, 16, 17, 24, 40):
            for cap in sorted(set([0, 1, 2, 7, 8, 9, 15, 16, n - 1, n])):
                for kind in "gd":
                    yield "elias_cap %s %s %d" % (kind, lst([v] * n), cap)
    for _ in range(300 if tier == "quick" else 6000):
        n = rng.randint(1, 300 if tier == "quick" else 3000)
        xs = [rand_val(rng) if rng.random() < 0.3 else geometric(rng) for _ in range(n)]
        cap = rng.choice([0, 1, n - 1, n, n + 1, rng.randint(0, n)])
        yield "elias_cap %s %s %d" % (rng.choice("gd"), lst(xs), cap)
    if tier == "thorough":
        for n in THOROUGH_LENS:
            xs = [geometric(rng) for _ in range(n)]
            for cap in (0, n - 1, n, n + 1):
                for kind in "gd":
                    yield "elias_cap %s %s %d" % (kind, lst(xs), cap)


def bits_to_hex(bits):
    return hexs(pack_ref(bits))


def generate_C14(rng, tier):
    pool = value_pool()
    caps = [0, 1, 2, 8, 64, 300]
    # all-zero / all-one / single-bit bytes of every small length and every declared bit count
    for n in range(0, 20):
        for fill in (0x00, 0xff, 0x01, 0x80):
            for bits in sorted(set([0, 1, 7, 8 * n - 7, 8 * n - 1, 8 * n, 8 * n + 5] + [rng.randint(0, 8 * n)])):
                if bits < 0:
                    continue
                for kind in "gd":
                    yield "elias_dec %s %s %d %d" % (kind, hexs(bytes([fill]) * n), bits, rng.choice(caps))
    # the ledger's witness and its relatives
    for kind in "gd":
        yield "elias_dec %s x00 8 8" % kind
        yield "elias_dec %s x01 8 8" % kind
        yield "elias_dec %s x0000000000000000 64 4" % kind
        yield "elias_dec %s x000000000000000001 72 4" % kind
        yield "elias_dec %s x0000000000000000ffffffffffffffff 128 4" % kind
        yield "elias_dec %s x00000000000000017fffffffffffffff 127 4" % kind
    # delta streams whose gamma-coded length field is too large (65, 2^k, 2^64-1) or whose payload is missing
    for ln in [64, 65, 66, 127, 128, 255, 1 << 20, 1 << 40, (1 << 63), U64]:
        for extra in ("", "1" * 70, "0" * 70):
            bits = g_ref(ln) + extra
            for cut in (0, 1, 9):
                nb = max(0, len(bits) - cut)
                yield "elias_dec d %s %d %d" % (bits_to_hex(bits), nb, 4)
                yield "elias_dec g %s %d %d" % (bits_to_hex(bits), nb, 4)
    # every truncation of valid encodings
    for _ in range(40 if tier == "quick" else 600):
        n = rng.randint(1, 6)
        xs = [rng.choice(pool) if rng.random() < 0.5 else geometric(rng) for _ in range(n)]
        kind = rng.choice("gd")
        bits = "".join(code_ref(kind, x) for x in xs)
        hx = bits_to_hex(bits)
        step = 1 if len(bits) < 200 else 7
        for nb in range(0, len(bits) + 1, step):
            yield "elias_dec %s %s %d %d" % (kind, hx, nb, rng.choice([n, n, n + 1, max(0, n - 1)]))
        yield "elias_dec %s %s %d %d" % (kind, hx, 8 * ((len(bits) + 7) // 8), n + 3)
    # random bytes, bit counts not multiples of 8
    for _ in range(1500 if tier == "quick" else 40000):
        n = rng.randint(0, 40 if rng.random() < 0.9 else 3000)
        r = rng.random()
        if r < 0.4:
            b = bytes(rng.getrandbits(8) for _ in range(n))
        elif r < 0.7:   # sparse ones: long zero runs
            b = bytes((1 << rng.randint(0, 7)) if rng.random() < 0.12 else 0 for _ in range(n))
        else:           # mostly ones
            b = bytes(0xff ^ ((1 << rng.randint(0, 7)) if rng.random() < 0.3 else 0) for _ in range(n))
        bits = rng.choice([8 * n, rng.randint(0, 8 * n), max(0, 8 * n - rng.randint(1, 7))])
        yield "elias_dec %s %s %d %d" % (rng.choice("gd"), hexs(b), bits, rng.choice(caps + [8 * n + 1]))


# ------------------------------------------------------------------ direct oracles (property statement on the C output)

def _fault(c):
    return ("fault=" + c["fault"]) if "fault" in c else None


def o_enc_C02(args, c):
    xs = L(args[1])
    if _fault(c):
        return _fault(c)
    if int(c["n"]) != len(xs) or c["rt"] != "ok":
        return "decoding the %d reported bytes / %s bits with count %d gave n=%s %s" % (
            int(c["ret"]), c["tbits"], len(xs), c["n"], c["rt"][:80])
    if int(c["n8"]) != len(xs) or c["rt8"] != "ok":
        return "decoding the reported bytes (8*ret bits declared) with the original count gave n=%s %s" % (c["n8"], c["rt8"][:80])
    if c["oguard"] != "ok":
        return "decoder wrote outside values[0..count)"
    return None


def o_val_C02(args, c):
    x = int(args[0])
    if _fault(c):
        return _fault(c)
    if int(c["gv"]) != x:
        return "gamma decode(encode(%d)) = %s" % (x, c["gv"])
    if int(c["dv"]) != x:
        return "delta decode(encode(%d)) = %s" % (x, c["dv"])
    return None


def o_enc_C03(args, c):
    kind, xs = args[0], L(args[1])
    if _fault(c):
        return _fault(c)
    adv = max_ref(kind, len(xs))
    if int(c["max"]) != adv:
        return "MaxBytes(%d) = %s, documented formula gives %d" % (len(xs), c["max"], adv)
    if c["guard"] != "ok":
        return "encoder wrote outside the %d advertised bytes (guard=%s)" % (adv, c["guard"])
    if int(c["ret"]) > adv:
        return "returned length %s > advertised %d" % (c["ret"], adv)
    return None


def o_enc_C04(args, c):
    kind, xs = args[0], L(args[1])
    if _fault(c):
        return _fault(c)
    want = show_bytes(pack_ref("".join(code_ref(kind, x) for x in xs)))
    if c["bytes"] != want:
        return "bytes %s differ from the reference %s code %s" % (c["bytes"][:80], kind, want[:80])
    return None


def o_val_C04(args, c):
    x = int(args[0])
    if _fault(c):
        return _fault(c)
    for kind in "gd":
        bits = code_ref(kind, x)
        if int(c[kind + "w"]) != len(bits) or int(c[kind + "bits"]) != len(bits) or int(c[kind + "pos"]) != len(bits):
            return "%s code of %d has %d bits; Encode returned %s, Bits() %s, bitPos %s" % (
                kind, x, len(bits), c[kind + "w"], c[kind + "bits"], c[kind + "pos"])
        if c[kind + "b"] != hexs(pack_ref(bits)):
            return "%s code of %d is %s, reference %s" % (kind, x, c[kind + "b"], hexs(pack_ref(bits)))
    return None


def o_bw_C04(args, c):
    vs, nbs = L(args[0]), L(args[1])
    if _fault(c):
        return _fault(c)
    bits = "".join(bin((v & ((1 << nb) - 1)) | (1 << nb))[3:] for v, nb in zip(vs, nbs))
    if c["bytes"] != hexs(pack_ref(bits)) or int(c["pos"]) != len(bits):
        return "bit writer produced %s pos=%s, MSB-first packing is %s (%d bits)" % (
            c["bytes"], c["pos"], hexs(pack_ref(bits)), len(bits))
    if L(c["rd"]) != [v & ((1 << nb) - 1) for v, nb in zip(vs, nbs)]:
        return "bit reader returned %s" % c["rd"]
    return None


def o_cap_C13(args, c):
    xs, cap = L(args[1]), int(args[2])
    if _fault(c):
        return _fault(c)
    if c["guard"] != "ok":
        return "decoder wrote outside values[0..%d) (guard=%s)" % (cap, c["guard"])
    if int(c["n"]) > cap:
        return "decoder reports %s elements with capacity %d" % (c["n"], cap)
    if c["pre"] != "ok":
        return "capacity %d < count %d: result %s is not a prefix of the input" % (cap, len(xs), c["pre"][:80])
    return None


def o_dec_C14(args, c):
    cap = int(args[3])
    if _fault(c):
        return "declared %s bits of %s: %s (read beyond the declared input or crashed)" % (args[2], args[1][:40], _fault(c))
    if c["guard"] != "ok":
        return "decoder wrote outside values[0..%d)" % cap
    if int(c["n"]) > cap:
        return "decoder reports %s elements with capacity %d" % (c["n"], cap)
    return None


def o_enc_C16(args, c):
    kind, xs = args[0], L(args[1])
    if _fault(c):
        return _fault(c)
    total = sum(len(code_ref(kind, x)) for x in xs)
    if int(c["count"]) != len(xs):
        return "meta.count %s, %d values encoded" % (c["count"], len(xs))
    if int(c["tbits"]) != total:
        return "meta.totalBits %s, the codes have %d bits" % (c["tbits"], total)
    if int(c["ebytes"]) != (total + 7) // 8 or int(c["ebytes"]) != int(c["ret"]):
        return "meta.encodedBytes %s, ceil(totalBits/8) = %d, returned %s" % (c["ebytes"], (total + 7) // 8, c["ret"])
    if int(c["n"]) != int(c["count"]):
        return "meta.count %s but decoding totalBits yields %s elements" % (c["count"], c["n"])
    if c["nometa"] != "same":
        return "encoding differs when meta == NULL"
    return None


def o_ben_C16(args, c):
    xs = L(args[0])
    if _fault(c):
        return _fault(c)
    for kind in "gd":
        if any(x < 1 for x in xs):
            want = 0
        else:
            want = int((sum(len(code_ref(kind, x)) for x in xs) + 7) // 8 < 8 * len(xs))
        if int(c[kind]) != want:
            return "%s IsBeneficial = %s, encoded size vs raw says %d" % (kind, c[kind], want)
    return None


# ------------------------------------------------------------------ classification / search

def classify(case, m):
    t = case.split()
    api = t[0]
    if api == "elias_enc":
        n = len(L(t[2]))
        if n == 0:
            return "trivial"
        tb = int(m.get("tbits", "0"))
        return "%s-n%s-%s" % (t[1], "1" if n == 1 else "le16" if n <= 16 else "le128" if n <= 128 else "big",
                              "aligned" if tb % 8 == 0 else "padded")
    if api == "elias_val":
        return "val-%dbit" % int(t[1]).bit_length()
    if api == "elias_bw":
        return "bw" if len(t[1]) > 1 else "trivial"
    if api == "elias_cap":
        n, cap = len(L(t[2])), int(t[3])
        return "cap<count" if cap < n else "cap=count" if cap == n else "cap>count"
    if api == "elias_dec":
        if int(t[4]) == 0 or int(t[3]) == 0:
            return "trivial"
        return "dec-%s-n%s" % (t[1], "0" if m.get("n") == "0" else "+")
    if api == "elias_ben":
        return "ben" if len(t[1]) > 1 else "trivial"
    return None


def search(rng, divergent_cases):
    """neighbourhood of the divergent cases (values +-1, shorter lists, nearby bit counts / capacities) + fresh batch"""
    for c in divergent_cases[:20]:
        t = c.split()
        if t[0] == "elias_val":
            x = int(t[1])
            for d in range(-3, 4):
                if 1 <= x + d <= U64:
                    yield "elias_val %d" % (x + d)
        elif t[0] in ("elias_enc", "elias_cap"):
            xs = L(t[2])
            for k in range(1, min(len(xs), 8) + 1):
                for kind in "gd":
                    yield "elias_enc %s %s 0" % (kind, lst(xs[:k]))
                    yield "elias_cap %s %s %d" % (kind, lst(xs[:k]), max(0, k - 1))
            for x in xs[:8]:
                yield "elias_val %d" % x
        elif t[0] == "elias_dec":
            bits, cap = int(t[3]), int(t[4])
            for db in range(-9, 10):
                if bits + db >= 0:
                    for kind in "gd":
                        yield "elias_dec %s %s %d %d" % (kind, t[2], bits + db, cap)
    r2 = random.Random(rng.getrandbits(32))
    for g in (generate_C02, generate_C04, generate_C13, generate_C14, generate_C16):
        yield from g(r2, "quick")


ASSUME = ["values >= 1 (0 is outside the codes' domain; the release build writes one 0 bit for it, the debug build asserts)",
          "arrays fit in memory: count*127+7 < 2^64 and declared bit counts < 2^64-64, so size_t bit counters do not wrap",
          "the destination holds varintElias{Gamma,Delta}MaxBytes(count) bytes, the whole of which the encoder zeroes"]
TRUSTED = ["writer buffer modelled as (completed bytes, byte under the cursor, zeros): relies on memset + monotone bitPos (EliasBits.v header)"]


# *_src theorems (C03: the MaxBytes bounds, C04: floorLog2 / GammaBits): about the Gallina renderings of the leaf
# functions regenerated from the current source on every run (gen/c2coq_leaf.py -> coq/gen/Src_leaf_elias.v),
# proved equal to the hand model in LeafSrcElias.v
SRC_PROPS = {"C03": ["Properties_C03_elias_src"], "C04": ["Properties_C04_elias_src"]}
SRC_TRUSTED = ["gen/c2coq.py + CSem.v for the *_src theorems (C-to-Gallina translator, clang 14 typed AST -> "
               "coq/gen/Src_leaf_elias.v via gen/c2coq_leaf.py; subset and assumptions in the translator's docstring; "
               "LP64, two's complement); the renderings are tied to the compiled C by the translator, not by proof"]


def _part(prop, gen, oracles, rule):
    return dict(coq_props=["Properties_%s_elias" % prop] + SRC_PROPS.get(prop, []), files=FILES, rule=rule,
                generate=gen, oracles=oracles, classify=classify, search=search, assumptions=ASSUME,
                trusted_base=TRUSTED + (SRC_TRUSTED if prop in SRC_PROPS else []),
                configs_quick=["pinned", "O0"])


PARTS = {
    "C02": _part("C02", generate_C02, {"elias_enc": o_enc_C02, "elias_val": o_val_C02},
                 "gamma and delta arrays of every length 0..40 and 63..300 (thorough: 2287/2288, 4095..4097, 65535/65536) "
                 "with all-max, top-bit, all-ones, geometric, mixed-width, boundary-pool values (1,2,3,2^k-1,2^k,2^k+1, "
                 "UINT64_MAX, literals of varintElias.{c,h}); decode from an exact-size guard-paged copy with totalBits "
                 "and with 8*bytes declared; single values through the writer/reader API; non-trivial = at least one value"),
    "C03": _part("C03", generate_C03, {"elias_enc": o_enc_C03},
                 "destination of exactly MaxBytes(count) bytes inside canaries; worst cases x >= 2^63 (127 gamma / 76 "
                 "delta bits each) for counts 1..19 and around 64/128/256, then the C02 arrays"),
    "C04": _part("C04", generate_C04, {"elias_enc": o_enc_C04, "elias_val": o_val_C04, "elias_bw": o_bw_C04},
                 "bits of every boundary value and random value compared with gamma(x)=0^floor(log2 x).bin(x), "
                 "delta(x)=gamma(bitlen x).bin(x)[1:] packed MSB-first; adjacent boundary pairs as 2-element arrays; "
                 "raw bit writer/reader with every nBits 0..64"),
    "C13": _part("C13", generate_C13, {"elias_cap": o_cap_C13},
                 "valid encodings decoded into exactly cap slots inside canaries for cap = 0..count+2 (small arrays) "
                 "and 0,1,count-1,count,count+1 (larger)"),
    "C14": _part("C14", generate_C14, {"elias_dec": o_dec_C14},
                 "arbitrary bytes in an exact-size guard-paged buffer of ceil(bits/8) bytes: all-zero/all-one/sparse "
                 "bytes, every truncation of valid encodings, delta length fields 64..2^64-1, random bytes with bit "
                 "counts not multiples of 8; non-trivial = bits > 0 and capacity > 0"),
    "C16": _part("C16", generate_C16, {"elias_enc": o_enc_C16, "elias_ben": o_ben_C16},
                 "meta.count/totalBits/encodedBytes against the reference code lengths on the C02 arrays; "
                 "IsBeneficial against ceil(sum bits/8) < 8*count, including zeros and the 64-bits-per-value break-even"),
}
