"""split — varintSplit.h and varintSplitFull16.h (header-only macro families)
contributions to C01 (round trip, agreeing bounded lengths, frame) and C04
(byte-exact documented format, canonical, length-monotone, documented maxima).
"""
from vlib import *  # noqa

FILES = ["src/varintSplit.h", "src/varintSplitFull16.h", "src/varintExternal.h"]
DOC_FILES = ["README.md"]

RULE_C01 = ("values on both sides of every level boundary of both families (computed from an independent level "
            "table) at all 8 destination alignments, every integer literal of the three headers (+-2), every "
            "power of two and of 128 (+-2), random values of every bit length and inside every level; reversed "
            "put with dst inside a guarded region; decoders also fed every type byte 0..255 with random / "
            "all-zero / all-ones payload of the announced length (exact-size guard-paged input); non-trivial = "
            "encoding longer than the family minimum or a malformed / non-canonical stream")
RULE_C04 = ("same value pool compared byte for byte with an independently written reference encoder, adjacent "
            "pairs (v, v+1) at every level boundary and random ordered pairs for length monotonicity, and one "
            "case per README table cell / header 'Data Layout' entry for Split and Split Full 16 (parsed at "
            "check time) compared with the maxima and type bytes measured on the code")

# ---------------------------------------------------------------- independent reference

SPLIT_LEVELS = [  # (type byte / prefix, embedded, payload bytes, base)
    (0x00, True, 0, 0), (0x40, True, 1, 63),
] + [(0x80 + n, False, n, 16446) for n in range(1, 9)]
SPLIT16_LEVELS = [
    (0x00, True, 1, 0), (0x40, True, 2, 16383), (0x80, True, 3, 4210686),
] + [(0xC0 + n, False, n, 1077952509) for n in range(4, 9)]
LEVELS = {"split": SPLIT_LEVELS, "split16": SPLIT16_LEVELS}


def _lvmax(l):
    pre, emb, n, base = l
    bits = 8 * n + (6 if emb else 0)
    return min(base + (1 << bits) - 1, U64)


def ref_encode(fam, x):
    for l in LEVELS[fam]:
        if x <= _lvmax(l):
            pre, emb, n, base = l
            p = x - base
            if emb:
                return bytes([pre | (p >> (8 * n))]) + (p & ((1 << (8 * n)) - 1)).to_bytes(n, "big")
            return bytes([pre]) + p.to_bytes(n, "little")
    raise ValueError(x)


def ref_encode_rev(x):
    """reversed split container: all little-endian, type byte last"""
    for l in SPLIT_LEVELS:
        if x <= _lvmax(l):
            pre, emb, n, base = l
            p = x - base
            if emb:
                return (p & ((1 << (8 * n)) - 1)).to_bytes(n, "little") + bytes([pre | (p >> (8 * n))])
            return p.to_bytes(n, "little") + bytes([pre])
    raise ValueError(x)


def ref_decode(fam, b):
    """(length, value) announced by a forward stream, or None when the type byte
    is not one the format defines"""
    if not b:
        return None
    for pre, emb, n, base in LEVELS[fam]:
        if (emb and (b[0] & 0xC0) == pre) or (not emb and b[0] == pre):
            if len(b) < 1 + n:
                return None
            if emb:
                p = ((b[0] & 0x3F) << (8 * n)) | int.from_bytes(b[1:1 + n], "big")
            else:
                p = int.from_bytes(b[1:1 + n], "little")
            return 1 + n, base + p
    return None


def ref_len(fam, x):
    return len(ref_encode(fam, x))


def _level_edges(fam):
    s = set()
    for l in LEVELS[fam]:
        m = _lvmax(l)
        for d in (-2, -1, 0, 1, 2):
            s.add(m + d)
        base = l[3]
        for k in range(0, 9):
            for d in (-1, 0, 1):
                s.add(base + (1 << (8 * k)) + d)
    return sorted(v for v in s if 0 <= v <= U64)


def _pool():
    edges = set(_level_edges("split")) | set(_level_edges("split16"))
    rest = (set(boundary_values()) | set(scraped_literals(FILES))) - edges
    return sorted(edges), sorted(rest)


def _rand_values(rng, n):
    for _ in range(n):
        yield rand_u64(rng)
    for fam in ("split", "split16"):
        lv = LEVELS[fam]
        for _ in range(n // 4):
            l = rng.choice(lv)
            lo = l[3] + (1 if l[3] else 0)
            yield rng.randint(min(lo, _lvmax(l)), _lvmax(l))


def _announced(fam, t):
    """payload bytes the decoder will read after type byte t (0 for type bytes
    it does not execute: undefined external widths, Split's 11 prefix)"""
    top = t >> 6
    if fam == "split":
        if top == 2:
            w = t & 0x3F
            return w if 1 <= w <= 8 else 0
        return top if top < 2 else 0
    if top == 3:
        w = t & 0x0F
        return w if 1 <= w <= 8 else 0
    return top + 1


def _type_streams(rng, fam, reps):
    """one stream per type byte: announced length, payload random/zeros/ones"""
    for t in range(256):
        n = _announced(fam, t)
        pays = [bytes(n), bytes([255] * n)] + [bytes(rng.getrandbits(8) for _ in range(n)) for _ in range(reps)]
        for p in pays:
            yield t, p


def generate_rt(rng, tier):
    edges, rest = _pool()
    n_rand = 2500 if tier == "quick" else 120000
    for v in edges:
        for a in range(8):
            yield "split_rt %d %d" % (v, a)
            yield "split16_rt %d %d" % (v, a)
        yield "split_rev %d" % v
    for i, v in enumerate(rest):
        yield "split_rt %d %d" % (v, i % 8)
        yield "split16_rt %d %d" % (v, (i + 3) % 8)
        yield "split_rev %d" % v
    for i, v in enumerate(_rand_values(rng, n_rand)):
        yield "split_rt %d %d" % (v, i % 8)
        yield "split16_rt %d %d" % (v, (i + 5) % 8)
        yield "split_rev %d" % v


def generate_malformed(rng, tier):
    reps = 2 if tier == "quick" else 40
    for t, p in _type_streams(rng, "split", reps):
        yield "split_get %s" % hexs(bytes([t]) + p)
        yield "split_rget %s" % hexs(p[::-1] + bytes([t]))
    for t, p in _type_streams(rng, "split16", reps):
        yield "split16_get %s" % hexs(bytes([t]) + p)


def generate_C01(rng, tier):
    yield from generate_rt(rng, tier)
    yield from generate_malformed(rng, tier)
    for fam in ("split", "split16"):
        for k in range(0, 65, 1):
            for d in (-1, 0, 1):
                v = (1 << k) + d
                if 0 <= v <= U64:
                    yield "split_lenvar %s %d" % (fam, v)


def generate_C04(rng, tier):
    yield from generate_rt(rng, tier)
    n_pairs = 2000 if tier == "quick" else 50000
    for fam in ("split", "split16"):
        for v in _level_edges(fam):
            if v + 1 <= U64:
                yield "split_len2 %s %d %d" % (fam, v, v + 1)
        for _ in range(n_pairs):
            a, b = rand_u64(rng), rand_u64(rng)
            yield "split_len2 %s %d %d" % (fam, min(a, b), max(a, b))
    yield from doc_cases()


# ---------------------------------------------------------------- documentation facts

README_NAMES = {"Split": "split", "Split Full 16": "split16"}


def readme_cases():
    """one `split_max fam k sel value - README:<line>` per README table cell of the
    Split / Split Full 16 rows"""
    p = os.path.join(REPO, "README.md")
    out = []
    found = set()
    if os.path.exists(p):
        cols = None
        for ln, line in enumerate(open(p, errors="replace"), 1):
            if not line.lstrip().startswith("|"):
                cols = None
                continue
            cells = [c.strip() for c in line.strip().strip("|").split("|")]
            if any(re.fullmatch(r"\d+ byte max", c) for c in cells):
                cols = cells
                continue
            if cols is None or set(line.strip()) <= set("|-: "):
                continue
            if len(cells) != len(cols) or cells[0] not in README_NAMES:
                continue
            fam = README_NAMES[cells[0]]
            sel = "all"
            if "level" in cols:
                sel = cells[cols.index("level")]
                if sel not in ("first", "second"):
                    continue
            for i, h in enumerate(cols):
                m = re.fullmatch(r"(\d+) byte max", h)
                if not m:
                    continue
                v = cells[i].replace(",", "")
                if not (v == "X" or v.isdigit()):
                    v = "UNPARSED"
                found.add(fam)
                out.append("split_max %s %s %s %s - README:%d" % (fam, m.group(1), sel, v, ln))
    for fam in ("split", "split16"):
        if fam not in found:
            out.append("split_max %s 0 all MISSING - README" % fam)
    return out


def header_cases():
    """one case per entry of each header's 'Data Layout' comment:
    `split_max fam k first|second max type HEADER:<file>`"""
    out = []
    for fam, f in (("split", "src/varintSplit.h"), ("split16", "src/varintSplitFull16.h")):
        p = os.path.join(REPO, f)
        n = 0
        if os.path.exists(p):
            txt = open(p, errors="replace").read()
            m = re.search(r"Data Layout \*/\s*/\*[ =]*\*/\s*/\*(.*?)\*/", txt, re.S)
            body = m.group(1) if m else ""
            for e in re.finditer(r"\*\s*(\d+) bytes?:\s*\n\s*\*\s*\|([01a-z]{8})\|[^\n]*\n(?:\s*\*\s+\|[^\n]*\n)?"
                                 r"\s*\*\s+Unsigned numeric value less than or equal to:\s*\n\s*\*\s+([^\n]*)", body):
                k, pat, expr = e.group(1), e.group(2), e.group(3)
                nums = re.findall(r"=\s*(\d+)", expr)
                mx = nums[-1] if nums else "UNPARSED"
                if re.fullmatch(r"[01]{8}", pat):
                    sel, typ = "second", int(pat, 2)
                else:
                    lead = re.match(r"[01]*", pat).group(0)
                    sel, typ = "first", (int(lead, 2) << (8 - len(lead))) if lead else 0
                out.append("split_max %s %s %s %s %d HEADER:%s" % (fam, k, sel, mx, typ, os.path.basename(f)))
                n += 1
        if n == 0:
            out.append("split_max %s 0 all MISSING - HEADER:%s" % (fam, os.path.basename(f)))
    return out


def doc_cases():
    yield from readme_cases()
    yield from header_cases()
    # plain per-length maxima (no documentation value attached)
    for fam in ("split", "split16"):
        for k in range(1, 11):
            for sel in ("all", "first", "second"):
                yield "split_max %s %d %s - - code" % (fam, k, sel)


# ---------------------------------------------------------------- oracles

def _fault(c):
    if "fault" in c:
        return "fault=" + c["fault"]
    return None


def _unhex(s):
    return bytes.fromhex(s[1:])


def _rt_lengths(fam, x, c):
    lo = 1 if fam == "split" else 2
    keys = ("len", "w", "getlen", "getlenq", "getw")
    if "get" in c:
        return "encoder produced a type byte whose decoding is undefined (%s)" % c.get("put")
    vals = [int(c[k]) for k in keys]
    if len(set(vals)) != 1:
        return "lengths disagree: " + " ".join("%s=%s" % (k, c[k]) for k in keys)
    if not (lo <= vals[0] <= 9):
        return "length %d outside %d..9" % (vals[0], lo)
    if len(_unhex(c["put"])) != vals[0]:
        return "reported %d bytes, wrote %d" % (vals[0], len(_unhex(c["put"])))
    return None


def o_rt_C01(fam):
    def o(args, c):
        x = int(args[0])
        m = _fault(c) or _rt_lengths(fam, x, c)
        if m:
            return m
        if int(c["getv"]) != x:
            return "round trip: put %d, got %s" % (x, c["getv"])
        if c["frame"] != "ok" or c["guard"] != "ok":
            return "encoder wrote outside its %s bytes (frame=%s guard=%s)" % (c["w"], c["frame"], c["guard"])
        return None
    return o


def o_rt_C04(fam):
    def o(args, c):
        x = int(args[0])
        m = _fault(c)
        if m:
            return m
        ref = ref_encode(fam, x)
        if _unhex(c["put"]) != ref:
            return "bytes %s differ from the documented format %s" % (c["put"], hexs(ref))
        if int(c["len"]) != len(ref) or int(c["w"]) != len(ref):
            return "length len=%s w=%s, documented format needs %d" % (c["len"], c["w"], len(ref))
        return None
    return o


def _rev_common(x, c):
    m = _fault(c)
    if m:
        return m
    if "rget" in c or "fget" in c:
        return "reversed encoder produced a type byte whose decoding is undefined"
    return None


def o_rev_C01(args, c):
    x = int(args[0])
    m = _rev_common(x, c)
    if m:
        return m
    vals = [int(c[k]) for k in ("len", "w", "fw", "rgetw", "fgetw")]
    if len(set(vals)) != 1 or not (1 <= vals[0] <= 9):
        return "reversed lengths disagree or out of 1..9: " + " ".join(
            "%s=%s" % (k, c[k]) for k in ("len", "w", "fw", "rgetw", "fgetw"))
    if len(_unhex(c["put"])) != vals[0] or len(_unhex(c["fput"])) != vals[0]:
        return "reported length differs from bytes written"
    if int(c["rgetv"]) != x or int(c["fgetv"]) != x:
        return "reversed round trip: put %d, got rgetv=%s fgetv=%s" % (x, c["rgetv"], c["fgetv"])
    for k in ("frame", "guard", "fframe", "fguard"):
        if c[k] != "ok":
            return "reversed encoder wrote outside its bytes (%s=%s)" % (k, c[k])
    return None


def o_rev_C04(args, c):
    x = int(args[0])
    m = _fault(c)
    if m:
        return m
    ref = ref_encode_rev(x)
    if _unhex(c["put"]) != ref or _unhex(c["fput"]) != ref:
        return "reversed bytes put=%s fput=%s differ from the documented layout %s" % (c["put"], c["fput"], hexs(ref))
    return None


def o_get(fam):
    """arbitrary stream: when it is the canonical encoding of some value the
    decoder must return that value and length (C01 + C04 together); nothing
    is demanded of other streams beyond not faulting inside the announced bytes"""
    def o(args, c):
        b = _unhex(args[0])
        d = ref_decode(fam, b)
        if d is None or d[1] > U64 or d[0] != len(b):
            return None
        if ref_encode(fam, d[1]) != b:
            return None
        m = _fault(c)
        if m:
            return m
        if "get" in c:
            return "canonical encoding of %d reported as undefined" % d[1]
        if int(c["getw"]) != d[0] or int(c["getv"]) != d[1] or int(c["getlen"]) != d[0] or int(c["getlenq"]) != d[0]:
            return "canonical encoding of %d decoded as w=%s v=%s getlen=%s getlenq=%s" % (
                d[1], c["getw"], c["getv"], c["getlen"], c["getlenq"])
        return None
    return o


def o_rget(args, c):
    b = _unhex(args[0])
    if not b:
        return None
    # the reversed layout of a canonical value
    t = b[-1]
    for pre, emb, n, base in SPLIT_LEVELS:
        if (emb and (t & 0xC0) == pre) or (not emb and t == pre):
            if len(b) != 1 + n:
                return None
            p = int.from_bytes(b[:n], "little") | (((t & 0x3F) << (8 * n)) if emb else 0)
            x = base + p
            if x > U64 or ref_encode_rev(x) != b:
                return None
            m = _fault(c)
            if m:
                return m
            if "rget" in c:
                return "canonical reversed encoding of %d reported as undefined" % x
            if int(c["rgetw"]) != 1 + n or int(c["rgetv"]) != x:
                return "canonical reversed encoding of %d decoded as w=%s v=%s" % (x, c["rgetw"], c["rgetv"])
    return None


def o_len2(args, c):
    fam, a, b = args[0], int(args[1]), int(args[2])
    m = _fault(c)
    if m:
        return m
    la, lb = int(c["la"]), int(c["lb"])
    if a <= b and la > lb:
        return "length not monotone: len(%d)=%d > len(%d)=%d" % (a, la, b, lb)
    if la != ref_len(fam, a) or lb != ref_len(fam, b):
        return "length differs from the documented format: %d->%d (doc %d), %d->%d (doc %d)" % (
            a, la, ref_len(fam, a), b, lb, ref_len(fam, b))
    return None


def o_lenvar(args, c):
    fam, v = args[0], int(args[1])
    m = _fault(c)
    if m:
        return m
    w = max(1, (v.bit_length() + 7) // 8)
    want = 1 + (max(4, w) if fam == "split16" else w)
    if int(c["lv"]) != want:
        return "LengthVAR(%d)=%s, expected %d" % (v, c["lv"], want)
    return None


def o_max(args, c):
    fam, k, sel, emax, etype, tag = args[0], args[1], args[2], args[3], args[4], args[5]
    m = _fault(c)
    if m:
        return m
    if emax == "MISSING":
        return "%s: no table row / layout entry found for %s" % (tag, fam)
    if emax == "UNPARSED":
        return "%s: cell for %s %s-byte max could not be parsed" % (tag, fam, k)
    if emax != "-" and c["max"] != emax:
        return "%s documents the %s-byte %s maximum of %s as %s, the code gives %s" % (tag, k, sel, fam, emax, c["max"])
    if etype != "-" and c["type"] != etype:
        return "%s documents the type byte of the %s-byte %s level of %s as %s, the code uses %s" % (
            tag, k, sel, fam, etype, c["type"])
    return None


ORACLES_C01 = {"split_rt": o_rt_C01("split"), "split16_rt": o_rt_C01("split16"), "split_rev": o_rev_C01,
               "split_get": o_get("split"), "split16_get": o_get("split16"), "split_rget": o_rget,
               "split_lenvar": o_lenvar}
ORACLES_C04 = {"split_rt": o_rt_C04("split"), "split16_rt": o_rt_C04("split16"), "split_rev": o_rev_C04,
               "split_len2": o_len2, "split_max": o_max}


# ---------------------------------------------------------------- classification / search

def classify(case, m):
    t = case.split()
    api = t[0]
    if api in ("split_rt", "split16_rt"):
        w = int(m.get("w", "0"))
        lo = 1 if api == "split_rt" else 2
        return "trivial" if w <= lo else "%s-len%d" % (api[:-3], w)
    if api == "split_rev":
        w = int(m.get("w", "0"))
        return "trivial" if w <= 1 else "rev-len%d" % w
    if api in ("split_get", "split16_get", "split_rget"):
        return api + ("-undefined-type" if ("get" in m or "rget" in m) else "-stream")
    if api == "split_len2":
        return "len2-boundary" if m.get("la") != m.get("lb") else "len2-same"
    if api == "split_max":
        return "doc-" + t[6].split(":")[0]
    if api == "split_lenvar":
        return "lenvar"
    return None


def search(rng, divergent_cases):
    for c in divergent_cases:
        t = c.split()
        if t[0] in ("split_rt", "split16_rt", "split_rev"):
            x = int(t[1])
            for d in range(-4, 5):
                if 0 <= x + d <= U64:
                    for a in ((0, 1, 7) if t[0] != "split_rev" else (0,)):
                        yield ("%s %d %d" % (t[0], x + d, a)) if t[0] != "split_rev" else ("split_rev %d" % (x + d))
        elif t[0] == "split_len2":
            a, b = int(t[2]), int(t[3])
            for d in range(-3, 4):
                if 0 <= a + d and b + d <= U64 and a + d <= b + d:
                    yield "split_len2 %s %d %d" % (t[1], a + d, b + d)
    r2 = random.Random(rng.getrandbits(32))
    yield from generate_rt(r2, "thorough")


ASSUMPTIONS = ["little-endian host (endianIsLittle() true), as the pinned build",
               "macros instantiated with the types the library's own callers use (uint8_t length, varintWidth "
               "valsize, uint64_t value)",
               "decoders are given at least the number of bytes the type byte announces; type bytes whose "
               "external width is outside 1..8 (undefined in varintExternalGet) are reported, not executed"]
TRUSTED = ["python reference encoder/decoder and README/header-comment parsers in checks/parts/split.py"]

PARTS = {
    "C01": dict(coq_props=["Properties_C01_split"], files=FILES, rule=RULE_C01, generate=generate_C01,
                oracles=ORACLES_C01, classify=classify, search=search, assumptions=ASSUMPTIONS,
                trusted_base=TRUSTED, configs_quick=["pinned", "O0"]),
    "C04": dict(coq_props=["Properties_C04_split"], files=FILES + DOC_FILES, rule=RULE_C04, generate=generate_C04,
                oracles=ORACLES_C04, classify=classify, search=search, assumptions=ASSUMPTIONS,
                trusted_base=TRUSTED, configs_quick=["pinned", "O0"]),
}
