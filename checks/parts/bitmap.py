"""bitmap part: C08 (bitmap is a set of 16-bit integers under any history) and the
varintBitmapDecode share of C14 (length-taking decoders stay inside their input).

One api, `bm_ops <ops> [<hex>]` (see harness/c/drv_bitmap.c for the op language):
a history over a pool of 4 bitmaps, every observable answer printed after every
step.  The direct oracle replays the history on Python sets."""
from vlib import *  # noqa

FILES = ["src/varintBitmap.c", "src/varintBitmap.h"]
POOL = 4
UMAX = 65535

RULE_C08 = ("histories over a pool of 4 bitmaps: walks of the cardinality across 4096 in both directions "
            "(single adds/removes, AddMany, ranges), ranges longer than 4096 onto empty/array/bitmap/run/cleared "
            "containers, every operation on run containers, every binary operation on every pair of container "
            "kinds incl. aliased operands, operations after Encode/Decode, values from every integer literal of "
            "varintBitmap.{c,h} (+-2) and bit/byte boundaries, random mixes; after every step cardinality, "
            "emptiness, ToArray count/sum/groups, membership probes around the arguments, GetStats; full "
            "export / iteration on demand; non-trivial = the history reaches a bitmap or run container, "
            "crosses 4096, deserialises, or has at least 4 mutating steps")
RULE_C14 = ("byte strings handed to varintBitmapDecode in an exact-size guard-paged buffer: every valid "
            "container encoding (empty, small, around 4096, full), every truncation of the short ones and "
            "boundary truncations of the long ones, corrupted type / cardinality / run count / payload "
            "(unsorted, duplicate, popcount mismatch, overlapping / empty / overflowing runs), random bytes; "
            "successful decodes are followed by mutating operations; non-trivial = more than the 5-byte header "
            "is present or the header is cut")


# ----------------------------------------------------------------- reference

def enc_array(vals):
    vals = list(vals)
    b = bytes([0]) + len(vals).to_bytes(4, "little")
    for v in vals:
        b += v.to_bytes(2, "little")
    return b


def enc_bits(s, card=None):
    bits = bytearray(8192)
    for v in s:
        bits[v >> 3] |= 1 << (v & 7)
    c = len(set(s)) if card is None else card
    return bytes([1]) + c.to_bytes(4, "little") + bytes(bits)


def enc_runs(runs, card=None, nruns=None):
    c = sum(l for _, l in runs) if card is None else card
    n = len(runs) if nruns is None else nruns
    b = bytes([2]) + (c & 0xFFFFFFFF).to_bytes(4, "little") + (n & 0xFFFFFFFF).to_bytes(4, "little")
    for s, l in runs:
        b += (s & 0xFFFF).to_bytes(2, "little") + (l & 0xFFFF).to_bytes(2, "little")
    return b


def ref_decode(bs):
    """('short', None): the announced container does not fit in the input;
    ('valid', set): a well-formed encoding (trailing bytes allowed);
    ('invalid', None): anything else."""
    if len(bs) < 5:
        return "short", None
    ty = bs[0]
    card = int.from_bytes(bs[1:5], "little")
    if ty == 0:
        if len(bs) < 5 + 2 * card:
            return "short", None
        vals = [int.from_bytes(bs[5 + 2 * i:7 + 2 * i], "little") for i in range(card)]
        if all(vals[i] < vals[i + 1] for i in range(len(vals) - 1)):
            return "valid", set(vals)
        return "invalid", None
    if ty == 1:
        if len(bs) < 5 + 8192:
            return "short", None
        x = int.from_bytes(bs[5:5 + 8192], "little")
        if bin(x).count("1") != card:
            return "invalid", None
        return "valid", set(i for i in range(65536) if (x >> i) & 1)
    if ty == 2:
        if len(bs) < 9:
            return "short", None
        n = int.from_bytes(bs[5:9], "little")
        if len(bs) < 9 + 4 * n:
            return "short", None
        s = set()
        nxt = 0
        tot = 0
        for i in range(n):
            st = int.from_bytes(bs[9 + 4 * i:11 + 4 * i], "little")
            ln = int.from_bytes(bs[11 + 4 * i:13 + 4 * i], "little")
            if ln == 0 or st < nxt or st + ln > 65536:
                return "invalid", None
            nxt = st + ln
            tot += ln
            s.update(range(st, st + ln))
        if tot != card:
            return "invalid", None
        return "valid", s
    return "invalid", None


def parse_ops(s):
    out = []
    for tok in s.split(","):
        if not tok:
            continue
        f = [int(x) for x in tok[1:].split(".")] if len(tok) > 1 else []
        out.append((tok[0], f))
    return out


def probe_values(pv):
    pr = []
    for x in pv:
        if x - 1 >= 0:
            pr.append(x - 1)
        pr.append(x)
        if x + 1 <= 65535:
            pr.append(x + 1)
    return pr + [0, 4095, 4096, 65535]


def parse_intervals(s):
    out = []
    if s == "":
        return out
    for part in s.split(","):
        if "-" in part:
            a, b = part.split("-")
            out.extend(range(int(a), int(b) + 1))
        else:
            out.append(int(part))
    return out


def groups_of(sorted_vals):
    g = 0
    prev = None
    for v in sorted_vals:
        if prev is None or v != prev + 1:
            g += 1
        prev = v
    return g


def simulate(args, c, want_sets=True):
    """Replay the history on Python sets and compare every answer of the C output
    `c`.  Returns None or a message.  A pool entry is None when its content is
    not determined by the property (a malformed stream the decoder accepted)."""
    ops = parse_ops(args[0]) if args else []
    hexb = bytes.fromhex(args[1][1:]) if len(args) > 1 else b""
    pool = [set() for _ in range(POOL)]
    for k, (op, f) in enumerate(ops):
        tok = c.get(str(k))
        if tok is None:
            return "step %d: no output" % k
        fl = tok.split(":")
        if len(fl) < 10:
            return "step %d: malformed output %r" % (k, tok)
        F, card, emp, _y, _p, _z, n, ssum, g, b = fl[:10]
        extra = fl[10:]
        i = f[0] & 3 if f else 0
        pv = []
        want_flag = "-"
        known = True
        if op == "a":
            v = f[1]
            if pool[i] is not None:
                want_flag = "0" if v in pool[i] else "1"
                pool[i].add(v)
            else:
                want_flag = None
            pv = [v]
        elif op == "r":
            v = f[1]
            if pool[i] is not None:
                want_flag = "1" if v in pool[i] else "0"
                pool[i].discard(v)
            else:
                want_flag = None
            pv = [v]
        elif op == "q":
            v = f[1]
            want_flag = None if pool[i] is None else ("1" if v in pool[i] else "0")
            pv = [v]
        elif op == "A":
            if pool[i] is not None:
                pool[i].update(range(f[1], f[2]))
            pv = [f[1], f[2]]
        elif op == "R":
            if pool[i] is not None:
                pool[i].difference_update(range(f[1], f[2]))
            pv = [f[1], f[2]]
        elif op == "z":
            pool[i] = set()
        elif op == "p":
            pass
        elif op == "m":
            if pool[i] is not None:
                pool[i].update(f[1:])
            pv = f[1:4]
        elif op == "k":
            j = f[1] & 3
            pool[i] = None if pool[j] is None else set(pool[j])
        elif op in "noxd":
            j, kk = f[1] & 3, f[2] & 3
            A, B = pool[j], pool[kk]
            if A is None or B is None:
                pool[i] = None
            elif op == "n":
                pool[i] = A & B
            elif op == "o":
                pool[i] = A | B
            elif op == "x":
                pool[i] = A ^ B
            else:
                pool[i] = A - B
        elif op == "s":
            want_flag = None if pool[i] is None else "1"
        elif op == "D":
            kind, s = ref_decode(hexb)
            if kind == "valid":
                want_flag = "1"
                pool[i] = s
            elif kind == "short":
                want_flag = "0"
            else:
                want_flag = None
                if F == "1":
                    pool[i] = None
        elif op in "et":
            pass
        else:
            return "step %d: unknown op %r" % (k, op)
        if not want_sets:
            # C14 view: only the decoder's own obligations
            if op == "D":
                kind, _ = ref_decode(hexb)
                if kind == "short" and F != "0":
                    return "step %d: input of %d bytes is shorter than the container it announces, yet Decode succeeded" % (k, len(hexb))
                if extra and extra[0] == "m0":
                    return "step %d: Decode of %d bytes kept an allocation beyond 24+max(len,8192)+64 bytes" % (k, len(hexb))
            continue
        if want_flag is not None and F != want_flag:
            return "step %d (%s%s): returned flag %s, set says %s" % (k, op, ".".join(map(str, f[:3])), F, want_flag)
        for x in extra:
            if x == "u0":
                return "step %d: an operand of %s changed" % (k, op)
        S = pool[i]
        if S is None:
            continue
        srt = sorted(S)
        if int(card) != len(S):
            return "step %d (%s%s): cardinality %s, set has %d" % (k, op, ".".join(map(str, f[:3])), card, len(S))
        if (emp == "1") != (len(S) == 0):
            return "step %d: IsEmpty %s, set has %d" % (k, emp, len(S))
        if n != "-":
            if n != str(len(S)):
                return "step %d: ToArray count %s, set has %d" % (k, n, len(S))
            if int(ssum) != sum(srt) or int(g) != groups_of(srt):
                return "step %d: exported values differ from the set (sum %s vs %d, groups %s vs %d)" % (
                    k, ssum, sum(srt), g, groups_of(srt))
        wantb = "".join("1" if x in S else "0" for x in probe_values(pv))
        if b != wantb:
            return "step %d: Contains answers %s, set says %s (probes %s)" % (k, b, wantb, probe_values(pv))
        if op == "e":
            got = parse_intervals(c.get("%de" % k, ""))
            if got != srt:
                return "step %d: ToArray export is not the ascending duplicate-free list of the set" % k
        if op == "t":
            t = c.get("%dt" % k, "")
            body, _, h = t.partition("/")
            if parse_intervals(body) != srt or h != "h0":
                return "step %d: iteration is not the ascending duplicate-free list of the set (or hasValue stayed set)" % k
    return None


def o_ops_c08(args, c):
    if "fault" in c:
        return "fault=" + c["fault"]
    return simulate(args, c, True)


def o_ops_c14(args, c):
    if "fault" in c:
        return "fault=" + c["fault"]
    return simulate(args, c, False)


# ----------------------------------------------------------------- generators

def _vals_pool():
    s = set([0, 1, 2, 6, 7, 8, 9, 15, 16, 17, 255, 256, 257, 4094, 4095, 4096, 4097, 4098, 8191, 8192, 8193,
             32767, 32768, 65533, 65534, 65535])
    for v in scraped_literals(FILES):
        if 0 <= v <= UMAX:
            s.add(v)
    return sorted(s)


def _rv(rng, vp):
    r = rng.random()
    if r < 0.35:
        return rng.choice(vp)
    if r < 0.6:
        return rng.randint(0, 300)
    return rng.randint(0, UMAX)


def _final(idx=(0,)):
    # full export of every listed bitmap, full iteration of the first
    return ["e%d" % i for i in idx] + ["t%d" % idx[0]]


def _fill(i, kind, rng):
    """ops leaving pool[i] in a container of the wanted kind.  Large arrays are
    reached through runs -> bitmap -> RemoveRange (cheap for the list-based
    model); "arrayfill" is the element-by-element path."""
    if kind == "empty":
        return []
    if kind == "array":
        n = rng.choice([1, 3, 17, 200])
        return ["m%d.%s" % (i, ".".join(str(x) for x in rng.sample(range(0, 3000), n)))]
    if kind == "array4095":
        lo = rng.randint(0, 100)
        return ["A%d.%d.%d" % (i, lo, lo + 4200), "R%d.%d.%d" % (i, lo + 4095, lo + 4200)]
    if kind == "arrayfill":
        lo = rng.randint(0, 100)
        return ["A%d.%d.%d" % (i, lo, lo + 4096)]
    if kind == "bits":
        lo = rng.randint(0, 100)
        return ["A%d.%d.%d" % (i, lo, lo + rng.randint(4097, 5000)), "a%d.%d" % (i, rng.randint(5200, 6000)),
                "a%d.%d" % (i, rng.randint(60000, 65535))]
    if kind == "bits_small":
        # a bitmap container with few members: clear keeps the type
        return ["A%d.0.4100" % i, "a%d.9000" % i, "z%d" % i, "a%d.%d" % (i, rng.randint(0, 65535)),
                "a%d.%d" % (i, rng.randint(0, 65535))]
    if kind == "runs":
        lo = rng.randint(0, 1000)
        return ["A%d.%d.%d" % (i, lo, lo + rng.randint(4097, 9000))]
    if kind == "runs_empty":
        return ["A%d.5.6000" % i, "z%d" % i]
    if kind == "full":
        return ["A%d.0.65535" % i, "a%d.65535" % i]
    raise ValueError(kind)


KINDS = ["empty", "array", "array4095", "bits", "bits_small", "runs", "runs_empty"]


def generate_C08(rng, tier):
    vp = _vals_pool()
    quick = tier == "quick"
    # F24 and its neighbours: long ranges onto every kind of container
    yield "bm_ops a0.7,A0.100.6000,q0.7,e0,t0"
    ranges = [(100, 6000), (0, 4097), (3, 4099), (0, 4096), (50000, 65535)]
    for kn, kind in enumerate(KINDS + ["arrayfill", "full"]):
        for rn, (lo, hi) in enumerate(ranges):
            if kind == "full" and lo != 100:
                continue
            if quick and hi == 65535 and kind not in ("empty", "bits"):
                continue
            if quick and kind not in ("empty", "array") and (kn + rn) % 3 != 0:
                continue
            ops = _fill(0, kind, rng) + ["A0.%d.%d" % (lo, hi), "q0.%d" % lo, "a0.%d" % (hi % 65536), "r0.%d" % lo] + _final()
            yield "bm_ops " + ",".join(ops)
    # multi-run containers exist only through Decode: every operation on them
    for runs in ([(0, 3), (3, 4), (100, 1), (65000, 536)], [(5, 4090), (5000, 10)], [(0, 5000), (6000, 1)],
                 [(5 * i, 3) for i in range(800)], [(5 * i, 4) for i in range(1100)], [(0, 65535)], [(1, 65535)]):
        hx = hexs(enc_runs(runs))
        v = runs[len(runs) // 2][0]
        heavy = quick and (len(runs) > 100 or sum(l for _, l in runs) > 20000)
        for tn, tail in enumerate((["q0.%d" % v, "q0.%d" % (v + 1), "a0.%d" % v, "a0.%d" % (v + 1), "r0.%d" % v],
                     ["r0.%d" % v, "a0.%d" % v], ["k1.0", "a1.7", "r1.%d" % v, "e1"], ["s0", "r0.%d" % v],
                     ["m1.1.2.3.%d" % v, "n2.0.1", "o3.1.0", "x1.0.3", "d2.0.1", "e1", "e2", "e3"],
                     ["A0.%d.%d" % (v, min(UMAX, v + 4100))], ["R0.0.%d" % min(UMAX, v + 2)], ["z0", "a0.1"])):
            if heavy and tn % 4 != len(runs) % 4:
                continue
            if quick and not heavy and tn % 2 != len(runs) % 2:
                continue
            if heavy:
                yield "bm_ops %s %s" % (",".join(["D0"] + tail + (["t0"] if tn == 0 else ["e0"])), hx)
            else:
                yield "bm_ops %s %s" % (",".join(["D0", "e0", "t0"] + tail + _final()), hx)
    # short ranges at every bit alignment (inside one byte, across byte boundaries) added to and
    # removed from every container kind — the shapes a byte-filling fast path gets wrong
    # (added by main after seeded change C08-6)
    for kind in ("bits", "array", "empty", "bits_small"):
        for base in ((20000, 3000) if quick else (20000, 3000, 63000, 8)):
            ops = _fill(0, kind, rng)
            span = 24 * 8 * 9 + 40
            top = min(UMAX, base + span)
            ops += ["R0.%d.%d" % (base, top)]
            k = 0
            for off in range(8):
                for ln in (1, 2, 5, 6, 7, 8, 9, 15, 17):
                    lo = base + 24 * k + off
                    hi = min(UMAX, lo + ln)
                    k += 1
                    if lo < hi:
                        ops.append("A0.%d.%d" % (lo, hi))
            ops += ["e0"]
            ops += ["A0.%d.%d" % (base, top)]
            k = 0
            for off in range(8):
                for ln in (1, 2, 5, 6, 7, 8, 9, 15, 17):
                    lo = base + 24 * k + off
                    hi = min(UMAX, lo + ln)
                    k += 1
                    if lo < hi:
                        ops.append("R0.%d.%d" % (lo, hi))
            yield "bm_ops " + ",".join(ops + _final())
    # containers emptied completely (front to back, back to front, both ends), then
    # serialised and probed at the old boundaries
    def _probe(i, vals):
        o = ["s%d" % i, "e%d" % i]
        for v in vals:
            if 0 <= v <= UMAX:
                o += ["q%d.%d" % (i, v), "r%d.%d" % (i, v), "a%d.%d" % (i, v), "q%d.%d" % (i, v), "r%d.%d" % (i, v)]
        return o + ["s%d" % i, "e%d" % i, "t%d" % i]
    for (lo, hi) in [(100, 4300), (0, 4097), (61000, 65535)]:
        bnd = [lo, lo - 1, lo + 1, hi - 1, hi, hi - 2]
        yield "bm_ops " + ",".join(["A0.%d.%d" % (lo, hi), "R0.%d.%d" % (lo, hi)] + _probe(0, bnd))
        yield "bm_ops " + ",".join(["A0.%d.%d" % (lo, hi)] + ["r0.%d" % v for v in range(hi - 1, lo - 1, -1)] + _probe(0, bnd))
        mid = (lo + hi) // 2
        both = []
        a, b = lo, hi - 1
        while a <= b:
            both.append("r0.%d" % a)
            if b != a:
                both.append("r0.%d" % b)
            a += 1
            b -= 1
        yield "bm_ops " + ",".join(["A0.%d.%d" % (lo, hi)] + both + _probe(0, bnd + [mid, mid + 1]))
        yield "bm_ops " + ",".join(["A0.%d.%d" % (lo, hi), "R0.%d.%d" % (lo, mid)] +
                                   ["r0.%d" % v for v in range(hi - 1, mid - 1, -1)] + _probe(0, bnd + [mid, mid - 1]))
        if quick:
            break
    for kind in ("array", "array4095", "bits", "bits_small"):
        fill = _fill(0, kind, rng)
        yield "bm_ops " + ",".join(fill + ["R0.0.65535", "r0.65535"] + _probe(0, [0, 1, 100, 4094, 4095, 65535]))
        # element by element, descending, of whatever is in there (values are known to the generator)
        S = set()
        for op, f in parse_ops(",".join(fill)):
            if op == "A":
                S.update(range(f[1], f[2]))
            elif op == "R":
                S.difference_update(range(f[1], f[2]))
            elif op == "a":
                S.add(f[1])
            elif op == "m":
                S.update(f[1:])
            elif op == "z":
                S = set()
        srt = sorted(S)
        yield "bm_ops " + ",".join(fill + ["r0.%d" % v for v in reversed(srt)] +
                                   _probe(0, ([srt[0], srt[0] - 1, srt[-1], srt[-1] + 1] if srt else [0])))
    # walks across 4096 (array <-> bitmap) by single adds and removes
    for rep in range(6 if quick else 60):
        lo = rng.choice([0, 1, 7, 100])
        if rep % 4 == 0:
            ops = ["A0.%d.%d" % (lo, lo + 4094)]             # element-by-element fill
        else:
            ops = ["A0.%d.%d" % (lo, lo + 4300), "R0.%d.%d" % (lo + 4094, lo + 4300)]
        extra = rng.sample(range(lo + 5000, 65536), 8)
        cur = []
        for _ in range(40 if quick else 150):
            if cur and rng.random() < 0.5:
                v = cur.pop(rng.randrange(len(cur)))
                ops.append("r0.%d" % v)
            else:
                v = rng.choice(extra)
                if v not in cur:
                    cur.append(v)
                ops.append("a0.%d" % v)
            if rng.random() < 0.1:
                ops.append("r0.%d" % rng.randint(lo, lo + 4093))
            if rng.random() < 0.1:
                ops.append("s0")
            if rng.random() < 0.05:
                ops.append("k1.0")
                ops.append("x2.1.0")
        yield "bm_ops " + ",".join(ops + _final())
    # AddMany across the threshold, descending and shuffled orders
    for rep in range(3 if quick else 20):
        n = [4097, 4096, 5000, 4095, 4100][rep % 5]
        vals = rng.sample(range(0, 65536), n)
        if rep % 3 == 0:
            vals.sort(reverse=True)
        ops = ["m0." + ".".join(map(str, vals))]
        for v in vals[:6]:
            ops.append("r0.%d" % v)
        ops += ["a0.%d" % vals[0], "R0.%d.%d" % (min(vals), min(vals) + 3000), "s0", "a0.1"]
        yield "bm_ops " + ",".join(ops + _final())
    # remove ranges driving a bitmap below 4096 and back
    for rep in range(2 if quick else 15):
        hi = rng.choice([4200, 5000, 9000])
        ops = ["A0.0.%d" % hi, "R0.%d.%d" % (10, 10 + hi - 4090), "q0.9", "A0.0.%d" % hi,
               "R0.0.65535", "a0.65535", "R0.65535.65535", "r0.65535"]
        yield "bm_ops " + ",".join(ops + _final())
    # every operation on every kind of container (run, cleared, after serialisation ...)
    for kind in KINDS + ["full"]:
        v = rng.choice(vp)
        for tn, tail in enumerate((["q0.%d" % v, "a0.%d" % v, "a0.%d" % v, "r0.%d" % v, "r0.%d" % v],
                     ["r0.%d" % rng.randint(0, 7000), "a0.%d" % rng.randint(0, 7000)],
                     ["s0", "a0.%d" % v, "r0.%d" % rng.randint(0, 7000), "s0"],
                     ["k1.0", "a1.%d" % v, "r0.%d" % v, "e1", "t1"],
                     ["z0", "a0.%d" % v, "s0"],
                     ["R0.0.5000", "s0"],
                     ["p0", "m0.5.4.5.3.65535.0", "s0"])):
            if quick and kind == "full":
                if tn in (0, 2):
                    yield "bm_ops " + ",".join(_fill(0, kind, rng) + tail + ["e0"])
                continue
            if quick and kind != "full" and (tn + KINDS.index(kind)) % 2 != 0:
                continue
            yield "bm_ops " + ",".join(_fill(0, kind, rng) + tail + _final())
    # binary operations on every pair of kinds (and aliased operands)
    pn = 0
    for k1 in KINDS + (["full", "arrayfill"] if not quick else []):
        for k2 in KINDS:
            pn += 1
            if quick and pn % 2 == 0:
                continue
            ops = _fill(1, k1, rng) + _fill(2, k2, rng)
            which = "noxd" if not quick else ["nd", "ox", "xn", "do"][(pn // 2) % 4]
            for o in which:
                ops.append("%s0.1.2" % o)
                ops.append("e0")
            ops += ["n3.1.1", "o3.2.2", "x3.1.1", "d3.2.2"][pn % 4:pn % 4 + 1]
            yield "bm_ops " + ",".join(ops + _final((0, 1, 2)))
    # literal-scraped values one by one
    ops = []
    for v in vp:
        ops += ["a0.%d" % v, "a1.%d" % (UMAX - v)]
    ops += ["o2.0.1", "n3.0.1"]
    for v in vp[::3]:
        ops += ["r0.%d" % v, "q2.%d" % v]
    yield "bm_ops " + ",".join(ops + _final((0, 1, 2, 3)))
    # random mixes
    for rep in range(110 if quick else 4000):
        ops = []
        nops = rng.randint(3, 40)
        big = rng.random() < 0.1
        for _ in range(nops):
            i = rng.randrange(POOL if rng.random() < 0.7 else 2)
            r = rng.random()
            if r < 0.25:
                ops.append("a%d.%d" % (i, _rv(rng, vp)))
            elif r < 0.4:
                ops.append("r%d.%d" % (i, _rv(rng, vp)))
            elif r < 0.5:
                lo = _rv(rng, vp)
                ln = rng.choice([0, 1, 5, 60, 300]) if not big else rng.choice([4095, 4096, 4097, 5000, 20000])
                ops.append("A%d.%d.%d" % (i, lo, min(UMAX, lo + ln)))
            elif r < 0.58:
                lo = _rv(rng, vp)
                ln = rng.choice([0, 1, 5, 60, 300, 5000])
                ops.append("R%d.%d.%d" % (i, lo, min(UMAX, lo + ln)))
            elif r < 0.62:
                ops.append("z%d" % i)
            elif r < 0.68:
                ops.append("k%d.%d" % (i, rng.randrange(POOL)))
            elif r < 0.75:
                n = rng.choice([0, 1, 4, 30])
                ops.append("m%d%s" % (i, "".join(".%d" % _rv(rng, vp) for _ in range(n))))
            elif r < 0.9:
                ops.append("%s%d.%d.%d" % (rng.choice("noxd"), i, rng.randrange(POOL), rng.randrange(POOL)))
            elif r < 0.95:
                ops.append("s%d" % i)
            elif r < 0.97:
                ops.append("q%d.%d" % (i, _rv(rng, vp)))
            else:
                ops.append(rng.choice("etp") + str(i))
        yield "bm_ops " + ",".join(ops + _final((rng.randrange(POOL),) + tuple(range(POOL))))


def _after_ops(rng):
    v = rng.randint(0, UMAX)
    return ["e0", "a0.%d" % v, "r0.%d" % rng.randint(0, 300), "r0.%d" % v, "A0.%d.%d" % (10, 10 + rng.choice([5, 4200])),
            "R0.0.40", "s0", "t0", "e0"]


def generate_C14(rng, tier):
    quick = tier == "quick"

    def case(bs, ops=None):
        o = ["D0"] + (ops if ops is not None else _after_ops(rng))
        return "bm_ops %s %s" % (",".join(o), hexs(bs))

    valid = []
    valid.append(enc_array([]))
    valid.append(enc_array([0]))
    valid.append(enc_array([65535]))
    valid.append(enc_array([1, 2, 3, 700, 65535]))
    valid.append(enc_array(sorted(rng.sample(range(65536), 40))))
    valid.append(enc_runs([]))
    valid.append(enc_runs([(0, 1)]))
    valid.append(enc_runs([(0, 65535)]))
    valid.append(enc_runs([(1, 65535)]))
    valid.append(enc_runs([(10, 5000)]))
    valid.append(enc_runs([(0, 3), (3, 4), (100, 1), (65000, 536)]))
    valid.append(enc_runs([(5, 4090), (5000, 10)]))
    long_valid = [enc_array(list(range(7, 7 + 4095))), enc_array(list(range(0, 8192, 2))),
                  enc_array(sorted(rng.sample(range(65536), 4097))),
                  enc_bits(set()), enc_bits({0}), enc_bits({65535}), enc_bits(set(range(0, 65536, 3))),
                  enc_bits(set(range(65536))), enc_bits(set(rng.sample(range(65536), 4096))),
                  enc_bits(set(rng.sample(range(65536), 4095))), enc_runs([(2 * i, 1) for i in range(3000)])]
    for v in valid:
        yield case(v)
        for n in range(len(v)):
            yield case(v[:n], ["e0", "a0.1"])
        yield case(v + bytes(rng.randrange(256) for _ in range(rng.randint(1, 9))))
    for v in long_valid:
        yield case(v)
        cuts = set([0, 1, 4, 5, 6, 7, 8, 9, 10, 12, 13, len(v) // 2, len(v) - 3, len(v) - 2, len(v) - 1])
        for n in sorted(x for x in cuts if 0 <= x < len(v)):
            yield case(v[:n], ["e0", "a0.1"])
    # corrupted streams
    bad = []
    for ty in [3, 4, 7, 127, 128, 255]:
        bad.append(bytes([ty]) + enc_array([1, 2, 3])[1:])
        bad.append(bytes([ty, 5, 0, 0, 0]))
    for card in [1, 2, 4, 6, 4096, 65535, 65536, 65537, 0x7FFFFFFF, 0x80000000, 0xFFFFFFFF]:
        bad.append(bytes([0]) + card.to_bytes(4, "little") + enc_array([1, 2, 3, 9, 11])[5:])
        bad.append(bytes([1]) + card.to_bytes(4, "little") + enc_bits({1, 2, 3, 9, 11})[5:])
        bad.append(enc_runs([(1, 3), (9, 3)], card=card))
        bad.append(enc_runs([(1, 3), (9, 3)], nruns=card))
        bad.append(enc_runs([(1, 3), (9, 3)], card=card, nruns=card))
    bad.append(enc_array([3, 2, 1]))
    bad.append(enc_array([1, 1]))
    bad.append(enc_array([1, 5, 5, 9]))
    bad.append(enc_array([0, 65535, 0]))
    bad.append(enc_array(list(range(4097, 0, -1))))
    bad.append(enc_bits(set(range(5000)), card=4000))
    bad.append(enc_bits(set(range(5000)), card=5001))
    bad.append(enc_bits(set(range(100)), card=0))
    bad.append(enc_bits(set(), card=1))
    bad.append(enc_runs([(0, 0)]))
    bad.append(enc_runs([(5, 3), (7, 2)]))
    bad.append(enc_runs([(5, 3), (2, 1)]))
    bad.append(enc_runs([(65535, 2)]))
    bad.append(enc_runs([(65000, 1000)]))
    bad.append(enc_runs([(1, 65535), (0, 1)]))
    bad.append(enc_runs([(0, 100)] * 40, card=4000))
    bad.append(enc_runs([(0, 100)] * 3000, card=300000 & 0xFFFFFFFF))
    bad.append(enc_runs([(i, 0) for i in range(2000)], card=0))
    for b in bad:
        yield case(b)
        yield case(b[:-1], ["e0"])
    # random bytes
    for _ in range(300 if quick else 6000):
        n = rng.choice([0, 1, 2, 4, 5, 6, 7, 9, 11, 13, 17, 40])
        bs = bytearray(rng.randrange(256) for _ in range(n))
        if n and rng.random() < 0.8:
            bs[0] = rng.randrange(3)
        if n >= 5 and rng.random() < 0.7:
            bs[1:5] = rng.choice([0, 1, 2, 3, (n - 5) // 2, (n - 5) // 2 + 1]).to_bytes(4, "little")
        if n >= 9 and bs[0] == 2 and rng.random() < 0.7:
            bs[5:9] = rng.choice([0, 1, (n - 9) // 4, (n - 9) // 4 + 1]).to_bytes(4, "little")
        yield case(bytes(bs), ["e0", "a0.%d" % rng.randint(0, UMAX), "r0.%d" % rng.randint(0, 300), "t0"])
    # mutations of valid encodings (one byte changed / dropped / duplicated)
    for _ in range(150 if quick else 3000):
        v = bytearray(rng.choice(valid))
        if len(v) == 0:
            continue
        r = rng.random()
        k = rng.randrange(len(v))
        if r < 0.6:
            v[k] = (v[k] + rng.choice([1, 255, 128, rng.randrange(256)])) & 255
        elif r < 0.8:
            del v[k]
        else:
            v.insert(k, v[k])
        yield case(bytes(v))


# ----------------------------------------------------------------- classify / search

def classify(case, m):
    t = case.split()
    ops = parse_ops(t[1]) if len(t) > 1 else []
    if ops and ops[0][0] == "D":
        n = (len(t[2]) - 1) // 2 if len(t) > 2 else 0
        r = m.get("0", "-")[:1]
        if n == 5:
            return "trivial"
        return "decode-%s-%s" % ("ok" if r == "1" else "fail", "cut-header" if n < 5 else "body")
    types = set()
    cards = []
    for k in range(len(ops)):
        f = m.get(str(k), "").split(":")
        if len(f) >= 10:
            types.add(f[3])
            cards.append(int(f[1]))
    crossed = any((a <= 4096) != (b <= 4096) for a, b in zip(cards, cards[1:]))
    mut = sum(1 for o, _ in ops if o in "arARzmknoxdsD")
    if crossed:
        return "cross4096"
    if "2" in types:
        return "runs"
    if "1" in types:
        return "bitmap"
    if any(o == "s" for o, _ in ops):
        return "serdes"
    if mut >= 4:
        return "array"
    return "trivial"


def _continuations(case):
    """histories that extend `case` (or a prefix of it) by a serialise/deserialise
    round trip and by Contains/Remove/Add of every value near the history's own
    arguments, with full export / iteration afterwards: drives a divergence of the
    internal state to an observably wrong answer"""
    t = case.split()
    if len(t) < 2:
        return
    toks = [x for x in t[1].split(",") if x]
    ops = parse_ops(t[1])
    vals = set([0, 1, 65535, 65534])
    idx = set()
    for op, f in ops:
        if not f:
            continue
        nidx = 3 if op in "noxd" else 2 if op == "k" else 1
        for x in f[:nidx]:
            idx.add(x & 3)
        vs = f[nidx:]
        if len(vs) > 8:
            vs = vs[:4] + vs[-4:]
        for v in vs:
            for d in (-2, -1, 0, 1, 2):
                if 0 <= v + d <= UMAX:
                    vals.add(v + d)
    vals = sorted(vals)[:80]
    n = len(toks)
    cuts = range(1, n + 1) if n <= 60 else sorted(set(list(range(1, n + 1, max(1, n // 20))) + [n]))
    for c in cuts:
        for i in sorted(idx):
            tail = ["e%d" % i, "s%d" % i, "e%d" % i]
            for v in vals:
                tail += ["q%d.%d" % (i, v), "r%d.%d" % (i, v), "q%d.%d" % (i, v), "a%d.%d" % (i, v), "r%d.%d" % (i, v)]
            tail += ["e%d" % i, "t%d" % i, "s%d" % i, "e%d" % i]
            yield " ".join([t[0], ",".join(toks[:c] + tail)] + t[2:])


def search(rng, divergent_cases):
    """every prefix of the divergent histories (shortest failing history first),
    continuations of them that probe the state, then a fresh batch"""
    for c in divergent_cases[:10]:
        t = c.split()
        if len(t) < 2:
            continue
        toks = t[1].split(",")
        for n in range(1, len(toks) + 1):
            i = toks[n - 1][1:].split(".")[0] if len(toks[n - 1]) > 1 else "0"
            yield " ".join([t[0], ",".join(toks[:n] + ["e" + i, "t" + i])] + t[2:])
    for c in divergent_cases[:6]:
        yield from _continuations(c)
    r2 = random.Random(rng.getrandbits(32))
    yield from generate_C08(r2, "quick")
    yield from generate_C14(r2, "quick")


ASSUMPTIONS = ["allocation never fails (OOM paths belong to C18)",
               "little-endian host (Encode/Decode memcpy uint32_t/uint16_t)",
               "arguments are uint16_t values as the C prototypes force",
               "array slots at or beyond `cardinality` are never read by the C code and are not modelled"]

PARTS = {
    "C08": dict(coq_props=["Properties_C08_bitmap", "Properties_C08_bitmap_src"], files=FILES, rule=RULE_C08,
                generate=generate_C08, oracles={"bm_ops": o_ops_c08}, classify=classify, search=search,
                assumptions=ASSUMPTIONS, configs_quick=["pinned", "O0"],
                trusted_base=["gen/c2coq.py + CSem.v for the *_src theorems (C-to-Gallina translator, clang 14 typed AST "
                              "-> coq/gen/Src_leaf_bitmap.v via gen/c2coq_leaf.py: bitmapContains_/bitmapSet_/bitmapClear_ "
                              "regenerated from the current source on every run; subset and assumptions in the "
                              "translator's docstring; the `uint8_t *bits` object is a byte list); the renderings are "
                              "tied to the compiled C by the translator, not by proof"]),
    "C14": dict(coq_props=["Properties_C14_bitmap"], files=FILES, rule=RULE_C14, generate=generate_C14,
                oracles={"bm_ops": o_ops_c14}, classify=classify, search=search,
                assumptions=ASSUMPTIONS, configs_quick=["pinned", "O0"]),
}
