"""c2coq_hdr.py — registration of the HEADER ACCESSORS of the array codecs with
the C-to-Gallina translator (gen/c2coq.py, unchanged): the functions that read
a few tagged varints / bytes from the front of an encoded buffer and report
what the encoding says about itself (property C16).

One call of c2coq.translate_file per C file, with `imports=("tagged",)`: the
accessors call varintTaggedGet64, which is taken from coq/gen/Src_tagged.v
(so c2coq.regenerate, which translates varintTagged.c, must have run before in
the same process — gen/facts.py:regenerate calls it first).  The result is
coq/gen/Src_hdr_<module>.v with one `src_<f>` per function (or
`src_<f>_UNTRANSLATED` if the current source left the translator's subset).
The proofs that each `src_<f>` computes the hand model for every byte list
that holds the bytes it reads are in coq/theories/HdrSrc<Module>.v, the C16
statements about them in coq/theories/Properties_C16_<part>_hdr_src.v.

Accessors that the translator (as it is) does not take, with the construct
that blocks them (tried on the pinned source; not registered, so that the
build does not carry dead `_UNTRANSLATED` entries):
  varintPFORReadMeta             reported: "ImplicitCastExpr with effects inside an expression"
                                 (`meta->width = (varintWidth)*src++`); its other statements are outside
                                 the subset too: `(uint64_t *)&meta->count` is a "pointer cast BitCast"
                                 (a uint32_t field written through a uint64_t *), and `&meta->min` of a
                                 struct-pointer parameter handed to an imported callee is not handled
  varintPFORGetAt / varintFORGetAt / varintFORDecode
                                 "call to varintExternalGet, which is not defined in this file"
  varintAdaptiveGetEncodingType  return type: the enum typedef 'varintAdaptiveEncodingType'
  varintAdaptiveReadMeta         parameter type 'varintAdaptiveMeta' (a struct with a union member)
  varintDictDecode               "pointer return type"
  varintDictDecodeInto           "ImplicitCastExpr of non-integer type 'const uint8_t *'"
                                 (varintDict.c has no separate header accessor)
  varintRLEGetCount              translated already (module `rle`, RleSrcProofs.v)
"""
import c2coq

# module -> (C file, functions)
HDR = [
    ("for", "varintFOR.c", ["varintFORGetMinValue", "varintFORGetCount", "varintFORGetOffsetWidth",
                            "varintFORReadMetadata"]),
    ("bp128", "varintBP128.c", ["varintBP128GetCount"]),
]


def regenerate(repo, outdir):
    info = {}
    if "tagged" not in c2coq.SIGS:      # stand-alone use: the imported signatures come from translating varintTagged.c
        c2coq.translate_file(repo, "varintTagged.c", c2coq.TAGGED_FUNCTIONS, "tagged", outdir, c2coq.TAGGED_WRAPPERS)
    for module, cfile, functions in HDR:
        info.update(c2coq.translate_file(repo, cfile, list(functions), "hdr_" + module, outdir, imports=("tagged",)))
    return info


if __name__ == "__main__":
    import json
    import sys
    print(json.dumps(regenerate(sys.argv[1], sys.argv[2]), indent=1))
