"""c2coq_leaf.py — registration of the small leaf functions of the array-codec
modules with the C-to-Gallina translator (gen/c2coq.py, unchanged).

One call of c2coq.translate_file per C file; the result is
coq/gen/Src_leaf_<module>.v with one `src_<f>` per function (or
`src_<f>_UNTRANSLATED` if the current source left the translator's subset).
The proofs that each `src_<f>` computes the hand model are in
coq/theories/LeafSrc<Module>.v, the property theorems restated about `src_<f>`
in coq/theories/Properties_Cnn_<module>_src.v.

`static` / `static inline` functions are found by name as well (for a header
function the C file that includes the header is named).
"""
import c2coq

# module -> (C file, functions)
LEAF = [
    ("delta", "varintDelta.c", ["varintDeltaZigZag", "varintDeltaZigZagDecode"]),
    ("group", "varintGroup.c", ["varintGroupBitmapSize_", "varintGroupWidthDecode_", "varintGroupWidthEncode_",
                                "varintGroupGetFieldWidth", "varintGroupGetSize"]),
    ("elias", "varintElias.c", ["floorLog2", "varintEliasGammaBits", "varintEliasGammaMaxBytes",
                                "varintEliasDeltaMaxBytes"]),
    ("for", "varintFOR.c", ["varintFORComputeWidth"]),
    ("bp128", "varintBP128.c", ["varintBP128BitsNeeded32", "varintBP128BitsNeeded64"]),
    ("pfor", "varintPFOR.c", ["varintPFORCalculateMarker"]),
    ("adaptive", "varintAdaptive.c", ["varintAdaptiveMaxSize", "size_mul_overflow"]),
    ("float", "varintFloat.c", ["truncateMantissa", "expandMantissa"]),
    ("bitmap", "varintBitmap.c", ["bitmapSet_", "bitmapClear_", "bitmapContains_"]),
]


def regenerate(repo, outdir):
    info = {}
    for module, cfile, functions in LEAF:
        info.update(c2coq.translate_file(repo, cfile, list(functions), "leaf_" + module, outdir))
    return info


if __name__ == "__main__":
    import json
    import sys
    print(json.dumps(regenerate(sys.argv[1], sys.argv[2]), indent=1))
