"""c2coq.py — C-to-Gallina translator (trusted; keep it small).

Regenerates, on every run, a Coq rendering of selected C functions of the
library's CURRENT source.  `translate_file(repo, "varintTagged.c", [...])`
asks clang for the typed AST of each function

    clang -std=c11 -DNDEBUG -I<repo>/src -fsyntax-only -Xclang -ast-dump=json
          -Xclang -ast-dump-filter=<fn> <repo>/src/<file.c>

(the AST carries the type of every node and every implicit conversion, so
integer promotion and the usual arithmetic conversions are clang's, not ours)
and emits one definition `src_<fn>` per function into coq/gen/Src_<module>.v,
a shallow embedding into the result monad of coq/theories/CSem.v
(`COk v | CUB why | COob | CFuel`).

SUPPORTED SUBSET (anything else => the function is emitted as
`src_<fn>_UNTRANSLATED : unit`, never as `src_<fn>`; the construct is reported
in the generated-facts block; the translator never guesses):
  types       _Bool, (un)signed char/short/int/long/long long and the typedefs
              (u)int{8,16,32,64}_t, size_t, bool, varintWidth (each typedef is
              checked against the current headers with a _Generic probe);
              `uint8_t *` / `const uint8_t *` parameters (a byte object) and
              locals (a position inside one such object); a parameter may be
              advanced itself (p++, p += n); casts between uint8_t * and
              int8_t * / char * (the same bytes, read through int8_t as a
              signed value); uninitialised local `uint8_t a[n]` arrays (a byte
              object whose elements hold no value until stored: reading one is
              CUB, indexing outside is COob; never passed to a function);
              `T *` parameters for a non-byte scalar T: ONE object of type T,
              unless the function subscripts the parameter or does arithmetic
              on it, in which case it is an array of T (a `list Z`, index
              checked: COob outside)
  expressions integer/char literals, enum constants, file-scope `const` integer
              variables with a constant initialiser, parentheses, implicit and
              explicit integral casts, + - * / % << >> & | ^ ~ unary -,
              < <= > >= == != ! && || ?:, sizeof of a scalar type/expression
              (the source is read as the pinned build compiles it: -DNDEBUG),
              reads of locals/parameters, p[i] and *p on byte pointers, *p on
              scalar pointers, p + i / p - i / &p[i] / p - q / p < q (same object)
              on byte pointers,
              &local
  effects     `x = e`, `x op= e`, `++x` `x++` `--x` `x--` (integers and byte
              pointer locals), `p[i] = e`, `p[i++] = e`, `*p = e`, `*p++ = e`,
              `a, b`, calls —
              as a statement, an initialiser, an assigned / returned value, a
              loop or if condition, possibly under casts, `!`, or compared with
              an integer literal; never two of them in one full expression
              where C leaves their order open
  statements  blocks, declarations of scalar / byte-pointer locals, if/else,
              switch with case/default directly in its body (fall-through and
              break included, nested switches), return, for / while / do-while
              with break and continue (`return` inside a loop only in the
              function being translated, not in an inlined callee), `(void)e;`
  calls       * a `static` function of the same file is inlined,
              * a non-static function of the same file is called through its own
                translation `src_<g>` (no two pointer arguments may alias; a byte
                pointer p + k is passed as the view `c_view m k` of the object
                from index k on — an index below k is then COob in the callee,
                which is conservative — and a writing callee's view is put back
                with `c_unview`),
              * a function of ANOTHER translated file (`imports`) is called through
                that file's `src_<g>` (coq/gen/Src_<other>.v is imported),
              * cond ? a : b whose arms contain such calls (condition call-free),
              * memcpy(p, &x, sizeof x) between two scalar objects of the same
                type is the assignment *p = x,
              * __builtin_{s,u}{add,sub,mul}{,l,ll}_overflow as gcc documents them
  structs     a struct all of whose fields are integers: a local `S x;` (fields
              without a value), `x.f`, `p->f`, `&x` passed to a function, and
              `S *p` parameters, where p MAY BE NULL: the parameter is an
              `option` of the tuple of its fields (each an `option Z`), the body
              is rendered once for p == NULL and once for p != NULL, `if (p)` is
              then known, and `p->f` on the null pointer is CUB UB_null_deref
  rejected    goto, labels, assignment of a pointer to another object, other
              arrays and structs, unions, floating point, non-const globals, static locals,
              function pointers, varargs, volatile, pointer comparison, calls to
              anything outside the file, recursion

RENDERING
  integer values are Z, the C type picks the operation (c_add TU32 …: wraps;
  c_add TS32 …: CUB on overflow; c_shl: CUB on a bad count; c_div: CUB on 0;
  c_cast from to: value-preserving or modulo 2^N).  A byte pointer parameter p
  is a `list N` m_p (loads/stores outside it are COob); a non-const one is
  returned as the final list.  A byte pointer local is an integer offset into
  the list of the parameter it was derived from.  A scalar pointer parameter p
  is an `option Z` p_p (None = the object holds no value yet) and is returned
  likewise.  A local that has not been assigned on the path taken reads as
  CUB UB_uninit_read — never a default value.  Falling off the end of a
  non-void function is CUB UB_no_return.  The result is
  `cres (ret * out_1 * … * out_k)` (C return value first if non-void, then every
  non-const pointer parameter in order).  Control flow is rendered in
  continuation-passing style: the code after an `if` is copied into every
  branch that reaches it.  A loop is `c_while v_fuel step state`: the state is
  the tuple of the variables and byte objects mentioned in the loop, `step`
  renders one iteration (LNext / LBreak / LRet), and a function that contains
  (or calls a function that contains) a loop takes a first argument
  `v_fuel : nat`, the number of iterations any one loop may take before the
  outcome is CFuel; theorems are stated for every sufficient fuel.

ASSUMPTIONS (the trusted reading of C)
  LP64, two's complement, CHAR_BIT = 8; conversion to a signed type and >> of a
  negative value as gcc/clang define them; `restrict` ignored (calls with
  aliasing pointer arguments are rejected instead); an enum type without
  negative enumerators has underlying type unsigned int (probed);
  `uint8_t *` = pointer to the first byte of an object of the list's length;
  pointer arithmetic itself is never UB here, only the access is checked;
  argument evaluation order left to right (arguments are side-effect free in
  the subset); the compiler, libc's memcpy and clang's AST are trusted.
"""
import json
import os
import re
import subprocess
import tempfile

ITY = {"_Bool": "TBool", "char": "TS8", "signed char": "TS8", "unsigned char": "TU8",
       "short": "TS16", "unsigned short": "TU16", "int": "TS32", "unsigned int": "TU32",
       "long": "TS64", "unsigned long": "TU64", "long long": "TS64", "unsigned long long": "TU64"}
BITS = {"TBool": 1, "TS8": 8, "TU8": 8, "TS16": 16, "TU16": 16, "TS32": 32, "TU32": 32, "TS64": 64, "TU64": 64}
# typedef name -> builtin type it must denote (verified against the headers by probe_typedefs)
TYPEDEFS = {"uint8_t": "unsigned char", "uint16_t": "unsigned short", "uint32_t": "unsigned int",
            "uint64_t": "unsigned long", "int8_t": "signed char", "int16_t": "short", "int32_t": "int",
            "int64_t": "long", "size_t": "unsigned long", "bool": "_Bool",
            "varintWidth": "unsigned int", "enum varintWidth": "unsigned int"}
MAX_CHARS = 400000   # per function; continuation copying is bounded by this
ARITH = {"+": "c_add", "-": "c_sub", "*": "c_mul", "/": "c_div", "%": "c_rem", "&": "c_and", "|": "c_or", "^": "c_xor"}
CMP = {"<": "c_lt", "<=": "c_le", ">": "c_gt", ">=": "c_ge", "==": "c_eq", "!=": "c_ne"}
PTR = "PTR"          # pseudo type of the offset held by a byte-pointer local


class Untranslatable(Exception):
    pass


def rng(t):
    b = BITS[t]
    if t == "TBool":
        return 0, 1
    return (-(1 << (b - 1)), (1 << (b - 1)) - 1) if t[1] == "S" else (0, (1 << b) - 1)


def promote(t):
    """integer promotion (C11 6.3.1.1p2)"""
    return "TS32" if BITS[t] < 32 else t


def zlit(v):
    return str(v) if v >= 0 else "(%d)" % v


def indent(s, n=2):
    return "\n".join((" " * n + l) if l else l for l in s.split("\n"))


def blk(s):
    return "(" + indent(s, 1)[1:] + ")"


def tup(xs, empty="tt"):
    return empty if not xs else xs[0] if len(xs) == 1 else "(%s)" % ", ".join(xs)


class Env:
    """vars : decl id -> ('cell', key) | ('bytes', bufkey, off or None) | ('cellptr', key)
                         | ('ptrvar', bufkey, key of the cell holding its offset)
       cells: key -> (ity or PTR, ('val', name) | ('unset',) | ('opt', name))
       bufs : bufkey -> current Coq name of the byte list"""

    def __init__(self, vars=None, cells=None, bufs=None):
        self.vars, self.cells, self.bufs = dict(vars or {}), dict(cells or {}), dict(bufs or {})

    def copy(self):
        return Env(self.vars, self.cells, self.bufs)
    # a struct object is the list of the cells of its fields: vars[id] = ('struct', name, [cell keys]) for a
    # local struct, ('structptr', name, [cell keys] or None) for a pointer parameter (None = the null pointer)


class Ctx:
    """kret(env, value name or None): what `return` does; kbreak / kcont(env): what
    `break` / `continue` do; stack: the functions being inlined at this point;
    value(env, name): the function's result value (None inside an inlined callee)"""

    def __init__(self, kret, kbreak, kcont, stack, value, wrap=None):
        self.kret, self.kbreak, self.kcont, self.stack, self.value = kret, kbreak, kcont, stack, value
        self.wrap = wrap or (lambda v: "COk " + v)    # how a ready-made result value leaves the current construct

    def but(self, **kw):
        c = Ctx(self.kret, self.kbreak, self.kcont, self.stack, self.value, self.wrap)
        for k, v in kw.items():
            setattr(c, k, v)
        return c


class Translator:
    def __init__(self, repo, cfile):
        self.src = os.path.join(repo, "src")
        self.cfile = cfile if os.path.isabs(cfile) else os.path.join(self.src, cfile)
        self.asts = {}
        self.done = {}        # fn -> dict(text, sig) | dict(error)
        self.order = []
        self.globals_read = []
        self.n = 0
        self.fuel = False     # the function being translated needs the fuel argument
        self.active = []
        self.enum_cache = {}
        self.const_cache = {}
        self.buf_const = {}   # bufkey -> the parameter is a pointer to const
        self.locals = set()   # ids of the variables declared inside the function being translated
        self.buf_arr = {}     # bufkey -> True for a local byte array (elements may hold no value)
        self.buf_z = {}       # bufkey -> element type of an array of scalars (`uint64_t *` parameter that is indexed)
        self.imports = {}     # function of another translated file -> (module, signature)
        self.structs = {}     # struct name -> [(field, ity)]
        self.rty = "unit"
        self.probe_typedefs()

    # ------------------------------------------------------------ clang
    def clang(self, args, text=None):
        cmd = ["clang", "-std=c11", "-DNDEBUG", "-I", self.src, "-fsyntax-only", "-w"] + args
        p = subprocess.run(cmd, input=text, stdout=subprocess.PIPE, stderr=subprocess.PIPE, text=True)
        return p.returncode, p.stdout, p.stderr

    def probe_typedefs(self):
        """every typedef the translator resolves by name must denote, in the
        current headers, the builtin type the table says"""
        lines = ['#include "varint.h"', "#include <stdint.h>", "#include <stddef.h>", "#include <stdbool.h>"]
        for name, base in sorted(TYPEDEFS.items()):
            lines.append('_Static_assert(_Generic((%s)0, %s: 1, default: 0) && sizeof(%s) == %d, "%s");'
                         % (name, base, name, max(1, BITS[ITY[base]] // 8), name))
        lines.append('_Static_assert(sizeof(long) == 8 && sizeof(int) == 4 && sizeof(void *) == 8 && (char)-1 < 0 '
                     '&& (-1 >> 1) == -1 && (int)0xffffffffu == -1, "LP64, gcc-style implementation-defined behaviour");')
        rc, out, err = self.clang(["-x", "c", "-"], "\n".join(lines) + "\n")
        if rc != 0:
            raise RuntimeError("c2coq: type table does not match the current headers:\n" + err[-1500:])

    def dump(self, name):
        rc, out, err = self.clang(["-Xclang", "-ast-dump=json", "-Xclang", "-ast-dump-filter=" + name, self.cfile])
        if rc != 0:
            raise RuntimeError("c2coq: clang failed on %s: %s" % (self.cfile, err[-1500:]))
        dec, i, objs = json.JSONDecoder(), 0, []
        while True:
            while i < len(out) and out[i].isspace():
                i += 1
            if i >= len(out):
                return objs
            o, i = dec.raw_decode(out, i)
            objs.append(o)

    def ast(self, fn):
        if fn not in self.asts:
            found = None
            for o in self.dump(fn):
                if o.get("kind") == "FunctionDecl" and o.get("name") == fn and \
                        any(c.get("kind") == "CompoundStmt" for c in o.get("inner", [])):
                    if found is not None:
                        raise Untranslatable("two definitions of %s" % fn)
                    found = o
            self.asts[fn] = found
        return self.asts[fn]

    def enum_value(self, name):
        """value of an enumeration constant, printed by a program compiled
        against the current headers"""
        if name not in self.enum_cache:
            prog = ('#include "varint.h"\n#include <stdio.h>\n'
                    'int main(void) { printf("%%lld\\n", (long long)(%s)); return 0; }\n' % name)
            with tempfile.TemporaryDirectory(prefix="c2coq-") as d:
                exe = os.path.join(d, "e")
                p = subprocess.run(["clang", "-std=c11", "-DNDEBUG", "-w", "-I", self.src, "-x", "c", "-", "-o", exe], input=prog,
                                   stdout=subprocess.PIPE, stderr=subprocess.PIPE, text=True)
                if p.returncode != 0:
                    raise Untranslatable("enumeration constant %s cannot be evaluated" % name)
                self.enum_cache[name] = int(subprocess.run([exe], stdout=subprocess.PIPE, text=True).stdout)
        return self.enum_cache[name]

    def const_global(self, d):
        """a file-scope `const` integer variable with a constant initialiser reads as that initialiser"""
        name = d.get("name")
        if name not in self.const_cache:
            found = [o for o in self.dump(name) if o.get("kind") == "VarDecl" and o.get("name") == name]
            if d["id"] in self.locals or len(found) != 1 or "init" not in found[0] or not re.match(r"^const\b", found[0]["type"]["qualType"]):
                raise Untranslatable("reference to the variable %s (not a local, not a const with initialiser)" % name)
            v = found[0]
            t = self.ty(v["type"])
            if t[0] != "int" or self.ity(v["inner"][-1]) != t[1]:
                raise Untranslatable("const %s of non-integer type" % name)
            self.const_cache[name] = self.expr(v["inner"][-1], Env())
        return self.const_cache[name]

    # ------------------------------------------------------------ types
    def ty(self, t):
        """('int', ity) | ('ptr', const?, ('int', ity) | ('void',)) | ('void',)"""
        s = t.get("desugaredQualType") or t["qualType"] if isinstance(t, dict) else t
        s = s.strip()
        if re.search(r"\b(volatile|_Atomic)\b", s) or "[" in s or "(" in s:
            raise Untranslatable("type %r" % s)
        m = re.match(r"^(.*?)\s*\*\s*((?:(?:const|restrict|__restrict)\s*)*)$", s)
        if m:
            inner = m.group(1).strip()
            const = bool(re.match(r"^const\b", inner) or re.search(r"\bconst$", inner))
            inner = re.sub(r"^const\s+|\s+const$", "", inner).strip()
            return ("ptr", const, self.ty(inner))
        s = re.sub(r"^const\s+|\s+const$", "", s).strip()
        if s == "void":
            return ("void",)
        s = TYPEDEFS.get(s, s)
        if s in ITY:
            return ("int", ITY[s])
        if re.match(r"^(struct\s+)?\w+$", s) and self.struct(re.sub(r"^struct\s+", "", s)):
            return ("struct", re.sub(r"^struct\s+", "", s))
        raise Untranslatable("type %r" % s)

    def struct(self, name):
        """fields of `struct name` / typedef name, all of integer type; None if there is no such struct"""
        if name not in self.structs:
            self.structs[name] = None
            recs = [o for o in self.dump(name) if o.get("kind") == "RecordDecl" and o.get("name") == name
                    and o.get("tagUsed") == "struct" and o.get("completeDefinition")]
            if len(recs) == 1:
                try:
                    fs = [(c["name"], self.ty(c["type"])) for c in recs[0].get("inner", []) if c["kind"] == "FieldDecl"]
                    if fs and all(t[0] == "int" for (_, t) in fs) and not any(c.get("isBitfield") for c in recs[0]["inner"]):
                        self.structs[name] = [(f, t[1]) for (f, t) in fs]
                except Untranslatable:
                    pass
        return self.structs[name]

    def ity(self, node):
        t = self.ty(node["type"])
        if t[0] != "int":
            raise Untranslatable("%s of non-integer type %r" % (node["kind"], node["type"]["qualType"]))
        return t[1]

    def is_ptr(self, node):
        return self.ty(node["type"])[0] == "ptr"

    def fresh(self, prefix, base):
        self.n += 1
        return "%s%s_%d" % (prefix, re.sub(r"\W", "_", base), self.n)

    # ------------------------------------------------------------ expressions (side-effect free) : cres Z
    def expr(self, n, env):
        k = n["kind"]
        if k in ("ParenExpr", "ConstantExpr"):
            return self.expr(n["inner"][0], env)
        if k in ("IntegerLiteral", "CharacterLiteral"):
            v, t = int(n["value"]), self.ity(n)
            lo, hi = rng(t)
            if not lo <= v <= hi:
                raise Untranslatable("literal %d outside its type %s" % (v, t))
            return "(COk %s)" % zlit(v)
        if k in ("ImplicitCastExpr", "CStyleCastExpr"):
            ck, sub = n["castKind"], n["inner"][0]
            if ck == "LValueToRValue":
                return self.read(sub, env)
            if ck in ("IntegralCast", "IntegralToBoolean"):
                return "(c_cast %s %s %s)" % (self.ity(sub), self.ity(n), self.expr(sub, env))
            if ck == "NoOp" and self.ity(sub) == self.ity(n):
                return self.expr(sub, env)
            raise Untranslatable("cast %s" % ck)
        if k == "BinaryOperator":
            op = n["opcode"]
            a, b = n["inner"]
            if op == "-" and self.is_ptr(a) and self.is_ptr(b):
                pa, pb = self.ptr(a, env), self.ptr(b, env)
                if pa[0] != "bytes" or pb[0] != "bytes" or pa[1] != pb[1] or self.ity(n) != "TS64":
                    raise Untranslatable("difference of pointers into different objects")
                return "(c_psub %s %s)" % (pa[2] or "(COk 0)", pb[2] or "(COk 0)")
            if op in ARITH:
                t = self.ity(n)
                if self.ity(a) != t or self.ity(b) != t:
                    raise Untranslatable("operands of %s not converted to the result type" % op)
                return "(%s %s %s %s)" % (ARITH[op], t, self.expr(a, env), self.expr(b, env))
            if op in ("<<", ">>"):
                t = self.ity(n)
                if self.ity(a) != t:
                    raise Untranslatable("left operand of %s not of the result type" % op)
                self.ity(b)
                return "(%s %s %s %s)" % ("c_shl" if op == "<<" else "c_shr", t, self.expr(a, env), self.expr(b, env))
            if op in CMP and self.is_ptr(a) and self.is_ptr(b):
                pa, pb = self.ptr(a, env), self.ptr(b, env)
                if pa[0] != "bytes" or pb[0] != "bytes" or pa[1] != pb[1]:
                    raise Untranslatable("comparison of pointers into different objects")
                return "(%s %s %s)" % (CMP[op], pa[2] or "(COk 0)", pb[2] or "(COk 0)")
            if op in CMP:
                if self.ity(a) != self.ity(b) or self.ity(n) != "TS32":
                    raise Untranslatable("comparison %s of operands of different types" % op)
                return "(%s %s %s)" % (CMP[op], self.expr(a, env), self.expr(b, env))
            if op in ("&&", "||"):
                self.ity(a), self.ity(b)
                return "(%s %s %s)" % ("c_land" if op == "&&" else "c_lor", self.expr(a, env), self.expr(b, env))
            raise Untranslatable("operator %s in an expression" % op)
        if k == "UnaryOperator":
            op, sub = n["opcode"], n["inner"][0]
            if op in ("-", "~"):
                t = self.ity(n)
                if self.ity(sub) != t:
                    raise Untranslatable("operand of unary %s not promoted" % op)
                return "(%s %s %s)" % ("c_neg" if op == "-" else "c_not", t, self.expr(sub, env))
            if op == "+":
                return self.expr(sub, env)
            if op == "!":
                self.ity(sub)
                return "(c_lnot %s)" % self.expr(sub, env)
            raise Untranslatable("unary %s in an expression" % op)
        if k == "ConditionalOperator":
            c, a, b = n["inner"]
            self.ity(c)
            if self.ity(a) != self.ity(n) or self.ity(b) != self.ity(n):
                raise Untranslatable("?: arms not converted to the result type")
            return "(c_cond %s %s %s)" % (self.expr(c, env), self.expr(a, env), self.expr(b, env))
        if k == "UnaryExprOrTypeTraitExpr" and n.get("name") == "sizeof":
            return "(COk %d)" % self.sizeof(n)
        if k == "DeclRefExpr" and n["referencedDecl"]["kind"] == "EnumConstantDecl":
            v, t = self.enum_value(n["referencedDecl"]["name"]), self.ity(n)
            lo, hi = rng(t)
            if not lo <= v <= hi:
                raise Untranslatable("enumeration constant outside its type")
            return "(COk %s)" % zlit(v)
        raise Untranslatable("%s in an expression" % k)

    def sizeof(self, n):
        t = self.ty(n["argType"]) if "argType" in n else self.ty(n["inner"][0]["type"])
        if t[0] != "int" or self.ity(n) != "TU64":
            raise Untranslatable("sizeof of a non-scalar")
        return max(1, BITS[t[1]] // 8)

    def cell_read(self, env, key):
        st = env.cells[key][1]
        if st[0] == "val":
            return "(COk %s)" % st[1]
        if st[0] == "unset":
            return "(CUB UB_uninit_read)"
        return "(c_cell_read %s)" % st[1]

    def var(self, n, env):
        d = n["referencedDecl"]
        if d["kind"] not in ("VarDecl", "ParmVarDecl") or d["id"] not in env.vars:
            raise Untranslatable("reference to %s %s (not a local of the translated scope)" % (d["kind"], d.get("name")))
        return env.vars[d["id"]]

    def read(self, n, env):
        """value of the lvalue n"""
        k = n["kind"]
        if k == "ParenExpr":
            return self.read(n["inner"][0], env)
        if k == "DeclRefExpr":
            d = n["referencedDecl"]
            if d["kind"] == "VarDecl" and d["id"] not in env.vars:
                self.ity(n)
                return self.const_global(d)
            v = self.var(n, env)
            if v[0] != "cell":
                raise Untranslatable("pointer used as a value")
            self.ity(n)
            return self.cell_read(env, v[1])
        p = self.lvalue_ptr(n, env)
        if p[0] == "null":
            return "(CUB UB_null_deref)"
        if p[0] == "bytes":
            if p[1] in self.buf_z:
                if self.ity(n) != self.buf_z[p[1]]:
                    raise Untranslatable("array element read through an lvalue of another type")
                return "(c_zload %s %s)" % (env.bufs[p[1]], p[2] or "(COk 0)")
            ld = "(%s %s %s)" % ("c_aload" if self.buf_arr.get(p[1]) else "c_load", env.bufs[p[1]], p[2] or "(COk 0)")
            if self.ity(n) == "TS8":          # the byte read through an lvalue of type signed char / int8_t
                return "(c_cast TU8 TS8 %s)" % ld
            if self.ity(n) != "TU8":
                raise Untranslatable("load of a non-byte through a byte pointer")
            return ld
        if env.cells[p[1]][0] != self.ity(n):
            raise Untranslatable("object read through a pointer of another type")
        return self.cell_read(env, p[1])

    def lvalue_ptr(self, n, env):
        """address of the lvalue n, as a pointer value"""
        k = n["kind"]
        if k == "ParenExpr":
            return self.lvalue_ptr(n["inner"][0], env)
        if k == "ArraySubscriptExpr":
            a, b = n["inner"]
            if not self.is_ptr(a):
                a, b = b, a
            return self.padd(self.ptr(a, env), "c_padd", self.expr(b, env))
        if k == "UnaryOperator" and n["opcode"] == "*":
            return self.ptr(n["inner"][0], env)
        if k == "DeclRefExpr":
            v = self.var(n, env)
            if v[0] == "cell":
                return ("cellptr", v[1])
        if k == "MemberExpr":
            b = self.unparen(n["inner"][0])
            if n.get("isArrow") and b["kind"] == "ImplicitCastExpr" and b["castKind"] == "LValueToRValue":
                b = self.unparen(b["inner"][0])
            if b["kind"] == "DeclRefExpr":
                v = self.var(b, env)
                if v[0] in ("struct", "structptr") and bool(n.get("isArrow")) == (v[0] == "structptr"):
                    if v[2] is None:
                        return ("null",)
                    names = [f for (f, _) in self.struct(v[1])]
                    return ("cellptr", v[2][names.index(n["name"])])
        raise Untranslatable("lvalue %s" % k)

    def padd(self, p, op, i):
        if p[0] != "bytes":
            raise Untranslatable("arithmetic on a pointer to a scalar object")
        if op == "c_padd" and p[2] is None:
            return ("bytes", p[1], i)
        return ("bytes", p[1], "(%s %s %s)" % (op, p[2] or "(COk 0)", i))

    def ptr(self, n, env):
        """pointer-valued expression -> ('bytes', bufkey, offset term or None) | ('cellptr', key)"""
        k = n["kind"]
        t = self.ty(n["type"])
        if t[0] != "ptr":
            raise Untranslatable("pointer expected")
        if k == "ParenExpr":
            return self.ptr(n["inner"][0], env)
        if k in ("ImplicitCastExpr", "CStyleCastExpr"):
            sub, ck = n["inner"][0], n["castKind"]
            while ck == "LValueToRValue" and sub["kind"] == "ParenExpr":
                sub = sub["inner"][0]
            if ck == "LValueToRValue" and sub["kind"] == "DeclRefExpr":
                v = self.var(sub, env)
                if v[0] == "structptr":
                    return v
                if v[0] == "cell":
                    raise Untranslatable("integer used as a pointer")
                if v[0] == "ptrvar":
                    return ("bytes", v[1], self.cell_read(env, v[2]))
                return v
            if ck == "NoOp" and self.is_ptr(sub) and self.ty(sub["type"])[2] == t[2]:
                return self.ptr(sub, env)
            if ck in ("NoOp", "BitCast") and self.is_ptr(sub) and \
                    {t[2], self.ty(sub["type"])[2]} <= {("int", "TU8"), ("int", "TS8")}:
                return self.ptr(sub, env)            # uint8_t * <-> int8_t * / char *: the same bytes
            if ck == "ArrayToPointerDecay" and sub["kind"] == "DeclRefExpr":
                v = self.var(sub, env)
                if v[0] == "bytes" and self.buf_arr.get(v[1]):
                    return v
            raise Untranslatable("pointer cast %s" % ck)
        if k == "BinaryOperator" and n["opcode"] in ("+", "-"):
            a, b = n["inner"]
            if not self.is_ptr(a):
                if n["opcode"] == "-":
                    raise Untranslatable("integer - pointer")
                a, b = b, a
            self.ity(b)
            return self.padd(self.ptr(a, env), "c_padd" if n["opcode"] == "+" else "c_psub", self.expr(b, env))
        if k == "UnaryOperator" and n["opcode"] == "&":
            b = self.unparen(n["inner"][0])
            if b["kind"] == "DeclRefExpr" and b["referencedDecl"]["id"] in env.vars and env.vars[b["referencedDecl"]["id"]][0] == "struct":
                v = env.vars[b["referencedDecl"]["id"]]
                return ("structptr", v[1], v[2])
            return self.lvalue_ptr(n["inner"][0], env)
        raise Untranslatable("pointer expression %s" % k)

    # ------------------------------------------------------------ expressions with effects (continuation-passing)
    def bind(self, pat, term, rest):
        return "%s <- %s ;;\n%s" % (pat, term, rest)

    def set_cell(self, env, key, name):
        e = env.copy()
        e.cells[key] = (env.cells[key][0], ("val", name))
        return e

    def effectful(self, n):
        k = n.get("kind")
        if k in ("CallExpr", "CompoundAssignOperator") or (k == "BinaryOperator" and n["opcode"] in ("=", ",")) or \
                (k == "UnaryOperator" and n["opcode"] in ("++", "--")):
            return True
        return any(self.effectful(c) for c in n.get("inner", []) if isinstance(c, dict))

    def st(self, bufkey):
        return "c_zstore" if bufkey in self.buf_z else "c_astore" if self.buf_arr.get(bufkey) else "c_store"

    def elem(self, bufkey):
        return self.buf_z.get(bufkey, "TU8")

    def modified(self, n):
        """ids of the variables that n assigns, increments or decrements directly"""
        out = []
        k = n.get("kind")
        if k == "CompoundAssignOperator" or (k == "BinaryOperator" and n["opcode"] == "=") or \
                (k == "UnaryOperator" and n["opcode"] in ("++", "--")):
            t = self.unparen(n["inner"][0])
            if t["kind"] == "DeclRefExpr":
                out.append(t["referencedDecl"]["id"])
        for c in n.get("inner", []):
            if isinstance(c, dict):
                out += self.modified(c)
        return out

    def refers(self, n, declid):
        r = n.get("referencedDecl")
        return (n.get("kind") == "DeclRefExpr" and r and r.get("id") == declid) or \
            any(self.refers(c, declid) for c in n.get("inner", []) if isinstance(c, dict))

    def strip(self, n):
        while n["kind"] in ("ParenExpr", "ConstantExpr") or \
                (n["kind"] in ("ImplicitCastExpr", "CStyleCastExpr") and n["castKind"] in ("IntegralCast", "IntegralToBoolean", "NoOp")):
            n = n["inner"][0]
        return n

    def unparen(self, n):
        while n["kind"] == "ParenExpr":
            n = n["inner"][0]
        return n

    def rhs(self, n, env, k, ctx, hint="t"):
        """evaluate the integer expression n, whose spine may carry calls,
        assignments, ++ / --, then k(env', name of the value)"""
        if not self.effectful(n):
            v = self.fresh("v_", hint)
            return self.bind(v, self.expr(n, env), k(env, v))
        kind = n["kind"]
        if kind in ("ParenExpr", "ConstantExpr"):
            return self.rhs(n["inner"][0], env, k, ctx, hint)
        if kind in ("ImplicitCastExpr", "CStyleCastExpr") and n["castKind"] in ("IntegralCast", "IntegralToBoolean"):
            f, to = self.ity(n["inner"][0]), self.ity(n)

            def after(e2, r):
                if r is None:
                    raise Untranslatable("value of a void call")
                v = self.fresh("v_", hint)
                return self.bind(v, "(c_cast %s %s (COk %s))" % (f, to, r), k(e2, v))
            return self.rhs(n["inner"][0], env, after, ctx, hint)
        if kind == "CallExpr":
            def after(e2, r):
                if r is None:
                    raise Untranslatable("value of a void call")
                return k(e2, r)
            return self.call(n, env, after, ctx)
        if kind == "BinaryOperator" and n["opcode"] == ",":
            return self.effect(n["inner"][0], env, lambda e2: self.rhs(n["inner"][1], e2, k, ctx, hint), ctx)
        if kind == "BinaryOperator" and n["opcode"] == "=":
            return self.assign(n["inner"][0], n["inner"][1], env, k, ctx)
        if kind == "CompoundAssignOperator":
            return self.compound(n, env, k, ctx)
        if kind == "UnaryOperator" and n["opcode"] in ("++", "--"):
            return self.incdec(n, env, k, ctx)
        if kind == "UnaryOperator" and n["opcode"] == "!":
            self.ity(n["inner"][0])

            def after(e2, r):
                v = self.fresh("v_", hint)
                return self.bind(v, "(c_lnot (COk %s))" % r, k(e2, v))
            return self.rhs(n["inner"][0], env, after, ctx, hint)
        if kind == "BinaryOperator" and n["opcode"] in CMP:
            a, b = n["inner"]
            if self.strip(b)["kind"] != "IntegerLiteral" or self.ity(a) != self.ity(b):
                raise Untranslatable("comparison of an expression with effects with something other than a literal")

            def after(e2, r):
                v = self.fresh("v_", hint)
                return self.bind(v, "(%s (COk %s) %s)" % (CMP[n["opcode"]], r, self.expr(b, e2)), k(e2, v))
            return self.rhs(a, env, after, ctx, hint)
        if kind == "ConditionalOperator":
            c, a, b = n["inner"]
            if self.effectful(c) or self.ity(a) != self.ity(n) or self.ity(b) != self.ity(n):
                raise Untranslatable("?: with effects in its condition / unconverted arms")
            return "c_cond %s\n%s\n%s" % (self.expr(c, env), indent(blk(self.rhs(a, env, k, ctx, hint))),
                                          indent(blk(self.rhs(b, env, k, ctx, hint))))
        raise Untranslatable("%s%s with effects inside an expression" % (kind, (" " + n["opcode"]) if "opcode" in n else ""))

    def effect(self, n, env, k, ctx):
        """evaluate n for its effects only, then k(env')"""
        n = self.unparen(n)
        kind = n["kind"]
        if kind == "CallExpr":
            return self.call(n, env, lambda e2, r: k(e2), ctx)
        if kind == "CStyleCastExpr" and n["castKind"] == "ToVoid":
            return self.effect(n["inner"][0], env, k, ctx)
        if kind == "BinaryOperator" and n["opcode"] == ",":
            return self.effect(n["inner"][0], env, lambda e2: self.effect(n["inner"][1], e2, k, ctx), ctx)
        if kind == "BinaryOperator" and n["opcode"] == "=":
            return self.assign(n["inner"][0], n["inner"][1], env, lambda e2, r: k(e2), ctx)
        if kind == "CompoundAssignOperator":
            return self.compound(n, env, lambda e2, r: k(e2), ctx)
        if kind == "UnaryOperator" and n["opcode"] in ("++", "--"):
            return self.incdec(n, env, lambda e2, r: k(e2), ctx)
        if "type" not in n or self.ty(n["type"])[0] != "int":
            raise Untranslatable("statement %s" % kind)
        return self.rhs(n, env, lambda e2, r: k(e2), ctx, "_")

    def ptrvar(self, n, env):
        """the byte-pointer local named by n, or None"""
        n = self.unparen(n)
        if n["kind"] == "DeclRefExpr" and n["referencedDecl"]["id"] in env.vars:
            v = env.vars[n["referencedDecl"]["id"]]
            if v[0] == "ptrvar":
                return v
        return None

    def move(self, v, env, term, k):
        """set the offset of the pointer local v to term, then k(env')"""
        nm = self.fresh("v_", "off")
        return self.bind(nm, term, k(self.set_cell(env, v[2], nm)))

    def incdec(self, n, env, k, ctx):
        sub, up = n["inner"][0], n["opcode"] == "++"
        v = self.ptrvar(sub, env)
        if v:
            return self.move(v, env, "(%s %s (COk 1))" % ("c_padd" if up else "c_psub", self.cell_read(env, v[2])),
                             lambda e2: k(e2, None))
        t = self.ity(sub)
        p = promote(t)
        old = self.fresh("v_", "old")
        new = "(c_cast %s %s (%s %s (c_cast %s %s (COk %s)) (COk 1)))" % (p, t, "c_add" if up else "c_sub", p, t, p, old)
        return self.bind(old, self.read(sub, env),
                         self.store(sub, new, env, lambda e2, r: k(e2, old if n.get("isPostfix") else r)))

    def compound(self, n, env, k, ctx):
        lhs, rhs = n["inner"]
        op = n["opcode"][:-1]
        v = self.ptrvar(lhs, env)
        if v:
            if op not in ("+", "-"):
                raise Untranslatable("compound assignment %s on a pointer" % n["opcode"])
            self.ity(rhs)
            # the pointer is read after the right operand has been evaluated (a call may take it as argument)
            return self.rhs(rhs, env, lambda e2, r: self.move(
                v, e2, "(%s %s (COk %s))" % ("c_padd" if op == "+" else "c_psub", self.cell_read(e2, v[2]), r),
                lambda e3: k(e3, None)), ctx, "n")
        t, cl, cr = self.ity(lhs), self.ty(n["computeLHSType"]), self.ty(n["computeResultType"])
        if cl[0] != "int" or cr != cl:
            raise Untranslatable("compound assignment %s of this shape" % n["opcode"])
        if self.effectful(rhs):
            # x op= f(...): x must be a plain variable that the right operand does not mention (so the
            # order in which the two sides are evaluated cannot matter)
            x = self.unparen(lhs)
            if x["kind"] != "DeclRefExpr" or self.refers(rhs, x["referencedDecl"]["id"]) or op not in ARITH \
                    or self.ity(rhs) != cl[1]:
                raise Untranslatable("compound assignment %s with effects on the right" % n["opcode"])
            return self.rhs(rhs, env, lambda e2, r: self.store(
                lhs, "(c_cast %s %s (%s %s (c_cast %s %s %s) (COk %s)))" % (
                    cl[1], t, ARITH[op], cl[1], t, cl[1], self.read(lhs, e2), r), e2, k), ctx, "n")
        a = "(c_cast %s %s %s)" % (t, cl[1], self.read(lhs, env))
        if op in ("<<", ">>"):
            self.ity(rhs)
            r = "(%s %s %s %s)" % ("c_shl" if op == "<<" else "c_shr", cl[1], a, self.expr(rhs, env))
        elif op in ARITH and self.ity(rhs) == cl[1]:
            r = "(%s %s %s %s)" % (ARITH[op], cl[1], a, self.expr(rhs, env))
        else:
            raise Untranslatable("compound assignment %s" % n["opcode"])
        return self.store(lhs, "(c_cast %s %s %s)" % (cl[1], t, r), env, k)

    def store(self, lhs, term, env, k):
        """lhs := value of term (already of lhs's type); then k(env', name of the value)"""
        lhs = self.unparen(lhs)
        p = self.lvalue_ptr(lhs, env)
        if p[0] == "null":
            return "CUB UB_null_deref"
        nm = self.fresh("v_", lhs["referencedDecl"]["name"] if lhs["kind"] == "DeclRefExpr" else "a")
        if p[0] == "bytes":
            if self.ity(lhs) != self.elem(p[1]) or self.buf_const.get(p[1]):
                raise Untranslatable("store through a pointer to const / of a non-byte through a byte pointer")
            m = self.fresh("m_", "")
            e = env.copy()
            e.bufs[p[1]] = m
            return self.bind(nm, term, self.bind(m, "(%s %s %s (COk %s))" % (self.st(p[1]), env.bufs[p[1]], p[2] or "(COk 0)", nm), k(e, nm)))
        if env.cells[p[1]][0] != self.ity(lhs):
            raise Untranslatable("object assigned through a pointer of another type")
        return self.bind(nm, term, k(self.set_cell(env, p[1], nm), nm))

    def assign(self, lhs, rhs, env, k, ctx):
        """lhs = rhs; then k(env', name of the assigned value or None)"""
        lhs = self.unparen(lhs)
        v = self.ptrvar(lhs, env)
        if v:                                            # q = <pointer into the same object>
            p = self.ptr(rhs, env)
            if p[0] != "bytes" or p[1] != v[1]:
                raise Untranslatable("pointer assigned a pointer into another object")
            return self.move(v, env, p[2] or "(COk 0)", lambda e2: k(e2, None))
        if self.ity(lhs) != self.ity(rhs):
            raise Untranslatable("assigned value not converted to the type of the object")
        # *q++ = e  (q a byte-pointer local that e does not mention)
        if lhs["kind"] == "UnaryOperator" and lhs["opcode"] == "*":
            q = self.unparen(lhs["inner"][0])
            if q["kind"] == "UnaryOperator" and q["opcode"] in ("++", "--"):
                pv = self.ptrvar(q["inner"][0], env)
                if not pv or self.effectful(rhs) or self.refers(rhs, self.unparen(q["inner"][0])["referencedDecl"]["id"]) \
                        or self.ity(lhs) != "TU8" or self.buf_const.get(pv[1]):
                    raise Untranslatable("store through %s of this shape" % q["opcode"])
                step = "(%s %s (COk 1))" % ("c_padd" if q["opcode"] == "++" else "c_psub", self.cell_read(env, pv[2]))

                def put(e2, at):
                    nm, m = self.fresh("v_", "a"), self.fresh("m_", "")
                    e3 = e2.copy()
                    e3.bufs[pv[1]] = m
                    return nm, m, e3, "(%s %s %s (COk %s))" % (self.st(pv[1]), e2.bufs[pv[1]], at, nm)
                if q.get("isPostfix"):
                    nm, m, e3, st = put(env, self.cell_read(env, pv[2]))
                    return self.bind(nm, self.expr(rhs, env), self.bind(m, st, self.move(pv, e3, step, lambda e4: k(e4, nm))))

                def moved(e2):
                    nm, m, e3, st = put(e2, self.cell_read(e2, pv[2]))
                    return self.bind(nm, self.expr(rhs, e2), self.bind(m, st, k(e3, nm)))
                return self.move(pv, env, step, moved)
        # a[i++] = e  (the index has effects; e has none and does not mention what the index modifies)
        if lhs["kind"] == "ArraySubscriptExpr" and self.effectful(lhs):
            a, b = lhs["inner"]
            if not self.is_ptr(a):
                a, b = b, a
            if self.effectful(a) or self.effectful(rhs) or any(self.refers(rhs, i) for i in self.modified(b)):
                raise Untranslatable("store with effects on both sides")

            def at(e2, r):
                p = self.padd(self.ptr(a, e2), "c_padd", "(COk %s)" % r)
                if p[0] != "bytes" or self.ity(lhs) != self.elem(p[1]) or self.buf_const.get(p[1]):
                    raise Untranslatable("store through a pointer to const / of a non-byte")
                m = self.fresh("m_", "")
                e3 = e2.copy()
                e3.bufs[p[1]] = m
                return self.bind(m, "(%s %s %s %s)" % (self.st(p[1]), e2.bufs[p[1]], p[2], self.expr(rhs, e2)), k(e3, None))
            return self.rhs(b, env, at, ctx, "i")
        p = self.lvalue_ptr(lhs, env)
        if p[0] == "null":
            return "CUB UB_null_deref"
        if p[0] == "bytes":
            if self.ity(lhs) != self.elem(p[1]) or self.effectful(rhs) or self.buf_const.get(p[1]):
                raise Untranslatable("store through a byte pointer of a non-byte / of a value with effects / to const")
            m = self.fresh("m_", "")
            e = env.copy()
            e.bufs[p[1]] = m
            return self.bind(m, "(%s %s %s %s)" % (self.st(p[1]), env.bufs[p[1]], p[2] or "(COk 0)", self.expr(rhs, env)), k(e, None))
        if env.cells[p[1]][0] != self.ity(lhs):
            raise Untranslatable("object assigned through a pointer of another type")
        hint = lhs["referencedDecl"]["name"] if lhs["kind"] == "DeclRefExpr" else lhs.get("name", "a")
        return self.rhs(rhs, env, lambda e2, r: k(self.set_cell(e2, p[1], r), r), ctx, hint)

    # ------------------------------------------------------------ statements (continuation-passing)
    def seq(self, lst, env, k, ctx):
        if not lst:
            return k(env)
        return self.stmt(lst[0], env, lambda e: self.seq(lst[1:], e, k, ctx), ctx)

    def stmt(self, n, env, k, ctx):
        out = self.stmt1(n, env, k, ctx)
        if len(out) > MAX_CHARS:
            raise Untranslatable("translation too large (continuations copied too often)")
        return out

    def cond(self, c, env, k, ctx):
        """evaluate the controlling expression c, then k(env', term of its value)"""
        if self.is_ptr(c):                   # if (p): known when the function was entered (see function1)
            v = self.ptr(c, env)
            if v[0] != "structptr":
                raise Untranslatable("pointer used as a condition")
            return k(env, "(COk %d)" % (0 if v[2] is None else 1))
        self.ity(c)
        if self.effectful(c):
            return self.rhs(c, env, lambda e2, r: k(e2, "(COk %s)" % r), ctx, "c")
        return k(env, self.expr(c, env))

    def stmt1(self, n, env, k, ctx):
        kind = n["kind"]
        if kind == "CompoundStmt":
            return self.seq(n.get("inner", []), env, k, ctx)
        if kind == "NullStmt":
            return k(env)
        if kind == "DeclStmt":
            return self.decls(n["inner"], env, k, ctx)
        if kind == "ReturnStmt":
            if not n.get("inner"):
                return ctx.kret(env, None)
            return self.rhs(n["inner"][0], env, ctx.kret, ctx, "ret")
        if kind == "IfStmt":
            if n.get("hasInit") or n.get("hasVar") or len(n["inner"]) not in (2, 3):
                raise Untranslatable("if with declaration")

            def branches(e2, cv):
                th = self.stmt(n["inner"][1], e2, k, ctx)
                el = self.stmt(n["inner"][2], e2, k, ctx) if len(n["inner"]) == 3 else k(e2)
                return "c_cond %s\n%s\n%s" % (cv, indent(blk(th)), indent(blk(el)))
            return self.cond(n["inner"][0], env, branches, ctx)
        if kind == "SwitchStmt":
            return self.switch(n, env, k, ctx)
        if kind == "BreakStmt":
            if ctx.kbreak is None:
                raise Untranslatable("break outside a switch or loop")
            return ctx.kbreak(env)
        if kind == "ContinueStmt":
            if ctx.kcont is None:
                raise Untranslatable("continue outside a loop")
            return ctx.kcont(env)
        if kind == "DoStmt" and n["inner"][1]["kind"] == "IntegerLiteral" and int(n["inner"][1]["value"]) == 0:
            return self.stmt(n["inner"][0], env, k, ctx.but(kbreak=k, kcont=k))     # do { … } while (0)
        if kind in ("ForStmt", "WhileStmt", "DoStmt"):
            return self.loop(n, env, k, ctx)
        return self.effect(n, env, k, ctx)

    def decls(self, ds, env, k, ctx):
        if not ds:
            return k(env)
        d = ds[0]
        if d["kind"] != "VarDecl" or d.get("storageClass") or d.get("tls"):
            raise Untranslatable("declaration %s %s" % (d["kind"], d.get("storageClass", "")))
        e = env.copy()
        arr = re.match(r"^(.*?)\s*\[(\d+)\]$", d["type"].get("desugaredQualType") or d["type"]["qualType"])
        if arr:                                            # uint8_t a[n]: a byte object whose elements hold no value yet
            if self.ty(arr.group(1)) != ("int", "TU8") or re.match(r"^const\b", arr.group(1)) or "init" in d:
                raise Untranslatable("local array %s (only uninitialised uint8_t arrays)" % d["name"])
            nm = self.fresh("m_", d["name"])
            e.vars[d["id"]] = ("bytes", d["id"], None)
            e.bufs[d["id"]] = nm
            self.buf_arr[d["id"]] = True
            return self.bind(nm, "(COk (c_anew %s))" % arr.group(2), self.decls(ds[1:], e, k, ctx))
        t = self.ty(d["type"])
        if t[0] == "struct":                               # a local struct: one cell per field, none holding a value
            if "init" in d:
                raise Untranslatable("initialised struct %s" % d["name"])
            keys = []
            for (f, ft) in self.struct(t[1]):
                key = "%s.%s" % (d["id"], f)
                e.cells[key] = (ft, ("unset",))
                keys.append(key)
            e.vars[d["id"]] = ("struct", t[1], keys)
            return self.decls(ds[1:], e, k, ctx)
        if t[0] == "ptr" and t[2] == ("int", "TU8"):       # byte pointer local = an offset into the object of a parameter
            if d.get("init") != "c":
                raise Untranslatable("pointer %s declared without initialiser" % d["name"])
            p = self.ptr(d["inner"][0], env)
            if p[0] != "bytes":
                raise Untranslatable("pointer %s initialised with a pointer to a scalar" % d["name"])
            nm = self.fresh("v_", d["name"] + "_off")
            e.vars[d["id"]] = ("ptrvar", p[1], d["id"])
            e.cells[d["id"]] = (PTR, ("val", nm))
            return self.bind(nm, p[2] or "(COk 0)", self.decls(ds[1:], e, k, ctx))
        if t[0] != "int":
            raise Untranslatable("local %s of type %s" % (d["name"], d["type"]["qualType"]))
        e.vars[d["id"]] = ("cell", d["id"])
        e.cells[d["id"]] = (t[1], ("unset",))
        if "init" not in d:
            return self.decls(ds[1:], e, k, ctx)
        if d["init"] != "c" or self.ity(d["inner"][0]) != t[1]:
            raise Untranslatable("initialiser of %s" % d["name"])
        return self.rhs(d["inner"][0], e, lambda e2, r: self.decls(ds[1:], self.set_cell(e2, d["id"], r), k, ctx),
                        ctx, d["name"])

    def switch(self, n, env, k, ctx):
        if n.get("hasInit") or n.get("hasVar") or len(n["inner"]) != 2 or n["inner"][1]["kind"] != "CompoundStmt":
            raise Untranslatable("switch of an unsupported shape")
        cond, body = n["inner"]
        ct = self.ity(cond)
        if self.effectful(cond):
            raise Untranslatable("switch on an expression with effects")
        items = []
        for s in body.get("inner", []):
            labels = []
            while s["kind"] in ("CaseStmt", "DefaultStmt"):
                if s["kind"] == "CaseStmt":
                    if len(s["inner"]) != 2:
                        raise Untranslatable("case range")
                    labels.append(s["inner"][0])
                    s = s["inner"][1]
                else:
                    labels.append(None)
                    s = s["inner"][0]
            items.append((labels, s))
        if items and not items[0][0]:
            raise Untranslatable("statement before the first case label")
        inner = ctx.but(kbreak=k)
        sv = self.fresh("v_", "sw")
        default = None
        arms = []
        for i, (labels, _) in enumerate(items):
            if not labels:
                continue
            code = self.seq([s for (_, s) in items[i:]], env, k, inner)
            tests = []
            for l in labels:
                if l is None:
                    default = code
                else:
                    # 6.8.4.2p5: the constant is converted to the promoted type of the controlling expression
                    tests.append("(c_eq (COk %s) (c_cast %s %s %s))" % (sv, self.ity(l), ct, self.expr(l, env)))
            for t in tests:
                arms.append((t, code))
        out = default if default is not None else k(env)
        for (t, code) in reversed(arms):
            out = "c_cond %s\n%s\n%s" % (t, indent(blk(code)), indent(blk(out)))
        return self.bind(sv, self.expr(cond, env), out)

    # ------------------------------------------------------------ loops
    def loop_state(self, parts, env):
        """the variables and byte objects of the enclosing scope that the loop
        mentions (a superset of what it modifies), in order of appearance"""
        cells, bufs = [], []

        def add(lst, x):
            if x not in lst:
                lst.append(x)

        def walk(n):
            r = n.get("referencedDecl")
            if n.get("kind") == "DeclRefExpr" and r and r.get("id") in env.vars:
                v = env.vars[r["id"]]
                if v[0] in ("struct", "structptr") and v[2]:
                    for key in v[2]:
                        add(cells, key)
                if v[0] in ("cell", "cellptr"):
                    add(cells, v[1])
                elif v[0] == "ptrvar":
                    add(cells, v[2])
                if v[0] in ("bytes", "ptrvar") and not self.buf_const.get(v[1]):
                    add(bufs, v[1])
            for c in n.get("inner", []):
                if isinstance(c, dict):
                    walk(c)
        for p in parts:
            if p:
                walk(p)
        return cells, bufs

    def loop(self, n, env, k, ctx):
        kind, inner = n["kind"], n["inner"]
        if kind == "ForStmt":
            if len(inner) != 5 or inner[1]:
                raise Untranslatable("for with a condition declaration")
            init, cond, inc, body = inner[0], inner[2], inner[3], inner[4]
            if init:
                return self.stmt(init, env, lambda e: self.loop1(None, cond, inc, body, False, e, k, ctx), ctx)
            return self.loop1(None, cond, inc, body, False, env, k, ctx)
        if kind == "WhileStmt":
            if len(inner) != 2:
                raise Untranslatable("while with a declaration")
            return self.loop1(None, inner[0], None, inner[1], False, env, k, ctx)
        return self.loop1(None, inner[1], None, inner[0], True, env, k, ctx)

    def loop1(self, _, cond, inc, body, body_first, env, k, ctx):
        self.fuel = True
        cells, bufs = self.loop_state([cond, inc, body], env)
        opt = [env.cells[c][1][0] != "val" for c in cells]       # carried as option Z: may hold no value

        def names(e):                                            # a fresh name per component, and the env using them
            e2, xs = e.copy(), []
            for c, o in zip(cells, opt):
                nm = self.fresh("p_" if o else "v_", "s")
                e2.cells[c] = (e.cells[c][0], ("opt", nm) if o else ("val", nm))
                xs.append(nm)
            for b in bufs:
                nm = self.fresh("m_", "s")
                e2.bufs[b] = nm
                xs.append(nm)
            return e2, xs

        def pack(e):
            xs = []
            for c, o in zip(cells, opt):
                st = e.cells[c][1]
                if o:
                    xs.append("None" if st[0] == "unset" else "Some %s" % st[1] if st[0] == "val" else st[1])
                elif st[0] != "val":
                    raise Untranslatable("loop variable that may hold no value")
                else:
                    xs.append(st[1])
            return tup(xs + [e.bufs[b] for b in bufs])

        def nxt(e):
            return "COk (LNext %s)" % pack(e)

        def brk(e):
            return "COk (LBreak %s)" % pack(e)

        def ret(e, r):
            if ctx.value is None:
                raise Untranslatable("return inside a loop of an inlined function")
            return "COk (LRet %s)" % ctx.value(e, r)
        lctx = ctx.but(kret=ret, kbreak=brk, wrap=lambda v: "COk (LRet %s)" % v)
        e_in, pat = names(env)

        def after_body(e):
            return self.effect(inc, e, nxt, lctx) if inc else nxt(e)

        def test(e, then):
            if not cond:
                return then(e)
            return self.cond(cond, e, lambda e2, cv: "c_cond %s\n%s\n%s" % (cv, indent(blk(then(e2))), indent(blk(brk(e2)))), lctx)
        if body_first:      # do body while (cond): continue jumps to the test
            def tail(e):
                return test(e, nxt)
            step = self.stmt(body, e_in, tail, lctx.but(kcont=tail))
        else:               # while / for: continue jumps to the increment
            step = test(e_in, lambda e: self.stmt(body, e, after_body, lctx.but(kcont=after_body)))
        e_out, pat2 = names(env)
        l = self.fresh("l_", "")
        fn = "fun %s =>" % ("'" + tup(pat) if len(pat) > 1 else pat[0] if pat else "_")
        return self.bind(l, "c_while (R:=%s) v_fuel\n%s\n%s" % (self.rty if ctx.value else "unit", indent(blk(fn + "\n" + indent(step))),
                                                                 indent(pack(env))),
                         "match %s with\n| LRet r => %s\n| LNext %s | LBreak %s =>\n%s\nend" % (
                             l, ctx.wrap("r") if ctx.value else "CUB UB_no_return", tup(pat2, "_"), tup(pat2, "_"), indent(k(e_out))))

    # ------------------------------------------------------------ calls
    def call(self, n, env, k, ctx):
        """k(env', name of the returned value or None)"""
        f = n["inner"][0]
        while f["kind"] in ("ImplicitCastExpr", "ParenExpr"):
            f = f["inner"][0]
        if f["kind"] != "DeclRefExpr" or f["referencedDecl"]["kind"] != "FunctionDecl":
            raise Untranslatable("indirect call")
        name, args = f["referencedDecl"]["name"], n["inner"][1:]
        if any(self.effectful(a) for a in args):
            raise Untranslatable("argument with effects")
        if name == "memcpy":
            return self.memcpy(args, env, k)
        m = re.match(r"^__builtin_([su])(add|sub|mul)(|l|ll)_overflow$", name)
        if m:
            return self.overflow(m, args, env, k)
        d = self.ast(name)
        if d is None and name in self.imports:
            return self.call_src(name, args, env, k)
        if d is None:
            raise Untranslatable("call to %s, which is not defined in this file" % name)
        if d.get("storageClass") == "static":
            return self.inline(name, d, args, env, k, ctx)
        return self.call_src(name, args, env, k)

    def unvoid(self, n):
        while n["kind"] in ("ImplicitCastExpr", "CStyleCastExpr", "ParenExpr") and \
                (n["kind"] == "ParenExpr" or n["castKind"] in ("BitCast", "NoOp")):
            n = n["inner"][0]
        return n

    def memcpy(self, args, env, k):
        if len(args) != 3:
            raise Untranslatable("memcpy arity")
        d, s = self.ptr(self.unvoid(args[0]), env), self.ptr(self.unvoid(args[1]), env)
        sz = self.strip(args[2])
        if d[0] != "cellptr" or s[0] != "cellptr" or sz["kind"] != "UnaryExprOrTypeTraitExpr" or sz.get("name") != "sizeof":
            raise Untranslatable("memcpy other than (scalar object, scalar object, sizeof)")
        td, ts = env.cells[d[1]][0], env.cells[s[1]][0]
        if td != ts or td == PTR or self.sizeof(sz) * 8 != BITS[td] or d[1] == s[1]:
            raise Untranslatable("memcpy between objects of different types or of another size")
        nm = self.fresh("v_", "cpy")
        return self.bind(nm, self.cell_read(env, s[1]), k(self.set_cell(env, d[1], nm), None))

    def overflow(self, m, args, env, k):
        t = {"s": "TS32", "sl": "TS64", "sll": "TS64", "u": "TU32", "ul": "TU64", "ull": "TU64"}[m.group(1) + m.group(3)]
        op = {"add": "+", "sub": "-", "mul": "*"}[m.group(2)]
        if len(args) != 3 or self.ity(args[0]) != t or self.ity(args[1]) != t:
            raise Untranslatable("overflow builtin with unconverted operands")
        p = self.ptr(args[2], env)
        if p[0] != "cellptr" or env.cells[p[1]][0] != t:
            raise Untranslatable("overflow builtin storing into an object of another type")
        a, b, o, r = self.fresh("v_", "a"), self.fresh("v_", "b"), self.fresh("v_", "ovf"), self.fresh("v_", "res")
        return self.bind(a, self.expr(args[0], env), self.bind(b, self.expr(args[1], env), self.bind(
            "'(%s, %s)" % (o, r), "(COk (c_overflow %s (%s %s %s)))" % (t, a, op, b), k(self.set_cell(env, p[1], r), o))))

    def params(self, d):
        ps = [c for c in d.get("inner", []) if c["kind"] == "ParmVarDecl"]
        if d.get("variadic") or any("name" not in p for p in ps):
            raise Untranslatable("parameter list of %s" % d["name"])
        return ps

    def ret_type(self, d):
        return self.ty(d["type"]["qualType"].split("(", 1)[0].strip())

    def inline(self, name, d, args, env, k, ctx):
        if name in ctx.stack or len(ctx.stack) > 8:
            raise Untranslatable("recursion through %s" % name)
        ps = self.params(d)
        if len(ps) != len(args):
            raise Untranslatable("arity of %s" % name)
        rt = self.ret_type(d)
        binds, e = [], env.copy()
        for p, a in zip(ps, args):
            t = self.ty(p["type"])
            if t[0] == "int":
                if self.ity(a) != t[1]:
                    raise Untranslatable("argument not converted to the parameter type")
                nm = self.fresh("v_", p["name"])
                binds.append((nm, self.expr(a, env)))
                e.vars[p["id"]] = ("cell", p["id"])
                e.cells[p["id"]] = (t[1], ("val", nm))
            elif t[0] == "ptr":
                v = self.ptr(a, env)
                self.check_ptr(v, t, env)
                if v[0] == "bytes" and v[2] is not None:   # evaluated once; the parameter is a pointer variable of the callee
                    nm = self.fresh("v_", p["name"] + "_off")
                    binds.append((nm, v[2]))
                    e.vars[p["id"]] = ("ptrvar", v[1], p["id"])
                    e.cells[p["id"]] = (PTR, ("val", nm))
                else:
                    e.vars[p["id"]] = v
            else:
                raise Untranslatable("parameter type")
        body = [c for c in d["inner"] if c["kind"] == "CompoundStmt"][0]

        def fall(e2):
            return k(e2, None) if rt == ("void",) else "CUB UB_no_return"
        out = self.stmt(body, e, fall, Ctx(lambda e2, r: k(e2, r), None, None, ctx.stack + (name,), None))
        for (nm, t) in reversed(binds):
            out = self.bind(nm, t, out)
        return out

    def check_ptr(self, v, t, env):
        if v[0] == "structptr" or t[2][0] == "struct":
            if v[0] != "structptr" or t[2] != ("struct", v[1]):
                raise Untranslatable("pointer to a struct passed as / where another pointer is expected")
            return
        if v[0] == "bytes":
            if t[2] != ("int", self.elem(v[1])) or self.buf_arr.get(v[1]):
                raise Untranslatable("byte pointer passed as a pointer to another type / local array passed to a function")
            if self.buf_const.get(v[1]) and not t[1]:
                raise Untranslatable("pointer to const passed as a pointer to non-const")
        elif t[2] != ("int", env.cells[v[1]][0]):
            raise Untranslatable("pointer to an object passed as a pointer to another type")

    def call_src(self, name, args, env, k):
        if name in self.imports:
            sig = self.imports[name][1]
        else:
            self.function(name)
            info = self.done[name]
            if "error" in info:
                raise Untranslatable("calls %s, which is not translated" % name)
            sig = info["sig"]
        if len(sig["params"]) != len(args):
            raise Untranslatable("arity of %s" % name)
        binds, actual, outs, seen, splices, structs_back, e = [], [], [], set(), [], [], env.copy()
        if sig["fuel"]:
            self.fuel = True
            actual.append("v_fuel")
        for (pk, pt, pconst, _), a in zip(sig["params"], args):
            if pk == "int":
                if self.ity(a) != pt:
                    raise Untranslatable("argument not converted to the parameter type")
                nm = self.fresh("v_", "arg")
                binds.append((nm, self.expr(a, env)))
                actual.append(nm)
                continue
            v = self.ptr(a, env)
            if pk == "struct":
                self.check_ptr(v, ("ptr", pconst, ("struct", pt)), env)
                if v[2] is None:
                    actual.append("None")
                    if not pconst:
                        outs.append("_")
                    continue
                if tuple(v[2]) in seen:
                    raise Untranslatable("two pointer arguments to the same object")
                seen.add(tuple(v[2]))
                fs = []
                for key in v[2]:
                    st = env.cells[key][1]
                    fs.append("None" if st[0] == "unset" else "Some %s" % st[1] if st[0] == "val" else st[1])
                actual.append("(Some (%s))" % ", ".join(fs))
                if not pconst:
                    back = self.fresh("s_", "")
                    outs.append(back)
                    structs_back.append((v[2], back))
                continue
            self.check_ptr(v, ("ptr", pconst, ("int", pt)), env)
            if (pk == "cell") != (v[0] == "cellptr"):
                raise Untranslatable("array passed where one object is expected, or the reverse")
            if v[1] in seen:
                raise Untranslatable("two pointer arguments to the same object")
            seen.add(v[1])
            if v[0] == "bytes" and v[2] is not None:      # p + k: the callee sees the object from index k on
                off, view = self.fresh("v_", "off"), self.fresh("m_", "view")
                binds.append((off, v[2]))
                if v[1] in self.buf_z:
                    raise Untranslatable("offset pointer into an array of scalars passed to a function")
                binds.append((view, "(c_view %s (COk %s))" % (env.bufs[v[1]], off)))
                actual.append(view)
                if not pconst:
                    back = self.fresh("m_", "view")
                    outs.append(back)
                    splices.append((v[1], off, back))
            elif v[0] == "bytes":
                actual.append(env.bufs[v[1]])
                if not pconst:
                    nm = self.fresh("a_" if v[1] in self.buf_z else "m_", "")
                    e.bufs[v[1]] = nm
                    outs.append(nm)
            else:
                st = env.cells[v[1]][1]
                actual.append({"val": "(Some %s)", "opt": "%s"}[st[0]] % st[1] if st[0] != "unset" else "None")
                if not pconst:
                    nm = self.fresh("p_", "")
                    e.cells[v[1]] = (env.cells[v[1]][0], ("opt", nm))
                    outs.append(nm)
        r = None
        if sig["ret"] is not None:
            r = self.fresh("v_", "ret")
            outs.insert(0, r)
        pat = "_" if not outs else outs[0] if len(outs) == 1 else "'(%s)" % ", ".join(outs)
        for (key, off, back) in splices:
            e.bufs[key] = self.fresh("m_", "")
        pats = []
        for (keys, back) in structs_back:          # a callee given a struct hands a struct back
            ns = [self.fresh("p_", "f") for _ in keys]
            for key, nm in zip(keys, ns):
                e.cells[key] = (env.cells[key][0], ("opt", nm))
            pats.append((back, ns))
        rest = k(e, r)
        for (back, ns) in reversed(pats):
            rest = "match %s with\n| Some (%s) =>\n%s\n| None => CUB UB_null_deref\nend" % (back, ", ".join(ns), indent(rest))
        for (key, off, back) in reversed(splices):
            rest = self.bind(e.bufs[key], "(c_unview %s (COk %s) %s)" % (env.bufs[key], off, back), rest)
        out = self.bind(pat, "src_%s %s" % (name, " ".join(actual)), rest)
        for (nm, t) in reversed(binds):
            out = self.bind(nm, t, out)
        return out

    # ------------------------------------------------------------ functions
    def function(self, fn):
        if fn in self.done:
            return
        if fn in self.active:
            raise Untranslatable("recursion through %s" % fn)
        saved = (self.n, self.fuel, self.rty, self.buf_const, self.buf_arr, self.buf_z)
        self.n, self.fuel, self.buf_const, self.buf_arr, self.buf_z = 0, False, {}, {}, {}
        self.active.append(fn)
        try:
            d = self.ast(fn)
            if d is None:
                raise Untranslatable("no definition of %s in this file" % fn)
            self.scan_globals(fn, d)
            self.done[fn] = self.function1(fn, d)
        except Untranslatable as e:
            self.done[fn] = {"error": str(e)}
        self.active.pop()
        self.order.append(fn)
        self.n, self.fuel, self.rty, self.buf_const, self.buf_arr, self.buf_z = saved

    def scan_globals(self, fn, d):
        """non-const variables with static storage duration the function refers to"""
        local = set()

        def decls(n):
            if n.get("kind") in ("VarDecl", "ParmVarDecl"):
                if n.get("storageClass") in ("static", "extern") or n.get("tls"):
                    self.note_global("%s:%s (%s local)" % (fn, n.get("name"), n.get("storageClass")))
                else:
                    local.add(n["id"])
            for c in n.get("inner", []):
                if isinstance(c, dict):
                    decls(c)

        def refs(n):
            r = n.get("referencedDecl")
            if n.get("kind") == "DeclRefExpr" and r and r.get("kind") in ("VarDecl", "ParmVarDecl") and r["id"] not in local \
                    and not re.match(r"^const\b", r.get("type", {}).get("qualType", "")):
                self.note_global("%s:%s" % (fn, r.get("name")))
            for c in n.get("inner", []):
                if isinstance(c, dict):
                    refs(c)
        decls(d)
        refs(d)
        self.locals = local

    def note_global(self, s):
        if s not in self.globals_read:
            self.globals_read.append(s)

    def indexed(self, d):
        """ids of the pointer parameters / variables that the function subscripts or does arithmetic on"""
        out = set()

        def base(n):
            while n.get("kind") in ("ParenExpr", "ImplicitCastExpr", "CStyleCastExpr"):
                n = n["inner"][0]
            if n.get("kind") == "DeclRefExpr":
                out.add(n["referencedDecl"]["id"])

        def walk(n):
            k = n.get("kind")
            if k == "ArraySubscriptExpr" or (k == "BinaryOperator" and n["opcode"] in ("+", "-") and self.is_ptr_safe(n)):
                for c in n["inner"]:
                    if self.is_ptr_safe(c):
                        base(c)
            if k == "CallExpr":                      # passed on to a parameter that the callee uses as an array
                f = n["inner"][0]
                while f.get("kind") in ("ImplicitCastExpr", "ParenExpr"):
                    f = f["inner"][0]
                name = f.get("referencedDecl", {}).get("name")
                sig = None
                if name in self.imports:
                    sig = self.imports[name][1]
                elif name and name != d.get("name") and name not in self.active[:-1] and self.ast_safe(name) is not None \
                        and self.ast_safe(name).get("storageClass") != "static":
                    self.function(name)
                    sig = self.done[name].get("sig")
                if sig:
                    for (pk, _, _, _), a in zip(sig["params"], n["inner"][1:]):
                        if pk == "zarr":
                            base(a)
            for c in n.get("inner", []):
                if isinstance(c, dict):
                    walk(c)
        walk(d)
        return out

    def ast_safe(self, name):
        try:
            return self.ast(name)
        except (Untranslatable, RuntimeError):
            return None

    def is_ptr_safe(self, n):
        try:
            return "type" in n and self.is_ptr(n)
        except Untranslatable:
            return False

    def signature(self, d):
        """Coq parameters, result components and initial environment from the prototype"""
        ps, rt = self.params(d), self.ret_type(d)
        moved = set(self.modified(d))                   # parameters the body itself advances (p++, p += n, p = p + 1)
        indexed = self.indexed(d)                       # `T *` parameters used as arrays
        if rt[0] == "ptr":
            raise Untranslatable("pointer return type")
        env, coq_params, sig_params, outs, nullable = Env(), [], [], [], []
        for p in ps:
            t = self.ty(p["type"])
            if t[0] == "int":
                nm = "v_" + p["name"]
                env.vars[p["id"]] = ("cell", p["id"])
                env.cells[p["id"]] = (t[1], ("val", nm))
                coq_params.append("(%s : Z)" % nm)
                sig_params.append(("int", t[1], False, p["name"]))
            elif t[0] == "ptr" and t[2] == ("int", "TU8"):
                nm = "m_" + p["name"]
                # the parameter itself is a pointer variable (it may be advanced): its offset starts at 0
                env.vars[p["id"]] = ("bytes", p["id"], None)
                if p["id"] in moved:
                    env.vars[p["id"]] = ("ptrvar", p["id"], p["id"] + "#off")
                    env.cells[p["id"] + "#off"] = (PTR, ("val", "0"))
                env.bufs[p["id"]] = nm
                self.buf_const[p["id"]] = t[1]
                coq_params.append("(%s : list N)" % nm)
                sig_params.append(("bytes", "TU8", t[1], p["name"]))
                if not t[1]:
                    outs.append(("bytes", p["id"]))
            elif t[0] == "ptr" and t[2][0] == "int" and p["id"] in indexed:
                nm = "a_" + p["name"]
                env.vars[p["id"]] = ("bytes", p["id"], None)
                env.bufs[p["id"]] = nm
                self.buf_const[p["id"]] = t[1]
                self.buf_z[p["id"]] = t[2][1]
                coq_params.append("(%s : list Z)" % nm)
                sig_params.append(("zarr", t[2][1], t[1], p["name"]))
                if not t[1]:
                    outs.append(("zarr", p["id"]))
            elif t[0] == "ptr" and t[2][0] == "int":
                nm = "p_" + p["name"]
                key = "*" + p["id"]
                env.vars[p["id"]] = ("cellptr", key)
                env.cells[key] = (t[2][1], ("opt", nm))
                coq_params.append("(%s : option Z)" % nm)
                sig_params.append(("cell", t[2][1], t[1], p["name"]))
                if not t[1]:
                    outs.append(("cell", key))
            elif t[0] == "ptr" and t[2][0] == "struct":
                nm = "s_" + p["name"]
                fs = self.struct(t[2][1])
                keys = ["%s.%s" % (p["id"], f) for (f, _) in fs]
                for key, (f, ft) in zip(keys, fs):
                    env.cells[key] = (ft, ("opt", "p_%s_%s" % (p["name"], f)))
                env.vars[p["id"]] = ("structptr", t[2][1], keys)
                coq_params.append("(%s : option (%s))" % (nm, " * ".join("option Z" for _ in fs)))
                sig_params.append(("struct", t[2][1], t[1], p["name"]))
                nullable.append((p["id"], nm, ["p_%s_%s" % (p["name"], f) for (f, _) in fs]))
                if not t[1]:
                    outs.append(("struct", p["id"]))
            else:
                raise Untranslatable("parameter %s of type %s" % (p["name"], p["type"]["qualType"]))
        self.nullable = nullable
        def comp(o):
            if o[0] == "struct":
                return "option (%s)" % " * ".join("option Z" for _ in env.vars[o[1]][2])
            return {"bytes": "list N", "zarr": "list Z"}.get(o[0], "option Z")
        comps = (["Z"] if rt != ("void",) else []) + [comp(o) for o in outs]
        return env, coq_params, sig_params, outs, rt, " * ".join(comps) if comps else "unit"

    def function1(self, fn, d):
        env, coq_params, sig_params, outs, rt, rty = self.signature(d)
        self.rty = "(%s)" % rty

        def value(e, r):
            if (r is None) != (rt == ("void",)):
                raise Untranslatable("return with/without a value")
            xs = [r] if r is not None else []
            for (kind, key) in outs:
                if kind in ("bytes", "zarr"):
                    xs.append(e.bufs[key])
                elif kind == "struct":
                    v = e.vars[key]
                    if v[2] is None:
                        xs.append("None")
                    else:
                        fs = []
                        for ck in v[2]:
                            st = e.cells[ck][1]
                            fs.append("None" if st[0] == "unset" else "Some %s" % st[1] if st[0] == "val" else st[1])
                        xs.append("(Some (%s))" % ", ".join(fs))
                else:
                    st = e.cells[key][1]
                    xs.append("None" if st[0] == "unset" else "Some %s" % st[1] if st[0] == "val" else st[1])
            return "(%s)" % ", ".join(xs) if xs else "tt"

        def result(e, r):
            return "COk " + value(e, r)

        def fall(e):
            return result(e, None) if rt == ("void",) else "CUB UB_no_return"
        body = [c for c in d["inner"] if c["kind"] == "CompoundStmt"][0]

        def entry(e, todo):
            """a struct pointer parameter may be NULL: the body is rendered once for each case"""
            if not todo:
                return self.stmt(body, e, fall, Ctx(result, None, None, (fn,), value))
            (pid, nm, fields), rest = todo[0], todo[1:]
            e_null = e.copy()
            e_null.vars[pid] = ("structptr", e.vars[pid][1], None)
            return "match %s with\n| Some (%s) =>\n%s\n| None =>\n%s\nend" % (
                nm, ", ".join(fields), indent(entry(e, rest)), indent(entry(e_null, rest)))
        code = entry(env, self.nullable)
        if self.fuel:
            coq_params.insert(0, "(v_fuel : nat)")
        head = "Definition src_%s %s : cres (%s) :=" % (fn, " ".join(coq_params), rty)
        run = "Definition srcrun_%s %s : option (cres (%s)) := Some (src_%s %s)." % (
            fn, " ".join(coq_params), rty, fn, " ".join(re.findall(r"\((\w+) :", " ".join(coq_params))))
        return {"text": head + "\n" + indent(code) + ".\n" + run + "\n",
                "sig": {"params": sig_params, "ret": None if rt == ("void",) else rt[1], "fuel": self.fuel},
                "static": d.get("storageClass") == "static"}

    def has_loop(self, fn, seen=()):
        d = self.ast(fn)

        def walk(n):
            if n.get("kind") in ("ForStmt", "WhileStmt") or (n.get("kind") == "DoStmt" and not (
                    n["inner"][1].get("kind") == "IntegerLiteral" and int(n["inner"][1]["value"]) == 0)):
                return True
            r = n.get("referencedDecl")
            if n.get("kind") == "DeclRefExpr" and r and r.get("kind") == "FunctionDecl" and r["name"] not in seen + (fn,):
                try:
                    if self.ast(r["name"]) is not None and self.has_loop(r["name"], seen + (fn,)):
                        return True
                except (Untranslatable, RuntimeError):
                    pass
            return any(walk(c) for c in n.get("inner", []) if isinstance(c, dict))
        return bool(d) and walk(d)

    def untranslated_text(self, fn, why):
        """a definition that cannot be mistaken for a translation (and, when the
        prototype is still understood, a runner that says so)"""
        txt = "(* %s: NOT TRANSLATED — %s *)\nDefinition src_%s_UNTRANSLATED : unit := tt.\n" % (
            fn, why.replace("*)", "* )"), fn)
        try:
            _, cp, _, _, _, rty = self.signature(self.ast(fn))
            if self.has_loop(fn):
                cp.insert(0, "(v_fuel : nat)")
            txt += "Definition srcrun_%s %s : option (cres (%s)) := None.\n" % (fn, " ".join(cp), rty)
        except (Untranslatable, TypeError, KeyError):
            pass
        return txt


SIGS = {}    # module -> {function: signature}, filled as the files are translated


def translate_file(repo, cfile, functions, module, outdir, wrappers="", imports=()):
    """Write <outdir>/Src_<module>.v; return the entry for the generated-facts block.
    `wrappers`: C text of tiny functions q_<macro>(…) { <macro>(…); } through which
    function-like macros of the header are translated after expansion; it is
    appended to a temporary file that #includes the C file."""
    tmp = None
    if wrappers:
        tmp = tempfile.TemporaryDirectory(prefix="c2coq-")
        path = os.path.join(tmp.name, "wrap_" + cfile)
        open(path, "w").write('#include "%s"\n%s' % (os.path.join(repo, "src", cfile), wrappers))
        tr = Translator(repo, path)
        functions = functions + re.findall(r"\b(q_\w+)\s*\(", wrappers)
    else:
        tr = Translator(repo, cfile)
    for m in imports:
        for fn, sig in SIGS.get(m, {}).items():
            tr.imports[fn] = (m, sig)
    for fn in functions:
        tr.function(fn)
    SIGS[module] = {fn: tr.done[fn]["sig"] for fn in tr.order if "sig" in tr.done[fn]}
    lines = ["(* generated by gen/c2coq.py from src/%s — do not edit.  One definition src_<f> per" % cfile,
             "   translated C function (CSem.v gives the meaning of every c_* operation); a function the",
             "   translator does not fully understand appears as src_<f>_UNTRANSLATED instead. *)",
             "Require Import VV.Base VV.CSem.", "From Coq Require Import String."] + [
                 "Require Import VVgen.Src_%s." % m for m in imports] + [
             "Local Open Scope Z_scope.", "Local Open Scope csem_scope.", ""]
    ok, bad = [], {}
    for fn in tr.order:
        info = tr.done[fn]
        if "error" in info:
            bad[fn] = info["error"]
            lines.append(tr.untranslated_text(fn, info["error"]))
        elif info["static"] and fn not in functions:
            continue
        else:
            ok.append(fn)
            lines.append(info["text"])
    if tmp:
        tmp.cleanup()
    lines += ["(* non-const variables with static storage duration referred to by the functions above *)",
              "Definition src_%s_globals_read : list string :=" % module,
              "  [" + "; ".join('"%s"' % g for g in tr.globals_read) + "]%string.", "",
              "Definition src_%s_translated : list string :=" % module,
              "  [" + "; ".join('"%s"' % f for f in ok) + "]%string.", ""]
    text = "\n".join(lines)
    path = os.path.join(outdir, "Src_%s.v" % module)
    old = open(path).read() if os.path.exists(path) else None
    if old != text:
        os.makedirs(outdir, exist_ok=True)
        open(path, "w").write(text)
    return {"Src_%s.v" % module: {"source": "src/" + cfile, "translated": ok, "untranslated": bad,
                                  "globals_read": tr.globals_read, "changed": old != text}}


TAGGED_FUNCTIONS = ["varintTaggedLen", "varintTaggedGetLen", "varintTaggedPut64", "varintTaggedPut64FixedWidth",
                    "varintTaggedGet", "varintTaggedGet64", "varintTaggedGet64ReturnValue", "varintTaggedGetVarint32",
                    "varintTaggedPutVarint32", "varintTaggedAddNoGrow", "varintTaggedAddGrow"]
# the function-like macros of varintTagged.h, reachable only after expansion
TAGGED_WRAPPERS = """
#include "varintTagged.h"
varintWidth q_varintTaggedLenQuick(uint64_t v) { return varintTaggedLenQuick(v); }
varintWidth q_varintTaggedGetLenQuick_(const uint8_t *z) { return varintTaggedGetLenQuick_(z); }
void q_varintTaggedPut64FixedWidthQuick_(uint8_t *dst, uint64_t val, varintWidth encoding) {
    varintTaggedPut64FixedWidthQuick_(dst, val, encoding);
}
uint64_t q_varintTaggedGet64Quick_(const uint8_t *src) { return varintTaggedGet64Quick_(src); }
"""
CSIMPLE_FUNCTIONS = ["varintChainedSimpleEncode64", "varintChainedSimpleLength", "varintChainedSimpleDecode64",
                     "varintChainedSimpleEncode32", "varintChainedSimpleDecode32Fallback", "varintChainedSimpleDecode32"]


CHAINED_FUNCTIONS = ["varintChainedPutVarint", "varintChainedGetVarint", "varintChainedGetVarint32",
                     "varintChainedVarintLen"]
CHAINED_WRAPPERS = """
#include "varintChained.h"
uint8_t q_varintChained_getVarint32(const uint8_t *A, uint32_t *B) { return varintChained_getVarint32(A, *B); }
uint8_t q_varintChained_putVarint32(uint8_t *A, uint32_t B) { return varintChained_putVarint32(A, B); }
"""


RLE_FUNCTIONS = ["varintRLEDecodeRun", "varintRLEDecode", "varintRLEDecodeWithHeader", "varintRLEGetAt",
                 "varintRLEGetCount", "varintRLEGetRunCount", "varintRLEAnalyze", "varintRLESize",
                 "varintRLEIsBeneficial", "varintRLEEncode", "varintRLEEncodeWithHeader"]


def regenerate(repo, outdir):
    info = translate_file(repo, "varintTagged.c", TAGGED_FUNCTIONS, "tagged", outdir, TAGGED_WRAPPERS)
    info.update(translate_file(repo, "varintChainedSimple.c", CSIMPLE_FUNCTIONS, "csimple", outdir))
    info.update(translate_file(repo, "varintChained.c", CHAINED_FUNCTIONS, "chained", outdir, CHAINED_WRAPPERS))
    info.update(translate_file(repo, "varintRLE.c", RLE_FUNCTIONS, "rle", outdir, imports=("tagged",)))
    return info


if __name__ == "__main__":
    import sys
    print(json.dumps(regenerate(sys.argv[1], sys.argv[2]), indent=1))
