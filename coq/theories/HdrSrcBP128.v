(* HdrSrcBP128.v — the header accessor of src/varintBP128.c, varintBP128GetCount, as
   gen/c2coq.py regenerates it from the CURRENT source (coq/gen/Src_hdr_bp128.v,
   registered in gen/c2coq_hdr.py; it calls the regenerated varintTaggedGet64 of
   coq/gen/Src_tagged.v): it computes what the hand model (BP128.v: get_count)
   computes for every byte list that holds the leading tagged varint (whose length,
   1..9 bytes, is decoded from its first byte) — whatever srcBytes says, which the C
   ignores — and the C16 statement (BP128Proofs64.get_count_encode64) restated about it. *)
Require Import VV.Base VV.BaseProofs VV.Tagged VV.TaggedProofs VV.TaggedSpecProofs VV.FORProofs.
Require Import VV.BP128 VV.BP128Lemmas VV.BP128Proofs64.
Require Import VV.CSem VV.CSemProofs VV.TaggedSrcGet VV.TaggedSrcPropsPut VV.RleSrcProofs.
Require Import VVgen.Src_tagged VVgen.Src_hdr_bp128.
From Coq Require Import Lia ZifyBool ZifyN ZifyNat.
Local Open Scope Z_scope.
Ltac Zify.zify_post_hook ::= Z.div_mod_to_equations.

Lemma src_varintBP128GetCount_is_model : forall z srcBytes, bytes_ok z ->
  Z.of_N (tagged_getlen z) <= Z.of_nat (length z) ->
  src_varintBP128GetCount z srcBytes = COk (Z.of_N (get_count z)).
Proof.
  intros z sb Hz H1. destruct (get64_complete z Hz H1) as (E1 & F1 & G1).
  unfold src_varintBP128GetCount, get_count. c_unfold. c_simp. rewrite E1. c_simp.
  repeat c_step. c_simp. reflexivity.
Qed.

(* C16 get_count on the layout it is documented for (varintBP128Encode64), followed by any bytes *)
Theorem src_bp128_get_count_encode64 : forall vs tl srcBytes,
  vs <> [] -> (N.of_nat (length vs) < 2 ^ 64)%N -> bytes_ok tl ->
  src_varintBP128GetCount (encode64 vs ++ tl) srcBytes = COk (Z.of_nat (length vs)).
Proof.
  intros vs tl sb Hne Hn Htl.
  assert (Hn' : (N.of_nat (length vs) < 18446744073709551616)%N) by exact Hn.
  rewrite src_varintBP128GetCount_is_model.
  - rewrite get_count_encode64 by assumption. rewrite nat_N_Z. reflexivity.
  - rewrite encode64_blocks by exact Hne.
    repeat apply bytes_ok_app; [apply bytes_ok_tagged_put64|apply bytes_ok_blocks|exact Htl].
  - rewrite encode64_blocks by exact Hne. rewrite <- app_assoc.
    rewrite tagged_getlen_put by exact Hn'. rewrite app_length, tagged_put_len_nat. lia.
Qed.
